(* Pinned statements for C07: compiled on every check run. A statement weakened in Props/ fails here. *)
From Coq Require Import String.
From TS Require Import Model.Str Model.Outcome Model.Unicode Model.Syntax Model.Attrs Model.Rename Model.Types Model.Parse.
From TS Require Import Model.MultiFile Model.Lang.Common Model.Lang.Kotlin Model.Lang.Swift Model.Lang.Scala Model.Lang.Go.
From TS Require Import Spec.TargetOsRule Spec.C03Spec Spec.C07Spec.
From TS Require Import Model.Reconcile Model.Collect Model.TopsortAlgo Model.Topsort Model.Lang.TypeScript Model.Lang.Python Spec.C07BackSpec.
From TS Require Proofs.FrontItems Proofs.C07 Proofs.C07Back.
From TS Require Proofs.GoAcronyms Proofs.C07Topsort Proofs.C07Front Proofs.C07TypeScript Proofs.C07Kotlin Proofs.C07Scala Proofs.C07Swift
                Proofs.C07Python Proofs.C07Go Proofs.C07GoAscii Proofs.C07Pipeline.
From TS Require Model.Writer.
From TS Require Import Spec.C07MultiSpec.
From TS Require Proofs.C07Multi.
From TS Require Props.C07.

Goal forall t : ty, is_panic (parse_ty t) = false.
Proof. exact Props.C07.C07_type_parser_never_panics. Qed.
Print Assumptions Props.C07.C07_type_parser_never_panics.
Goal forall t : ty, ty_complete t = false -> exists e, parse_ty t = Err e.
Proof. exact Props.C07.C07_incomplete_type_is_error. Qed.
Print Assumptions Props.C07.C07_incomplete_type_is_error.
Goal forall (uc : unicode) (rule : option str) (ident : str),
    is_panic (rename_all_to_case uc ident rule) = false.
Proof. exact Props.C07.C07_rename_never_panics. Qed.
Print Assumptions Props.C07.C07_rename_never_panics.
Goal forall s : str,
    to_camel_case s = Ok (match to_pascal_case s with [] => [] | c :: r => alower c :: r end).
Proof. exact Props.C07.C07_camel_case_value. Qed.
Print Assumptions Props.C07.C07_camel_case_value.
Goal forall (uc : unicode) (attrs : list attr), is_panic (get_field_decorators uc attrs) = false.
Proof. exact Props.C07.C07_decorators_never_panic. Qed.
Print Assumptions Props.C07.C07_decorators_never_panic.
Goal forall (uc : unicode) (tstr : str -> option ty) (T : list str) (it : item),
    Proofs.C07.is_leaf_item it = true ->
    is_panic (Proofs.FrontItems.parse_leaf uc tstr T it) = false.
Proof. exact Props.C07.C07_leaf_never_panics. Qed.
Print Assumptions Props.C07.C07_leaf_never_panics.
Goal forall (uc : unicode) (tstr : str -> option ty) (T : list str) (f : file),
    is_panic (parse_file uc tstr T f) = false.
Proof. exact Props.C07.C07_front_end_never_panics_partial. Qed.
Print Assumptions Props.C07.C07_front_end_never_panics_partial.
Goal forall (uc : unicode) (tstr : str -> option ty) (T : list str) (f : file),
    exists r, parse_file uc tstr T f = Ok r.
Proof. exact Props.C07.C07_front_end_total_partial. Qed.
Print Assumptions Props.C07.C07_front_end_total_partial.
Goal forall (uc : unicode) (tstr : str -> option ty) (T : list str),
    (forall attrs, is_skipped T attrs = skipped7 T attrs) ->
  forall it : item,
    Proofs.C07.is_leaf_item it = true -> leaf_complete uc tstr T it = false ->
    exists e, Proofs.FrontItems.parse_leaf uc tstr T it = Err e.
Proof. exact Props.C07.C07_incomplete_leaf_is_error. Qed.
Print Assumptions Props.C07.C07_incomplete_leaf_is_error.
Goal forall (uc : unicode) (tstr : str -> option ty) (it : item),
    Proofs.C07.is_leaf_item it = true -> leaf_complete uc tstr [] it = false ->
    exists e, Proofs.FrontItems.parse_leaf uc tstr [] it = Err e.
Proof. exact Props.C07.C07_incomplete_leaf_is_error_no_target. Qed.
Print Assumptions Props.C07.C07_incomplete_leaf_is_error_no_target.
Goal forall (uc : unicode) (tstr : str -> option ty) (T : list str),
    (forall attrs, accepts T attrs = os_rule attrs T) ->
  forall f : file,
    exists r, parse_file uc tstr T f = Ok r /\
              (front_incomplete_leaves uc tstr T f <=
               match r with Some pd => List.length (p_errors pd) | None => 0 end)%nat.
Proof. exact Props.C07.C07_incomplete_file_is_diagnosed. Qed.
Print Assumptions Props.C07.C07_incomplete_file_is_diagnosed.
Goal forall (T : list str) (attrs : list attr), cfg_parsable attrs = true -> accepts T attrs = os_rule attrs T.
Proof. exact Props.C07.C07_target_os_hypothesis_when_cfg_parses. Qed.
Print Assumptions Props.C07.C07_target_os_hypothesis_when_cfg_parses.
Goal forall (uc : unicode) (tstr : str -> option ty) (f : file),
    exists r, parse_file uc tstr [] f = Ok r /\
              (front_incomplete_leaves uc tstr [] f <=
               match r with Some pd => List.length (p_errors pd) | None => 0 end)%nat.
Proof. exact Props.C07.C07_incomplete_file_is_diagnosed_no_target. Qed.
Print Assumptions Props.C07.C07_incomplete_file_is_diagnosed_no_target.
Goal forall (uc : unicode) (tstr : str -> option ty) (T : list str),
    (forall attrs, accepts T attrs = os_rule attrs T) ->
  forall (l : list item) (pd pd' : parsed),
    visit_items uc tstr T l pd = Ok pd' ->
    Proofs.FrontItems.count_items pd' =
    (Proofs.FrontItems.count_items pd + List.length (filter (expected_leaf T) (leaves_of l)))%nat.
Proof. exact Props.C07.C07_every_expected_item_accounted. Qed.
Print Assumptions Props.C07.C07_every_expected_item_accounted.
Goal Proofs.C07.diagnosed (IStruct [Proofs.C07.a_ts] (lit "S") [] (FUnnamed [])) (EUnsupportedTypeP (lit "S()")).
Proof. exact Props.C07.C07_parser_287_fixed. Qed.
Print Assumptions Props.C07.C07_parser_287_fixed.
Goal Proofs.C07.diagnosed (IEnum [Proofs.C07.a_ts; Proofs.C07.a_tagc] (lit "E") []
                          [{| v_attrs := []; v_ident := lit "V"; v_fields := FUnnamed [] |}]) (EUnsupportedTypeP (lit "V()")).
Proof. exact Props.C07.C07_parser_445_fixed. Qed.
Print Assumptions Props.C07.C07_parser_445_fixed.
Goal get_field_decorators uc_exec [Proofs.C07.a_foo_bar] = Ok [] /\
  is_ok (Proofs.FrontItems.parse_leaf uc_exec Proofs.C07.no_tstr []
           (Proofs.C07.st1 [] (Proofs.C07.fld [Proofs.C07.a_foo_bar] (lit "a") Proofs.C07.t_u8))) = true /\
  Proofs.FrontItems.parse_leaf uc_exec Proofs.C07.no_tstr [] (Proofs.C07.st1 [] (Proofs.C07.fld [Proofs.C07.a_foo_bar] (lit "a") Proofs.C07.t_u8)) =
  Proofs.FrontItems.parse_leaf uc_exec Proofs.C07.no_tstr [] (Proofs.C07.st1 [] (Proofs.C07.fld [] (lit "a") Proofs.C07.t_u8)).
Proof. exact Props.C07.C07_parser_737_fixed. Qed.
Print Assumptions Props.C07.C07_parser_737_fixed.
Goal Proofs.C07.diagnosed (Proofs.C07.st1 [] (Proofs.C07.fld [] (lit "a") (TPath [] (lit "Vec") []))) (EUnsupportedType [lit "Vec"]).
Proof. exact Props.C07.C07_rust_types_366_fixed. Qed.
Print Assumptions Props.C07.C07_rust_types_366_fixed.
Goal Proofs.C07.diagnosed (Proofs.C07.st1 [] (Proofs.C07.fld [] (lit "a") (TPath [] (lit "Option") []))) (EUnsupportedType [lit "Option"]).
Proof. exact Props.C07.C07_rust_types_369_fixed. Qed.
Print Assumptions Props.C07.C07_rust_types_369_fixed.
Goal Proofs.C07.diagnosed (Proofs.C07.st1 [] (Proofs.C07.fld [] (lit "a") (TPath [] (lit "HashMap") []))) (EUnsupportedType [lit "HashMap"]).
Proof. exact Props.C07.C07_rust_types_374_fixed. Qed.
Print Assumptions Props.C07.C07_rust_types_374_fixed.
Goal Proofs.C07.diagnosed (Proofs.C07.st1 [] (Proofs.C07.fld [] (lit "a") (TPath [] (lit "HashMap") [Some (TPath [] (lit "String") [])])))
                       (EUnsupportedType [lit "HashMap"]).
Proof. exact Props.C07.C07_rust_types_375_fixed. Qed.
Print Assumptions Props.C07.C07_rust_types_375_fixed.
Goal Proofs.C07.diagnosed (Proofs.C07.st1 [] (Proofs.C07.fld [] (lit "a") (TPath [] (lit "Cow") [None]))) (EUnsupportedType [lit "Cow"]).
Proof. exact Props.C07.C07_rust_types_383_fixed. Qed.
Print Assumptions Props.C07.C07_rust_types_383_fixed.
Goal Proofs.C07.field_names_of (Proofs.FrontItems.parse_leaf uc_exec Proofs.C07.no_tstr []
     (Proofs.C07.st1 [Proofs.C07.a_camel] (Proofs.C07.fld [] (lit "__") Proofs.C07.t_u8))) = Some [[]].
Proof. exact Props.C07.C07_rename_22_underscores_fixed. Qed.
Print Assumptions Props.C07.C07_rename_22_underscores_fixed.
Goal Proofs.C07.field_names_of (Proofs.FrontItems.parse_leaf uc_exec Proofs.C07.no_tstr []
     (Proofs.C07.st1 [Proofs.C07.a_camel] (Proofs.C07.fld [] (233%N :: lit "toile") Proofs.C07.t_u8))) = Some [233%N :: lit "toile"] /\
  Proofs.C07.field_names_of (Proofs.FrontItems.parse_leaf uc_exec Proofs.C07.no_tstr []
     (Proofs.C07.st1 [Proofs.C07.a_camel] (Proofs.C07.fld [] (201%N :: lit "toile_du_nord") Proofs.C07.t_u8))) = Some [201%N :: lit "toileDuNord"].
Proof. exact Props.C07.C07_rename_22_nonascii_fixed. Qed.
Print Assumptions Props.C07.C07_rename_22_nonascii_fixed.
Goal forall (uc : unicode) (own : str) (t : use_tree), exists found, parse_import uc own t = Ok found.
Proof. exact Props.C07.C07_use_import_total. Qed.
Print Assumptions Props.C07.C07_use_import_total.
Goal forall (uc : unicode) (tstr : str -> option ty) (T : list str) (own : str) (ign : list str)
         (ho_file : list imported -> list imported) (f : file),
    exists r, parse_file_multi uc tstr T own ign ho_file f = Ok r.
Proof. exact Props.C07.C07_multi_file_front_end_total_partial. Qed.
Print Assumptions Props.C07.C07_multi_file_front_end_total_partial.
Goal forall (uc : unicode) (T ign : list str) (ho_file : list imported -> list imported) (ws : list ws_entry),
    exists arrivals, parse_workspace uc T ign ho_file ws = Ok arrivals.
Proof. exact Props.C07.C07_workspace_parse_total. Qed.
Print Assumptions Props.C07.C07_workspace_parse_total.
Goal parse_import uc_exec Proofs.C07Back.w_own (UName (lit "foo")) = Ok [] /\
  parse_import uc_exec Proofs.C07Back.w_own (UGroup [UName (lit "a"); UName (lit "b")]) = Ok [] /\
  parse_import uc_exec Proofs.C07Back.w_own UGlob = Ok [] /\
  parse_import uc_exec Proofs.C07Back.w_own (UGroup [UGroup [UName (lit "Foo")]; UGlob; URename (lit "a") (lit "b")]) = Ok [].
Proof. exact Props.C07.C07_visitors_401_fixed. Qed.
Print Assumptions Props.C07.C07_visitors_401_fixed.
Goal parse_import uc_exec Proofs.C07Back.w_own (UGroup [UPath (lit "a") (UName (lit "B")); UName (lit "c")]) = Ok [Proofs.C07Back.w_imp "a" "B"] /\
  parse_import uc_exec Proofs.C07Back.w_own (UPath (lit "other_crate") (UGroup [UName (lit "Thing"); UPath (lit "sub") UGlob])) =
    Ok [Proofs.C07Back.w_imp "other_crate" "*"; Proofs.C07Back.w_imp "other_crate" "Thing"].
Proof. exact Props.C07.C07_visitors_401_fixed_keeps_paths. Qed.
Print Assumptions Props.C07.C07_visitors_401_fixed_keeps_paths.
Goal match parse_file_multi uc_exec Proofs.C07.no_tstr [] Proofs.C07Back.w_own [] (fun l => l) Proofs.C07Back.w_use_file with
  | Ok (Some pd) => List.length (p_structs pd) = 1%nat /\ p_errors pd = [] /\ p_imports pd = []
  | _ => False
  end.
Proof. exact Props.C07.C07_visitors_401_fixed_file. Qed.
Print Assumptions Props.C07.C07_visitors_401_fixed_file.
Goal forall (uc : unicode) (cfg : go_config) (custom : list str) (tag content : str) (sh : eshared) (s : go_state) ds s',
    go_enum_decls_of uc cfg custom (EAlgebraic tag content sh) s = Ok (ds, s') ->
    exists anon t, ds = anon ++ [GOTagged t] /\
                   gt_short t = match original (eid sh) with [] => [] | c :: _ => u_lower uc c end.
Proof. exact Props.C07.C07_go_receiver_value. Qed.
Print Assumptions Props.C07.C07_go_receiver_value.
Goal Proofs.C07Back.w_go_short (201%N :: lit "toile") = Some [233%N] /\
  Proofs.C07Back.w_go_short (304%N :: lit "x") = Some [105%N; 775%N] /\
  Proofs.C07Back.w_go_short (453%N :: lit "x") = Some [454%N] /\
  Proofs.C07Back.w_go_short [20013%N] = Some [20013%N] /\
  Proofs.C07Back.w_go_short (lit "Plain") = Some (lit "p") /\
  Proofs.C07Back.w_go_short [] = Some [] /\
  is_ok (go_generate uc_exec Proofs.C07Back.w_go_cfg (Proofs.C07Back.w_pd (Proofs.C07Back.w_tagged (201%N :: lit "toile")))) = true.
Proof. exact Props.C07.C07_go_315_fixed. Qed.
Print Assumptions Props.C07.C07_go_315_fixed.
Goal forall (cfg : kt_config) (c : rconst), kt_decl_of cfg (ItConst c) = Err (EConstUnsupported (original (cid c))).
Proof. exact Props.C07.C07_kotlin_const_is_error. Qed.
Print Assumptions Props.C07.C07_kotlin_const_is_error.
Goal forall (uc : unicode) (cfg : sw_config) (c : rconst) (st : sw_state),
    sw_decl_of uc cfg (ItConst c) st = Err (EConstUnsupported (original (cid c))).
Proof. exact Props.C07.C07_swift_const_is_error. Qed.
Print Assumptions Props.C07.C07_swift_const_is_error.
Goal kt_generate uc_exec Proofs.C07Back.w_kt_cfg Proofs.C07Back.w_const_pd = Err (EConstUnsupported (lit "X")).
Proof. exact Props.C07.C07_kotlin_183_fixed. Qed.
Print Assumptions Props.C07.C07_kotlin_183_fixed.
Goal sw_generate uc_exec Proofs.C07Back.w_sw_cfg Proofs.C07Back.w_const_pd = Err (EConstUnsupported (lit "X")).
Proof. exact Props.C07.C07_swift_268_fixed. Qed.
Print Assumptions Props.C07.C07_swift_268_fixed.
Goal forall cfg : sc_config,
    (sc_package cfg = [] -> sc_begin_file cfg = Err EPackageRequired) /\
    (sc_package cfg <> [] -> is_ok (sc_begin_file cfg) = true).
Proof. exact Props.C07.C07_scala_package_error_iff. Qed.
Print Assumptions Props.C07.C07_scala_package_error_iff.
Goal forall (uc : unicode) (cfg : sc_config) (pd : parsed), sc_package cfg = [] -> sc_generate uc cfg pd = Err EPackageRequired.
Proof. exact Props.C07.C07_scala_no_package_is_error. Qed.
Print Assumptions Props.C07.C07_scala_no_package_is_error.
Goal sc_generate uc_exec (Proofs.C07Back.w_sc_cfg []) Proofs.C07Back.w_struct_pd = Err EPackageRequired /\
  is_ok (sc_generate uc_exec (Proofs.C07Back.w_sc_cfg (lit "p")) Proofs.C07Back.w_struct_pd) = true.
Proof. exact Props.C07.C07_scala_131_fixed. Qed.
Print Assumptions Props.C07.C07_scala_131_fixed.
Goal List.length (expected_leaves [] Proofs.C07.nonvacuous_file) = 8%nat /\
  front_incomplete_leaves uc_exec Proofs.C07.no_tstr [] Proofs.C07.nonvacuous_file = 3%nat /\
  match parse_file uc_exec Proofs.C07.no_tstr [] Proofs.C07.nonvacuous_file with
  | Ok (Some pd) => Proofs.FrontItems.count_items pd = 8%nat /\
                    p_errors pd = [EUnsupportedTypeP (lit "Empty()"); EUnsupportedType [lit "Box"]; EUnsupportedType [lit "HashMap"]]
  | _ => False
  end.
Proof. exact Props.C07.C07_nonvacuous_witness. Qed.
Print Assumptions Props.C07.C07_nonvacuous_witness.
Goal forall (uc : unicode) (tstr : str -> option ty) (T : list str) (f : file) (pd : parsed),
    parse_file uc tstr T f = Ok (Some pd) -> pd_wf pd = true.
Proof. exact Props.C07.C07_front_end_delivers_shape. Qed.
Print Assumptions Props.C07.C07_front_end_delivers_shape.
Goal (forall (rn : renames) (cn : str) (pd : parsed), pd_wf pd = true -> pd_wf (reconcile_crate rn cn pd) = true) /\
  (forall pd : parsed, pd_wf pd = true -> pd_wf (reconcile_single pd) = true) /\
  (forall arrivals : list parsed, List.Forall (fun pd => pd_wf pd = true) arrivals -> pd_wf (single_file_input arrivals) = true) /\
  (forall cs : crates, List.map fst (reconcile_aliases cs) = List.map fst cs).
Proof. exact Props.C07.C07_reconcile_never_panics. Qed.
Print Assumptions Props.C07.C07_reconcile_never_panics.
Goal forall things : list ritem, exists out, topsort things = Ok out /\ Coq.Sorting.Permutation.Permutation out things.
Proof. exact Props.C07.C07_topsort_never_panics. Qed.
Print Assumptions Props.C07.C07_topsort_never_panics.
Goal forall things : list ritem, panics_only fuel_site (topsort things).
Proof. exact Props.C07.C07_topsort_panics_only_on_fuel. Qed.
Print Assumptions Props.C07.C07_topsort_panics_only_on_fuel.
Goal forall things : list ritem, deps_complete things = true.
Proof. exact Props.C07.C07_dependency_collection_completes. Qed.
Print Assumptions Props.C07.C07_dependency_collection_completes.
Goal forall (uc : unicode) (cfg : ts_config) (pd : parsed),
    panics_only (fun s => pd_wf pd = false /\ (s = "typescript.rs:137"%string \/ s = "typescript.rs:276"%string))
                (ts_generate uc cfg pd).
Proof. exact Props.C07.C07_ts_generate_panics_only. Qed.
Print Assumptions Props.C07.C07_ts_generate_panics_only.
Goal forall (uc : unicode) (cfg : ts_config) (pd : parsed), pd_wf pd = true -> no_panic (ts_generate uc cfg pd).
Proof. exact Props.C07.C07_ts_generate_never_panics. Qed.
Print Assumptions Props.C07.C07_ts_generate_never_panics.
Goal forall (uc : unicode) (cfg : kt_config) (pd : parsed), no_panic (kt_generate uc cfg pd).
Proof. exact Props.C07.C07_kt_generate_panics_only. Qed.
Print Assumptions Props.C07.C07_kt_generate_panics_only.
Goal forall (uc : unicode) (cfg : sc_config) (pd : parsed), no_panic (sc_generate uc cfg pd).
Proof. exact Props.C07.C07_sc_generate_panics_only. Qed.
Print Assumptions Props.C07.C07_sc_generate_panics_only.
Goal forall (uc : unicode) (cfg : sw_config) (pd : parsed), no_panic (sw_generate uc cfg pd).
Proof. exact Props.C07.C07_sw_generate_panics_only. Qed.
Print Assumptions Props.C07.C07_sw_generate_panics_only.
Goal forall (uc : unicode) (cfg : py_config) (pd : parsed),
    panics_only (fun s => pd_wf pd = false /\ s = "python.rs:368"%string) (py_generate uc cfg pd).
Proof. exact Props.C07.C07_py_generate_panics_only. Qed.
Print Assumptions Props.C07.C07_py_generate_panics_only.
Goal forall (uc : unicode) (cfg : py_config) (pd : parsed), pd_wf pd = true -> no_panic (py_generate uc cfg pd).
Proof. exact Props.C07.C07_py_generate_never_panics. Qed.
Print Assumptions Props.C07.C07_py_generate_never_panics.
Goal forall uc : unicode, unicode_ok uc -> forall (acrs : list str) (name : str), str_ascii name = true ->
    exists r, go_convert_acronyms_to_uppercase uc acrs name = Ok r /\ str_ascii r = true.
Proof. exact Props.C07.C07_go_convert_total_on_ascii. Qed.
Print Assumptions Props.C07.C07_go_convert_total_on_ascii.
Goal forall (uc : unicode) (cfg : go_config) (pd : parsed), unicode_ok uc ->
    panics_only (fun s => (s = "go.rs:594"%string /\ go_uppercase_acronyms cfg <> nil /\
                           go_input_ascii (go_type_mappings cfg) pd = false) \/
                          (s = "go.rs:301"%string /\ pd_wf pd = false))
                (go_generate uc cfg pd).
Proof. exact Props.C07.C07_go_generate_panics_only. Qed.
Print Assumptions Props.C07.C07_go_generate_panics_only.
Goal forall (uc : unicode) (cfg : go_config) (pd : parsed),
    panics_only (fun s => (s = "go.rs:594"%string /\ go_uppercase_acronyms cfg <> nil) \/
                          (s = "go.rs:301"%string /\ pd_wf pd = false))
                (go_generate uc cfg pd).
Proof. exact Props.C07.C07_go_generate_panics_only_any_tables. Qed.
Print Assumptions Props.C07.C07_go_generate_panics_only_any_tables.
Goal forall (uc : unicode) (cfg : go_config) (pd : parsed), unicode_ok uc ->
    go_input_ascii (go_type_mappings cfg) pd = true -> pd_wf pd = true -> no_panic (go_generate uc cfg pd).
Proof. exact Props.C07.C07_go_generate_never_panics_ascii. Qed.
Print Assumptions Props.C07.C07_go_generate_never_panics_ascii.
Goal forall (uc : unicode) (tstr : str -> option ty) (T : list str) (f : file),
    (forall c, no_panic (single_file_run (ts_generate uc) uc tstr T c f)) /\
    (forall c, no_panic (single_file_run (kt_generate uc) uc tstr T c f)) /\
    (forall c, no_panic (single_file_run (sc_generate uc) uc tstr T c f)) /\
    (forall c, no_panic (single_file_run (sw_generate uc) uc tstr T c f)) /\
    (forall c, no_panic (single_file_run (py_generate uc) uc tstr T c f)) /\
    (forall c, unicode_ok uc ->
       panics_only (fun s => s = "go.rs:594"%string /\ go_uppercase_acronyms c <> nil /\
                             go_run_ascii uc tstr T (go_type_mappings c) f = false)
                   (single_file_run (go_generate uc) uc tstr T c f)).
Proof. exact Props.C07.C07_single_file_pipeline_never_panics_partial. Qed.
Print Assumptions Props.C07.C07_single_file_pipeline_never_panics_partial.
Goal forall (uc : unicode) (tstr : str -> option ty) (T : list str) (c : go_config) (f : file), unicode_ok uc ->
    go_uppercase_acronyms c = nil \/ go_run_ascii uc tstr T (go_type_mappings c) f = true ->
    no_panic (single_file_run (go_generate uc) uc tstr T c f).
Proof. exact Props.C07.C07_go_pipeline_never_panics. Qed.
Print Assumptions Props.C07.C07_go_pipeline_never_panics.
Goal Proofs.C07Pipeline.is_generated (single_file_run (ts_generate uc_exec) uc_exec Proofs.C07.no_tstr nil Proofs.C07Pipeline.w_ts_cfg Proofs.C07Pipeline.w_file) = true /\
  Proofs.C07Pipeline.is_generated (single_file_run (kt_generate uc_exec) uc_exec Proofs.C07.no_tstr nil Proofs.C07Back.w_kt_cfg Proofs.C07Pipeline.w_file) = true /\
  Proofs.C07Pipeline.is_generated (single_file_run (sc_generate uc_exec) uc_exec Proofs.C07.no_tstr nil (Proofs.C07Back.w_sc_cfg (lit "p")) Proofs.C07Pipeline.w_file) = true /\
  Proofs.C07Pipeline.is_generated (single_file_run (sw_generate uc_exec) uc_exec Proofs.C07.no_tstr nil Proofs.C07Back.w_sw_cfg Proofs.C07Pipeline.w_file) = true /\
  Proofs.C07Pipeline.is_generated (single_file_run (py_generate uc_exec) uc_exec Proofs.C07.no_tstr nil Proofs.C07Pipeline.w_py_cfg Proofs.C07Pipeline.w_file) = true /\
  Proofs.C07Pipeline.is_generated (single_file_run (go_generate uc_exec) uc_exec Proofs.C07.no_tstr nil
                                     (Proofs.C07Pipeline.w_go_acr (cons (lit "id") (cons (lit "a" ++ cons 233%N nil) nil))) Proofs.C07Pipeline.w_file) = true /\
  go_run_ascii uc_exec Proofs.C07.no_tstr nil nil Proofs.C07Pipeline.w_file = true /\
  match parse_file uc_exec Proofs.C07.no_tstr nil Proofs.C07Pipeline.w_file with
  | Ok (Some pd) => List.length (items_of (reconcile_single pd)) = 4%nat /\ pd_wf pd = true
  | _ => False
  end.
Proof. exact Props.C07.C07_single_file_pipeline_nonvacuous. Qed.
Print Assumptions Props.C07.C07_single_file_pipeline_nonvacuous.
Goal single_file_run (go_generate uc_exec) uc_exec Proofs.C07.no_tstr nil
                  (Proofs.C07Pipeline.w_go_acr (cons (lit "a" ++ cons 233%N nil) nil)) Proofs.C07Pipeline.w_594_file = Panic "go.rs:594" /\
  go_run_ascii uc_exec Proofs.C07.no_tstr nil nil Proofs.C07Pipeline.w_594_file = false /\
  Proofs.C07Pipeline.is_generated (single_file_run (go_generate uc_exec) uc_exec Proofs.C07.no_tstr nil
                                     (Proofs.C07Pipeline.w_go_acr nil) Proofs.C07Pipeline.w_594_file) = true.
Proof. exact Props.C07.C07_go_594_refuted. Qed.
Print Assumptions Props.C07.C07_go_594_refuted.
Goal match topsort Proofs.C07Topsort.w_shadow_items with
  | Ok out => List.map Proofs.C07Topsort.iname out = cons (lit "B") (cons (lit "A") (cons (lit "S") nil)) \/
              List.map Proofs.C07Topsort.iname out = cons (lit "A") (cons (lit "B") (cons (lit "S") nil))
  | _ => False
  end.
Proof. exact Props.C07.C07_topsort_nonvacuous. Qed.
Print Assumptions Props.C07.C07_topsort_nonvacuous.
Goal forall (uc : unicode) (cfg : ts_config) (st0 : ts_state) (imports : scoped) (pd : parsed),
    panics_only (fun s => pd_wf pd = false /\ (s = "typescript.rs:137"%string \/ s = "typescript.rs:276"%string))
                (ts_generate_multi uc cfg st0 imports pd).
Proof. exact Props.C07.C07_multi_ts_generate_panics_only. Qed.
Print Assumptions Props.C07.C07_multi_ts_generate_panics_only.
Goal forall (uc : unicode) (cfg : ts_config) (st0 : ts_state) (imports : scoped) (pd : parsed),
    pd_wf pd = true -> no_panic (ts_generate_multi uc cfg st0 imports pd).
Proof. exact Props.C07.C07_multi_ts_generate_never_panics. Qed.
Print Assumptions Props.C07.C07_multi_ts_generate_never_panics.
Goal forall (uc : unicode) (cfg : kt_config) (crate_name : str) (imports : scoped) (pd : parsed),
    no_panic (kt_generate_multi uc cfg crate_name imports pd).
Proof. exact Props.C07.C07_multi_kt_generate_panics_only. Qed.
Print Assumptions Props.C07.C07_multi_kt_generate_panics_only.
Goal forall (uc : unicode) (cfg : sw_config) (st0 : sw_state) (pd : parsed), no_panic (sw_generate_multi uc cfg st0 pd).
Proof. exact Props.C07.C07_multi_sw_generate_panics_only. Qed.
Print Assumptions Props.C07.C07_multi_sw_generate_panics_only.
Goal forall (uc : unicode) (cfg : sc_config) (st : unit) (crate_name : str) (imports : scoped) (pd : parsed),
    no_panic (sc_multi_gen uc cfg st crate_name imports pd).
Proof. exact Props.C07.C07_multi_sc_generate_panics_only. Qed.
Print Assumptions Props.C07.C07_multi_sc_generate_panics_only.
Goal forall (uc : unicode) (cfg : py_config) (st0 : py_state) (pd : parsed),
    panics_only (fun s => pd_wf pd = false /\ s = "python.rs:368"%string) (py_generate_multi uc cfg st0 pd).
Proof. exact Props.C07.C07_multi_py_generate_panics_only. Qed.
Print Assumptions Props.C07.C07_multi_py_generate_panics_only.
Goal forall (uc : unicode) (cfg : py_config) (st0 : py_state) (pd : parsed),
    pd_wf pd = true -> no_panic (py_generate_multi uc cfg st0 pd).
Proof. exact Props.C07.C07_multi_py_generate_never_panics. Qed.
Print Assumptions Props.C07.C07_multi_py_generate_never_panics.
Goal forall (uc : unicode) (cfg : go_config) (st0 : go_state) (pd : parsed), unicode_ok uc ->
    panics_only (fun s => (s = "go.rs:594"%string /\ go_uppercase_acronyms cfg <> nil /\
                           go_input_ascii (go_type_mappings cfg) pd = false) \/
                          (s = "go.rs:301"%string /\ pd_wf pd = false))
                (go_generate_multi uc cfg st0 pd).
Proof. exact Props.C07.C07_multi_go_generate_panics_only. Qed.
Print Assumptions Props.C07.C07_multi_go_generate_panics_only.
Goal forall (uc : unicode) (cfg : go_config) (st0 : go_state) (pd : parsed),
    panics_only (fun s => (s = "go.rs:594"%string /\ go_uppercase_acronyms cfg <> nil) \/
                          (s = "go.rs:301"%string /\ pd_wf pd = false))
                (go_generate_multi uc cfg st0 pd).
Proof. exact Props.C07.C07_multi_go_generate_panics_only_any_tables. Qed.
Print Assumptions Props.C07.C07_multi_go_generate_panics_only_any_tables.
Goal forall (uc : unicode) (cfg : go_config) (st0 : go_state) (pd : parsed), unicode_ok uc ->
    go_input_ascii (go_type_mappings cfg) pd = true -> pd_wf pd = true -> no_panic (go_generate_multi uc cfg st0 pd).
Proof. exact Props.C07.C07_multi_go_generate_never_panics_ascii. Qed.
Print Assumptions Props.C07.C07_multi_go_generate_never_panics_ascii.
Goal forall uc : unicode,
    (forall cfg st cn im pd, panics_only (fun s => pd_wf pd = false /\ (s = "typescript.rs:137"%string \/ s = "typescript.rs:276"%string))
                                         (ts_multi_gen uc cfg st cn im pd)) /\
    (forall cfg st cn im pd, no_panic (kt_multi_gen uc cfg st cn im pd)) /\
    (forall cfg st cn im pd, no_panic (sc_multi_gen uc cfg st cn im pd)) /\
    (forall cfg st cn im pd, no_panic (sw_multi_gen uc cfg st cn im pd)) /\
    (forall cfg st cn im pd, panics_only (fun s => pd_wf pd = false /\ s = "python.rs:368"%string) (py_multi_gen uc cfg st cn im pd)) /\
    (forall cfg st cn im pd, unicode_ok uc ->
       panics_only (fun s => (s = "go.rs:594"%string /\ go_uppercase_acronyms cfg <> nil /\
                              go_input_ascii (go_type_mappings cfg) pd = false) \/
                             (s = "go.rs:301"%string /\ pd_wf pd = false)) (go_multi_gen uc cfg st cn im pd)).
Proof. exact Props.C07.C07_multi_generators_panics_only. Qed.
Print Assumptions Props.C07.C07_multi_generators_panics_only.
Goal forall (uc : unicode) (tstr : str -> option ty) (T : list str) (own : str) (ign : list str)
         (ho_file : list imported -> list imported) (f : file) (pd : parsed),
    parse_file_multi uc tstr T own ign ho_file f = Ok (Some pd) -> pd_wf pd = true.
Proof. exact Props.C07.C07_multi_front_end_delivers_shape. Qed.
Print Assumptions Props.C07.C07_multi_front_end_delivers_shape.
Goal (forall (pd : parsed) (im : list imported), pd_wf (with_imports pd im) = pd_wf pd) /\
  (forall arrivals : list (str * parsed),
     List.Forall (fun a => pd_wf (snd a) = true) arrivals -> List.Forall (fun c => pd_wf (snd c) = true) (collect arrivals)) /\
  (forall (ho_crate : list imported -> list imported) (cs : crates),
     List.Forall (fun c => pd_wf (snd c) = true) cs -> List.Forall (fun c => pd_wf (snd c) = true) (order_imports ho_crate cs)) /\
  (forall cs : crates,
     List.Forall (fun c => pd_wf (snd c) = true) cs -> List.Forall (fun c => pd_wf (snd c) = true) (reconcile_aliases cs)) /\
  (forall (uc : unicode) (T ign : list str) (ho_file ho_crate : list imported -> list imported) (ws : list ws_entry) (cs : crates),
     multi_file_crates uc T ign ho_file ho_crate ws = Ok cs -> List.Forall (fun c => pd_wf (snd c) = true) cs).
Proof. exact Props.C07.C07_multi_reconcile_never_panics. Qed.
Print Assumptions Props.C07.C07_multi_reconcile_never_panics.
Goal forall (St : Type) (gen : St -> str -> scoped -> parsed -> outcome (str * St)) (P : string -> Prop) (plan : list out_plan),
    (forall p, List.In p plan -> forall st, panics_only P (gen st (op_crate p) (op_imports p) (op_data p))) ->
    forall st, panics_only P (snd (generate_crates gen st plan)).
Proof. exact Props.C07.C07_multi_generate_crates_panics_only. Qed.
Print Assumptions Props.C07.C07_multi_generate_crates_panics_only.
Goal forall (uc : unicode) (T ign : list str) (ho_file ho_crate : list imported -> list imported)
         (hc : crate_types -> crate_types) (l : lang) (ws : list ws_entry),
    (forall c st, no_panic (multi_file_status (ts_multi_gen uc c) st uc T ign ho_file ho_crate hc l ws)) /\
    (forall c st, no_panic (multi_file_status (kt_multi_gen uc c) st uc T ign ho_file ho_crate hc l ws)) /\
    (forall c st, no_panic (multi_file_status (sc_multi_gen uc c) st uc T ign ho_file ho_crate hc l ws)) /\
    (forall c st, no_panic (multi_file_status (sw_multi_gen uc c) st uc T ign ho_file ho_crate hc l ws)) /\
    (forall c st, no_panic (multi_file_status (py_multi_gen uc c) st uc T ign ho_file ho_crate hc l ws)) /\
    (forall c st, unicode_ok uc ->
       panics_only (fun s => s = "go.rs:594"%string /\ go_uppercase_acronyms c <> nil /\
                             go_multi_run_ascii uc T ign ho_file ho_crate (go_type_mappings c) ws = false)
                   (multi_file_status (go_multi_gen uc c) st uc T ign ho_file ho_crate hc l ws)).
Proof. exact Props.C07.C07_multi_workspace_pipeline_never_panics_partial. Qed.
Print Assumptions Props.C07.C07_multi_workspace_pipeline_never_panics_partial.
Goal forall (uc : unicode) (T ign : list str) (ho_file ho_crate : list imported -> list imported)
         (hc : crate_types -> crate_types) (l : lang) (c : go_config) (st : go_state) (ws : list ws_entry), unicode_ok uc ->
    go_uppercase_acronyms c = nil \/ go_multi_run_ascii uc T ign ho_file ho_crate (go_type_mappings c) ws = true ->
    no_panic (multi_file_status (go_multi_gen uc c) st uc T ign ho_file ho_crate hc l ws).
Proof. exact Props.C07.C07_multi_go_pipeline_never_panics. Qed.
Print Assumptions Props.C07.C07_multi_go_pipeline_never_panics.
Goal forall (St : Type) (gen : St -> str -> scoped -> parsed -> outcome (str * St)) (st0 : St) (uc : unicode) (T ign : list str)
         (ho_file ho_crate : list imported -> list imported) (hc : crate_types -> crate_types) (l : lang) (ws : list ws_entry),
    no_panic (multi_file_run gen st0 uc T ign ho_file ho_crate hc l ws).
Proof. exact Props.C07.C07_multi_file_run_returns. Qed.
Print Assumptions Props.C07.C07_multi_file_run_returns.
Goal (match multi_file_crates uc_exec nil nil Proofs.C07Multi.idl Proofs.C07Multi.idl Proofs.C07Multi.ws_three with
   | Ok cs => List.map fst cs = cons (lit "alpha") (cons (lit "app") (cons (lit "beta") nil)) /\
              List.forallb (fun c => pd_wf (snd c)) cs = true /\
              first_parse_error cs = None /\
              List.map (fun c => List.length (items_of (snd c))) cs = cons 3%nat (cons 2%nat (cons 1%nat nil))
   | _ => False
   end) /\
  Proofs.C07Multi.m_plan_imports TypeScript Proofs.C07Multi.ws_three =
    cons (lit "alpha", nil)
   (cons (lit "app", cons (lit "alpha", lit "Item") (cons (lit "alpha", lit "Kind") (cons (lit "alpha", lit "Shape") (cons (lit "beta", lit "Holder") nil))))
   (cons (lit "beta", cons (lit "alpha", lit "Item") nil) nil)) /\
  Proofs.C07Multi.m_files (ts_multi_gen uc_exec Proofs.C07Pipeline.w_ts_cfg) nil TypeScript Proofs.C07Multi.ws_three =
    (cons (lit "alpha.ts") (cons (lit "app.ts") (cons (lit "beta.ts") nil)), true) /\
  Proofs.C07Multi.m_files (kt_multi_gen uc_exec Proofs.C07Back.w_kt_cfg) tt Kotlin Proofs.C07Multi.ws_three =
    (cons (lit "alpha.kt") (cons (lit "app.kt") (cons (lit "beta.kt") nil)), true) /\
  Proofs.C07Multi.m_files (sc_multi_gen uc_exec (Proofs.C07Back.w_sc_cfg (lit "p"))) tt Scala Proofs.C07Multi.ws_three =
    (cons (lit "alpha.scala") (cons (lit "app.scala") (cons (lit "beta.scala") nil)), true) /\
  Proofs.C07Multi.m_files (sw_multi_gen uc_exec Proofs.C07Back.w_sw_cfg) false Swift Proofs.C07Multi.ws_three =
    (cons (lit "Alpha.swift") (cons (lit "App.swift") (cons (lit "Beta.swift") nil)), true) /\
  Proofs.C07Multi.m_files (py_multi_gen uc_exec Proofs.C07Pipeline.w_py_cfg) py_empty_state Python Proofs.C07Multi.ws_three =
    (cons (lit "alpha.py") (cons (lit "app.py") (cons (lit "beta.py") nil)), true) /\
  Proofs.C07Multi.m_files (go_multi_gen uc_exec (Proofs.C07Multi.m_go_cfg (cons (lit "id") (cons (lit "a" ++ cons 233%N nil) nil)))) nil Go
                          Proofs.C07Multi.ws_three =
    (cons (lit "alpha.go") (cons (lit "app.go") (cons (lit "beta.go") nil)), true) /\
  go_multi_run_ascii uc_exec nil nil Proofs.C07Multi.idl Proofs.C07Multi.idl nil Proofs.C07Multi.ws_three = true.
Proof. exact Props.C07.C07_multi_workspace_pipeline_nonvacuous. Qed.
Print Assumptions Props.C07.C07_multi_workspace_pipeline_nonvacuous.
Goal Proofs.C07Multi.m_status (ts_multi_gen uc_exec Proofs.C07Pipeline.w_ts_cfg) nil TypeScript Proofs.C07Multi.ws_parse_error =
    Err (EUnsupportedType (cons (lit "Vec") nil)) /\
  Proofs.C07Multi.m_files (ts_multi_gen uc_exec Proofs.C07Pipeline.w_ts_cfg) nil TypeScript Proofs.C07Multi.ws_parse_error = (nil, false).
Proof. exact Props.C07.C07_multi_parse_error_is_diagnostic. Qed.
Print Assumptions Props.C07.C07_multi_parse_error_is_diagnostic.
Goal Proofs.C07Multi.m_status (kt_multi_gen uc_exec Proofs.C07Back.w_kt_cfg) tt Kotlin Proofs.C07Multi.ws_const = Err (EConstUnsupported (lit "X")) /\
  match multi_file_run (kt_multi_gen uc_exec Proofs.C07Back.w_kt_cfg) tt uc_exec nil nil Proofs.C07Multi.idl Proofs.C07Multi.idl
                       Proofs.C07Multi.idl Kotlin Proofs.C07Multi.ws_const with
  | Ok (cons (f1, Writer.Generated (cons _ _)) (cons (f2, Writer.GenFailed) nil), Err _) => f1 = lit "alpha.kt" /\ f2 = lit "app.kt"
  | _ => False
  end.
Proof. exact Props.C07.C07_multi_generation_error_is_diagnostic. Qed.
Print Assumptions Props.C07.C07_multi_generation_error_is_diagnostic.
Goal Proofs.C07Multi.m_status (go_multi_gen uc_exec (Proofs.C07Multi.m_go_cfg (cons (lit "a" ++ cons 233%N nil) nil))) nil Go Proofs.C07Multi.ws_594 =
    Panic "go.rs:594" /\
  go_multi_run_ascii uc_exec nil nil Proofs.C07Multi.idl Proofs.C07Multi.idl nil Proofs.C07Multi.ws_594 = false /\
  match multi_file_run (go_multi_gen uc_exec (Proofs.C07Multi.m_go_cfg (cons (lit "a" ++ cons 233%N nil) nil))) nil uc_exec nil nil
                       Proofs.C07Multi.idl Proofs.C07Multi.idl Proofs.C07Multi.idl Go Proofs.C07Multi.ws_594 with
  | Ok (files, Panic _) => List.map fst files = cons (lit "alpha.go") (cons (lit "app.go") (cons (lit "beta.go") (cons (lit "gamma.go") nil)))
  | _ => False
  end /\
  Proofs.C07Multi.m_files (go_multi_gen uc_exec (Proofs.C07Multi.m_go_cfg nil)) nil Go Proofs.C07Multi.ws_594 =
    (cons (lit "alpha.go") (cons (lit "app.go") (cons (lit "beta.go") (cons (lit "gamma.go") nil))), true).
Proof. exact Props.C07.C07_multi_go_594_refuted. Qed.
Print Assumptions Props.C07.C07_multi_go_594_refuted.
