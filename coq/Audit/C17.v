(* Pinned statements for C17: compiled on every check run. A statement weakened in Props/ fails here. *)
From TS Require Import Model.Str Model.Writer Spec.C17Spec.
From TS Require Proofs.C17.
From TS Require Props.C17.

Goal forall (s : fs) (t1 t2 : mtime) (o : outputs),
    NoDup (may_touch o) -> run (run s t1 o) t2 o = run s t1 o.
Proof. exact Props.C17.C17_idempotent. Qed.
Print Assumptions Props.C17.C17_idempotent.
Goal forall (s0 : fs) (h : history) (t : mtime) (o : outputs) (ts : list mtime),
    NoDup (may_touch o) ->
    run_history s0 (h ++ (t, o) :: map (fun t' => (t', o)) ts) = run_history s0 (h ++ [(t, o)]).
Proof. exact Props.C17.C17_idempotent_history. Qed.
Print Assumptions Props.C17.C17_idempotent_history.
Goal forall (s : fs) (t : mtime) (folder : fpath) (crates : list (fpath * gen_result)) (c : bytes) (m : mtime),
    let o := MultiFile folder crates (Some c) in
    all_generated crates = true -> NoDup (may_touch o) ->
    fs_read s (codable_path folder) = Some (c ++ [ch_nl], m) ->
    fs_read (run s t o) (codable_path folder) = Some (c ++ [ch_nl], m).
Proof. exact Props.C17.C17_codable_up_to_date_untouched. Qed.
Print Assumptions Props.C17.C17_codable_up_to_date_untouched.
Goal forall (s : fs) (t : mtime) (folder : fpath) (crates : list (fpath * gen_result)) (c : bytes),
    let o := MultiFile folder crates (Some c) in
    all_generated crates = true -> NoDup (may_touch o) ->
    content s (codable_path folder) <> Some (c ++ [ch_nl]) ->
    fs_read (run s t o) (codable_path folder) = Some (c ++ [ch_nl], t).
Proof. exact Props.C17.C17_codable_stale_rewritten. Qed.
Print Assumptions Props.C17.C17_codable_stale_rewritten.
Goal forall (s0 : fs) (h : history) (t t' : mtime) (o : outputs) (p : fpath) (b : bytes),
    NoDup (may_touch o) -> In (p, b) (responsible o) -> b <> [] ->
    content (run_history s0 (h ++ [(t, o)])) p = content (run empty_fs t' o) p.
Proof. exact Props.C17.C17_fresh. Qed.
Print Assumptions Props.C17.C17_fresh.
Goal forall (s : fs) (t : mtime) (o : outputs) (p : fpath) (b : bytes),
    NoDup (may_touch o) -> In (p, b) (responsible o) -> b <> [] -> content (run s t o) p = Some b.
Proof. exact Props.C17.C17_fresh_value. Qed.
Print Assumptions Props.C17.C17_fresh_value.
Goal forall (s : fs) (t : mtime) (o : outputs) (p : fpath),
    NoDup (may_touch o) -> In (p, []) (responsible o) -> fs_read (run s t o) p = fs_read s p.
Proof. exact Props.C17.C17_empty_output_keeps_file. Qed.
Print Assumptions Props.C17.C17_empty_output_keeps_file.
Goal exists (s0 : fs) (h : history) (t t' : mtime) (o : outputs) (p : fpath) (b : bytes),
    NoDup (may_touch o) /\ In (p, b) (responsible o) /\
    content (run_history s0 (h ++ [(t, o)])) p <> content (run empty_fs t' o) p.
Proof. exact Props.C17.C17_fresh_refuted. Qed.
Print Assumptions Props.C17.C17_fresh_refuted.
Goal forall (s : fs) (t : mtime) (o : outputs) (p : fpath) (b : bytes),
    NoDup (may_touch o) -> In (p, b) (responsible o) ->
    fs_read (run s t o) p =
    match fs_read s p with
    | Some (old, m) => if str_eqb old b then Some (old, m) else if is_empty_bytes b then Some (old, m) else Some (b, t)
    | None => if is_empty_bytes b then None else Some (b, t)
    end.
Proof. exact Props.C17.C17_write_iff_changed. Qed.
Print Assumptions Props.C17.C17_write_iff_changed.
Goal forall (s : fs) (t : mtime) (o : outputs) (p : fpath),
    ~ In p (may_touch o) -> fs_read (run s t o) p = fs_read s p.
Proof. exact Props.C17.C17_untouched. Qed.
Print Assumptions Props.C17.C17_untouched.
Goal forall (h : history) (s : fs) (p : fpath),
    (forall r, In r h -> ~ In p (may_touch (snd r))) -> fs_read (run_history s h) p = fs_read s p.
Proof. exact Props.C17.C17_untouched_history. Qed.
Print Assumptions Props.C17.C17_untouched_history.
Goal forall (s : fs) (t : mtime), run s t ParseErrors = s.
Proof. exact Props.C17.C17_failed_parse_writes_nothing. Qed.
Print Assumptions Props.C17.C17_failed_parse_writes_nothing.
Goal forall (s : fs) (t : mtime) (o : outputs), snd (run_full s t o) = ExitOk <-> succeeds o = true.
Proof. exact Props.C17.C17_exit_status. Qed.
Print Assumptions Props.C17.C17_exit_status.
Goal forall (s : fs) (t1 t2 : mtime) (o : outputs),
    NoDup (may_touch o) -> good_rerun (run s t1 o) (run (run s t1 o) t2 o) = true.
Proof. exact Props.C17.C17_rerun_good. Qed.
Print Assumptions Props.C17.C17_rerun_good.
Goal forall (s0 : fs) (h : history) (t t' : mtime) (o : outputs),
    NoDup (may_touch o) -> nonempty_outputs o = true ->
    good_fresh (map fst (responsible o)) (run_history s0 (h ++ [(t, o)])) (run empty_fs t' o) = true.
Proof. exact Props.C17.C17_fresh_good. Qed.
Print Assumptions Props.C17.C17_fresh_good.
Goal forall (o : outputs), dom_C17 o = true -> NoDup (may_touch o).
Proof. exact Props.C17.C17_dom_nodup. Qed.
Print Assumptions Props.C17.C17_dom_nodup.
