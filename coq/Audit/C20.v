(* Pinned statements for C20: compiled on every check run. A statement weakened in Props/ fails here. *)
From Coq Require Import String.
From TS Require Import Model.Str Model.Types Model.Config Spec.C20Spec.
From TS Require Proofs.C20.
From TS Require Props.C20.

Goal forall (bytes : Type) (parse : bytes -> option pconfig) (fs : fsys bytes) (cwd : fpath) (o : cli_options),
    generate_types parse fs cwd o = expected_generate parse fs cwd o.
Proof. exact Props.C20.C20_generate_is_specification. Qed.
Print Assumptions Props.C20.C20_generate_is_specification.
Goal forall (file : option pconfig) (o : cli_options),
    override_configuration (config_of_file file) o =
      if go_package_missing o file then CErr EGoPackageMissing else COk (expected_config o file).
Proof. exact Props.C20.C20_override_is_effective_configuration. Qed.
Print Assumptions Props.C20.C20_override_is_effective_configuration.
Goal forall (o : cli_options) (file : option pconfig) (l : lang) (multi_file : bool),
    language_params l (expected_config o file) multi_file = expected_backend o file l multi_file.
Proof. exact Props.C20.C20_backend_wiring. Qed.
Print Assumptions Props.C20.C20_backend_wiring.
Goal forall (file : option pconfig) (o : cli_options) (cfg : config),
    override_configuration (config_of_file file) o = COk cfg ->
    sw_prefix (c_swift cfg) = effective (o_swift_prefix o) (fkey file pc_swift psw_prefix) dstr /\
    forall m b, language_params Swift cfg m = BSwift b -> bsw_prefix b = sw_prefix (c_swift cfg).
Proof. exact Props.C20.C20_precedence_swift_prefix. Qed.
Print Assumptions Props.C20.C20_precedence_swift_prefix.
Goal forall (file : option pconfig) (o : cli_options) (cfg : config),
    override_configuration (config_of_file file) o = COk cfg ->
    kt_prefix (c_kotlin cfg) = effective (o_kotlin_prefix o) (fkey file pc_kotlin pkt_prefix) dstr /\
    forall m b, language_params Kotlin cfg m = BKotlin b -> bkt_prefix b = kt_prefix (c_kotlin cfg).
Proof. exact Props.C20.C20_precedence_kotlin_prefix. Qed.
Print Assumptions Props.C20.C20_precedence_kotlin_prefix.
Goal forall (file : option pconfig) (o : cli_options) (cfg : config),
    override_configuration (config_of_file file) o = COk cfg ->
    kt_package (c_kotlin cfg) = effective (o_java_package o) (fkey file pc_kotlin pkt_package) dstr /\
    forall m b, language_params Kotlin cfg m = BKotlin b -> bkt_package b = kt_package (c_kotlin cfg).
Proof. exact Props.C20.C20_precedence_java_package. Qed.
Print Assumptions Props.C20.C20_precedence_java_package.
Goal forall (file : option pconfig) (o : cli_options) (cfg : config),
    override_configuration (config_of_file file) o = COk cfg ->
    kt_module_name (c_kotlin cfg) = effective (o_kotlin_module_name o) (fkey file pc_kotlin pkt_module_name) dstr /\
    forall m b, language_params Kotlin cfg m = BKotlin b -> bkt_module_name b = kt_module_name (c_kotlin cfg).
Proof. exact Props.C20.C20_precedence_kotlin_module_name. Qed.
Print Assumptions Props.C20.C20_precedence_kotlin_module_name.
Goal forall (file : option pconfig) (o : cli_options) (cfg : config),
    override_configuration (config_of_file file) o = COk cfg ->
    sc_package (c_scala cfg) = effective (o_scala_package o) (fkey file pc_scala psc_package) dstr /\
    forall m b, language_params Scala cfg m = BScala b -> bsc_package b = sc_package (c_scala cfg).
Proof. exact Props.C20.C20_precedence_scala_package. Qed.
Print Assumptions Props.C20.C20_precedence_scala_package.
Goal forall (file : option pconfig) (o : cli_options) (cfg : config),
    override_configuration (config_of_file file) o = COk cfg ->
    sc_module_name (c_scala cfg) = effective (o_scala_module_name o) (fkey file pc_scala psc_module_name) dstr /\
    forall m b, language_params Scala cfg m = BScala b -> bsc_module_name b = sc_module_name (c_scala cfg).
Proof. exact Props.C20.C20_precedence_scala_module_name. Qed.
Print Assumptions Props.C20.C20_precedence_scala_module_name.
Goal forall (file : option pconfig) (o : cli_options) (cfg : config),
    override_configuration (config_of_file file) o = COk cfg ->
    go_package (c_go cfg) = effective (o_go_package o) (fkey file pc_go pgo_package) dstr /\
    forall m b, language_params Go cfg m = BGo b -> bgo_package b = go_package (c_go cfg).
Proof. exact Props.C20.C20_precedence_go_package. Qed.
Print Assumptions Props.C20.C20_precedence_go_package.
Goal forall (cfg : config) (o : cli_options) (cfg' : config),
    override_configuration cfg o = COk cfg' ->
    sw_type_mappings (c_swift cfg') = sw_type_mappings (c_swift cfg) /\
    sw_default_decorators (c_swift cfg') = sw_default_decorators (c_swift cfg) /\
    sw_default_generic_constraints (c_swift cfg') = sw_default_generic_constraints (c_swift cfg) /\
    sw_codablevoid_constraints (c_swift cfg') = sw_codablevoid_constraints (c_swift cfg) /\
    kt_type_mappings (c_kotlin cfg') = kt_type_mappings (c_kotlin cfg) /\
    sc_type_mappings (c_scala cfg') = sc_type_mappings (c_scala cfg) /\
    c_typescript cfg' = c_typescript cfg /\
    c_python cfg' = c_python cfg /\
    go_type_mappings (c_go cfg') = go_type_mappings (c_go cfg) /\
    go_uppercase_acronyms (c_go cfg') = go_uppercase_acronyms (c_go cfg) /\
    go_no_pointer_slice (c_go cfg') = go_no_pointer_slice (c_go cfg).
Proof. exact Props.C20.C20_file_only_settings_unchanged. Qed.
Print Assumptions Props.C20.C20_file_only_settings_unchanged.
Goal forall (cfg : config) (o : cli_options) (cfg' : config) (multi : bool),
    override_configuration cfg o = COk cfg' ->
    (forall b, language_params Swift cfg' multi = BSwift b ->
       bsw_type_mappings b = sw_type_mappings (c_swift cfg) /\
       bsw_default_decorators b = sw_default_decorators (c_swift cfg) /\
       bsw_default_generic_constraints b = sw_default_generic_constraints (c_swift cfg) /\
       bsw_codablevoid_constraints b = sw_codablevoid_constraints (c_swift cfg)) /\
    (forall b, language_params Kotlin cfg' multi = BKotlin b -> bkt_type_mappings b = kt_type_mappings (c_kotlin cfg)) /\
    (forall b, language_params Scala cfg' multi = BScala b -> bsc_type_mappings b = sc_type_mappings (c_scala cfg)) /\
    (forall b, language_params TypeScript cfg' multi = BTypeScript b -> bts_type_mappings b = tsc_type_mappings (c_typescript cfg)) /\
    (forall b, language_params Python cfg' multi = BPython b -> bpy_type_mappings b = py_type_mappings (c_python cfg)) /\
    (forall b, language_params Go cfg' multi = BGo b ->
       bgo_type_mappings b = go_type_mappings (c_go cfg) /\
       bgo_uppercase_acronyms b = go_uppercase_acronyms (c_go cfg) /\
       bgo_no_pointer_slice b = go_no_pointer_slice (c_go cfg)).
Proof. exact Props.C20.C20_file_only_settings_reach_backend. Qed.
Print Assumptions Props.C20.C20_file_only_settings_reach_backend.
Goal forall (cfg : config) (o : cli_options),
    (exists e, override_configuration cfg o = CErr e) <->
    (o_language o = Some AGo /\ or_default (o_go_package o) (go_package (c_go cfg)) = []).
Proof. exact Props.C20.C20_override_refuses_iff_go_without_package. Qed.
Print Assumptions Props.C20.C20_override_refuses_iff_go_without_package.
Goal forall (cfg : config) (o : cli_options),
    override_configuration (persisted cfg) o = override_configuration cfg o /\
    forall cfg', override_configuration cfg o = COk cfg' -> c_target_os cfg' = or_default (o_target_os o) [].
Proof. exact Props.C20.C20_target_os_from_options_only. Qed.
Print Assumptions Props.C20.C20_target_os_from_options_only.
Goal forall (bytes : Type) (ser : config -> bytes) (fs : fsys bytes) (cwd : fpath) (o : cli_options),
    generate_config ser fs cwd o = expected_generate_config ser fs cwd o.
Proof. exact Props.C20.C20_generate_config_is_specification. Qed.
Print Assumptions Props.C20.C20_generate_config_is_specification.
Goal forall (bytes : Type) (ser : config -> bytes) (fs : fsys bytes) (cwd : fpath) (cfg : config) (cp : option upath),
    is_file fs (store_target cwd cp) = true -> store_config ser fs cwd cfg cp = (fs, CErr EConfigExists).
Proof. exact Props.C20.C20_store_existing_fails_fs_unchanged. Qed.
Print Assumptions Props.C20.C20_store_existing_fails_fs_unchanged.
Goal forall (bytes : Type) (ser : config -> bytes) (fs : fsys bytes) (cwd : fpath) (cfg : config) (cp : option upath),
    (exists e, snd (store_config ser fs cwd cfg cp) = CErr e) <-> is_file fs (store_target cwd cp) = true.
Proof. exact Props.C20.C20_store_fails_iff_exists. Qed.
Print Assumptions Props.C20.C20_store_fails_iff_exists.
Goal forall (bytes : Type) (ser : config -> bytes) (fs : fsys bytes) (cwd : fpath) (cfg : config) (cp : option upath) (q : fpath),
    q <> store_target cwd cp -> fs_lookup (fst (store_config ser fs cwd cfg cp)) q = fs_lookup fs q.
Proof. exact Props.C20.C20_store_touches_only_target. Qed.
Print Assumptions Props.C20.C20_store_touches_only_target.
Goal forall (bytes : Type) (ser : config -> bytes) (parse : bytes -> option pconfig),
    (forall c, de parse (ser c) = Some (persisted c)) ->
    forall (fs : fsys bytes) (cwd : fpath) (cfg : config) (cp : option upath),
      is_file fs (store_target cwd cp) = false ->
      load_config parse (fst (store_config ser fs cwd cfg cp)) cwd cp = COk (persisted cfg).
Proof. exact Props.C20.C20_store_then_load_roundtrip. Qed.
Print Assumptions Props.C20.C20_store_then_load_roundtrip.
Goal forall (bytes : Type) (ser : config -> bytes) (parse : bytes -> option pconfig),
    (forall c, de parse (ser c) = Some (persisted c)) ->
    forall (fs : fsys bytes) (cwd : fpath) (o : cli_options) (fs' : fsys bytes),
      generate_config ser fs cwd o = (fs', COk tt) ->
      exists cfg, override_configuration default_config o = COk cfg /\
                  cfg = expected_config o None /\
                  load_config parse fs' cwd (o_config_file o) = COk (persisted cfg).
Proof. exact Props.C20.C20_generate_config_then_load. Qed.
Print Assumptions Props.C20.C20_generate_config_then_load.
Goal forall (bytes : Type) (ser : config -> bytes) (parse : bytes -> option pconfig),
    (forall c, de parse (ser c) = Some (persisted c)) ->
    forall (fs : fsys bytes) (cwd : fpath) (o : cli_options) (fs' : fsys bytes) (o2 : cli_options) (l : available_language),
      generate_config ser fs cwd o = (fs', COk tt) ->
      o_config_file o2 = o_config_file o -> no_setting_options o2 = true -> o_language o2 = Some l ->
      generate_types parse fs' cwd o2 =
        if is_go (Some l) && str_is_empty (eff_go_package o None) then CErr EGoPackageMissing
        else COk (expected_backend o None (supported_of l) (o_output_folder o2), or_default (o_target_os o2) []).
Proof. exact Props.C20.C20_generate_config_then_generate. Qed.
Print Assumptions Props.C20.C20_generate_config_then_generate.
Goal forall (bytes : Type) (parse : bytes -> option pconfig) (fs fs' : fsys bytes) (cwd : fpath) (u : upath),
    fs_lookup fs (resolve cwd u) = fs_lookup fs' (resolve cwd u) ->
    load_config parse fs cwd (Some u) = load_config parse fs' cwd (Some u).
Proof. exact Props.C20.C20_explicit_config_wins. Qed.
Print Assumptions Props.C20.C20_explicit_config_wins.
Goal forall (bytes : Type) (fs : fsys bytes) (cwd p : fpath),
    find_configuration_file fs cwd = Some p ->
    exists d t, cwd = d ++ t /\ p = d ++ [CONFIG_FILE_NAME] /\ is_file fs p = true /\
      forall d' t', cwd = d' ++ t' -> (List.length d < List.length d')%nat -> is_file fs (d' ++ [CONFIG_FILE_NAME]) = false.
Proof. exact Props.C20.C20_discovery_nearest_ancestor. Qed.
Print Assumptions Props.C20.C20_discovery_nearest_ancestor.
Goal forall (bytes : Type) (fs : fsys bytes) (cwd : fpath),
    find_configuration_file fs cwd = None <->
    forall d t, cwd = d ++ t -> is_file fs (d ++ [CONFIG_FILE_NAME]) = false.
Proof. exact Props.C20.C20_discovery_none_iff_no_ancestor_file. Qed.
Print Assumptions Props.C20.C20_discovery_none_iff_no_ancestor_file.
Goal forall (bytes : Type) (fs : fsys bytes) (cwd : fpath) (fuel : nat),
    (List.length cwd < fuel)%nat -> find_loop fuel fs cwd = Some (find_configuration_file fs cwd).
Proof. exact Props.C20.C20_discovery_loop_terminates. Qed.
Print Assumptions Props.C20.C20_discovery_loop_terminates.
