(* Pinned statements for C18: compiled on every check run. A statement weakened in Props/ fails here. *)
From Coq Require Import ZArith Bool Reals.
From Flocq Require Import Core.Core IEEE754.BinarySingleNaN.
From TS Require Import Model.Str Model.Integer Spec.JsSafe.
From TS Require Proofs.C18.
Local Open Scope Z_scope.
From TS Require Props.C18.

Goal U53_MAX = 2^53 - 1 /\ I54_MAX = 2^53 - 1 /\ I54_MIN = -(2^53 - 1).
Proof. exact Props.C18.C18_constants. Qed.
Print Assumptions Props.C18.C18_constants.
Goal forall v : Z, u53_try_from v = (if js_safe_unsigned v then Some v else None).
Proof. exact Props.C18.C18_u53_range. Qed.
Print Assumptions Props.C18.C18_u53_range.
Goal forall v : Z, i54_try_from v = (if js_safe v then Some v else None).
Proof. exact Props.C18.C18_i54_range. Qed.
Print Assumptions Props.C18.C18_i54_range.
Goal forall v x, u53_try_from v = Some x ->
  u53_into_u64 x = v /\ u53_try_from (u53_into_u64 x) = Some x.
Proof. exact Props.C18.C18_u53_back. Qed.
Print Assumptions Props.C18.C18_u53_back.
Goal forall v x, i54_try_from v = Some x ->
  i54_into_i64 x = v /\ i54_try_from (i54_into_i64 x) = Some x.
Proof. exact Props.C18.C18_i54_back. Qed.
Print Assumptions Props.C18.C18_i54_back.
Goal forall bits x, 0 < bits ->
  narrow_unsigned bits x = (if (0 <=? x) && (x <=? 2^bits - 1) then Some x else None).
Proof. exact Props.C18.C18_narrow_unsigned. Qed.
Print Assumptions Props.C18.C18_narrow_unsigned.
Goal forall bits x, 0 < bits ->
  narrow_signed bits x = (if (-(2^(bits-1)) <=? x) && (x <=? 2^(bits-1) - 1) then Some x else None).
Proof. exact Props.C18.C18_narrow_signed. Qed.
Print Assumptions Props.C18.C18_narrow_signed.
Goal forall bits v, 0 < bits <= 32 -> 0 <= v < 2^bits ->
  u53_try_from (widen v) = Some v /\ narrow_unsigned bits (widen v) = Some v.
Proof. exact Props.C18.C18_widen_unsigned. Qed.
Print Assumptions Props.C18.C18_widen_unsigned.
Goal forall bits v, 0 < bits <= 32 -> -(2^(bits-1)) <= v < 2^(bits-1) ->
  i54_try_from (widen v) = Some v /\ narrow_signed bits (widen v) = Some v.
Proof. exact Props.C18.C18_widen_signed. Qed.
Print Assumptions Props.C18.C18_widen_signed.
Goal forall ptr_bits x, 0 < ptr_bits <= 64 -> 0 <= x ->
  usize_from_u53_saturated ptr_bits x = Z.min x (2^ptr_bits - 1).
Proof. exact Props.C18.C18_usize_saturated. Qed.
Print Assumptions Props.C18.C18_usize_saturated.
Goal forall x, js_safe_unsigned x = true -> deser_u53 (ser_int x) = Some x.
Proof. exact Props.C18.C18_u53_serde_roundtrip. Qed.
Print Assumptions Props.C18.C18_u53_serde_roundtrip.
Goal forall x, js_safe x = true -> deser_i54 (ser_int x) = Some x.
Proof. exact Props.C18.C18_i54_serde_roundtrip. Qed.
Print Assumptions Props.C18.C18_i54_serde_roundtrip.
Goal forall l x, 0 <= j_int l -> deser_u53 l = Some x ->
  j_float l = false /\ x = Proofs.C18.lit_value l /\ js_safe_unsigned x = true.
Proof. exact Props.C18.C18_u53_deser_sound. Qed.
Print Assumptions Props.C18.C18_u53_deser_sound.
Goal forall l x, 0 <= j_int l -> deser_i54 l = Some x ->
  j_float l = false /\ x = Proofs.C18.lit_value l /\ js_safe x = true.
Proof. exact Props.C18.C18_i54_deser_sound. Qed.
Print Assumptions Props.C18.C18_i54_deser_sound.
Goal forall a b, int_cmp a b = Z.compare a b /\ int_eqb a b = Z.eqb a b.
Proof. exact Props.C18.C18_order. Qed.
Print Assumptions Props.C18.C18_order.
Goal forall z, js_safe z = true ->
  B2R (of_Z z) = IZR z /\ is_finite (of_Z z) = true.
Proof. exact Props.C18.C18_safe_through_double. Qed.
Print Assumptions Props.C18.C18_safe_through_double.
Goal forall a b, js_safe a = true -> js_safe b = true -> of_Z a = of_Z b -> a = b.
Proof. exact Props.C18.C18_safe_double_injective. Qed.
Print Assumptions Props.C18.C18_safe_double_injective.
Goal B2SF (of_Z (2^53 + 1)) = B2SF (of_Z (2^53)) /\ js_safe (2^53) = false /\ js_safe (2^53 - 1) = true
  /\ js_safe (-(2^53 - 1)) = true /\ js_safe (-(2^53)) = false.
Proof. exact Props.C18.C18_unsafe_collapses. Qed.
Print Assumptions Props.C18.C18_unsafe_collapses.
