(* Pinned statements for C11: compiled on every check run. A statement weakened in Props/ fails here. *)
From Coq Require Import List Arith Permutation String.
From TS Require Import Model.Unicode Model.Syntax Model.Parse Model.Collect Model.Lang.Common Model.Lang.TypeScript Model.Lang.Kotlin
                       Model.Lang.Swift Model.Lang.Scala Model.Lang.Go Model.Lang.Python Model.MultiFile Spec.C14Spec.
From TS Require Model.Writer.
From TS Require Proofs.C02_Witness Proofs.C14 Proofs.C14Front Proofs.C14Main Proofs.C14Witness Proofs.C06MultiWitness Proofs.C11Multi Proofs.C11MultiWitness.
From TS Require Import Model.Str Model.Outcome Model.Types Model.TopsortAlgo Model.Topsort Spec.C11Spec.
From TS Require Proofs.ToposortPerm Proofs.SortByIndices Proofs.C11 Proofs.C11Link.
Import ListNotations.
Local Notation length := List.length (only parsing).
Local Open Scope nat_scope.
Local Open Scope string_scope.
Local Open Scope list_scope.
Local Notation w_struct := Proofs.C11Link.w_struct.
Local Notation w_alias := Proofs.C11Link.w_alias.
Local Notation w_const := Proofs.C11Link.w_const.
Local Notation w_enum := Proofs.C11Link.w_enum.
Local Notation w_field := Proofs.C11Link.w_field.
Local Notation w_vsh := Proofs.C11Link.w_vsh.
Local Notation w_s := Proofs.C11Link.w_s.
From TS Require Props.C11.

Goal forall g : graph, Forall (Forall (fun x => x < length g)) g ->
    exists r, toposort_impl g = Ok r /\ Permutation r (seq 0 (length g)).
Proof. exact Props.C11.C11_toposort_impl_permutation. Qed.
Print Assumptions Props.C11.C11_toposort_impl_permutation.
Goal forall (g : graph), Forall (Forall (fun x => x < length g)) g ->
  forall rank : nat -> nat,
    (forall i deps d, nth_error g i = Some deps -> In d deps -> rank d < rank i) ->
    exists r, toposort_impl g = Ok r /\ Permutation r (seq 0 (length g)) /\
      (forall r1 x r2 deps, r = r1 ++ x :: r2 -> nth_error g x = Some deps -> incl deps r1).
Proof. exact Props.C11.C11_toposort_impl_topological. Qed.
Print Assumptions Props.C11.C11_toposort_impl_topological.
Goal forall (A : Type) (d : A) (data : list A) (ind : list nat),
    Permutation ind (seq 0 (length data)) ->
    sort_by_indices data ind = Ok (map (fun j => nth j data d) ind).
Proof. exact Props.C11.C11_sort_by_indices. Qed.
Print Assumptions Props.C11.C11_sort_by_indices.
Goal forall (things : list ritem) (dag : list (list nat)), build_dag things = Ok dag ->
    exists out, topsort things = Ok out /\ Permutation out things.
Proof. exact Props.C11.C11_topsort_permutation. Qed.
Print Assumptions Props.C11.C11_topsort_permutation.
Goal forall (things : list ritem) (dag : list (list nat)) (d : ritem) (rank : nat -> nat),
    build_dag things = Ok dag ->
    (forall i deps x, nth_error dag i = Some deps -> In x deps -> rank x < rank i) ->
    exists r, topsort things = Ok (map (fun j => nth j things d) r) /\
              Permutation r (seq 0 (length things)) /\
              (forall r1 x r2 deps, r = r1 ++ x :: r2 -> nth_error dag x = Some deps -> incl deps r1).
Proof. exact Props.C11.C11_topsort_respects_collected_graph_partial. Qed.
Print Assumptions Props.C11.C11_topsort_respects_collected_graph_partial.
Goal forall things : list ritem, known_C11 things = None ->
    exists dag, build_dag things = Ok dag /\
      forall i a row, nth_error things i = Some a -> nth_error dag i = Some row ->
        forall j b, nth_error things j = Some b -> (In j row <-> refers a b = true).
Proof. exact Props.C11.C11_collected_graph_is_reference_graph. Qed.
Print Assumptions Props.C11.C11_collected_graph_is_reference_graph.
Goal forall things : list ritem, alias_generic_shadows things = false -> has_dup_names things = false ->
    exists dag, build_dag things = Ok dag /\
      forall i row, nth_error dag i = Some row -> ~ In i row.
Proof. exact Props.C11.C11_collected_rows_irreflexive. Qed.
Print Assumptions Props.C11.C11_collected_rows_irreflexive.
Goal forall things : list ritem, known_C11 things = None -> acyclic things = true ->
    exists out, topsort things = Ok out /\ Permutation out things /\ topo_ok out = true.
Proof. exact Props.C11.C11_topsort_topological. Qed.
Print Assumptions Props.C11.C11_topsort_topological.
Goal forall out : list ritem, topo_ok out = true <->
    forall o1 a o2 b, out = o1 ++ a :: o2 -> In b o2 -> refers a b = false.
Proof. exact Props.C11.C11_topo_ok_meaning. Qed.
Print Assumptions Props.C11.C11_topo_ok_meaning.
Goal forall things : list ritem, alias_generic_shadows things = false ->
    exists out, topsort things = Ok out /\ Permutation out things.
Proof. exact Props.C11.C11_topsort_total_permutation. Qed.
Print Assumptions Props.C11.C11_topsort_total_permutation.
Goal forall things : list ritem, known_C11 things = None ->
    exists out, topsort things = Ok out /\ good_C11 things out = true.
Proof. exact Props.C11.C11_topsort_good. Qed.
Print Assumptions Props.C11.C11_topsort_good.
Goal forall g : graph, toposort_impl g = toposort_impl (Proofs.C11Link.clean g).
Proof. exact Props.C11.C11_toposort_impl_ignores_self_started_rows. Qed.
Print Assumptions Props.C11.C11_toposort_impl_ignores_self_started_rows.
Goal Proofs.C11Link.c11_refutes "C11-generic-param-shadow"
    [w_struct "A" ["T"] [w_s "T"; w_s "B"]; w_struct "B" [] []; w_struct "T" [] [RGeneric (lit "A") [RPrim PU8]]].
Proof. exact Props.C11.C11_generic_param_shadow_refuted. Qed.
Print Assumptions Props.C11.C11_generic_param_shadow_refuted.
Goal Proofs.C11Link.c11_refutes "C11-alias-generic-shadow"
    [w_alias "A" ["T"] (RVec (w_s "T")); w_struct "T" [] [RGeneric (lit "A") [RPrim PU8]]].
Proof. exact Props.C11.C11_alias_generic_shadow_refuted. Qed.
Print Assumptions Props.C11.C11_alias_generic_shadow_refuted.
Goal Proofs.C11Link.c11_refutes "C11-duplicate-names"
    [w_struct "A" [] [w_s "X"]; w_struct "X" [] []; w_const "X" (RPrim PU32)].
Proof. exact Props.C11.C11_duplicate_names_refuted. Qed.
Print Assumptions Props.C11.C11_duplicate_names_refuted.
Goal Proofs.C11Link.c11_pinned_ok [w_enum "E" [VAnon [w_field (w_s "B")] w_vsh]; w_struct "B" [] []].
Proof. exact Props.C11.C11_variant_fields_fixed. Qed.
Print Assumptions Props.C11.C11_variant_fields_fixed.
Goal Proofs.C11Link.c11_pinned_ok [w_enum "E" [VTuple (w_s "B") w_vsh]; w_struct "B" [] []].
Proof. exact Props.C11.C11_enum_self_edge_fixed. Qed.
Print Assumptions Props.C11.C11_enum_self_edge_fixed.
Goal Proofs.C11Link.c11_pinned_ok
    [w_enum "A" [VTuple (w_s "B") w_vsh]; w_enum "B" [VAnon [w_field (RVec (w_s "C"))] w_vsh; VUnit w_vsh];
     w_struct "C" [] []].
Proof. exact Props.C11.C11_enum_chain_fixed. Qed.
Print Assumptions Props.C11.C11_enum_chain_fixed.
Goal Proofs.C11Link.c11_pinned_as
    [w_struct "A" [] [RGeneric (lit "Unknown") [w_s "B"]]; w_struct "B" [] []] ["B"; "A"].
Proof. exact Props.C11.C11_generic_arg_depth_fixed. Qed.
Print Assumptions Props.C11.C11_generic_arg_depth_fixed.
Goal Proofs.C11Link.c11_pinned_as
    [w_struct "Foo" ["T"] [RGeneric (lit "Foo") [w_s "Zed"]]; w_struct "Zed" [] []] ["Zed"; "Foo"].
Proof. exact Props.C11.C11_generic_arg_depth_own_name_fixed. Qed.
Print Assumptions Props.C11.C11_generic_arg_depth_own_name_fixed.
Goal Proofs.C11Link.c11_pinned_as
    [w_struct "A" [] [RGeneric (lit "G") [RVec (w_s "B")];
                      ROption (RGeneric (lit "G") [RGeneric (lit "G") [RHashMap (RPrim PString) (w_s "C")]])];
     w_struct "B" [] []; w_struct "C" [] []; w_struct "G" ["T"] [w_s "T"]]
    ["G"; "B"; "C"; "A"].
Proof. exact Props.C11.C11_generic_arg_depth_nested_fixed. Qed.
Print Assumptions Props.C11.C11_generic_arg_depth_nested_fixed.
Goal Proofs.C11Link.c11_pinned_as
    [w_struct "A" [] [RGeneric (lit "G") [RVec (RPrim PU8)]; w_s "B"]; w_struct "B" [] [];
     w_struct "G" ["T"] [w_s "T"]; w_struct "Vec" [] [w_s "A"]]
    ["G"; "B"; "A"; "Vec"].
Proof. exact Props.C11.C11_special_id_collision_fixed. Qed.
Print Assumptions Props.C11.C11_special_id_collision_fixed.
Goal forall a b : ritem, edge_visible a b = true -> same_item a b = false -> refers a b = false ->
    mem_str (original (item_id b)) (item_generics a) = true.
Proof. exact Props.C11.C11_phantom_edge_is_param_shadow. Qed.
Print Assumptions Props.C11.C11_phantom_edge_is_param_shadow.
Goal forall a b : ritem, refers a b = true -> edge_visible a b = false ->
    mem_str (original (item_id b)) (mentions a) = true ->
    exists sh, a = ItEnum (EUnit sh) /\ flat_map variant_types (evariants sh) <> [].
Proof. exact Props.C11.C11_unrecorded_original_reference_is_unit_enum. Qed.
Print Assumptions Props.C11.C11_unrecorded_original_reference_is_unit_enum.
Goal Proofs.C11Link.c11_refutes "C11-unit-enum-payload"
    [ItEnum (EUnit {| eid := Proofs.C11Link.w_id "U"; egenerics := []; ecomments := []; evariants := [VTuple (w_s "B") w_vsh];
                      edecs := []; erecursive := false; eredacted := false |}); w_struct "B" [] []].
Proof. exact Props.C11.C11_unit_enum_payload_outside_domain. Qed.
Print Assumptions Props.C11.C11_unit_enum_payload_outside_domain.
Goal Proofs.C11Link.c11_refutes "C11-renamed"
    [w_alias "A" [] (RVec (w_s "SR"));
     ItStruct {| sid := {| original := lit "S"; renamed := lit "SR"; via_serde_rename := true |}; sgenerics := [];
                 sfields := []; scomments := []; sdecs := []; sredacted := false |}].
Proof. exact Props.C11.C11_renamed_refuted. Qed.
Print Assumptions Props.C11.C11_renamed_refuted.
Goal forall (pd : parsed) (out : list ritem),
    Proofs.C11Multi.sorted_file pd out <->
    topsort (items_of pd) = Ok out /\ Permutation out (items_of pd) /\
    (known_C11 (items_of pd) = None -> acyclic (items_of pd) = true -> topo_ok out = true).
Proof. exact Props.C11.C11_multi_sorted_file_meaning. Qed.
Print Assumptions Props.C11.C11_multi_sorted_file_meaning.
Goal forall (pd : parsed),
    (forall out, topsort (items_of pd) = Ok out -> Proofs.C11Multi.sorted_file pd out) /\
    (known_C11 (items_of pd) = None -> exists out, Proofs.C11Multi.sorted_file pd out).
Proof. exact Props.C11.C11_multi_topsort_gives_sorted_file. Qed.
Print Assumptions Props.C11.C11_multi_topsort_gives_sorted_file.
Goal forall (St A : Type) (f : A -> M St str) (items : list A) (st : St) (parts : list str) (st' : St),
    (Proofs.C11Multi.writes_seq f items st parts st' <-> mmapM f items st = Ok (parts, st')) /\
    (Proofs.C11Multi.writes_seq f items st parts st' -> length parts = length items).
Proof. exact Props.C11.C11_multi_writes_seq_meaning. Qed.
Print Assumptions Props.C11.C11_multi_writes_seq_meaning.
Goal forall (uc : unicode) (cfg : ts_config) (st : ts_state) (im : scoped) (pd : parsed) (text : str) (st' : ts_state),
    ts_generate_multi uc cfg st im pd = Ok (text, st') <->
    exists out parts,
      Proofs.C11Multi.sorted_file pd out /\ Proofs.C11Multi.writes_seq (ts_write_item uc cfg) out st parts st' /\
      text = ts_begin_file cfg ++ ts_write_imports im ++ List.concat parts ++ ts_end_file st'.
Proof. exact Props.C11.C11_multi_ts_definitions_permutation. Qed.
Print Assumptions Props.C11.C11_multi_ts_definitions_permutation.
Goal forall (uc : unicode) (cfg : kt_config) (c : str) (im : scoped) (pd : parsed) (text : str),
    kt_generate_multi uc cfg c im pd = Ok text <->
    exists out parts,
      Proofs.C11Multi.sorted_file pd out /\ Proofs.C11Multi.writes_list (kt_write_item cfg) out parts /\
      text = kt_begin_file_multi cfg c ++ kt_write_imports cfg im ++ List.concat parts.
Proof. exact Props.C11.C11_multi_kt_definitions_permutation. Qed.
Print Assumptions Props.C11.C11_multi_kt_definitions_permutation.
Goal forall (uc : unicode) (cfg : sw_config) (st : sw_state) (pd : parsed) (text : str) (st' : sw_state),
    sw_generate_multi uc cfg st pd = Ok (text, st') <->
    exists out parts,
      Proofs.C11Multi.sorted_file pd out /\ Proofs.C11Multi.writes_seq (sw_write_item uc cfg) out st parts st' /\
      text = sw_begin_file cfg ++ List.concat parts.
Proof. exact Props.C11.C11_multi_sw_definitions_permutation. Qed.
Print Assumptions Props.C11.C11_multi_sw_definitions_permutation.
Goal forall (uc : unicode) (cfg : go_config) (st : go_state) (pd : parsed) (text : str) (st' : go_state),
    go_generate_multi uc cfg st pd = Ok (text, st') <->
    exists out header st1 parts,
      Proofs.C11Multi.sorted_file pd out /\ go_begin_file cfg st = Ok (header, st1) /\
      Proofs.C11Multi.writes_seq (go_write_item uc cfg (go_types_mapping_to_struct out)) out st1 parts st' /\
      text = header ++ go_write_all_imports st' ++ List.concat parts.
Proof. exact Props.C11.C11_multi_go_definitions_permutation. Qed.
Print Assumptions Props.C11.C11_multi_go_definitions_permutation.
Goal forall (uc : unicode) (cfg : py_config) (st : py_state) (pd : parsed) (text : str) (st' : py_state),
    py_generate_multi uc cfg st pd = Ok (text, st') <->
    exists out parts,
      Proofs.C11Multi.sorted_file pd out /\ Proofs.C11Multi.writes_seq (py_write_item uc cfg) out st parts st' /\
      text = py_begin_file cfg ++ py_write_all_imports st' ++ py_write_custom_translations st' ++ List.concat parts.
Proof. exact Props.C11.C11_multi_py_definitions_permutation. Qed.
Print Assumptions Props.C11.C11_multi_py_definitions_permutation.
Goal forall (uc : unicode) (cfg : sc_config) (pd : parsed),
    (forall text,
      sc_generate uc cfg pd = Ok text <->
      exists head als sts ens,
        sc_begin_file cfg = Ok head /\
        Proofs.C11Multi.writes_list (sc_write_item cfg) (map ItAlias (p_aliases pd)) als /\
        Proofs.C11Multi.writes_list (sc_write_item cfg) (map ItStruct (p_structs pd)) sts /\
        Proofs.C11Multi.writes_list (sc_write_item cfg) (map ItEnum (p_enums pd)) ens /\
        text = head ++
               (if sc_unsigned_integer_used pd || negb (sc_is_empty (p_aliases pd))
                then sc_begin_package_object cfg ++
                     (if sc_unsigned_integer_used pd then sc_render_decl sc_unsigned_aliases else []) ++
                     List.concat als ++ sc_end_package_object cfg
                else []) ++
               (if negb (sc_is_empty (p_structs pd)) || negb (sc_is_empty (p_enums pd))
                then sc_begin_package cfg ++ List.concat sts ++ List.concat ens ++ sc_end_package cfg
                else [])) /\
    items_of pd = Proofs.C11Multi.sc_written_items pd ++ map ItConst (p_consts pd) /\
    (p_consts pd = [] -> Permutation (Proofs.C11Multi.sc_written_items pd) (items_of pd)).
Proof. exact Props.C11.C11_multi_sc_definitions_permutation. Qed.
Print Assumptions Props.C11.C11_multi_sc_definitions_permutation.
Goal forall uc : unicode,
  (forall cfg, Proofs.C11Multi.sorts_items (fun st (_ : str) im pd => ts_generate_multi uc cfg st im pd)) /\
  (forall cfg, Proofs.C11Multi.sorts_items (fun (st : unit) c im pd => match kt_generate_multi uc cfg c im pd with
                                                       | Ok text => Ok (text, st) | Err e => Err e | Panic s => Panic s end)) /\
  (forall cfg, Proofs.C11Multi.sorts_items (fun st (_ : str) (_ : scoped) pd => sw_generate_multi uc cfg st pd)) /\
  (forall cfg, Proofs.C11Multi.sorts_items (fun st (_ : str) (_ : scoped) pd => go_generate_multi uc cfg st pd)) /\
  (forall cfg, Proofs.C11Multi.sorts_items (fun st (_ : str) (_ : scoped) pd => py_generate_multi uc cfg st pd)).
Proof. exact Props.C11.C11_multi_generators_sort. Qed.
Print Assumptions Props.C11.C11_multi_generators_sort.
Goal forall (uc : unicode) (T ign : list str) (ho_file ho_crate : list imported -> list imported)
         (hc : crate_types -> crate_types) (l : lang) (ws : list ws_entry) (arrivals : list (str * parsed)),
    parse_workspace uc T ign ho_file ws = Ok arrivals ->
    let plan := multi_plan l hc (multi_crates ho_crate arrivals) in
    NoDup (map op_crate plan) /\
    (forall p out, In p plan -> topsort (items_of (op_data p)) = Ok out ->
       Proofs.C11Multi.sorted_file (op_data p) out /\
       Permutation (map c14_decl out) (map c14_decl (crate_items (Proofs.C14Main.c14_infos uc T ws) (op_crate p)))) /\
    (forall singles outs, parse_workspace_single uc T (crate_entries ws) = Ok singles ->
       Forall2 (fun p out => topsort (items_of (op_data p)) = Ok out) plan outs ->
       Permutation (map c14_decl (List.concat outs)) (map c14_decl (items_of (single_file_input singles)))) /\
    (forall (St : Type) (gen : St -> str -> scoped -> parsed -> outcome (str * St)) (st : St) files fin,
       generate_crates gen st plan = (files, fin) ->
       map fst files = firstn (length files) (map op_file plan) /\
       (exists states : list St,
          nth_error states 0 = Some st /\
          (forall i fname text, nth_error files i = Some (fname, Writer.Generated text) ->
             exists p st_i st_i',
               nth_error plan i = Some p /\ fname = op_file p /\
               nth_error states i = Some st_i /\ nth_error states (S i) = Some st_i' /\
               gen st_i (op_crate p) (op_imports p) (op_data p) = Ok (text, st_i')) /\
          (forall i fname, nth_error files i = Some (fname, Writer.GenFailed) ->
             S i = length files /\ forall st', fin <> Ok st') /\
          (forall st', fin = Ok st' -> length files = length plan /\ nth_error states (length plan) = Some st')) /\
       (Proofs.C11Multi.sorts_items gen -> forall st', fin = Ok st' ->
          exists outs, Forall2 (fun p out => Proofs.C11Multi.sorted_file (op_data p) out) plan outs)).
Proof. exact Props.C11.C11_multi_workspace. Qed.
Print Assumptions Props.C11.C11_multi_workspace.
Goal exists arrivals pd_alpha,
    parse_workspace uc_exec [] [] (fun l => l) Proofs.C11MultiWitness.ws_order = Ok arrivals /\
    Proofs.C14.crates_get (multi_crates Proofs.C14Witness.idl arrivals) (lit "alpha") = Some pd_alpha /\
    Proofs.C11MultiWitness.x_names (items_of pd_alpha) = [lit "Ids"; lit "Item"; lit "Kind"] /\
    known_C11 (items_of pd_alpha) = None /\ acyclic (items_of pd_alpha) = true /\ topo_ok (items_of pd_alpha) = false /\
    generate_crates Proofs.C06MultiWitness.m_ts_gen [] (multi_plan TypeScript Proofs.C14Witness.idl (multi_crates Proofs.C14Witness.idl arrivals)) =
      ([(lit "alpha.ts", Writer.Generated Proofs.C11MultiWitness.x_alpha_ts);
        (lit "beta.ts", Writer.Generated Proofs.C11MultiWitness.x_beta_ts)], Ok []) /\
    Proofs.C11MultiWitness.ts_unsorted_multi uc_exec Proofs.C06MultiWitness.m_ts_cfg [] [] pd_alpha =
      Ok (Proofs.C11MultiWitness.x_alpha_ts_unsorted, []) /\
    Proofs.C11MultiWitness.x_alpha_ts_unsorted <> Proofs.C11MultiWitness.x_alpha_ts.
Proof. exact Props.C11.C11_multi_ts_sort_regression. Qed.
Print Assumptions Props.C11.C11_multi_ts_sort_regression.
Goal exists arrivals singles,
    parse_workspace uc_exec [] [] (fun l => l) Proofs.C11MultiWitness.ws_order = Ok arrivals /\
    parse_workspace_single uc_exec [] (crate_entries Proofs.C11MultiWitness.ws_order) = Ok singles /\
    Proofs.C14Front.oracle_ok (@Proofs.C14Witness.idl imported) /\ Proofs.C14Front.oracle_ok (@Proofs.C14Witness.idl (str * list str)) /\
    map op_crate (multi_plan TypeScript Proofs.C14Witness.idl (multi_crates Proofs.C14Witness.idl arrivals)) = [lit "alpha"; lit "beta"] /\
    Proofs.C11MultiWitness.x_sorted_names (multi_plan TypeScript Proofs.C14Witness.idl (multi_crates Proofs.C14Witness.idl arrivals)) =
      [Some [lit "Kind"; lit "Item"; lit "Ids"]; Some [lit "Holder"]] /\
    Proofs.C11MultiWitness.x_names (items_of (single_file_input singles)) = [lit "Ids"; lit "Holder"; lit "Item"; lit "Kind"] /\
    Proofs.C11MultiWitness.x_ok (generate_crates Proofs.C06MultiWitness.m_ts_gen [] (multi_plan TypeScript Proofs.C14Witness.idl (multi_crates Proofs.C14Witness.idl arrivals))) = ([lit "alpha.ts"; lit "beta.ts"], true) /\
    Proofs.C11MultiWitness.x_ok (generate_crates Proofs.C11MultiWitness.x_kt_gen tt (multi_plan Kotlin Proofs.C14Witness.idl (multi_crates Proofs.C14Witness.idl arrivals))) = ([lit "alpha.kt"; lit "beta.kt"], true) /\
    Proofs.C11MultiWitness.x_ok (generate_crates Proofs.C11MultiWitness.x_sw_gen false (multi_plan Swift Proofs.C14Witness.idl (multi_crates Proofs.C14Witness.idl arrivals))) = ([lit "Alpha.swift"; lit "Beta.swift"], true) /\
    Proofs.C11MultiWitness.x_ok (generate_crates Proofs.C11MultiWitness.x_go_gen [] (multi_plan Go Proofs.C14Witness.idl (multi_crates Proofs.C14Witness.idl arrivals))) = ([lit "alpha.go"; lit "beta.go"], true) /\
    Proofs.C11MultiWitness.x_ok (generate_crates Proofs.C11MultiWitness.x_py_gen py_empty_state (multi_plan Python Proofs.C14Witness.idl (multi_crates Proofs.C14Witness.idl arrivals))) = ([lit "alpha.py"; lit "beta.py"], true) /\
    Proofs.C11MultiWitness.x_ok (generate_crates Proofs.C11MultiWitness.x_sc_gen tt (multi_plan Scala Proofs.C14Witness.idl (multi_crates Proofs.C14Witness.idl arrivals))) = ([lit "alpha.scala"; lit "beta.scala"], true).
Proof. exact Props.C11.C11_multi_workspace_nonvacuous. Qed.
Print Assumptions Props.C11.C11_multi_workspace_nonvacuous.
Goal exists arrivals pd_alpha,
    parse_workspace uc_exec [] [] (fun l => l) Proofs.C11MultiWitness.ws_order = Ok arrivals /\
    Proofs.C14.crates_get (multi_crates Proofs.C14Witness.idl arrivals) (lit "alpha") = Some pd_alpha /\
    Proofs.C11MultiWitness.x_names (Proofs.C11Multi.sc_written_items pd_alpha) = [lit "Ids"; lit "Item"; lit "Kind"] /\
    sc_generate uc_exec Proofs.C02_Witness.c02_w_sc_cfg pd_alpha =
      Ok (Proofs.C11MultiWitness.ln "package a" ++ nl ++ Proofs.C11MultiWitness.ln "package object p {" ++ nl ++
          Proofs.C11MultiWitness.x_sc_ids ++ Proofs.C11MultiWitness.ln "}" ++
          Proofs.C11MultiWitness.ln "package p {" ++ nl ++ Proofs.C11MultiWitness.x_sc_item ++ Proofs.C11MultiWitness.x_sc_kind ++
          Proofs.C11MultiWitness.ln "}").
Proof. exact Props.C11.C11_multi_scala_list_order_example. Qed.
Print Assumptions Props.C11.C11_multi_scala_list_order_example.
