(* Pinned statements for C11: compiled on every check run. A statement weakened in Props/ fails here. *)
From Coq Require Import List Arith Permutation String.
From TS Require Import Model.Str Model.Outcome Model.Types Model.TopsortAlgo Model.Topsort Spec.C11Spec.
From TS Require Proofs.ToposortPerm Proofs.SortByIndices Proofs.C11 Proofs.C11Link.
Import ListNotations.
Local Notation length := List.length (only parsing).
Local Open Scope nat_scope.
Local Open Scope string_scope.
Local Open Scope list_scope.
Local Notation w_struct := Proofs.C11Link.w_struct.
Local Notation w_alias := Proofs.C11Link.w_alias.
Local Notation w_const := Proofs.C11Link.w_const.
Local Notation w_enum := Proofs.C11Link.w_enum.
Local Notation w_field := Proofs.C11Link.w_field.
Local Notation w_vsh := Proofs.C11Link.w_vsh.
Local Notation w_s := Proofs.C11Link.w_s.
From TS Require Props.C11.

Goal forall g : graph, Forall (Forall (fun x => x < length g)) g ->
    exists r, toposort_impl g = Ok r /\ Permutation r (seq 0 (length g)).
Proof. exact Props.C11.C11_toposort_impl_permutation. Qed.
Print Assumptions Props.C11.C11_toposort_impl_permutation.
Goal forall (g : graph), Forall (Forall (fun x => x < length g)) g ->
  forall rank : nat -> nat,
    (forall i deps d, nth_error g i = Some deps -> In d deps -> rank d < rank i) ->
    exists r, toposort_impl g = Ok r /\ Permutation r (seq 0 (length g)) /\
      (forall r1 x r2 deps, r = r1 ++ x :: r2 -> nth_error g x = Some deps -> incl deps r1).
Proof. exact Props.C11.C11_toposort_impl_topological. Qed.
Print Assumptions Props.C11.C11_toposort_impl_topological.
Goal forall (A : Type) (d : A) (data : list A) (ind : list nat),
    Permutation ind (seq 0 (length data)) ->
    sort_by_indices data ind = Ok (map (fun j => nth j data d) ind).
Proof. exact Props.C11.C11_sort_by_indices. Qed.
Print Assumptions Props.C11.C11_sort_by_indices.
Goal forall (things : list ritem) (dag : list (list nat)), build_dag things = Ok dag ->
    exists out, topsort things = Ok out /\ Permutation out things.
Proof. exact Props.C11.C11_topsort_permutation. Qed.
Print Assumptions Props.C11.C11_topsort_permutation.
Goal forall (things : list ritem) (dag : list (list nat)) (d : ritem) (rank : nat -> nat),
    build_dag things = Ok dag ->
    (forall i deps x, nth_error dag i = Some deps -> In x deps -> rank x < rank i) ->
    exists r, topsort things = Ok (map (fun j => nth j things d) r) /\
              Permutation r (seq 0 (length things)) /\
              (forall r1 x r2 deps, r = r1 ++ x :: r2 -> nth_error dag x = Some deps -> incl deps r1).
Proof. exact Props.C11.C11_topsort_respects_collected_graph_partial. Qed.
Print Assumptions Props.C11.C11_topsort_respects_collected_graph_partial.
Goal forall things : list ritem, known_C11 things = None ->
    exists dag, build_dag things = Ok dag /\
      forall i a row, nth_error things i = Some a -> nth_error dag i = Some row ->
        forall j b, nth_error things j = Some b -> (In j row <-> refers a b = true).
Proof. exact Props.C11.C11_collected_graph_is_reference_graph. Qed.
Print Assumptions Props.C11.C11_collected_graph_is_reference_graph.
Goal forall things : list ritem, alias_generic_shadows things = false -> has_dup_names things = false ->
    exists dag, build_dag things = Ok dag /\
      forall i row, nth_error dag i = Some row -> ~ In i row.
Proof. exact Props.C11.C11_collected_rows_irreflexive. Qed.
Print Assumptions Props.C11.C11_collected_rows_irreflexive.
Goal forall things : list ritem, known_C11 things = None -> acyclic things = true ->
    exists out, topsort things = Ok out /\ Permutation out things /\ topo_ok out = true.
Proof. exact Props.C11.C11_topsort_topological. Qed.
Print Assumptions Props.C11.C11_topsort_topological.
Goal forall out : list ritem, topo_ok out = true <->
    forall o1 a o2 b, out = o1 ++ a :: o2 -> In b o2 -> refers a b = false.
Proof. exact Props.C11.C11_topo_ok_meaning. Qed.
Print Assumptions Props.C11.C11_topo_ok_meaning.
Goal forall things : list ritem, alias_generic_shadows things = false ->
    exists out, topsort things = Ok out /\ Permutation out things.
Proof. exact Props.C11.C11_topsort_total_permutation. Qed.
Print Assumptions Props.C11.C11_topsort_total_permutation.
Goal forall things : list ritem, known_C11 things = None ->
    exists out, topsort things = Ok out /\ good_C11 things out = true.
Proof. exact Props.C11.C11_topsort_good. Qed.
Print Assumptions Props.C11.C11_topsort_good.
Goal forall g : graph, toposort_impl g = toposort_impl (Proofs.C11Link.clean g).
Proof. exact Props.C11.C11_toposort_impl_ignores_self_started_rows. Qed.
Print Assumptions Props.C11.C11_toposort_impl_ignores_self_started_rows.
Goal Proofs.C11Link.c11_refutes "C11-generic-param-shadow"
    [w_struct "A" ["T"] [w_s "T"; w_s "B"]; w_struct "B" [] []; w_struct "T" [] [RGeneric (lit "A") [RPrim PU8]]].
Proof. exact Props.C11.C11_generic_param_shadow_refuted. Qed.
Print Assumptions Props.C11.C11_generic_param_shadow_refuted.
Goal Proofs.C11Link.c11_refutes "C11-special-id-collision"
    [w_struct "A" [] [RGeneric (lit "G") [RVec (RPrim PU8)]; w_s "B"]; w_struct "B" [] [];
     w_struct "G" ["T"] [w_s "T"]; w_struct "Vec" [] [w_s "A"]].
Proof. exact Props.C11.C11_special_id_collision_refuted. Qed.
Print Assumptions Props.C11.C11_special_id_collision_refuted.
Goal Proofs.C11Link.c11_refutes "C11-alias-generic-shadow"
    [w_alias "A" ["T"] (RVec (w_s "T")); w_struct "T" [] [RGeneric (lit "A") [RPrim PU8]]].
Proof. exact Props.C11.C11_alias_generic_shadow_refuted. Qed.
Print Assumptions Props.C11.C11_alias_generic_shadow_refuted.
Goal Proofs.C11Link.c11_refutes "C11-duplicate-names"
    [w_struct "A" [] [w_s "X"]; w_struct "X" [] []; w_const "X" (RPrim PU32)].
Proof. exact Props.C11.C11_duplicate_names_refuted. Qed.
Print Assumptions Props.C11.C11_duplicate_names_refuted.
Goal Proofs.C11Link.c11_pinned_ok [w_enum "E" [VAnon [w_field (w_s "B")] w_vsh]; w_struct "B" [] []].
Proof. exact Props.C11.C11_variant_fields_fixed. Qed.
Print Assumptions Props.C11.C11_variant_fields_fixed.
Goal Proofs.C11Link.c11_pinned_ok [w_enum "E" [VTuple (w_s "B") w_vsh]; w_struct "B" [] []].
Proof. exact Props.C11.C11_enum_self_edge_fixed. Qed.
Print Assumptions Props.C11.C11_enum_self_edge_fixed.
Goal Proofs.C11Link.c11_pinned_ok
    [w_enum "A" [VTuple (w_s "B") w_vsh]; w_enum "B" [VAnon [w_field (RVec (w_s "C"))] w_vsh; VUnit w_vsh];
     w_struct "C" [] []].
Proof. exact Props.C11.C11_enum_chain_fixed. Qed.
Print Assumptions Props.C11.C11_enum_chain_fixed.
Goal Proofs.C11Link.c11_refutes "C11-generic-arg-depth"
    [w_struct "A" [] [RGeneric (lit "Unknown") [w_s "B"]]; w_struct "B" [] []].
Proof. exact Props.C11.C11_generic_arg_depth_refuted. Qed.
Print Assumptions Props.C11.C11_generic_arg_depth_refuted.
Goal Proofs.C11Link.c11_refutes "C11-generic-arg-depth"
    [w_struct "Foo" ["T"] [RGeneric (lit "Foo") [w_s "Zed"]]; w_struct "Zed" [] []].
Proof. exact Props.C11.C11_generic_arg_depth_own_name_refuted. Qed.
Print Assumptions Props.C11.C11_generic_arg_depth_own_name_refuted.
Goal Proofs.C11Link.c11_refutes "C11-renamed"
    [w_alias "A" [] (RVec (w_s "SR"));
     ItStruct {| sid := {| original := lit "S"; renamed := lit "SR"; via_serde_rename := true |}; sgenerics := [];
                 sfields := []; scomments := []; sdecs := []; sredacted := false |}].
Proof. exact Props.C11.C11_renamed_refuted. Qed.
Print Assumptions Props.C11.C11_renamed_refuted.
