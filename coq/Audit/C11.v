(* Pinned statements for C11: compiled on every check run. A statement weakened in Props/ fails here. *)
From Coq Require Import List Arith Permutation.
From TS Require Import Model.Str Model.Outcome Model.Types Model.TopsortAlgo Model.Topsort.
From TS Require Proofs.ToposortPerm Proofs.SortByIndices Proofs.C11.
Import ListNotations.
Local Notation length := List.length (only parsing).
Local Open Scope nat_scope.
From TS Require Props.C11.

Goal forall g : graph, Forall (Forall (fun x => x < length g)) g ->
    exists r, toposort_impl g = Ok r /\ Permutation r (seq 0 (length g)).
Proof. exact Props.C11.C11_toposort_impl_permutation. Qed.
Print Assumptions Props.C11.C11_toposort_impl_permutation.
Goal forall (g : graph), Forall (Forall (fun x => x < length g)) g ->
  forall rank : nat -> nat,
    (forall i deps d, nth_error g i = Some deps -> In d deps -> rank d < rank i) ->
    exists r, toposort_impl g = Ok r /\ Permutation r (seq 0 (length g)) /\
      (forall r1 x r2 deps, r = r1 ++ x :: r2 -> nth_error g x = Some deps -> incl deps r1).
Proof. exact Props.C11.C11_toposort_impl_topological. Qed.
Print Assumptions Props.C11.C11_toposort_impl_topological.
Goal forall (A : Type) (d : A) (data : list A) (ind : list nat),
    Permutation ind (seq 0 (length data)) ->
    sort_by_indices data ind = Ok (map (fun j => nth j data d) ind).
Proof. exact Props.C11.C11_sort_by_indices. Qed.
Print Assumptions Props.C11.C11_sort_by_indices.
Goal forall (things : list ritem) (dag : list (list nat)), build_dag things = Ok dag ->
    exists out, topsort things = Ok out /\ Permutation out things.
Proof. exact Props.C11.C11_topsort_permutation. Qed.
Print Assumptions Props.C11.C11_topsort_permutation.
Goal forall (things : list ritem) (dag : list (list nat)) (d : ritem) (rank : nat -> nat),
    build_dag things = Ok dag ->
    (forall i deps x, nth_error dag i = Some deps -> In x deps -> rank x < rank i) ->
    exists r, topsort things = Ok (map (fun j => nth j things d) r) /\
              Permutation r (seq 0 (length things)) /\
              (forall r1 x r2 deps, r = r1 ++ x :: r2 -> nth_error dag x = Some deps -> incl deps r1).
Proof. exact Props.C11.C11_topsort_respects_collected_graph_partial. Qed.
Print Assumptions Props.C11.C11_topsort_respects_collected_graph_partial.
