(* Pinned statements for C10: compiled on every check run. A statement weakened in Props/ fails here. *)
From Coq Require Import String.
From TS Require Import Model.Str Model.Outcome Model.Unicode Model.Types Model.Parse Model.Lang.Common Model.Lang.Decl Model.Lang.TypeScript.
From TS Require Import Spec.C10Spec.
From TS Require Proofs.C10Lex Proofs.C10_TS.
From TS Require Props.C10.

Goal forall (cfg : c10_lexcfg) (t : str), c10_balanced cfg t = true ->
  forall st, c10_lex_run cfg (C10LCode, st) t = (C10LCode, st).
Proof. exact Props.C10.C10_balanced_text_is_neutral. Qed.
Print Assumptions Props.C10.C10_balanced_text_is_neutral.
Goal forall (cfg : c10_lexcfg) (s : str), c10_lc_triple cfg = false ->
  forall st, c10_lex_run cfg (C10LCode, st) (debug_str s) = (C10LCode, st).
Proof. exact Props.C10.C10_debug_string_closed. Qed.
Print Assumptions Props.C10.C10_debug_string_closed.
Goal forall (cfg : c10_lexcfg) (s : str), s <> [] ->
  forall st, c10_lex_run cfg (C10LCode, st) (debug_str s) = (C10LCode, st).
Proof. exact Props.C10.C10_debug_string_closed_nonempty. Qed.
Print Assumptions Props.C10.C10_debug_string_closed_nonempty.
Goal forall d : ts_decl, Proofs.C10_TS.c10_ts_decl_ok d = true ->
  forall st, c10_lex_run c10_lex_ts (C10LCode, st) (ts_render_decl d) = (C10LCode, st).
Proof. exact Props.C10.C10_ts_layout_balanced. Qed.
Print Assumptions Props.C10.C10_ts_layout_balanced.
