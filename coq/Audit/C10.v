(* Pinned statements for C10: compiled on every check run. A statement weakened in Props/ fails here. *)
From Coq Require Import String.
From TS Require Import Model.Str Model.Outcome Model.Unicode Model.Types Model.Parse Model.Lang.Common Model.Lang.Decl
                       Model.Lang.TypeScript Model.Lang.Kotlin Model.Lang.Swift Model.Lang.Scala Model.Lang.Go Model.Lang.Python.
From TS Require Import Spec.C10Spec.
From TS Require Proofs.C10Lex Proofs.C10_TS Proofs.C10_TSFile Proofs.C10_KT Proofs.C10_SC Proofs.C10_GO Proofs.C10_GOFile
                Proofs.C10_SW Proofs.C10_SWFile Proofs.C10_PY Proofs.C10_PYFile Proofs.C10_KW Proofs.C10.
From TS Require Import Spec.C10PyKeys.
From TS Require Proofs.C10_PYKeys.
From TS Require Import Spec.C10TsGrammar.
From TS Require Proofs.C10_TSGrammarTok Proofs.C10_TSGrammarParse Proofs.C10_TSGrammar Proofs.C10_TSGrammarFile.
From TS Require Import Spec.C10KtGrammar.
From TS Require Proofs.C10_KTGrammarTok Proofs.C10_KTGrammarParse Proofs.C10_KTGrammar Proofs.C10_KTGrammarFile Proofs.C10_KTGrammarMulti.
From TS Require Import Model.MultiFile Spec.C10MultiSpec.
From TS Require Model.Writer Proofs.C10Multi Proofs.C10MultiWitness.
From TS Require Import Spec.C10GoGrammar.
From TS Require Proofs.C10_GOGrammarTok Proofs.C10_GOGrammarSemi Proofs.C10_GOGrammarParse Proofs.C10_GOGrammar Proofs.C10_GOGrammarFile.
From TS Require Import Spec.C10SwGrammar.
From TS Require Proofs.C10_SWGrammarTok Proofs.C10_SWGrammarParse Proofs.C10_SWGrammarDecl Proofs.C10_SWGrammar Proofs.C10_SWGrammarFile.
From TS Require Import Spec.C10ScGrammar.
From TS Require Proofs.C10_SCGrammarTok Proofs.C10_SCGrammarParse Proofs.C10_SCGrammar Proofs.C10_SCGrammarFile.
From TS Require Proofs.C10_GOGrammarTagged Proofs.C10_GOGrammarIR Proofs.C10_GOGrammarIR2.
From TS Require Props.C10.

Goal forall (cfg : c10_lexcfg) (t : str), c10_balanced cfg t = true ->
  forall st, c10_lex_run cfg (C10LCode, st) t = (C10LCode, st).
Proof. exact Props.C10.C10_balanced_text_is_neutral. Qed.
Print Assumptions Props.C10.C10_balanced_text_is_neutral.
Goal forall (cfg : c10_lexcfg) (s : str), c10_lc_triple cfg = false ->
  forall st, c10_lex_run cfg (C10LCode, st) (debug_str s) = (C10LCode, st).
Proof. exact Props.C10.C10_debug_string_closed. Qed.
Print Assumptions Props.C10.C10_debug_string_closed.
Goal forall (cfg : c10_lexcfg) (s : str), s <> [] ->
  forall st, c10_lex_run cfg (C10LCode, st) (debug_str s) = (C10LCode, st).
Proof. exact Props.C10.C10_debug_string_closed_nonempty. Qed.
Print Assumptions Props.C10.C10_debug_string_closed_nonempty.
Goal forall (uc : unicode) (cfg : ts_config) (pd : parsed) (text : str),
    unicode_ok uc -> Proofs.C10_TSFile.c10_ts_cfg_ok cfg = true -> dom_C10 CTS pd = true ->
    ts_generate uc cfg pd = Ok text -> good_C10_lex CTS text = true.
Proof. exact Props.C10.C10_lex_typescript. Qed.
Print Assumptions Props.C10.C10_lex_typescript.
Goal forall (uc : unicode) (cfg : kt_config) (pd : parsed) (text : str),
    Proofs.C10_KT.c10_kt_cfg_ok cfg = true -> dom_C10 CKT pd = true ->
    kt_generate uc cfg pd = Ok text -> good_C10_lex CKT text = true.
Proof. exact Props.C10.C10_lex_kotlin. Qed.
Print Assumptions Props.C10.C10_lex_kotlin.
Goal forall (uc : unicode) (cfg : sc_config) (pd : parsed) (text : str),
    Proofs.C10_SC.c10_sc_cfg_ok cfg = true -> dom_C10 CSC pd = true ->
    sc_generate uc cfg pd = Ok text -> good_C10_lex CSC text = true.
Proof. exact Props.C10.C10_lex_scala. Qed.
Print Assumptions Props.C10.C10_lex_scala.
Goal forall (uc : unicode) (cfg : go_config) (pd : parsed) (text : str),
    unicode_ok uc -> Proofs.C10_GOFile.c10_go_cfg_ok cfg = true -> dom_C10 CGO pd = true ->
    go_generate uc cfg pd = Ok text -> good_C10_lex CGO text = true.
Proof. exact Props.C10.C10_lex_go. Qed.
Print Assumptions Props.C10.C10_lex_go.
Goal forall (uc : unicode) (cfg : sw_config) (pd : parsed) (text : str),
    Proofs.C10_SWFile.c10_sw_cfg_ok cfg = true -> dom_C10 CSW pd = true ->
    sw_generate uc cfg pd = Ok text -> good_C10_lex CSW text = true.
Proof. exact Props.C10.C10_lex_swift. Qed.
Print Assumptions Props.C10.C10_lex_swift.
Goal forall (uc : unicode) (cfg : py_config) (pd : parsed) (text : str),
    unicode_ok uc -> Proofs.C10_PYFile.c10_py_cfg_ok cfg = true -> dom_C10 CPY pd = true ->
    py_generate uc cfg pd = Ok text -> good_C10_lex CPY text = true.
Proof. exact Props.C10.C10_lex_python. Qed.
Print Assumptions Props.C10.C10_lex_python.
Goal forall d : ts_decl, Proofs.C10_TS.c10_ts_decl_ok d = true ->
  forall st, c10_lex_run c10_lex_ts (C10LCode, st) (ts_render_decl d) = (C10LCode, st).
Proof. exact Props.C10.C10_ts_layout_balanced. Qed.
Print Assumptions Props.C10.C10_ts_layout_balanced.
Goal forall d : kt_decl, Proofs.C10_KT.c10_kt_decl_ok d = true ->
  forall st, c10_lex_run c10_lex_kt (C10LCode, st) (kt_render_decl d) = (C10LCode, st).
Proof. exact Props.C10.C10_kotlin_layout_balanced. Qed.
Print Assumptions Props.C10.C10_kotlin_layout_balanced.
Goal forall d : sc_decl, Proofs.C10_SC.c10_sc_decl_ok d = true ->
  forall st, c10_lex_run c10_lex_sc (C10LCode, st) (sc_render_decl d) = (C10LCode, st).
Proof. exact Props.C10.C10_scala_layout_balanced. Qed.
Print Assumptions Props.C10.C10_scala_layout_balanced.
Goal forall d : go_decl, Proofs.C10_GO.c10_go_decl_ok d = true ->
  forall st, c10_lex_run c10_lex_go (C10LCode, st) (go_render_decl d) = (C10LCode, st).
Proof. exact Props.C10.C10_go_layout_balanced. Qed.
Print Assumptions Props.C10.C10_go_layout_balanced.
Goal forall d : sw_decl, Proofs.C10_SW.c10_sw_decl_ok d = true ->
  forall st, c10_lex_run c10_lex_sw (C10LCode, st) (sw_render_decl d) = (C10LCode, st).
Proof. exact Props.C10.C10_swift_layout_balanced. Qed.
Print Assumptions Props.C10.C10_swift_layout_balanced.
Goal forall d : py_decl, Proofs.C10_PY.c10_py_decl_ok d = true ->
  forall st, c10_lex_run c10_lex_py (C10LCode, st) (py_render_decl d) = (C10LCode, st).
Proof. exact Props.C10.C10_python_layout_balanced. Qed.
Print Assumptions Props.C10.C10_python_layout_balanced.
Goal forall (uc : unicode) (cfg : sw_config) (pd : parsed) (fd : file_decls),
    sw_file_decls uc cfg pd = Ok fd -> good_C10_kw CSW (fd_decls fd) = true.
Proof. exact Props.C10.C10_kw_swift. Qed.
Print Assumptions Props.C10.C10_kw_swift.
Goal forall (uc : unicode) (cfg : py_config) (pd : parsed) (fd : file_decls),
    py_file_decls uc cfg pd = Ok fd -> good_C10_kw CPY (fd_decls fd) = true.
Proof. exact Props.C10.C10_kw_python. Qed.
Print Assumptions Props.C10.C10_kw_python.
Goal Proofs.C10_SC.c10_sc_cfg_ok Proofs.C10.w_brace_cfg = true /\ contains_char sc_ch_dot (sc_package Proofs.C10.w_brace_cfg) = false /\
  dom_C10 CSC Proofs.C10.w_brace_pd = true /\ c10_has_items Proofs.C10.w_brace_pd = true /\
  known_C10 CSC (sc_package Proofs.C10.w_brace_cfg) Proofs.C10.w_brace_pd = [] /\
  sc_generate uc_exec Proofs.C10.w_brace_cfg Proofs.C10.w_brace_pd = Ok Proofs.C10.w_brace_text /\
  contains_sub (lit "case class A (") Proofs.C10.w_brace_text = true /\ contains_sub (lit "package onepassword {") Proofs.C10.w_brace_text = true /\
  good_C10_lex CSC Proofs.C10.w_brace_text = true /\
  exists text, dom_C10 CSC Proofs.C10.w_prog = true /\ known_C10 CSC (sc_package Proofs.C10.w_brace_cfg) Proofs.C10.w_prog = [] /\
    sc_generate uc_exec Proofs.C10.w_brace_cfg Proofs.C10.w_prog = Ok text /\ contains_sub (lit "type ULong = Int") text = true /\
    contains_sub (lit "package object onepassword {") text = true /\
    contains_sub (lit "case class A (") text = true /\ good_C10_lex CSC text = true.
Proof. exact Props.C10.C10_scala_package_brace_fixed. Qed.
Print Assumptions Props.C10.C10_scala_package_brace_fixed.
Goal dom_C10 CPY (Proofs.C10.w_pd [] [] [Proofs.C10.w_alias]) = true /\
  known_C10 CPY [] (Proofs.C10.w_pd [] [] [Proofs.C10.w_alias]) = [] /\
  py_generate uc_exec Proofs.C10.w_py_cfg (Proofs.C10.w_pd [] [] [Proofs.C10.w_alias]) = Ok Proofs.C10.w_py_alias_text /\
  contains_sub (lit "Al = List[T]") Proofs.C10.w_py_alias_text = true /\
  contains_sub (lit "Al[T]") Proofs.C10.w_py_alias_text = false /\
  contains_sub (lit "T = TypeVar(""T"")") Proofs.C10.w_py_alias_text = true /\
  good_C10_lex CPY Proofs.C10.w_py_alias_text = true.
Proof. exact Props.C10.C10_python_generic_alias_fixed. Qed.
Print Assumptions Props.C10.C10_python_generic_alias_fixed.
Goal exists cfg pd text, dom_C10 CSC pd = true /\ known_C10 CSC (sc_package cfg) pd = ["C10-scala-default"%string] /\
    sc_generate uc_exec cfg pd = Ok text /\ contains_sub (lit "x: String = _") text = true.
Proof. exact Props.C10.C10_scala_default_refuted. Qed.
Print Assumptions Props.C10.C10_scala_default_refuted.
Goal exists cfg pd text, dom_C10 CSW pd = true /\ known_C10 CSW [] pd = ["C10-swift-label"%string] /\
    sw_generate uc_exec cfg pd = Ok text /\ contains_sub (lit "public let `let`: String") text = true /\
    contains_sub (lit "public init(let: String)") text = true /\ good_C10_swift_labels [lit "let"] = false.
Proof. exact Props.C10.C10_swift_label_refuted. Qed.
Print Assumptions Props.C10.C10_swift_label_refuted.
Goal exists cfg pd text, dom_C10 CPY pd = true /\ known_C10 CPY [] pd = ["C10-python-generic-enum-arg"%string] /\
    py_generate uc_exec cfg pd = Ok text /\ contains_sub (lit "Al = List[G[int]]") text = true /\
    contains_sub (lit "G = GV") text = true.
Proof. exact Props.C10.C10_python_generic_enum_arg_refuted. Qed.
Print Assumptions Props.C10.C10_python_generic_enum_arg_refuted.
Goal exists cfg pd text, dom_C10 CPY pd = true /\ known_C10 CPY [] pd = ["C10-python-digit-name"%string] /\
    py_generate uc_exec cfg pd = Ok text /\ contains_sub (lit "    1_A = ""1a""") text = true.
Proof. exact Props.C10.C10_python_digit_name_refuted. Qed.
Print Assumptions Props.C10.C10_python_digit_name_refuted.
Goal exists cfg pd text, dom_C10 CKT pd = true /\ known_C10 CKT [] pd = ["C10-digit-name"%string] /\
    kt_generate uc_exec cfg pd = Ok text /\ contains_sub (lit "val 1st: String") text = true.
Proof. exact Props.C10.C10_kotlin_digit_name_refuted. Qed.
Print Assumptions Props.C10.C10_kotlin_digit_name_refuted.
Goal exists cfg pd text, dom_C10 CGO pd = true /\ known_C10 CGO [] pd = ["C10-digit-name"%string] /\
    go_generate uc_exec cfg pd = Ok text /\ contains_sub (lit "1x string `json:") text = true.
Proof. exact Props.C10.C10_go_digit_name_refuted. Qed.
Print Assumptions Props.C10.C10_go_digit_name_refuted.
Goal exists cfg pd text, known_C10 CPY [] pd = ["C10-python-empty-union"%string] /\
    py_generate uc_exec cfg pd = Ok text /\ contains_sub (lit "E = Union[]") text = true.
Proof. exact Props.C10.C10_python_empty_union_refuted. Qed.
Print Assumptions Props.C10.C10_python_empty_union_refuted.
Goal forall (a : str) (ta : list c10_tok) (b : str) (tb : list c10_tok),
    c10_ts_tokens (S (List.length a)) a = Some ta -> c10_ts_tokens (S (List.length b)) b = Some tb ->
    Proofs.C10_TSGrammarTok.glue a b = true ->
    c10_ts_tokens (S (List.length (a ++ b))) (a ++ b) = Some (ta ++ tb).
Proof. exact Props.C10.C10_ts_tokens_frame. Qed.
Print Assumptions Props.C10.C10_ts_tokens_frame.
Goal forall (t rest : list c10_tok),
    Proofs.C10_TSGrammarParse.Gr Proofs.C10_TSGrammarParse.STy t -> Proofs.C10_TSGrammarParse.fol rest ->
    c10_ts_type (t ++ rest) = Some rest.
Proof. exact Props.C10.C10_ts_type_grammar_complete. Qed.
Print Assumptions Props.C10.C10_ts_type_grammar_complete.
Goal forall ds : list ts_decl, Forall Proofs.C10_TSGrammar.c10_tsg_decl_ok ds ->
    c10_ts_recognise (List.concat (map ts_render_decl ds)) = Some (List.length ds).
Proof. exact Props.C10.C10_ts_layout_grammar. Qed.
Print Assumptions Props.C10.C10_ts_layout_grammar.
Goal forall (uc : unicode) (cfg : ts_config) (pd : parsed) (text : str),
    unicode_ok uc -> Proofs.C10_TSFile.c10_ts_cfg_ok cfg = true -> Proofs.C10_TSGrammarFile.c10_tsg_cfg_ok cfg ->
    dom_C10 CTS pd = true -> Proofs.C10_TSGrammarFile.c10_tsg_dom pd ->
    ts_generate uc cfg pd = Ok text ->
    exists n : nat, c10_ts_recognise text = Some n /\ (List.length (items_of pd) <= n)%nat.
Proof. exact Props.C10.C10_grammar_typescript. Qed.
Print Assumptions Props.C10.C10_grammar_typescript.
Goal forall (uc : unicode) (cfg : ts_config) (pd : parsed) (text : str),
    unicode_ok uc -> Proofs.C10_TSFile.c10_ts_cfg_ok cfg = true -> Proofs.C10_TSGrammarFile.c10_tsg_cfg_simple cfg = true ->
    dom_C10 CTS pd = true -> Proofs.C10_TSGrammarFile.c10_tsg_dom_simple pd = true ->
    ts_generate uc cfg pd = Ok text ->
    exists n : nat, c10_ts_recognise text = Some n /\ (List.length (items_of pd) <= n)%nat.
Proof. exact Props.C10.C10_grammar_typescript_simple. Qed.
Print Assumptions Props.C10.C10_grammar_typescript_simple.
Goal Proofs.C10_TSFile.c10_ts_cfg_ok Proofs.C10_TSGrammarFile.g_cfg = true /\ Proofs.C10_TSGrammarFile.c10_tsg_cfg_ok Proofs.C10_TSGrammarFile.g_cfg /\
  dom_C10 CTS Proofs.C10_TSGrammarFile.g_prog = true /\ Proofs.C10_TSGrammarFile.c10_tsg_dom Proofs.C10_TSGrammarFile.g_prog /\
  known_C10 CTS [] Proofs.C10_TSGrammarFile.g_prog = [] /\
  ts_generate uc_exec Proofs.C10_TSGrammarFile.g_cfg Proofs.C10_TSGrammarFile.g_prog = Ok Proofs.C10_TSGrammarFile.g_text /\
  c10_ts_recognise Proofs.C10_TSGrammarFile.g_text = Some 8%nat /\
  contains_sub (lit "export interface Person<T, U> {") Proofs.C10_TSGrammarFile.g_text = true /\
  contains_sub (lit "readonly ""first-name""?: string | null;") Proofs.C10_TSGrammarFile.g_text = true /\
  contains_sub (lit "| { type: ""Opt"", content?: number | null }") Proofs.C10_TSGrammarFile.g_text = true /\
  contains_sub (lit "export const ReplacerFunc = ") Proofs.C10_TSGrammarFile.g_text = true /\
  c10_ts_recognise (firstn (List.length Proofs.C10_TSGrammarFile.g_text - 3) Proofs.C10_TSGrammarFile.g_text) = None /\
  c10_ts_recognise (Proofs.C10_TSGrammarFile.g_drop_first 123 Proofs.C10_TSGrammarFile.g_text) = None /\
  c10_ts_recognise (Proofs.C10_TSGrammarFile.g_subst_first 61 58 Proofs.C10_TSGrammarFile.g_text) = None.
Proof. exact Props.C10.C10_grammar_typescript_witness. Qed.
Print Assumptions Props.C10.C10_grammar_typescript_witness.
Goal forall (uc : unicode) (cfg : ts_config) (st : ts_state) (im : scoped) (pd : parsed) (text : str) (st' : ts_state),
    unicode_ok uc -> Proofs.C10_TSFile.c10_ts_cfg_ok cfg = true -> dom_C10 CTS pd = true -> c10_imports_ok im = true ->
    Proofs.C10_TSFile.c10_ts_state_ok st = true ->
    ts_generate_multi uc cfg st im pd = Ok (text, st') ->
    good_C10_lex CTS text = true /\ Proofs.C10_TSFile.c10_ts_state_ok st' = true.
Proof. exact Props.C10.C10_lex_multi_typescript. Qed.
Print Assumptions Props.C10.C10_lex_multi_typescript.
Goal forall (uc : unicode) (cfg : kt_config) (c : str) (im : scoped) (pd : parsed) (text : str),
    Proofs.C10_KT.c10_kt_cfg_ok cfg = true -> dom_C10 CKT pd = true -> c10_crate_ok c = true -> c10_imports_ok im = true ->
    kt_generate_multi uc cfg c im pd = Ok text -> good_C10_lex CKT text = true.
Proof. exact Props.C10.C10_lex_multi_kotlin. Qed.
Print Assumptions Props.C10.C10_lex_multi_kotlin.
Goal forall (uc : unicode) (cfg : sw_config) (st : sw_state) (pd : parsed) (text : str) (st' : sw_state),
    Proofs.C10_SWFile.c10_sw_cfg_ok cfg = true -> dom_C10 CSW pd = true ->
    sw_generate_multi uc cfg st pd = Ok (text, st') -> good_C10_lex CSW text = true.
Proof. exact Props.C10.C10_lex_multi_swift. Qed.
Print Assumptions Props.C10.C10_lex_multi_swift.
Goal forall (cfg : sw_config), Proofs.C10_SWFile.c10_sw_cfg_ok cfg = true -> good_C10_lex CSW (sw_codable_contents cfg) = true.
Proof. exact Props.C10.C10_lex_multi_swift_codable. Qed.
Print Assumptions Props.C10.C10_lex_multi_swift_codable.
Goal forall (uc : unicode) (cfg : go_config) (st : go_state) (pd : parsed) (text : str) (st' : go_state),
    unicode_ok uc -> Proofs.C10_GOFile.c10_go_cfg_ok cfg = true -> dom_C10 CGO pd = true -> Proofs.C10_GOFile.go_inv st ->
    go_generate_multi uc cfg st pd = Ok (text, st') -> good_C10_lex CGO text = true /\ Proofs.C10_GOFile.go_inv st'.
Proof. exact Props.C10.C10_lex_multi_go. Qed.
Print Assumptions Props.C10.C10_lex_multi_go.
Goal forall (uc : unicode) (cfg : py_config) (st : py_state) (pd : parsed) (text : str) (st' : py_state),
    unicode_ok uc -> Proofs.C10_PYFile.c10_py_cfg_ok cfg = true -> dom_C10 CPY pd = true -> Proofs.C10_PYFile.py_inv st ->
    py_generate_multi uc cfg st pd = Ok (text, st') -> good_C10_lex CPY text = true /\ Proofs.C10_PYFile.py_inv st'.
Proof. exact Props.C10.C10_lex_multi_python. Qed.
Print Assumptions Props.C10.C10_lex_multi_python.
Goal forall (uc : unicode) (cfg : ts_config) (plan : list out_plan) files fin,
    unicode_ok uc -> Proofs.C10_TSFile.c10_ts_cfg_ok cfg = true -> Proofs.C10Multi.c10_plan_ok CTS plan = true ->
    generate_crates (fun st (_ : str) im pd => ts_generate_multi uc cfg st im pd) [] plan = (files, fin) ->
    forall f text, In (f, Model.Writer.Generated text) files -> good_C10_lex CTS text = true.
Proof. exact Props.C10.C10_lex_multi_typescript_run. Qed.
Print Assumptions Props.C10.C10_lex_multi_typescript_run.
Goal forall (uc : unicode) (cfg : kt_config) (plan : list out_plan) files fin,
    Proofs.C10_KT.c10_kt_cfg_ok cfg = true -> Proofs.C10Multi.c10_plan_ok CKT plan = true ->
    generate_crates (fun (st : unit) c im pd => Proofs.C10Multi.wrap_unit st (kt_generate_multi uc cfg c im pd)) tt plan = (files, fin) ->
    forall f text, In (f, Model.Writer.Generated text) files -> good_C10_lex CKT text = true.
Proof. exact Props.C10.C10_lex_multi_kotlin_run. Qed.
Print Assumptions Props.C10.C10_lex_multi_kotlin_run.
Goal forall (uc : unicode) (cfg : sw_config) (plan : list out_plan) files fin,
    Proofs.C10_SWFile.c10_sw_cfg_ok cfg = true -> Proofs.C10Multi.c10_plan_ok CSW plan = true ->
    generate_crates (fun st (_ : str) (_ : scoped) pd => sw_generate_multi uc cfg st pd) false plan = (files, fin) ->
    (forall f text, In (f, Model.Writer.Generated text) files -> good_C10_lex CSW text = true) /\
    good_C10_lex CSW (sw_codable_contents cfg) = true.
Proof. exact Props.C10.C10_lex_multi_swift_run. Qed.
Print Assumptions Props.C10.C10_lex_multi_swift_run.
Goal forall (uc : unicode) (cfg : go_config) (plan : list out_plan) files fin,
    unicode_ok uc -> Proofs.C10_GOFile.c10_go_cfg_ok cfg = true -> Proofs.C10Multi.c10_plan_ok CGO plan = true ->
    generate_crates (fun st (_ : str) (_ : scoped) pd => go_generate_multi uc cfg st pd) [] plan = (files, fin) ->
    forall f text, In (f, Model.Writer.Generated text) files -> good_C10_lex CGO text = true.
Proof. exact Props.C10.C10_lex_multi_go_run. Qed.
Print Assumptions Props.C10.C10_lex_multi_go_run.
Goal forall (uc : unicode) (cfg : py_config) (plan : list out_plan) files fin,
    unicode_ok uc -> Proofs.C10_PYFile.c10_py_cfg_ok cfg = true -> Proofs.C10Multi.c10_plan_ok CPY plan = true ->
    generate_crates (fun st (_ : str) (_ : scoped) pd => py_generate_multi uc cfg st pd) py_empty_state plan = (files, fin) ->
    forall f text, In (f, Model.Writer.Generated text) files -> good_C10_lex CPY text = true.
Proof. exact Props.C10.C10_lex_multi_python_run. Qed.
Print Assumptions Props.C10.C10_lex_multi_python_run.
Goal forall (uc : unicode) (cfg : sc_config) (plan : list out_plan) files fin,
    Proofs.C10_SC.c10_sc_cfg_ok cfg = true -> Proofs.C10Multi.c10_plan_ok CSC plan = true ->
    generate_crates (fun (st : unit) (_ : str) (_ : scoped) pd => Proofs.C10Multi.wrap_unit st (sc_generate uc cfg pd)) tt plan = (files, fin) ->
    forall f text, In (f, Model.Writer.Generated text) files -> good_C10_lex CSC text = true.
Proof. exact Props.C10.C10_lex_multi_scala. Qed.
Print Assumptions Props.C10.C10_lex_multi_scala.
Goal forall (hc_types : crate_types) (own : str) (imports_iter : list imported),
    c10_crate_types_ok hc_types = true -> c10_imports_ok (used_imports hc_types own imports_iter) = true.
Proof. exact Props.C10.C10_multi_imports_from_type_table. Qed.
Print Assumptions Props.C10.C10_multi_imports_from_type_table.
Goal forall (lg : lang) (l : c10_lang) (hc : crate_types -> crate_types) (cs : list (str * parsed)),
    (forall m kv, In kv (hc m) -> In kv m) ->
    forallb (fun c => dom_C10 l (snd c) && c10_crate_ok (fst c) && forallb c10_ident_ok (p_type_names (snd c))) cs = true ->
    Proofs.C10Multi.c10_plan_ok l (multi_plan lg hc cs) = true.
Proof. exact Props.C10.C10_multi_plan_in_domain. Qed.
Print Assumptions Props.C10.C10_multi_plan_in_domain.
Goal c10_imports_ok [(lit "al""pha", [lit "Item"])] = false /\
  good_C10_lex CTS (ts_write_imports [(lit "al""pha", [lit "Item"])]) = false /\
  c10_imports_ok [(lit "alpha", [lit "Item"])] = true /\
  good_C10_lex CTS (ts_write_imports [(lit "alpha", [lit "Item"])]) = true.
Proof. exact Props.C10.C10_multi_imports_hypothesis_needed. Qed.
Print Assumptions Props.C10.C10_multi_imports_hypothesis_needed.
Goal forall (a : str) (ta : list c10_gtok) (b : str) (tb : list c10_gtok),
    c10_go_tokens (S (List.length a)) a = Some ta -> c10_go_tokens (S (List.length b)) b = Some tb ->
    Proofs.C10_GOGrammarTok.gglue a b = true -> Proofs.C10_GOGrammarTok.lcok a b = true ->
    c10_go_tokens (S (List.length (a ++ b))) (a ++ b) = Some (ta ++ tb).
Proof. exact Props.C10.C10_go_tokens_frame. Qed.
Print Assumptions Props.C10.C10_go_tokens_frame.
Goal forall (a : list c10_gtok) (fl : bool) (b : list c10_gtok),
    c10_go_semis fl (a ++ b) = c10_go_semis fl a ++ c10_go_semis (Proofs.C10_GOGrammarSemi.endfl fl a) b.
Proof. exact Props.C10.C10_go_semis_app. Qed.
Print Assumptions Props.C10.C10_go_semis_app.
Goal forall (t rest : list c10_gtok),
    Proofs.C10_GOGrammarParse.GGr Proofs.C10_GOGrammarParse.GTy t -> Proofs.C10_GOGrammarParse.folt rest ->
    c10_go_type (t ++ rest) = Some rest.
Proof. exact Props.C10.C10_go_type_grammar_complete. Qed.
Print Assumptions Props.C10.C10_go_type_grammar_complete.
Goal forall (pkg : str) (n : nat) (ds : list (list c10_gtok)),
    c10_go_kw pkg = false -> Forall Proofs.C10_GOGrammarParse.DeclToks ds ->
    c10_go_file (QId (lit "package") :: QId pkg :: QP 59 :: Proofs.C10_GOGrammarParse.imports_toks n ++ Proofs.C10_GOGrammarParse.decls_toks ds)
      = Some (List.length ds).
Proof. exact Props.C10.C10_go_file_grammar_complete. Qed.
Print Assumptions Props.C10.C10_go_file_grammar_complete.
Goal forall (nv : bool) (version package : str) (imports : list str) (ds : list go_decl),
    Proofs.C10Lex.c10_line_ok version = true -> Proofs.C10_GOGrammarSemi.c10_go_name_ok package = true ->
    forallb c10_instr_ok imports = true -> Forall Proofs.C10_GOGrammar.c10_gog_decl_ok ds ->
    exists n : nat,
      c10_go_recognise (Proofs.C10_GOGrammarFile.go_header nv version package ++ go_write_all_imports imports ++
                        List.concat (map go_render_decl ds)) = Some n /\ (List.length ds <= n)%nat.
Proof. exact Props.C10.C10_go_layout_grammar_partial. Qed.
Print Assumptions Props.C10.C10_go_layout_grammar_partial.
Goal Proofs.C10_GOFile.c10_go_cfg_ok Proofs.C10_GOGrammarFile.gg_cfg = true /\ dom_C10 CGO Proofs.C10_GOGrammarFile.gg_prog = true /\
  known_C10 CGO [] Proofs.C10_GOGrammarFile.gg_prog = [] /\ known_C10_go_grammar Proofs.C10_GOGrammarFile.gg_prog = [] /\
  go_generate uc_exec Proofs.C10_GOGrammarFile.gg_cfg Proofs.C10_GOGrammarFile.gg_prog = Ok Proofs.C10_GOGrammarFile.gg_text /\
  c10_go_recognise Proofs.C10_GOGrammarFile.gg_text = Some 19%nat /\
  contains_sub (lit "type Person[T any, U any] struct {") Proofs.C10_GOGrammarFile.gg_text = true /\
  contains_sub (lit "import (") Proofs.C10_GOGrammarFile.gg_text = true /\
  contains_sub (lit "func (e *E) UnmarshalJSON(data []byte) error {") Proofs.C10_GOGrammarFile.gg_text = true /\
  contains_sub (lit "const MaxRetries int = -12") Proofs.C10_GOGrammarFile.gg_text = true /\
  c10_go_recognise (Proofs.C10_TSGrammarFile.g_drop_first 123 Proofs.C10_GOGrammarFile.gg_text) = None /\
  c10_go_recognise (Proofs.C10_TSGrammarFile.g_subst_first 61 58 Proofs.C10_GOGrammarFile.gg_text) = None /\
  c10_go_recognise (Proofs.C10_TSGrammarFile.g_drop_first 96 Proofs.C10_GOGrammarFile.gg_text) = None /\
  c10_go_recognise Proofs.C10_GOGrammarFile.gg_two_fields_two_lines = Some 1%nat /\
  c10_go_recognise Proofs.C10_GOGrammarFile.gg_two_fields_one_line = None /\
  c10_go_recognise Proofs.C10_GOGrammarFile.gg_type_without_name = None.
Proof. exact Props.C10.C10_grammar_go_witness. Qed.
Print Assumptions Props.C10.C10_grammar_go_witness.
Goal exists cfg pd text, dom_C10 CGO pd = true /\ known_C10 CGO [] pd = [] /\ known_C10_go_grammar pd = ["C10-go-keyword-name"%string] /\
    go_generate uc_exec cfg pd = Ok text /\ contains_sub (lit "type switch struct{") text = true /\ c10_go_recognise text = None.
Proof. exact Props.C10.C10_go_keyword_name_refuted. Qed.
Print Assumptions Props.C10.C10_go_keyword_name_refuted.
Goal forall (a : str) (ta : list c10_tok) (b : str) (tb : list c10_tok),
    c10k_tokens (S (List.length a)) a = Some ta -> c10k_tokens (S (List.length b)) b = Some tb ->
    Proofs.C10_KTGrammarTok.glue a b = true ->
    c10k_tokens (S (List.length (a ++ b))) (a ++ b) = Some (ta ++ tb).
Proof. exact Props.C10.C10_kt_tokens_frame. Qed.
Print Assumptions Props.C10.C10_kt_tokens_frame.
Goal forall (t rest : list c10_tok),
    Proofs.C10_KTGrammarParse.Gr Proofs.C10_KTGrammarParse.STy t -> Proofs.C10_KTGrammarParse.fol rest ->
    c10k_type (t ++ rest) = Some rest.
Proof. exact Props.C10.C10_kt_type_grammar_complete. Qed.
Print Assumptions Props.C10.C10_kt_type_grammar_complete.
Goal forall (ms : list Proofs.C10_KTGrammarParse.kmod) (name : str) (gs : list str)
         (ctor : option (list (list c10_tok))) (d : option (list c10_tok * list c10_tok)) (b : Proofs.C10_KTGrammarParse.kbody2),
    Forall (Proofs.C10_KTGrammarParse.mod_wf c10k_is_mod) ms ->
    match ctor with Some ps => Forall Proofs.C10_KTGrammarParse.ParamToks ps | None => True end ->
    match d with
    | Some (u, l) => Proofs.C10_KTGrammarParse.Gr Proofs.C10_KTGrammarParse.SUser u /\ Forall Proofs.C10_KTGrammarParse.expr_tok l
    | None => True
    end ->
    match b with
    | Proofs.C10_KTGrammarParse.B2None => True
    | Proofs.C10_KTGrammarParse.B2Entries es =>
      Proofs.C10_KTGrammarParse.mods_enum ms = true /\ Forall Proofs.C10_KTGrammarParse.EntryToks es
    | Proofs.C10_KTGrammarParse.B2Members mts =>
      Proofs.C10_KTGrammarParse.mods_enum ms = false /\ Forall Proofs.C10_KTGrammarParse.DeclToks mts
    end ->
    Proofs.C10_KTGrammarParse.DeclToks
      (Proofs.C10_KTGrammarParse.mods_toks ms ++ Proofs.C10_KTGrammarParse.kw "class" :: KIdent name ::
       Proofs.C10_KTGrammarParse.gens_toks gs ++ Proofs.C10_KTGrammarParse.octor_toks ctor ++
       Proofs.C10_KTGrammarParse.odeleg_toks d ++ Proofs.C10_KTGrammarParse.body_toks (Proofs.C10_KTGrammarParse.body2 b)).
Proof. exact Props.C10.C10_kt_class_grammar_complete. Qed.
Print Assumptions Props.C10.C10_kt_class_grammar_complete.
Goal forall ds : list kt_decl, Forall Proofs.C10_KTGrammar.c10_ktg_decl_ok ds ->
    c10_kt_recognise (List.concat (map kt_render_decl ds)) = Some (List.length ds).
Proof. exact Props.C10.C10_kt_layout_grammar. Qed.
Print Assumptions Props.C10.C10_kt_layout_grammar.
Goal forall (uc : unicode) (cfg : kt_config) (pd : parsed) (text : str),
    Proofs.C10_KT.c10_kt_cfg_ok cfg = true -> Proofs.C10_KTGrammarFile.c10_ktg_cfg_ok cfg ->
    dom_C10 CKT pd = true -> Proofs.C10_KTGrammarFile.c10_ktg_dom pd ->
    kt_generate uc cfg pd = Ok text ->
    exists n : nat, c10_kt_recognise text = Some n /\ (List.length (items_of pd) <= n)%nat.
Proof. exact Props.C10.C10_grammar_kotlin. Qed.
Print Assumptions Props.C10.C10_grammar_kotlin.
Goal forall (uc : unicode) (cfg : kt_config) (pd : parsed) (text : str),
    Proofs.C10_KT.c10_kt_cfg_ok cfg = true -> Proofs.C10_KTGrammarFile.c10_ktg_cfg_simple cfg = true ->
    dom_C10 CKT pd = true -> Proofs.C10_KTGrammarFile.c10_ktg_dom_simple pd = true ->
    kt_generate uc cfg pd = Ok text ->
    exists n : nat, c10_kt_recognise text = Some n /\ (List.length (items_of pd) <= n)%nat.
Proof. exact Props.C10.C10_grammar_kotlin_simple. Qed.
Print Assumptions Props.C10.C10_grammar_kotlin_simple.
Goal Proofs.C10_KT.c10_kt_cfg_ok Proofs.C10_KTGrammarFile.kg_cfg = true /\ Proofs.C10_KTGrammarFile.c10_ktg_cfg_ok Proofs.C10_KTGrammarFile.kg_cfg /\
  dom_C10 CKT Proofs.C10_KTGrammarFile.kg_prog = true /\ Proofs.C10_KTGrammarFile.c10_ktg_dom Proofs.C10_KTGrammarFile.kg_prog /\
  known_C10 CKT [] Proofs.C10_KTGrammarFile.kg_prog = [] /\
  kt_generate uc_exec Proofs.C10_KTGrammarFile.kg_cfg Proofs.C10_KTGrammarFile.kg_prog = Ok Proofs.C10_KTGrammarFile.kg_text /\
  c10_kt_recognise Proofs.C10_KTGrammarFile.kg_text = Some 7%nat /\
  contains_sub (lit "data class OPPerson<T, U> (") Proofs.C10_KTGrammarFile.kg_text = true /\
  contains_sub (lit "val first_name: String?? = null,") Proofs.C10_KTGrammarFile.kg_text = true /\
  contains_sub (lit "typealias OPAl<T> = List<T>?") Proofs.C10_KTGrammarFile.kg_text = true /\
  contains_sub (lit "enum class OPColor(val string: String) {") Proofs.C10_KTGrammarFile.kg_text = true /\
  contains_sub (lit "data class S<T>(val content: OPESInner<T>): OPE<T>()") Proofs.C10_KTGrammarFile.kg_text = true /\
  c10_kt_recognise (firstn (List.length Proofs.C10_KTGrammarFile.kg_text - 3) Proofs.C10_KTGrammarFile.kg_text) = None /\
  c10_kt_recognise (Proofs.C10_KTGrammarFile.kg_drop_first 40 Proofs.C10_KTGrammarFile.kg_text) = None /\
  c10_kt_recognise (Proofs.C10_KTGrammarFile.kg_subst_first 61 58 Proofs.C10_KTGrammarFile.kg_text) = None /\
  c10_kt_recognise (Proofs.C10_KTGrammarFile.kg_drop_first 44 Proofs.C10_KTGrammarFile.kg_text) = None /\
  c10_kt_recognise (lit "@Serializable" ++ nl ++ lit "object Tag" ++ nl) = Some 1%nat /\
  c10_kt_recognise (lit "@Serializable" ++ nl ++ lit "object Tag<T>" ++ nl) = None /\
  c10_kt_recognise (lit "@Serializable" ++ nl ++ lit "object Tag(val x: Int)" ++ nl) = None /\
  c10_kt_recognise (lit "typealias A<> = Int" ++ nl) = None /\
  c10_kt_recognise (lit "typealias A Int" ++ nl) = None /\
  c10_kt_recognise (lit "@Serializable" ++ nl ++ lit "data class A(val x)" ++ nl) = None /\
  c10_kt_recognise (lit "@Serializable" ++ nl ++ lit "data class (val x: Int)" ++ nl) = None /\
  c10_kt_recognise (lit "@SerialName(""a) object A" ++ nl) = None.
Proof. exact Props.C10.C10_grammar_kotlin_witness. Qed.
Print Assumptions Props.C10.C10_grammar_kotlin_witness.
Goal forall (uc : unicode) (cfg : kt_config) (c : str) (im : scoped) (pd : parsed) (text : str),
    Proofs.C10_KT.c10_kt_cfg_ok cfg = true -> Proofs.C10_KTGrammarFile.c10_ktg_cfg_ok cfg -> kt_package cfg <> [] ->
    dom_C10 CKT pd = true -> Proofs.C10_KTGrammarFile.c10_ktg_dom pd ->
    Proofs.C10_KTGrammarTok.c10k_ident_ok c = true -> Proofs.C10_KTGrammarMulti.c10_ktg_imports_ok im ->
    kt_generate_multi uc cfg c im pd = Ok text ->
    exists n : nat, c10_kt_recognise text = Some n /\ (List.length (items_of pd) <= n)%nat.
Proof. exact Props.C10.C10_grammar_kotlin_multi. Qed.
Print Assumptions Props.C10.C10_grammar_kotlin_multi.
Goal Proofs.C10_KTGrammarTok.c10k_ident_ok (lit "app_core") = true /\
  Proofs.C10_KTGrammarMulti.c10_ktg_imports_ok Proofs.C10_KTGrammarMulti.kgm_imports /\
  kt_package Proofs.C10_KTGrammarFile.kg_cfg <> [] /\
  kt_generate_multi uc_exec Proofs.C10_KTGrammarFile.kg_cfg (lit "app_core") Proofs.C10_KTGrammarMulti.kgm_imports Proofs.C10_KTGrammarFile.kg_prog
    = Ok Proofs.C10_KTGrammarMulti.kgm_text /\
  c10_kt_recognise Proofs.C10_KTGrammarMulti.kgm_text = Some 7%nat /\
  contains_sub (lit "package com.agilebits.onepassword.app_core") Proofs.C10_KTGrammarMulti.kgm_text = true /\
  contains_sub (lit "import com.agilebits.onepassword.lib_crate.OPNode") Proofs.C10_KTGrammarMulti.kgm_text = true /\
  c10_kt_recognise (lit "package com.p.3d_tools" ++ nl) = None /\
  c10_kt_recognise (lit "package com.p.lib" ++ nl ++ lit "import com.p.lib-crate.Item" ++ nl) = None.
Proof. exact Props.C10.C10_grammar_kotlin_multi_witness. Qed.
Print Assumptions Props.C10.C10_grammar_kotlin_multi_witness.
Goal forall (a : str) (ta : list c10_wtok) (b : str) (tb : list c10_wtok),
    c10_sw_tokens (S (List.length a)) a = Some ta -> c10_sw_tokens (S (List.length b)) b = Some tb ->
    Proofs.C10_SWGrammarTok.glue a b = true -> Proofs.C10_SWGrammarTok.lcok a b = true ->
    c10_sw_tokens (S (List.length (a ++ b))) (a ++ b) = Some (ta ++ tb).
Proof. exact Props.C10.C10_sw_tokens_frame. Qed.
Print Assumptions Props.C10.C10_sw_tokens_frame.
Goal forall (t rest : list c10_wtok),
    Proofs.C10_SWGrammarParse.WGr Proofs.C10_SWGrammarParse.STy t -> Proofs.C10_SWGrammarParse.fol rest ->
    c10_sw_type (t ++ rest) = Some rest.
Proof. exact Props.C10.C10_sw_type_grammar_complete. Qed.
Print Assumptions Props.C10.C10_sw_type_grammar_complete.
Goal forall (P : c10_sw_ctx -> Prop) (b : list c10_wtok), Proofs.C10_SWGrammarDecl.Body P b ->
  forall ctx, P ctx -> forall rest f, (2 * List.length b + 2 <= f)%nat -> c10_sw_d f (WMembers ctx) (b ++ rest) = Some rest.
Proof. exact Props.C10.C10_sw_body_grammar_complete. Qed.
Print Assumptions Props.C10.C10_sw_body_grammar_complete.
Goal forall (n : nat) (ts : list c10_wtok), Proofs.C10_SWGrammarDecl.FileToks n ts ->
  forall f, (List.length ts < f)%nat -> c10_sw_decls f ts = Some n.
Proof. exact Props.C10.C10_sw_file_grammar_complete. Qed.
Print Assumptions Props.C10.C10_sw_file_grammar_complete.
Goal forall (nv : bool) (version : str) (ds : list sw_decl),
    c10_dotted_ok version = true -> Forall Proofs.C10_SWGrammar.c10_swg_decl_ok ds ->
    c10_sw_recognise (Proofs.C10_SWGrammarFile.sw_header nv version ++ List.concat (map sw_render_decl ds)) = Some (S (List.length ds)).
Proof. exact Props.C10.C10_swift_layout_grammar_partial. Qed.
Print Assumptions Props.C10.C10_swift_layout_grammar_partial.
Goal Proofs.C10_SWFile.c10_sw_cfg_ok Proofs.C10_SWGrammarFile.w_cfg = true /\ dom_C10 CSW Proofs.C10_SWGrammarFile.w_prog = true /\
  known_C10 CSW [] Proofs.C10_SWGrammarFile.w_prog = [] /\
  sw_generate uc_exec Proofs.C10_SWGrammarFile.w_cfg Proofs.C10_SWGrammarFile.w_prog = Ok Proofs.C10_SWGrammarFile.w_text /\
  c10_sw_recognise Proofs.C10_SWGrammarFile.w_text = Some 7%nat /\
  contains_sub (lit "public struct OPPerson<T: Codable & Equatable & Hashable & Sendable, U: Codable & Sendable>: Codable, Sendable, Equatable {") Proofs.C10_SWGrammarFile.w_text = true /\
  contains_sub (lit "public let `class`: Unicode.Scalar") Proofs.C10_SWGrammarFile.w_text = true /\
  contains_sub (lit "public let index: [String: OPBox<U, [Bool]>]") Proofs.C10_SWGrammarFile.w_text = true /\
  contains_sub (lit "public typealias OPAl<T> = [T]?") Proofs.C10_SWGrammarFile.w_text = true /\
  contains_sub (lit "case `default` = ""Default""") Proofs.C10_SWGrammarFile.w_text = true /\
  contains_sub (lit "public indirect enum OPE<T: Codable & Sendable>: Codable, Sendable {") Proofs.C10_SWGrammarFile.w_text = true /\
  contains_sub (lit "public init(from decoder: Decoder) throws {") Proofs.C10_SWGrammarFile.w_text = true /\
  contains_sub (lit "public struct CodableVoid: Codable, Sendable, Equatable {}") Proofs.C10_SWGrammarFile.w_text = true /\
  c10_sw_recognise (firstn (List.length Proofs.C10_SWGrammarFile.w_text - 3) Proofs.C10_SWGrammarFile.w_text) = None /\
  c10_sw_recognise (Proofs.C10_TSGrammarFile.g_drop_first 123 Proofs.C10_SWGrammarFile.w_text) = None /\
  c10_sw_recognise (Proofs.C10_TSGrammarFile.g_subst_first 61 58 Proofs.C10_SWGrammarFile.w_text) = None /\
  c10_sw_recognise (Proofs.C10_TSGrammarFile.g_drop_first 96 Proofs.C10_SWGrammarFile.w_text) = None /\
  c10_sw_recognise Proofs.C10_SWGrammarFile.w_two_members_two_lines = Some 1%nat /\
  c10_sw_recognise Proofs.C10_SWGrammarFile.w_two_members_one_line = None /\
  c10_sw_recognise Proofs.C10_SWGrammarFile.w_struct_without_name = None /\
  c10_sw_recognise Proofs.C10_SWGrammarFile.w_empty_generics = None /\
  c10_sw_recognise Proofs.C10_SWGrammarFile.w_member_without_type = None /\
  c10_sw_recognise Proofs.C10_SWGrammarFile.w_raw_and_payload = None /\
  c10_sw_recognise Proofs.C10_SWGrammarFile.w_label_class = Some 1%nat /\
  c10_sw_recognise Proofs.C10_SWGrammarFile.w_label_let = None /\
  c10_dotted_ok (sw_version Proofs.C10_SWGrammarFile.w_cfg) = true /\
  Forall Proofs.C10_SWGrammar.c10_swg_decl_ok
    [Proofs.C10_SWGrammarFile.w_alias_decl; Proofs.C10_SWGrammarFile.w_unit_decl; SWCodableVoid [lit "Codable"; lit "Equatable"]].
Proof. exact Props.C10.C10_grammar_swift_witness. Qed.
Print Assumptions Props.C10.C10_grammar_swift_witness.
Goal exists text, dom_C10 CSW Proofs.C10_SWGrammarFile.w_label_prog = true /\
    known_C10 CSW [] Proofs.C10_SWGrammarFile.w_label_prog = ["C10-swift-label"%string] /\
    sw_generate uc_exec Proofs.C10_SWGrammarFile.w_cfg Proofs.C10_SWGrammarFile.w_label_prog = Ok text /\
    contains_sub (lit "public init(let: String)") text = true /\ good_C10_lex CSW text = true /\ c10_sw_recognise text = None.
Proof. exact Props.C10.C10_swift_label_rejected. Qed.
Print Assumptions Props.C10.C10_swift_label_rejected.
Goal forall (a : str) (ta : list c10_utok) (b : str) (tb : list c10_utok),
    c10_sc_tokens (S (List.length a)) a = Some ta -> c10_sc_tokens (S (List.length b)) b = Some tb ->
    Proofs.C10_SCGrammarTok.glue a b = true ->
    c10_sc_tokens (S (List.length (a ++ b))) (a ++ b) = Some (ta ++ tb).
Proof. exact Props.C10.C10_sc_tokens_frame. Qed.
Print Assumptions Props.C10.C10_sc_tokens_frame.
Goal forall r0 c0 p0 a a' r1 c1 p1 b b' r2 c2 p2,
    Proofs.C10_SCGrammarParse.NR r0 c0 p0 a a' r1 c1 p1 -> Proofs.C10_SCGrammarParse.NR r1 c1 p1 b b' r2 c2 p2 ->
    Proofs.C10_SCGrammarParse.NR r0 c0 p0 (a ++ b) (a' ++ b') r2 c2 p2.
Proof. exact Props.C10.C10_sc_newlines_compose. Qed.
Print Assumptions Props.C10.C10_sc_newlines_compose.
Goal forall (t rest : list c10_utok),
    Proofs.C10_SCGrammarParse.Gt Proofs.C10_SCGrammarParse.TTy t -> Proofs.C10_SCGrammarParse.tfol rest ->
    c10_sc_type (t ++ rest) = Some rest.
Proof. exact Props.C10.C10_sc_type_grammar_complete. Qed.
Print Assumptions Props.C10.C10_sc_type_grammar_complete.
Goal forall (top cl : bool) (ds : list (list c10_utok)) (ns : list nat),
    Forall2 (Proofs.C10_SCGrammarParse.StatOk top) ds ns ->
    forall (f : nat) (rest : list c10_utok), (2 * List.length (Proofs.C10_SCGrammarParse.seq_toks ds) + 5 <= f)%nat ->
      c10_sq f (UStats top cl) (Proofs.C10_SCGrammarParse.seq_toks ds ++ Proofs.C10_SCGrammarParse.tail_toks cl rest) =
      Some (fold_right plus O ns, Proofs.C10_SCGrammarParse.tail_rest cl rest).
Proof. exact Props.C10.C10_sc_stats_grammar_complete. Qed.
Print Assumptions Props.C10.C10_sc_stats_grammar_complete.
Goal forall d : sc_decl, Proofs.C10_SCGrammar.c10_scg_decl_ok d ->
    Proofs.C10_SCGrammar.PSd (Proofs.C10_SCGrammar.decl_top d) (sc_render_decl d).
Proof. exact Props.C10.C10_sc_layout_pieces. Qed.
Print Assumptions Props.C10.C10_sc_layout_pieces.
Goal forall ds : list sc_decl, Forall (fun d => Proofs.C10_SCGrammar.c10_scg_decl_ok d /\ Proofs.C10_SCGrammar.decl_top d = true) ds ->
    exists n : nat, c10_sc_recognise (List.concat (map sc_render_decl ds)) = Some n /\ (List.length ds <= n)%nat.
Proof. exact Props.C10.C10_sc_layout_grammar_top. Qed.
Print Assumptions Props.C10.C10_sc_layout_grammar_top.
Goal forall (init : list str) (last : str) (das dps : list sc_decl),
    init <> [] -> Forall Proofs.C10_SCGrammar.gname init -> Proofs.C10_SCGrammar.gname last ->
    Forall (fun d => Proofs.C10_SCGrammar.c10_scg_decl_ok d /\ Proofs.C10_SCGrammar.decl_top d = false) das ->
    Forall (fun d => Proofs.C10_SCGrammar.c10_scg_decl_ok d /\ Proofs.C10_SCGrammar.decl_top d = true) dps ->
    exists n : nat,
      c10_sc_recognise (lit "package " ++ join [46%N] init ++ sc_nl ++ sc_nl ++
                        lit "package object " ++ last ++ lit " {" ++ sc_nl ++ sc_nl ++ List.concat (map sc_render_decl das) ++ lit "}" ++ sc_nl ++
                        lit "package " ++ last ++ lit " {" ++ sc_nl ++ sc_nl ++ List.concat (map sc_render_decl dps) ++ lit "}" ++ sc_nl) = Some n /\
      (List.length das + List.length dps <= n)%nat.
Proof. exact Props.C10.C10_sc_layout_grammar. Qed.
Print Assumptions Props.C10.C10_sc_layout_grammar.
Goal forall (last : str) (das dps : list sc_decl),
    Proofs.C10_SCGrammar.gname last ->
    Forall (fun d => Proofs.C10_SCGrammar.c10_scg_decl_ok d /\ Proofs.C10_SCGrammar.decl_top d = false) das ->
    Forall (fun d => Proofs.C10_SCGrammar.c10_scg_decl_ok d /\ Proofs.C10_SCGrammar.decl_top d = true) dps ->
    exists n : nat,
      c10_sc_recognise (lit "package object " ++ last ++ lit " {" ++ sc_nl ++ sc_nl ++ List.concat (map sc_render_decl das) ++ lit "}" ++ sc_nl ++
                        lit "package " ++ last ++ lit " {" ++ sc_nl ++ sc_nl ++ List.concat (map sc_render_decl dps) ++ lit "}" ++ sc_nl) = Some n /\
      (List.length das + List.length dps <= n)%nat.
Proof. exact Props.C10.C10_sc_layout_grammar_dotless. Qed.
Print Assumptions Props.C10.C10_sc_layout_grammar_dotless.
Goal forall (uc : unicode) (cfg : sc_config) (pd : parsed) (text : str),
    Proofs.C10_SC.c10_sc_cfg_ok cfg = true -> Proofs.C10_SCGrammarFile.c10_scg_cfg_ok cfg ->
    dom_C10 CSC pd = true -> Proofs.C10_SCGrammarFile.c10_scg_dom pd ->
    sc_generate uc cfg pd = Ok text ->
    exists n : nat, c10_sc_recognise text = Some n /\
                    (List.length (p_aliases pd) + List.length (p_structs pd) + List.length (p_enums pd) <= n)%nat.
Proof. exact Props.C10.C10_grammar_scala. Qed.
Print Assumptions Props.C10.C10_grammar_scala.
Goal forall (uc : unicode) (cfg : sc_config) (pd : parsed) (text : str),
    Proofs.C10_SC.c10_sc_cfg_ok cfg = true -> Proofs.C10_SCGrammarFile.c10_scg_cfg_ok cfg -> dom_C10 CSC pd = true ->
    known_C10 CSC (sc_package cfg) pd = [] -> known_C10_sc_grammar (sc_package cfg) pd = [] ->
    Proofs.C10_SCGrammarFile.c10_scg_overrides_ok pd ->
    sc_generate uc cfg pd = Ok text ->
    exists n : nat, c10_sc_recognise text = Some n /\
                    (List.length (p_aliases pd) + List.length (p_structs pd) + List.length (p_enums pd) <= n)%nat.
Proof. exact Props.C10.C10_grammar_scala_classes. Qed.
Print Assumptions Props.C10.C10_grammar_scala_classes.
Goal forall (uc : unicode) (cfg : sc_config) (pd : parsed) (text : str),
    Proofs.C10_SC.c10_sc_cfg_ok cfg = true -> Proofs.C10_SCGrammarFile.c10_scg_cfg_simple cfg = true -> dom_C10 CSC pd = true ->
    known_C10 CSC (sc_package cfg) pd = [] -> known_C10_sc_grammar (sc_package cfg) pd = [] ->
    Proofs.C10_SCGrammarFile.c10_scg_overrides_simple pd = true ->
    sc_generate uc cfg pd = Ok text ->
    exists n : nat, c10_sc_recognise text = Some n /\
                    (List.length (p_aliases pd) + List.length (p_structs pd) + List.length (p_enums pd) <= n)%nat.
Proof. exact Props.C10.C10_grammar_scala_simple. Qed.
Print Assumptions Props.C10.C10_grammar_scala_simple.
Goal Proofs.C10_SC.c10_sc_cfg_ok Proofs.C10_SCGrammarFile.g_cfg = true /\ Proofs.C10_SCGrammarFile.c10_scg_cfg_ok Proofs.C10_SCGrammarFile.g_cfg /\
  dom_C10 CSC Proofs.C10_SCGrammarFile.g_prog = true /\ Proofs.C10_SCGrammarFile.c10_scg_dom Proofs.C10_SCGrammarFile.g_prog /\
  known_C10 CSC (sc_package Proofs.C10_SCGrammarFile.g_cfg) Proofs.C10_SCGrammarFile.g_prog = [] /\
  known_C10_sc_grammar (sc_package Proofs.C10_SCGrammarFile.g_cfg) Proofs.C10_SCGrammarFile.g_prog = [] /\
  sc_generate uc_exec Proofs.C10_SCGrammarFile.g_cfg Proofs.C10_SCGrammarFile.g_prog = Ok Proofs.C10_SCGrammarFile.g_text /\
  c10_sc_recognise Proofs.C10_SCGrammarFile.g_text = Some 12%nat /\
  contains_sub (lit "package object onepassword {") Proofs.C10_SCGrammarFile.g_text = true /\
  contains_sub (lit "case class Person[T, U] (") Proofs.C10_SCGrammarFile.g_text = true /\
  contains_sub (lit "first_name: Option[Option[String]] = None,") Proofs.C10_SCGrammarFile.g_text = true /\
  contains_sub (lit "case class S[T](content: ESInner[T]) extends E[T] {") Proofs.C10_SCGrammarFile.g_text = true /\
  c10_sc_recognise (firstn (List.length Proofs.C10_SCGrammarFile.g_text - 3) Proofs.C10_SCGrammarFile.g_text) = None /\
  c10_sc_recognise (Proofs.C10_SCGrammarFile.g_drop_first 40 Proofs.C10_SCGrammarFile.g_text) = None /\
  c10_sc_recognise (Proofs.C10_SCGrammarFile.g_subst_first 61 58 Proofs.C10_SCGrammarFile.g_text) = None /\
  c10_sc_recognise (Proofs.C10_SCGrammarFile.g_drop_first 44 Proofs.C10_SCGrammarFile.g_text) = None /\
  c10_sc_recognise (Proofs.C10_SCGrammarFile.g_drop_first 91 Proofs.C10_SCGrammarFile.g_text) = None.
Proof. exact Props.C10.C10_grammar_scala_witness. Qed.
Print Assumptions Props.C10.C10_grammar_scala_witness.
Goal exists text, dom_C10 CSC Proofs.C10_SCGrammarFile.k_prog = true /\
    known_C10 CSC (sc_package Proofs.C10_SCGrammarFile.g_cfg) Proofs.C10_SCGrammarFile.k_prog = [] /\
    known_C10_sc_grammar (sc_package Proofs.C10_SCGrammarFile.g_cfg) Proofs.C10_SCGrammarFile.k_prog = ["C10-scala-keyword-name"%string] /\
    sc_generate uc_exec Proofs.C10_SCGrammarFile.g_cfg Proofs.C10_SCGrammarFile.k_prog = Ok text /\
    contains_sub (lit "type: String,") text = true /\ contains_sub (lit "val: Int") text = true /\
    good_C10_lex CSC text = true /\ c10_sc_recognise text = None.
Proof. exact Props.C10.C10_scala_keyword_name_refuted. Qed.
Print Assumptions Props.C10.C10_scala_keyword_name_refuted.
Goal Proofs.C10_SC.c10_sc_cfg_ok Proofs.C10_SCGrammarFile.t_cfg = true /\ Proofs.C10_SCGrammarFile.c10_scg_cfg_simple Proofs.C10_SCGrammarFile.t_cfg = true /\
  contains_char sc_ch_dot (sc_package Proofs.C10_SCGrammarFile.t_cfg) = false /\
  dom_C10 CSC Proofs.C10_SCGrammarFile.t_prog = true /\
  known_C10 CSC (sc_package Proofs.C10_SCGrammarFile.t_cfg) Proofs.C10_SCGrammarFile.t_prog = [] /\
  known_C10_sc_grammar (sc_package Proofs.C10_SCGrammarFile.t_cfg) Proofs.C10_SCGrammarFile.t_prog = [] /\
  Proofs.C10_SCGrammarFile.c10_scg_overrides_simple Proofs.C10_SCGrammarFile.t_prog = true /\
  sc_generate uc_exec Proofs.C10_SCGrammarFile.t_cfg Proofs.C10_SCGrammarFile.t_prog = Ok Proofs.C10_SCGrammarFile.t_text /\
  good_C10_lex CSC Proofs.C10_SCGrammarFile.t_text = true /\ c10_sc_recognise Proofs.C10_SCGrammarFile.t_text = Some 6%nat.
Proof. exact Props.C10.C10_scala_toplevel_alias_fixed. Qed.
Print Assumptions Props.C10.C10_scala_toplevel_alias_fixed.
Goal exists text, dom_C10 CSC Proofs.C10_SCGrammarFile.c_prog = true /\
    known_C10 CSC (sc_package Proofs.C10_SCGrammarFile.g_cfg) Proofs.C10_SCGrammarFile.c_prog = [] /\
    known_C10_sc_grammar (sc_package Proofs.C10_SCGrammarFile.g_cfg) Proofs.C10_SCGrammarFile.c_prog = ["C10-scala-content-key"%string] /\
    sc_generate uc_exec Proofs.C10_SCGrammarFile.g_cfg Proofs.C10_SCGrammarFile.c_prog = Ok text /\
    contains_sub (lit "case class A(my-content: String) extends E {") text = true /\
    good_C10_lex CSC text = true /\ c10_sc_recognise text = None.
Proof. exact Props.C10.C10_scala_content_key_refuted. Qed.
Print Assumptions Props.C10.C10_scala_content_key_refuted.
Goal exists text, dom_C10 CSC Proofs.C10_SCGrammarFile.d_prog = true /\
    known_C10 CSC (sc_package Proofs.C10_SCGrammarFile.g_cfg) Proofs.C10_SCGrammarFile.d_prog = ["C10-scala-default"%string] /\
    known_C10_sc_grammar (sc_package Proofs.C10_SCGrammarFile.g_cfg) Proofs.C10_SCGrammarFile.d_prog = [] /\
    sc_generate uc_exec Proofs.C10_SCGrammarFile.g_cfg Proofs.C10_SCGrammarFile.d_prog = Ok text /\
    contains_sub (lit "x: String = _") text = true /\ c10_sc_recognise text = None.
Proof. exact Props.C10.C10_scala_default_rejected. Qed.
Print Assumptions Props.C10.C10_scala_default_rejected.
Goal forall d : go_decl, Proofs.C10_GOGrammar.c10_gog_decl_ok d ->
    exists tds : list (list c10_gtok),
      Proofs.C10_GOGrammarSemi.CSeg false (go_render_decl d) (Proofs.C10_GOGrammarParse.decls_toks tds) false /\
      Forall Proofs.C10_GOGrammarParse.DeclToks tds /\ (1 <= List.length tds)%nat.
Proof. exact Props.C10.C10_go_decl_layout_grammar. Qed.
Print Assumptions Props.C10.C10_go_decl_layout_grammar.
Goal forall (nv : bool) (version package : str) (imports : list str) (ds : list go_decl),
    Proofs.C10Lex.c10_line_ok version = true -> Proofs.C10_GOGrammarSemi.c10_go_name_ok package = true ->
    forallb c10_instr_ok imports = true -> Forall Proofs.C10_GOGrammar.c10_gog_decl_ok ds ->
    exists n : nat,
      c10_go_recognise (Proofs.C10_GOGrammarFile.go_header nv version package ++ go_write_all_imports imports ++
                        List.concat (map go_render_decl ds)) = Some n /\ (List.length ds <= n)%nat.
Proof. exact Props.C10.C10_go_layout_grammar. Qed.
Print Assumptions Props.C10.C10_go_layout_grammar.
Goal forall (uc : unicode) (cfg : go_config) (pd : parsed) (text : str),
    unicode_ok uc -> Proofs.C10_GOFile.c10_go_cfg_ok cfg = true -> Proofs.C10_GOGrammarIR.c10_gog_cfg_ok cfg ->
    dom_C10 CGO pd = true -> Proofs.C10_GOGrammarIR.c10_gog_dom pd ->
    go_generate uc cfg pd = Ok text ->
    exists n : nat, c10_go_recognise text = Some n /\ (List.length (items_of pd) <= n)%nat.
Proof. exact Props.C10.C10_grammar_go_partial. Qed.
Print Assumptions Props.C10.C10_grammar_go_partial.
Goal unicode_ok uc_exec /\ Proofs.C10_GOFile.c10_go_cfg_ok Proofs.C10_GOGrammarFile.gg_cfg = true /\
  Proofs.C10_GOGrammarIR.c10_gog_cfg_ok Proofs.C10_GOGrammarFile.gg_cfg /\ dom_C10 CGO Proofs.C10_GOGrammarIR.gi_prog = true /\
  Proofs.C10_GOGrammarIR.c10_gog_dom Proofs.C10_GOGrammarIR.gi_prog /\
  go_generate uc_exec Proofs.C10_GOGrammarFile.gg_cfg Proofs.C10_GOGrammarIR.gi_prog = Ok Proofs.C10_GOGrammarIR.gi_text /\
  c10_go_recognise Proofs.C10_GOGrammarIR.gi_text = Some 6%nat /\
  contains_sub (lit "type Person[T any, U any] struct {") Proofs.C10_GOGrammarIR.gi_text = true /\
  contains_sub (lit "ColorDarkBlue Color = ""dark-blue""") Proofs.C10_GOGrammarIR.gi_text = true.
Proof. exact Props.C10.C10_grammar_go_partial_witness. Qed.
Print Assumptions Props.C10.C10_grammar_go_partial_witness.
Goal forall (uc : unicode) (cfg : go_config) (pd : parsed) (text : str),
    unicode_ok uc -> Proofs.C10_GOFile.c10_go_cfg_ok cfg = true -> Proofs.C10_GOGrammarIR.c10_gog_cfg_ok cfg ->
    dom_C10 CGO pd = true -> Proofs.C10_GOGrammarIR2.c10_gog_dom2 pd ->
    go_generate uc cfg pd = Ok text ->
    exists n : nat, c10_go_recognise text = Some n /\ (List.length (items_of pd) <= n)%nat.
Proof. exact Props.C10.C10_grammar_go. Qed.
Print Assumptions Props.C10.C10_grammar_go.
Goal unicode_ok uc_exec /\ Proofs.C10_GOFile.c10_go_cfg_ok Proofs.C10_GOGrammarFile.gg_cfg = true /\
  Proofs.C10_GOGrammarIR.c10_gog_cfg_ok Proofs.C10_GOGrammarFile.gg_cfg /\ dom_C10 CGO Proofs.C10_GOGrammarFile.gg_prog = true /\
  Proofs.C10_GOGrammarIR2.c10_gog_dom2 Proofs.C10_GOGrammarFile.gg_prog /\
  go_generate uc_exec Proofs.C10_GOGrammarFile.gg_cfg Proofs.C10_GOGrammarFile.gg_prog = Ok Proofs.C10_GOGrammarFile.gg_text /\
  c10_go_recognise Proofs.C10_GOGrammarFile.gg_text = Some 19%nat.
Proof. exact Props.C10.C10_grammar_go_in_domain. Qed.
Print Assumptions Props.C10.C10_grammar_go_in_domain.
Goal exists cfg pd text, dom_C10 CGO pd = true /\ known_C10 CGO [] pd = [] /\ known_C10_go_grammar pd = ["C10-go-keyword-name"%string] /\
    go_generate uc_exec cfg pd = Ok text /\ contains_sub (lit "type interface{}") text = true /\ c10_go_recognise text = None.
Proof. exact Props.C10.C10_go_keyword_content_key_refuted. Qed.
Print Assumptions Props.C10.C10_go_keyword_content_key_refuted.
Goal forall (e : sw_enum) (tag content : str), swe_tagged e = Some (tag, content) ->
  exists pre post, sw_render_enum e = (pre ++ Proofs.C10_SWKeys.sw_keys_block tag content ++ post)%list.
Proof. exact Props.C10.C10_swift_container_keys_block. Qed.
Print Assumptions Props.C10.C10_swift_container_keys_block.
Goal forall tag content : str, Proofs.C10_SWKeys.c10_swg_key_ok tag = true -> Proofs.C10_SWKeys.c10_swg_key_ok content = true ->
  c10_sw_recognise (Proofs.C10_SWKeys.sw_keys_block tag content ++ sw_nl)%list = Some 1%nat.
Proof. exact Props.C10.C10_swift_container_keys_grammar. Qed.
Print Assumptions Props.C10.C10_swift_container_keys_grammar.
Goal exists fd,
    Proofs.C10_SWFile.c10_sw_cfg_ok Proofs.C10_SWKeys.k_cfg = true /\ dom_C10 CSW Proofs.C10_SWKeys.k_prog = true /\
    known_C10 CSW [] Proofs.C10_SWKeys.k_prog = [] /\
    sw_generate uc_exec Proofs.C10_SWKeys.k_cfg Proofs.C10_SWKeys.k_prog = Ok Proofs.C10_SWKeys.k_text /\
    good_C10_lex CSW Proofs.C10_SWKeys.k_text = true /\ c10_sw_recognise Proofs.C10_SWKeys.k_text = Some 2%nat /\
    sw_file_decls uc_exec Proofs.C10_SWKeys.k_cfg Proofs.C10_SWKeys.k_prog = Ok fd /\ good_C10_kw CSW (fd_decls fd) = true /\
    List.map d_tag_keys (fd_decls fd) = [[lit "case"; lit "case"; lit "case"; lit "case"]]%list /\
    List.map d_content_keys (fd_decls fd) = [[lit "default"; lit "default"; lit "default"]]%list /\
    contains_sub (Proofs.C10_SWKeys.sw_keys_block (lit "case") (lit "default")) Proofs.C10_SWKeys.k_text = true /\
    good_C10_lex CSW Proofs.C10_SWKeys.k_text_before = true /\ c10_sw_recognise Proofs.C10_SWKeys.k_text_before = None.
Proof. exact Props.C10.C10_swift_key_keyword_fixed. Qed.
Print Assumptions Props.C10.C10_swift_key_keyword_fixed.
Goal forall (uc : unicode) (v : rvariant) (st : sw_state) (sv : sw_variant) (st' : sw_state),
    c10_ident_ok (original (vid (variant_shared v))) = true ->
    sw_unit_variant_of uc v st = Ok (sv, st') -> swv_name sv <> []%list ->
    Proofs.C10_SWGrammarTok.c10_sw_ident_ok (swv_name sv) = true.
Proof. exact Props.C10.C10_swift_unit_case_ident. Qed.
Print Assumptions Props.C10.C10_swift_unit_case_ident.
Goal exists sv sv' st st',
    c10_ident_ok (lit "_1st") = true /\
    sw_unit_variant_of uc_exec (VUnit {| vid := Proofs.C10_SWGrammarFile.w_id "_1st"; vcomments := []%list |}) false = Ok (sv, st) /\
    swv_name sv = lit "_1st" /\
    sw_unit_variant_of uc_exec (VUnit {| vid := Proofs.C10_SWGrammarFile.w_id "FirstOne"; vcomments := []%list |}) false = Ok (sv', st') /\
    swv_name sv' = lit "firstOne" /\
    Proofs.C10_SWGrammarTok.c10_sw_ident_ok (lit "1st") = false.
Proof. exact Props.C10.C10_swift_unit_case_ident_nonvacuous. Qed.
Print Assumptions Props.C10.C10_swift_unit_case_ident_nonvacuous.
Goal exists fd fdr,
    Proofs.C10_SWFile.c10_sw_cfg_ok Proofs.C10_SWUnitDigit.u_cfg = true /\ dom_C10 CSW Proofs.C10_SWUnitDigit.u_prog = true /\
    known_C10 CSW [] Proofs.C10_SWUnitDigit.u_prog = [] /\
    sw_generate uc_exec Proofs.C10_SWUnitDigit.u_cfg Proofs.C10_SWUnitDigit.u_prog = Ok Proofs.C10_SWUnitDigit.u_text /\
    good_C10_lex CSW Proofs.C10_SWUnitDigit.u_text = true /\ c10_sw_recognise Proofs.C10_SWUnitDigit.u_text = Some 2%nat /\
    sw_file_decls uc_exec Proofs.C10_SWUnitDigit.u_cfg Proofs.C10_SWUnitDigit.u_prog = Ok fd /\
    List.map (fun d => List.map vd_name (d_variants d)) (fd_decls fd) = [[lit "_1st"; lit "_2nd"]]%list /\
    List.map (fun d => List.map vd_wire (d_variants d)) (fd_decls fd) = [[lit "_1st"; lit "_2nd"]]%list /\
    dom_C10 CSW Proofs.C10_SWUnitDigit.u_prog_renamed = true /\ known_C10 CSW [] Proofs.C10_SWUnitDigit.u_prog_renamed = [] /\
    sw_generate uc_exec Proofs.C10_SWUnitDigit.u_cfg Proofs.C10_SWUnitDigit.u_prog_renamed = Ok Proofs.C10_SWUnitDigit.u_text_renamed /\
    good_C10_lex CSW Proofs.C10_SWUnitDigit.u_text_renamed = true /\ c10_sw_recognise Proofs.C10_SWUnitDigit.u_text_renamed = Some 2%nat /\
    sw_file_decls uc_exec Proofs.C10_SWUnitDigit.u_cfg Proofs.C10_SWUnitDigit.u_prog_renamed = Ok fdr /\
    List.map (fun d => List.map vd_wire (d_variants d)) (fd_decls fdr) = [[lit "x"; lit "_2nd"]]%list /\
    good_C10_lex CSW Proofs.C10_SWUnitDigit.u_text_before = true /\ c10_sw_recognise Proofs.C10_SWUnitDigit.u_text_before = None.
Proof. exact Props.C10.C10_swift_unit_digit_fixed. Qed.
Print Assumptions Props.C10.C10_swift_unit_digit_fixed.
Goal exists cfg pd text, dom_C10 CPY pd = true /\ known_C10 CPY [] pd = [] /\ known_C10_py_keys pd = ["C10-python-key-keyword"%string] /\
    py_generate uc_exec cfg pd = Ok text /\
    contains_sub (lit "    class: Literal[ETypes.A] = ETypes.A") text = true /\ contains_sub (lit "    in: int") text = true /\
    mem_str (lit "class") c10_python_keywords = true /\ mem_str (lit "in") c10_python_keywords = true.
Proof. exact Props.C10.C10_python_key_keyword_refuted. Qed.
Print Assumptions Props.C10.C10_python_key_keyword_refuted.
Goal known_C10_py_keys Proofs.C10_PYKeys.pk_plain = [] /\ known_C10_py_keys Proofs.C10_PYKeys.pk_unit_only = [] /\
  (exists text, py_generate uc_exec Proofs.C10.w_py_cfg Proofs.C10_PYKeys.pk_unit_only = Ok text /\ contains_sub (lit "    in:") text = false).
Proof. exact Props.C10.C10_python_key_keyword_class_boundaries. Qed.
Print Assumptions Props.C10.C10_python_key_keyword_class_boundaries.
