(* Pinned statements for C12: compiled on every check run. A statement weakened in Props/ fails here. *)
From Coq Require Import String List.
From TS Require Import Model.Str Model.Outcome Model.Unicode Model.Types Model.Parse Model.Lang.Common Model.Lang.Decl
                       Model.Lang.Swift Model.Lang.Scala Model.Lang.Go Model.Lang.Kotlin Model.Lang.Python Spec.C12Spec Proofs.C12Obs.
From TS Require Proofs.C12 Proofs.C12_Swift Proofs.C12_Go Proofs.C12_Kotlin Proofs.C12_Python.
Import ListNotations.
From TS Require Props.C12.

Goal forall (uc : unicode) (cfg : sw_config) (pd : parsed) (uses defs : list str),
    c12_sw_observe uc cfg pd = Ok (uses, defs) -> c12_sw_dom cfg (items_of pd) = true ->
    c12_good uses defs = true.
Proof. exact Props.C12.C12_swift. Qed.
Print Assumptions Props.C12.C12_swift.
Goal forall (uc : unicode) (cfg : sw_config) (items : list ritem) (s : sw_state) (ds : list sw_decl) (s' : sw_state),
    c12_sw_dom cfg items = true ->
    mmapM (sw_decl_of uc cfg) items s = Ok (ds, s') ->
    (s = true -> s' = true) /\ (c12_sw_uses ds <> [] -> s' = true).
Proof. exact Props.C12.C12_swift_flag_any_state. Qed.
Print Assumptions Props.C12.C12_swift_flag_any_state.
Goal forall (uc : unicode) (cfg : sc_config) (pd : parsed) (uses defs : list str),
    c12_sc_observe uc cfg pd = Ok (uses, defs) -> c12_sc_dom pd = true ->
    c12_good uses defs = true.
Proof. exact Props.C12.C12_scala. Qed.
Print Assumptions Props.C12.C12_scala.
Goal c12_sc_dom Proofs.C12_Scala.c12_sc_witness = true /\
  c12_sc_scan Proofs.C12_Scala.c12_sc_witness = true /\
  c12_sc_observe uc_exec Proofs.C12_Scala.c12_sc_cfg0 Proofs.C12_Scala.c12_sc_witness =
    Ok ([lit "UShort"], [lit "UByte"; lit "UShort"; lit "UInt"; lit "ULong"]) /\
  c12_good [lit "UShort"] [lit "UByte"; lit "UShort"; lit "UInt"; lit "ULong"] = true.
Proof. exact Props.C12.C12_scala_unsigned_depth_fixed. Qed.
Print Assumptions Props.C12.C12_scala_unsigned_depth_fixed.
Goal forall (uc : unicode) (cfg : go_config) (pd : parsed) (uses defs : list str),
    c12_go_observe uc cfg pd = Ok (uses, defs) -> c12_go_dom cfg (items_of pd) = true ->
    c12_good uses defs = true.
Proof. exact Props.C12.C12_go. Qed.
Print Assumptions Props.C12.C12_go.
Goal forall (uc : unicode), unicode_ok uc ->
  forall (cfg : go_config) (pd : parsed) (uses defs : list str),
    c12_go_observe uc cfg pd = Ok (uses, defs) -> c12_go_dom_acr cfg (items_of pd) = true ->
    c12_good uses defs = true.
Proof. exact Props.C12.C12_go_acronyms. Qed.
Print Assumptions Props.C12.C12_go_acronyms.
Goal c12_go_dom_acr Proofs.C12_Go.c12_go_acr_cfg (items_of Proofs.C12_Go.c12_go_acr_pd) = true /\
  c12_go_observe uc_exec Proofs.C12_Go.c12_go_acr_cfg Proofs.C12_Go.c12_go_acr_pd =
    Ok ([lit "time"], [lit "json"; lit "time"]).
Proof. exact Props.C12.C12_go_acronyms_nonvacuous. Qed.
Print Assumptions Props.C12.C12_go_acronyms_nonvacuous.
Goal forall (uc : unicode) (cfg : kt_config) (pd : parsed) (uses defs : list str),
    c12_kt_observe uc cfg pd = Ok (uses, defs) -> c12_kt_known cfg pd = None ->
    c12_good uses defs = true.
Proof. exact Props.C12.C12_kotlin. Qed.
Print Assumptions Props.C12.C12_kotlin.
Goal c12_kt_known (Proofs.C12.c12_kt_cfg []) Proofs.C12.c12_nonvac_pd = Some "C12-kotlin-empty-package"%string /\
  c12_kt_observe uc_exec (Proofs.C12.c12_kt_cfg []) Proofs.C12.c12_nonvac_pd = Ok ([lit "Serializable"], []) /\
  c12_good [lit "Serializable"] [] = false.
Proof. exact Props.C12.C12_kotlin_empty_package_refuted. Qed.
Print Assumptions Props.C12.C12_kotlin_empty_package_refuted.
Goal c12_kt_known (Proofs.C12.c12_kt_cfg (lit "com.p")) Proofs.C12.c12_kt_inline_pd = Some "C12-kotlin-jvminline"%string /\
  c12_kt_observe uc_exec (Proofs.C12.c12_kt_cfg (lit "com.p")) Proofs.C12.c12_kt_inline_pd =
    Ok ([lit "Serializable"; lit "JvmInline"], [lit "Serializable"; lit "SerialName"]) /\
  c12_good [lit "Serializable"; lit "JvmInline"] [lit "Serializable"; lit "SerialName"] = false.
Proof. exact Props.C12.C12_kotlin_jvminline_refuted. Qed.
Print Assumptions Props.C12.C12_kotlin_jvminline_refuted.
Goal forall (cfg : py_config) (generics : list str) (t : rtype),
    Forall (fun id => ~ In id c12_py_reserved) (c12_rtype_ids t) ->
    forall (s : py_state) (x : texp) (s' : py_state),
      py_texp cfg generics t s = Ok (x, s') ->
      incl (c12_py_imported s) (c12_py_imported s') /\
      (forall u, In u (c12_py_tnames x) -> In u c12_py_fixed -> In u (c12_py_imported s')).
Proof. exact Props.C12.C12_python_format_type. Qed.
Print Assumptions Props.C12.C12_python_format_type.
Goal forall (uc : unicode) (cfg : py_config) (pd : parsed) (uses defs : list str),
    c12_py_observe uc cfg pd = Ok (uses, defs) -> c12_py_dom cfg (items_of pd) = true ->
    c12_py_known cfg pd = None ->
    c12_good uses defs = true.
Proof. exact Props.C12.C12_python. Qed.
Print Assumptions Props.C12.C12_python.
Goal c12_py_known Proofs.C12.c12_py_cfg1 Proofs.C12.c12_py_full_pd = None /\
  c12_py_dom Proofs.C12.c12_py_cfg1 (items_of Proofs.C12.c12_py_full_pd) = true /\
  exists uses defs, c12_py_observe uc_exec Proofs.C12.c12_py_cfg1 Proofs.C12.c12_py_full_pd = Ok (uses, defs) /\
                    In (lit "T") uses /\ In (lit "TypeVar") uses /\ In (lit "parse_rfc3339") uses /\
                    In (lit "deserialize_binary_data") uses /\ In (lit "datetime") uses /\
                    c12_good uses defs = true.
Proof. exact Props.C12.C12_python_nonvacuous. Qed.
Print Assumptions Props.C12.C12_python_nonvacuous.
Goal forall (uc : unicode) (cfg : py_config) (pd : parsed) (ds : list py_decl) (st : py_state),
    py_decls uc cfg pd = Ok (ds, st) -> c12_py_dom cfg (items_of pd) = true ->
    forall u, In u (flat_map (c12_py_decl_uses (c12_py_tv_vocab (items_of pd))) ds) ->
      In u (c12_py_tv_vocab (items_of pd)) \/ In u Proofs.C12_Python.c12_py_fn_names \/
      In u (c12_py_defs (py_type_variables st) (c12_py_fns st) (c12_py_imported st)).
Proof. exact Props.C12.C12_python_body_partial. Qed.
Print Assumptions Props.C12.C12_python_body_partial.
Goal c12_py_known Proofs.C12.c12_py_cfg0 Proofs.C12.c12_py_alias_pd = Some "C12-python-alias-typevar"%string /\
  c12_py_dom Proofs.C12.c12_py_cfg0 (items_of Proofs.C12.c12_py_alias_pd) = true /\
  exists uses defs, c12_py_observe uc_exec Proofs.C12.c12_py_cfg0 Proofs.C12.c12_py_alias_pd = Ok (uses, defs) /\
                    In (lit "T") uses /\ ~ In (lit "T") defs /\ c12_good uses defs = false.
Proof. exact Props.C12.C12_python_alias_typevar_refuted. Qed.
Print Assumptions Props.C12.C12_python_alias_typevar_refuted.
Goal c12_py_known Proofs.C12.c12_py_cfg0 Proofs.C12.c12_py_default_pd = Some "C12-python-default-translation"%string /\
  c12_py_dom Proofs.C12.c12_py_cfg0 (items_of Proofs.C12.c12_py_default_pd) = true /\
  exists uses defs, c12_py_observe uc_exec Proofs.C12.c12_py_cfg0 Proofs.C12.c12_py_default_pd = Ok (uses, defs) /\
                    In (lit "parse_rfc3339") uses /\ ~ In (lit "parse_rfc3339") defs /\ c12_good uses defs = false.
Proof. exact Props.C12.C12_python_default_translation_refuted. Qed.
Print Assumptions Props.C12.C12_python_default_translation_refuted.
