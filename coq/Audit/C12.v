(* Pinned statements for C12: compiled on every check run. A statement weakened in Props/ fails here. *)
From Coq Require Import String List.
From TS Require Import Model.Str Model.Outcome Model.Unicode Model.Types Model.Parse Model.Lang.Common Model.Lang.Decl
                       Model.Lang.Swift Model.Lang.Scala Model.Lang.Go Model.Lang.Kotlin Model.Lang.Python Spec.C12Spec Proofs.C12Obs.
From TS Require Proofs.C12 Proofs.C12_Swift Proofs.C12_Go Proofs.C12_Kotlin Proofs.C12_Python.
From TS Require Import Model.MultiFile Model.Lang.TypeScript Spec.C12TSSpec.
From TS Require Model.Writer Spec.C17Spec Proofs.C02_Witness Proofs.C12Multi Proofs.C12MultiGo Proofs.C12MultiSwift Proofs.C12MultiStateless Proofs.C12MultiTS Proofs.C12MultiWitness.
Import ListNotations.
From TS Require Props.C12.

Goal forall (uc : unicode) (cfg : sw_config) (pd : parsed) (uses defs : list str),
    c12_sw_observe uc cfg pd = Ok (uses, defs) -> c12_sw_dom cfg (items_of pd) = true ->
    c12_good uses defs = true.
Proof. exact Props.C12.C12_swift. Qed.
Print Assumptions Props.C12.C12_swift.
Goal forall (uc : unicode) (cfg : sw_config) (items : list ritem) (s : sw_state) (ds : list sw_decl) (s' : sw_state),
    c12_sw_dom cfg items = true ->
    mmapM (sw_decl_of uc cfg) items s = Ok (ds, s') ->
    (s = true -> s' = true) /\ (c12_sw_uses ds <> [] -> s' = true).
Proof. exact Props.C12.C12_swift_flag_any_state. Qed.
Print Assumptions Props.C12.C12_swift_flag_any_state.
Goal forall (uc : unicode) (cfg : sc_config) (pd : parsed) (uses defs : list str),
    c12_sc_observe uc cfg pd = Ok (uses, defs) -> c12_sc_dom pd = true ->
    c12_good uses defs = true.
Proof. exact Props.C12.C12_scala. Qed.
Print Assumptions Props.C12.C12_scala.
Goal c12_sc_dom Proofs.C12_Scala.c12_sc_witness = true /\
  c12_sc_scan Proofs.C12_Scala.c12_sc_witness = true /\
  c12_sc_observe uc_exec Proofs.C12_Scala.c12_sc_cfg0 Proofs.C12_Scala.c12_sc_witness =
    Ok ([lit "UShort"], [lit "UByte"; lit "UShort"; lit "UInt"; lit "ULong"]) /\
  c12_good [lit "UShort"] [lit "UByte"; lit "UShort"; lit "UInt"; lit "ULong"] = true.
Proof. exact Props.C12.C12_scala_unsigned_depth_fixed. Qed.
Print Assumptions Props.C12.C12_scala_unsigned_depth_fixed.
Goal forall (uc : unicode) (cfg : go_config) (pd : parsed) (uses defs : list str),
    c12_go_observe uc cfg pd = Ok (uses, defs) -> c12_go_dom cfg (items_of pd) = true ->
    c12_good uses defs = true.
Proof. exact Props.C12.C12_go. Qed.
Print Assumptions Props.C12.C12_go.
Goal forall (uc : unicode), unicode_ok uc ->
  forall (cfg : go_config) (pd : parsed) (uses defs : list str),
    c12_go_observe uc cfg pd = Ok (uses, defs) -> c12_go_dom_acr cfg (items_of pd) = true ->
    c12_good uses defs = true.
Proof. exact Props.C12.C12_go_acronyms. Qed.
Print Assumptions Props.C12.C12_go_acronyms.
Goal c12_go_dom_acr Proofs.C12_Go.c12_go_acr_cfg (items_of Proofs.C12_Go.c12_go_acr_pd) = true /\
  c12_go_observe uc_exec Proofs.C12_Go.c12_go_acr_cfg Proofs.C12_Go.c12_go_acr_pd =
    Ok ([lit "time"], [lit "json"; lit "time"]).
Proof. exact Props.C12.C12_go_acronyms_nonvacuous. Qed.
Print Assumptions Props.C12.C12_go_acronyms_nonvacuous.
Goal forall (uc : unicode) (cfg : kt_config) (pd : parsed) (uses defs : list str),
    c12_kt_observe uc cfg pd = Ok (uses, defs) -> c12_kt_known cfg pd = None ->
    c12_good uses defs = true.
Proof. exact Props.C12.C12_kotlin. Qed.
Print Assumptions Props.C12.C12_kotlin.
Goal c12_kt_known (Proofs.C12.c12_kt_cfg []) Proofs.C12.c12_nonvac_pd = Some "C12-kotlin-empty-package"%string /\
  c12_kt_observe uc_exec (Proofs.C12.c12_kt_cfg []) Proofs.C12.c12_nonvac_pd = Ok ([lit "Serializable"], []) /\
  c12_good [lit "Serializable"] [] = false.
Proof. exact Props.C12.C12_kotlin_empty_package_refuted. Qed.
Print Assumptions Props.C12.C12_kotlin_empty_package_refuted.
Goal c12_kt_known (Proofs.C12.c12_kt_cfg (lit "com.p")) Proofs.C12.c12_kt_inline_pd = Some "C12-kotlin-jvminline"%string /\
  c12_kt_observe uc_exec (Proofs.C12.c12_kt_cfg (lit "com.p")) Proofs.C12.c12_kt_inline_pd =
    Ok ([lit "Serializable"; lit "JvmInline"], [lit "Serializable"; lit "SerialName"]) /\
  c12_good [lit "Serializable"; lit "JvmInline"] [lit "Serializable"; lit "SerialName"] = false.
Proof. exact Props.C12.C12_kotlin_jvminline_refuted. Qed.
Print Assumptions Props.C12.C12_kotlin_jvminline_refuted.
Goal forall (cfg : py_config) (generics : list str) (t : rtype),
    Forall (fun id => ~ In id c12_py_reserved) (c12_rtype_ids t) ->
    forall (s : py_state) (x : texp) (s' : py_state),
      py_texp cfg generics t s = Ok (x, s') ->
      incl (c12_py_imported s) (c12_py_imported s') /\
      (forall u, In u (c12_py_tnames x) -> In u c12_py_fixed -> In u (c12_py_imported s')).
Proof. exact Props.C12.C12_python_format_type. Qed.
Print Assumptions Props.C12.C12_python_format_type.
Goal forall (uc : unicode) (cfg : py_config) (pd : parsed) (uses defs : list str),
    c12_py_observe uc cfg pd = Ok (uses, defs) -> c12_py_dom cfg (items_of pd) = true ->
    c12_good uses defs = true.
Proof. exact Props.C12.C12_python. Qed.
Print Assumptions Props.C12.C12_python.
Goal c12_py_dom Proofs.C12.c12_py_cfg1 (items_of Proofs.C12.c12_py_full_pd) = true /\
  exists uses defs, c12_py_observe uc_exec Proofs.C12.c12_py_cfg1 Proofs.C12.c12_py_full_pd = Ok (uses, defs) /\
                    In (lit "T") uses /\ In (lit "U") uses /\ In (lit "TypeVar") uses /\ In (lit "parse_rfc3339") uses /\
                    In (lit "deserialize_binary_data") uses /\ In (lit "datetime") uses /\
                    c12_good uses defs = true.
Proof. exact Props.C12.C12_python_nonvacuous. Qed.
Print Assumptions Props.C12.C12_python_nonvacuous.
Goal forall (uc : unicode) (cfg : py_config) (pd : parsed) (ds : list py_decl) (st : py_state),
    py_decls uc cfg pd = Ok (ds, st) -> c12_py_dom cfg (items_of pd) = true ->
    forall u, In u (flat_map (c12_py_decl_uses (c12_py_tv_vocab (items_of pd))) ds) ->
      In u (c12_py_tv_vocab (items_of pd)) \/ In u Proofs.C12_Python.c12_py_fn_names \/
      In u (c12_py_defs (py_type_variables st) (c12_py_fns st) (c12_py_imported st)).
Proof. exact Props.C12.C12_python_body_partial. Qed.
Print Assumptions Props.C12.C12_python_body_partial.
Goal c12_py_known Proofs.C12.c12_py_cfg0 Proofs.C12.c12_py_alias_pd = None /\
  c12_py_dom Proofs.C12.c12_py_cfg0 (items_of Proofs.C12.c12_py_alias_pd) = true /\
  py_generate uc_exec Proofs.C12.c12_py_cfg0 Proofs.C12.c12_py_alias_pd = Ok Proofs.C12.c12_py_alias_text /\
  c12_py_observe uc_exec Proofs.C12.c12_py_cfg0 Proofs.C12.c12_py_alias_pd =
    Ok ([lit "TypeVar"; lit "List"; lit "T"], [lit "T"; lit "List"; lit "TypeVar"]) /\
  c12_good [lit "TypeVar"; lit "List"; lit "T"] [lit "T"; lit "List"; lit "TypeVar"] = true.
Proof. exact Props.C12.C12_python_alias_typevar_fixed. Qed.
Print Assumptions Props.C12.C12_python_alias_typevar_fixed.
Goal c12_py_known Proofs.C12.c12_py_cfg0 Proofs.C12.c12_py_default_pd = None /\
  c12_py_dom Proofs.C12.c12_py_cfg0 (items_of Proofs.C12.c12_py_default_pd) = true /\
  py_generate uc_exec Proofs.C12.c12_py_cfg0 Proofs.C12.c12_py_default_pd = Ok Proofs.C12.c12_py_default_text /\
  contains_sub (lit "def parse_rfc3339(date_str: str) -> datetime:") Proofs.C12.c12_py_default_text = true /\
  contains_sub (lit "def serialize_datetime_data(utc_time: datetime) -> str:") Proofs.C12.c12_py_default_text = true /\
  c12_py_observe uc_exec Proofs.C12.c12_py_cfg0 Proofs.C12.c12_py_default_pd =
    Ok (Proofs.C12.c12_py_default_uses, Proofs.C12.c12_py_default_defs) /\
  c12_good Proofs.C12.c12_py_default_uses Proofs.C12.c12_py_default_defs = true.
Proof. exact Props.C12.C12_python_default_translation_fixed. Qed.
Print Assumptions Props.C12.C12_python_default_translation_fixed.
Goal forall (uc : unicode) (cfg : py_config) (st : py_state) (pd : parsed) (text : str) (st' : py_state),
    py_generate_multi uc cfg st pd = Ok (text, st') <->
    exists ds, Proofs.C12Multi.py_multi_decls uc cfg st pd = Ok (ds, st') /\
               text = py_begin_file cfg ++ py_write_all_imports st' ++ py_write_custom_translations st' ++
                      List.concat (map py_render_decl ds).
Proof. exact Props.C12.C12_multi_python_layout. Qed.
Print Assumptions Props.C12.C12_multi_python_layout.
Goal forall (uc : unicode) (cfg : py_config) (pd : parsed),
    Proofs.C12Multi.c12_py_observe_multi uc cfg py_empty_state pd = c12_py_observe uc cfg pd.
Proof. exact Props.C12.C12_multi_python_observe_initial. Qed.
Print Assumptions Props.C12.C12_multi_python_observe_initial.
Goal (forall st : py_state,
     Proofs.C12Multi.c12_py_state_ok st = true <->
     (py_type_variables st <> [] -> In (lit "TypeVar") (c12_py_imported st)) /\
     (In (lit "datetime") (py_custom_types st) -> In (lit "datetime") (c12_py_imported st))) /\
  Proofs.C12Multi.c12_py_state_ok py_empty_state = true.
Proof. exact Props.C12.C12_multi_python_state_ok_meaning. Qed.
Print Assumptions Props.C12.C12_multi_python_state_ok_meaning.
Goal forall (uc : unicode) (cfg : py_config) (st0 : py_state) (pd : parsed),
    Proofs.C12Multi.c12_py_state_ok st0 = true -> c12_py_dom cfg (items_of pd) = true ->
    (forall uses defs, Proofs.C12Multi.c12_py_observe_multi uc cfg st0 pd = Ok (uses, defs) ->
       c12_good uses defs = true) /\
    (forall ds st, Proofs.C12Multi.py_multi_decls uc cfg st0 pd = Ok (ds, st) -> Proofs.C12Multi.c12_py_state_ok st = true).
Proof. exact Props.C12.C12_multi_python_file. Qed.
Print Assumptions Props.C12.C12_multi_python_file.
Goal forall (uc : unicode) (cfg : py_config) (st0 : py_state) (plan : list out_plan)
         (files : list (str * Writer.gen_result)) (fin : outcome py_state),
    Proofs.C12Multi.c12_py_state_ok st0 = true ->
    generate_crates (Proofs.C12Multi.py_multi_gen uc cfg) st0 plan = (files, fin) ->
    (forall i fname text,
       nth_error files i = Some (fname, Writer.Generated text) ->
       Forall (fun p => c12_py_dom cfg (items_of (op_data p)) = true) (firstn (S i) plan) ->
       exists p st_i st_i' ds uses defs,
         nth_error plan i = Some p /\ fname = op_file p /\ Proofs.C12Multi.c12_py_state_ok st_i = true /\
         py_generate_multi uc cfg st_i (op_data p) = Ok (text, st_i') /\
         Proofs.C12Multi.py_multi_decls uc cfg st_i (op_data p) = Ok (ds, st_i') /\
         text = py_begin_file cfg ++ py_write_all_imports st_i' ++ py_write_custom_translations st_i' ++
                List.concat (map py_render_decl ds) /\
         Proofs.C12Multi.c12_py_observe_multi uc cfg st_i (op_data p) = Ok (uses, defs) /\
         c12_good uses defs = true) /\
    (forall st', fin = Ok st' -> Forall (fun p => c12_py_dom cfg (items_of (op_data p)) = true) plan ->
       Proofs.C12Multi.c12_py_state_ok st' = true).
Proof. exact Props.C12.C12_multi_python. Qed.
Print Assumptions Props.C12.C12_multi_python.
Goal forall uc cfg st c im pd, Proofs.C12Multi.py_multi_gen uc cfg st c im pd = py_generate_multi uc cfg st pd.
Proof. exact Props.C12.C12_multi_python_gen_meaning. Qed.
Print Assumptions Props.C12.C12_multi_python_gen_meaning.
Goal exists plan t_alpha st_fin,
    Proofs.C12MultiWitness.y_plan Python Proofs.C12MultiWitness.ws_py_plain = Some plan /\
    map op_crate plan = [lit "alpha"; lit "beta"] /\
    forallb (fun p => c12_py_dom Proofs.C12MultiWitness.y_py_cfg (items_of (op_data p))) plan = true /\
    generate_crates (Proofs.C12Multi.py_multi_gen uc_exec Proofs.C12MultiWitness.y_py_cfg) py_empty_state plan =
      ([(lit "alpha.py", Writer.Generated t_alpha); (lit "beta.py", Writer.Generated Proofs.C12MultiWitness.y_beta_plain_py)], Ok st_fin) /\
    py_type_variables st_fin = [lit "T"] /\ py_custom_types st_fin = [lit "datetime"] /\
    Proofs.C12MultiWitness.py_multi_observations Proofs.C12MultiWitness.y_py_cfg py_empty_state plan =
      [(lit "alpha.py", Ok (Proofs.C12MultiWitness.y_py_uses_generic (lit "T"), Proofs.C12MultiWitness.y_py_defs_alpha));
       (lit "beta.py", Ok ([lit "TypeVar"; lit "datetime"; lit "BaseModel"], Proofs.C12MultiWitness.y_py_defs_alpha))] /\
    c12_good (Proofs.C12MultiWitness.y_py_uses_generic (lit "T")) Proofs.C12MultiWitness.y_py_defs_alpha = true /\
    c12_good [lit "TypeVar"; lit "datetime"; lit "BaseModel"] Proofs.C12MultiWitness.y_py_defs_alpha = true.
Proof. exact Props.C12.C12_multi_python_nonvacuous_plain. Qed.
Print Assumptions Props.C12.C12_multi_python_nonvacuous_plain.
Goal exists plan t_alpha t_beta st_fin,
    Proofs.C12MultiWitness.y_plan Python Proofs.C12MultiWitness.ws_py_again = Some plan /\
    map op_crate plan = [lit "alpha"; lit "beta"] /\
    forallb (fun p => c12_py_dom Proofs.C12MultiWitness.y_py_cfg (items_of (op_data p))) plan = true /\
    generate_crates (Proofs.C12Multi.py_multi_gen uc_exec Proofs.C12MultiWitness.y_py_cfg) py_empty_state plan =
      ([(lit "alpha.py", Writer.Generated t_alpha); (lit "beta.py", Writer.Generated t_beta)], Ok st_fin) /\
    py_type_variables st_fin = [lit "T"; lit "U"] /\
    Proofs.C12MultiWitness.py_multi_observations Proofs.C12MultiWitness.y_py_cfg py_empty_state plan =
      [(lit "alpha.py", Ok (Proofs.C12MultiWitness.y_py_uses_generic (lit "T"), Proofs.C12MultiWitness.y_py_defs_alpha));
       (lit "beta.py", Ok (Proofs.C12MultiWitness.y_py_uses_generic (lit "U"),
                           lit "T" :: lit "U" :: tl Proofs.C12MultiWitness.y_py_defs_alpha))] /\
    c12_good (Proofs.C12MultiWitness.y_py_uses_generic (lit "U")) (lit "T" :: lit "U" :: tl Proofs.C12MultiWitness.y_py_defs_alpha) = true.
Proof. exact Props.C12.C12_multi_python_nonvacuous_again. Qed.
Print Assumptions Props.C12.C12_multi_python_nonvacuous_again.
Goal exists plan p_alpha p_beta t_alpha st1 t_beta st2 uses defs,
    Proofs.C12MultiWitness.y_plan Python Proofs.C12MultiWitness.ws_py_plain = Some plan /\ plan = [p_alpha; p_beta] /\
    py_generate_multi uc_exec Proofs.C12MultiWitness.y_py_cfg py_empty_state (op_data p_alpha) = Ok (t_alpha, st1) /\
    Proofs.C12Multi.c12_py_state_ok st1 = true /\
    Proofs.C12Multi.c12_py_state_ok (Proofs.C12MultiWitness.py_drain st1) = false /\
    generate_crates (Proofs.C12MultiWitness.py_drained_gen Proofs.C12MultiWitness.y_py_cfg) py_empty_state plan =
      ([(lit "alpha.py", Writer.Generated t_alpha); (lit "beta.py", Writer.Generated t_beta)], Ok st2) /\
    t_beta <> Proofs.C12MultiWitness.y_beta_plain_py /\
    Proofs.C12Multi.c12_py_observe_multi uc_exec Proofs.C12MultiWitness.y_py_cfg (Proofs.C12MultiWitness.py_drain st1) (op_data p_beta) = Ok (uses, defs) /\
    In (lit "TypeVar") uses /\ ~ In (lit "TypeVar") defs /\ In (lit "datetime") uses /\ ~ In (lit "datetime") defs /\
    c12_good uses defs = false.
Proof. exact Props.C12.C12_multi_python_drain_regression. Qed.
Print Assumptions Props.C12.C12_multi_python_drain_regression.
Goal exists plan p_alpha p_beta t_alpha st1 uses defs,
    Proofs.C12MultiWitness.y_plan Python Proofs.C12MultiWitness.ws_py_taint = Some plan /\ plan = [p_alpha; p_beta] /\
    c12_py_dom Proofs.C12MultiWitness.y_py_cfg (items_of (op_data p_alpha)) = false /\
    c12_py_dom Proofs.C12MultiWitness.y_py_cfg (items_of (op_data p_beta)) = true /\
    py_generate_multi uc_exec Proofs.C12MultiWitness.y_py_cfg py_empty_state (op_data p_alpha) = Ok (t_alpha, st1) /\
    Proofs.C12Multi.c12_py_state_ok st1 = false /\
    Proofs.C12Multi.c12_py_observe_multi uc_exec Proofs.C12MultiWitness.y_py_cfg st1 (op_data p_beta) = Ok (uses, defs) /\
    In (lit "datetime") uses /\ ~ In (lit "datetime") defs /\ c12_good uses defs = false.
Proof. exact Props.C12.C12_multi_python_earlier_dom_needed. Qed.
Print Assumptions Props.C12.C12_multi_python_earlier_dom_needed.
Goal forall (uc : unicode) (cfg : go_config) (st : go_state) (pd : parsed) (text : str) (st' : go_state),
    go_generate_multi uc cfg st pd = Ok (text, st') <->
    exists ds header st1,
      Proofs.C12MultiGo.go_multi_decls uc cfg st pd = Ok (ds, st') /\ go_begin_file cfg st = Ok (header, st1) /\
      text = header ++ go_write_all_imports st' ++ List.concat (map go_render_decl ds).
Proof. exact Props.C12.C12_multi_go_layout. Qed.
Print Assumptions Props.C12.C12_multi_go_layout.
Goal forall (uc : unicode) (cfg : go_config) (pd : parsed),
    Proofs.C12MultiGo.c12_go_observe_multi uc cfg [] pd = c12_go_observe uc cfg pd.
Proof. exact Props.C12.C12_multi_go_observe_initial. Qed.
Print Assumptions Props.C12.C12_multi_go_observe_initial.
Goal forall (uc : unicode) (cfg : go_config) (st0 : go_state) (pd : parsed) (uses defs : list str),
    Proofs.C12MultiGo.c12_go_observe_multi uc cfg st0 pd = Ok (uses, defs) -> c12_go_dom cfg (items_of pd) = true ->
    c12_good uses defs = true.
Proof. exact Props.C12.C12_multi_go_file. Qed.
Print Assumptions Props.C12.C12_multi_go_file.
Goal forall (uc : unicode), unicode_ok uc ->
  forall (cfg : go_config) (st0 : go_state) (pd : parsed) (uses defs : list str),
    Proofs.C12MultiGo.c12_go_observe_multi uc cfg st0 pd = Ok (uses, defs) -> c12_go_dom_acr cfg (items_of pd) = true ->
    c12_good uses defs = true.
Proof. exact Props.C12.C12_multi_go_file_acronyms. Qed.
Print Assumptions Props.C12.C12_multi_go_file_acronyms.
Goal forall (uc : unicode) (cfg : go_config) (st0 : go_state) (plan : list out_plan)
         (files : list (str * Writer.gen_result)) (fin : outcome go_state),
    generate_crates (Proofs.C12MultiGo.go_multi_gen uc cfg) st0 plan = (files, fin) ->
    forall i fname text,
      nth_error files i = Some (fname, Writer.Generated text) ->
      exists p st_i st_i' ds header st1 uses defs,
        nth_error plan i = Some p /\ fname = op_file p /\
        go_generate_multi uc cfg st_i (op_data p) = Ok (text, st_i') /\
        Proofs.C12MultiGo.go_multi_decls uc cfg st_i (op_data p) = Ok (ds, st_i') /\
        go_begin_file cfg st_i = Ok (header, st1) /\
        text = header ++ go_write_all_imports st_i' ++ List.concat (map go_render_decl ds) /\
        Proofs.C12MultiGo.c12_go_observe_multi uc cfg st_i (op_data p) = Ok (uses, defs) /\
        (c12_go_dom cfg (items_of (op_data p)) = true -> c12_good uses defs = true).
Proof. exact Props.C12.C12_multi_go. Qed.
Print Assumptions Props.C12.C12_multi_go.
Goal forall (uc : unicode), unicode_ok uc ->
  forall (cfg : go_config) (st0 : go_state) (plan : list out_plan)
         (files : list (str * Writer.gen_result)) (fin : outcome go_state),
    generate_crates (Proofs.C12MultiGo.go_multi_gen uc cfg) st0 plan = (files, fin) ->
    forall i fname text,
      nth_error files i = Some (fname, Writer.Generated text) ->
      exists p st_i st_i' ds header st1 uses defs,
        nth_error plan i = Some p /\ fname = op_file p /\
        go_generate_multi uc cfg st_i (op_data p) = Ok (text, st_i') /\
        Proofs.C12MultiGo.go_multi_decls uc cfg st_i (op_data p) = Ok (ds, st_i') /\
        go_begin_file cfg st_i = Ok (header, st1) /\
        text = header ++ go_write_all_imports st_i' ++ List.concat (map go_render_decl ds) /\
        Proofs.C12MultiGo.c12_go_observe_multi uc cfg st_i (op_data p) = Ok (uses, defs) /\
        (c12_go_dom_acr cfg (items_of (op_data p)) = true -> c12_good uses defs = true).
Proof. exact Props.C12.C12_multi_go_acronyms. Qed.
Print Assumptions Props.C12.C12_multi_go_acronyms.
Goal exists plan t_alpha,
    Proofs.C12MultiWitness.y_plan Go Proofs.C12MultiWitness.ws_py_plain = Some plan /\
    map op_crate plan = [lit "alpha"; lit "beta"] /\
    forallb (fun p => c12_go_dom Proofs.C12MultiWitness.y_go_cfg (items_of (op_data p))) plan = true /\
    generate_crates (Proofs.C12MultiGo.go_multi_gen uc_exec Proofs.C12MultiWitness.y_go_cfg) [] plan =
      ([(lit "alpha.go", Writer.Generated t_alpha); (lit "beta.go", Writer.Generated Proofs.C12MultiWitness.y_beta_go)],
       Ok [lit "encoding/json"; lit "time"]) /\
    Proofs.C12MultiWitness.go_multi_observations Proofs.C12MultiWitness.y_go_cfg [] plan =
      [(lit "alpha.go", Ok ([lit "time"], [lit "json"; lit "time"])); (lit "beta.go", Ok ([], [lit "json"; lit "time"]))].
Proof. exact Props.C12.C12_multi_go_nonvacuous. Qed.
Print Assumptions Props.C12.C12_multi_go_nonvacuous.
Goal forall (uc : unicode) (cfg : sw_config) (st : sw_state) (pd : parsed) (text : str) (st' : sw_state),
    sw_generate_multi uc cfg st pd = Ok (text, st') <->
    exists ds, Proofs.C12MultiSwift.sw_multi_decls uc cfg st pd = Ok (ds, st') /\
               text = sw_begin_file cfg ++ List.concat (map sw_render_decl ds).
Proof. exact Props.C12.C12_multi_swift_layout. Qed.
Print Assumptions Props.C12.C12_multi_swift_layout.
Goal forall (uc : unicode) (cfg : sw_config) (st0 : sw_state) (pd : parsed) (ds : list sw_decl) (st : sw_state),
    Proofs.C12MultiSwift.sw_multi_decls uc cfg st0 pd = Ok (ds, st) -> c12_sw_dom cfg (items_of pd) = true ->
    c12_sw_defs ds = [] /\ (st0 = true -> st = true) /\ (c12_sw_uses ds <> [] -> st = true).
Proof. exact Props.C12.C12_multi_swift_file. Qed.
Print Assumptions Props.C12.C12_multi_swift_file.
Goal forall (uc : unicode) (cfg : sw_config) (st0 : sw_state) (plan : list out_plan)
         (files : list (str * Writer.gen_result)) (fin : sw_state),
    Forall (fun p => c12_sw_dom cfg (items_of (op_data p)) = true) plan ->
    generate_crates (Proofs.C12MultiSwift.sw_multi_gen uc cfg) st0 plan = (files, Ok fin) ->
    (st0 = true -> fin = true) /\
    (forall i fname text, nth_error files i = Some (fname, Writer.Generated text) ->
       exists p st_i st_i' ds,
         nth_error plan i = Some p /\ fname = op_file p /\
         sw_generate_multi uc cfg st_i (op_data p) = Ok (text, st_i') /\
         Proofs.C12MultiSwift.sw_multi_decls uc cfg st_i (op_data p) = Ok (ds, st_i') /\
         text = sw_begin_file cfg ++ List.concat (map sw_render_decl ds) /\
         c12_sw_defs ds = [] /\
         (c12_sw_uses ds <> [] -> fin = true)) /\
    (fin = true ->
       Proofs.C12MultiSwift.sw_multi_codable cfg (Ok fin) = Some (sw_codable_contents cfg) /\
       c12_sw_decl_defs (sw_codable_void cfg) = [sw_CODABLE_VOID] /\
       forall (s : Writer.fs) (now : Writer.mtime) (folder : str),
         Writer.content (Writer.run s now (multi_outputs folder files (Proofs.C12MultiSwift.sw_multi_codable cfg (Ok fin))))
                        (Spec.C17Spec.codable_path folder) = Some (sw_render_decl (sw_codable_void cfg)) /\
         snd (Writer.run_full s now (multi_outputs folder files (Proofs.C12MultiSwift.sw_multi_codable cfg (Ok fin)))) = Writer.ExitOk).
Proof. exact Props.C12.C12_multi_swift. Qed.
Print Assumptions Props.C12.C12_multi_swift.
Goal forall (cfg : sw_config) (fin : outcome sw_state),
    Proofs.C12MultiSwift.sw_multi_codable cfg fin = match fin with Ok true => Some (sw_codable_contents cfg) | _ => None end.
Proof. exact Props.C12.C12_multi_swift_codable_meaning. Qed.
Print Assumptions Props.C12.C12_multi_swift_codable_meaning.
Goal exists plan p_alpha p_beta ds_alpha ds_beta,
    Proofs.C12MultiWitness.y_plan Swift Proofs.C12MultiWitness.ws_sw_unit = Some plan /\ plan = [p_alpha; p_beta] /\
    map op_crate plan = [lit "alpha"; lit "beta"] /\
    forallb (fun p => c12_sw_dom Proofs.C12MultiWitness.y_sw_cfg (items_of (op_data p))) plan = true /\
    generate_crates (Proofs.C12MultiSwift.sw_multi_gen uc_exec Proofs.C12MultiWitness.y_sw_cfg) false plan =
      ([(lit "Alpha.swift", Writer.Generated Proofs.C12MultiWitness.y_alpha_swift);
        (lit "Beta.swift", Writer.Generated Proofs.C12MultiWitness.y_beta_swift)], Ok true) /\
    Proofs.C12MultiSwift.sw_multi_decls uc_exec Proofs.C12MultiWitness.y_sw_cfg false (op_data p_alpha) = Ok (ds_alpha, true) /\
    c12_sw_uses ds_alpha = [lit "CodableVoid"; lit "CodableVoid"] /\ c12_sw_defs ds_alpha = [] /\
    Proofs.C12MultiSwift.sw_multi_decls uc_exec Proofs.C12MultiWitness.y_sw_cfg true (op_data p_beta) = Ok (ds_beta, true) /\
    c12_sw_uses ds_beta = [] /\ c12_sw_defs ds_beta = [] /\
    Writer.run_full [] 1%N (multi_outputs Proofs.C12MultiWitness.y_folder
                              [(lit "Alpha.swift", Writer.Generated Proofs.C12MultiWitness.y_alpha_swift);
                               (lit "Beta.swift", Writer.Generated Proofs.C12MultiWitness.y_beta_swift)]
                              (Proofs.C12MultiSwift.sw_multi_codable Proofs.C12MultiWitness.y_sw_cfg (Ok true))) =
      ([(Proofs.C12MultiWitness.y_path "Alpha.swift", (Proofs.C12MultiWitness.y_alpha_swift, 1%N));
        (Proofs.C12MultiWitness.y_path "Beta.swift", (Proofs.C12MultiWitness.y_beta_swift, 1%N));
        (Proofs.C12MultiWitness.y_path "Codable.swift", (Proofs.C12MultiWitness.y_codable_swift, 1%N))], Writer.ExitOk) /\
    Spec.C17Spec.codable_path Proofs.C12MultiWitness.y_folder = Proofs.C12MultiWitness.y_path "Codable.swift".
Proof. exact Props.C12.C12_multi_swift_nonvacuous. Qed.
Print Assumptions Props.C12.C12_multi_swift_nonvacuous.
Goal exists plan,
    Proofs.C12MultiWitness.y_plan Swift Proofs.C12MultiWitness.ws_sw_unit = Some plan /\
    generate_crates (Proofs.C12MultiWitness.sw_reset_gen Proofs.C12MultiWitness.y_sw_cfg) false plan =
      ([(lit "Alpha.swift", Writer.Generated Proofs.C12MultiWitness.y_alpha_swift);
        (lit "Beta.swift", Writer.Generated Proofs.C12MultiWitness.y_beta_swift)], Ok false) /\
    Proofs.C12MultiSwift.sw_multi_codable Proofs.C12MultiWitness.y_sw_cfg (Ok false) = None /\
    Writer.content (Writer.run [] 1%N (multi_outputs Proofs.C12MultiWitness.y_folder
                      [(lit "Alpha.swift", Writer.Generated Proofs.C12MultiWitness.y_alpha_swift);
                       (lit "Beta.swift", Writer.Generated Proofs.C12MultiWitness.y_beta_swift)]
                      (Proofs.C12MultiSwift.sw_multi_codable Proofs.C12MultiWitness.y_sw_cfg (Ok false))))
                   (Spec.C17Spec.codable_path Proofs.C12MultiWitness.y_folder) = None.
Proof. exact Props.C12.C12_multi_swift_reset_regression. Qed.
Print Assumptions Props.C12.C12_multi_swift_reset_regression.
Goal forall (cfg : kt_config) (c : str),
    kt_begin_file_multi cfg c = kt_render_header (Proofs.C12MultiStateless.kt_header_multi cfg c) /\
    Proofs.C12MultiStateless.kt_header_multi cfg c =
      match kt_header_of cfg with
      | None => None
      | Some h => Some {| kh_version := kh_version h; kh_package := kh_package h ++ lit "." ++ c; kh_imports := kh_imports h |}
      end /\
    c12_kt_defs (Proofs.C12MultiStateless.kt_header_multi cfg c) = c12_kt_defs (kt_header_of cfg).
Proof. exact Props.C12.C12_multi_kotlin_header. Qed.
Print Assumptions Props.C12.C12_multi_kotlin_header.
Goal forall (uc : unicode) (cfg : kt_config) (c : str) (im : scoped) (pd : parsed) (text : str),
    kt_generate_multi uc cfg c im pd = Ok text <->
    exists ds, kt_decls uc cfg pd = Ok ds /\
               text = kt_render_header (Proofs.C12MultiStateless.kt_header_multi cfg c) ++ kt_write_imports cfg im ++
                      List.concat (map kt_render_decl ds).
Proof. exact Props.C12.C12_multi_kotlin_layout. Qed.
Print Assumptions Props.C12.C12_multi_kotlin_layout.
Goal forall (uc : unicode) (cfg : kt_config) (st0 : unit) (plan : list out_plan)
         (files : list (str * Writer.gen_result)) (fin : outcome unit),
    generate_crates (Proofs.C12MultiStateless.kt_multi_gen uc cfg) st0 plan = (files, fin) ->
    forall i fname text,
      nth_error files i = Some (fname, Writer.Generated text) ->
      exists p ds uses defs,
        nth_error plan i = Some p /\ fname = op_file p /\
        kt_generate_multi uc cfg (op_crate p) (op_imports p) (op_data p) = Ok text /\
        kt_decls uc cfg (op_data p) = Ok ds /\
        text = kt_render_header (Proofs.C12MultiStateless.kt_header_multi cfg (op_crate p)) ++ kt_write_imports cfg (op_imports p) ++
               List.concat (map kt_render_decl ds) /\
        Proofs.C12MultiStateless.c12_kt_observe_multi uc cfg (op_crate p) (op_data p) = Ok (uses, defs) /\
        uses = c12_kt_uses ds /\ defs = c12_kt_defs (Proofs.C12MultiStateless.kt_header_multi cfg (op_crate p)) /\
        (c12_kt_known cfg (op_data p) = None -> c12_good uses defs = true).
Proof. exact Props.C12.C12_multi_kotlin. Qed.
Print Assumptions Props.C12.C12_multi_kotlin.
Goal exists plan t_alpha t_beta,
    Proofs.C12MultiWitness.y_plan Kotlin Proofs.C12MultiWitness.ws_sw_unit = Some plan /\
    forallb (fun p => Proofs.C12MultiWitness.y_none (c12_kt_known Proofs.C02_Witness.c02_w_kt_cfg (op_data p))) plan = true /\
    generate_crates (Proofs.C12MultiStateless.kt_multi_gen uc_exec Proofs.C02_Witness.c02_w_kt_cfg) tt plan =
      ([(lit "alpha.kt", Writer.Generated t_alpha); (lit "beta.kt", Writer.Generated t_beta)], Ok tt) /\
    map (fun p => Proofs.C12MultiStateless.c12_kt_observe_multi uc_exec Proofs.C02_Witness.c02_w_kt_cfg (op_crate p) (op_data p)) plan =
      [Ok ([lit "Serializable"], [lit "Serializable"; lit "SerialName"]);
       Ok ([lit "Serializable"], [lit "Serializable"; lit "SerialName"])].
Proof. exact Props.C12.C12_multi_kotlin_nonvacuous. Qed.
Print Assumptions Props.C12.C12_multi_kotlin_nonvacuous.
Goal forall (uc : unicode) (cfg : sc_config) (pd : parsed) (text : str),
    sc_generate uc cfg pd = Ok text ->
    exists head objs pkgs,
      sc_begin_file cfg = Ok head /\ sc_decls uc cfg pd = Ok (objs, pkgs) /\
      text = head ++
             (if sc_unsigned_integer_used pd || negb (sc_is_empty (p_aliases pd))
              then sc_begin_package_object cfg ++ List.concat (map sc_render_decl objs) ++ sc_end_package_object cfg else []) ++
             (if negb (sc_is_empty (p_structs pd)) || negb (sc_is_empty (p_enums pd))
              then sc_begin_package cfg ++ List.concat (map sc_render_decl pkgs) ++ sc_end_package cfg else []).
Proof. exact Props.C12.C12_multi_scala_layout. Qed.
Print Assumptions Props.C12.C12_multi_scala_layout.
Goal forall (uc : unicode) (cfg : sc_config) (st0 : unit) (plan : list out_plan)
         (files : list (str * Writer.gen_result)) (fin : outcome unit),
    generate_crates (Proofs.C12MultiStateless.sc_multi_gen uc cfg) st0 plan = (files, fin) ->
    forall i fname text,
      nth_error files i = Some (fname, Writer.Generated text) ->
      exists p head objs pkgs uses defs,
        nth_error plan i = Some p /\ fname = op_file p /\
        sc_generate uc cfg (op_data p) = Ok text /\
        sc_begin_file cfg = Ok head /\ sc_decls uc cfg (op_data p) = Ok (objs, pkgs) /\
        text = head ++
               (if sc_unsigned_integer_used (op_data p) || negb (sc_is_empty (p_aliases (op_data p)))
                then sc_begin_package_object cfg ++ List.concat (map sc_render_decl objs) ++ sc_end_package_object cfg else []) ++
               (if negb (sc_is_empty (p_structs (op_data p))) || negb (sc_is_empty (p_enums (op_data p)))
                then sc_begin_package cfg ++ List.concat (map sc_render_decl pkgs) ++ sc_end_package cfg else []) /\
        c12_sc_observe uc cfg (op_data p) = Ok (uses, defs) /\
        (c12_sc_dom (op_data p) = true -> c12_good uses defs = true).
Proof. exact Props.C12.C12_multi_scala. Qed.
Print Assumptions Props.C12.C12_multi_scala.
Goal exists plan t_alpha t_beta,
    Proofs.C12MultiWitness.y_plan Scala Proofs.C12MultiWitness.ws_sw_unit = Some plan /\
    forallb (fun p => c12_sc_dom (op_data p)) plan = true /\
    generate_crates (Proofs.C12MultiStateless.sc_multi_gen uc_exec Proofs.C02_Witness.c02_w_sc_cfg) tt plan =
      ([(lit "alpha.scala", Writer.Generated t_alpha); (lit "beta.scala", Writer.Generated t_beta)], Ok tt) /\
    map (fun p => c12_sc_observe uc_exec Proofs.C02_Witness.c02_w_sc_cfg (op_data p)) plan =
      [Ok ([], []); Ok ([lit "UInt"], [lit "UByte"; lit "UShort"; lit "UInt"; lit "ULong"])].
Proof. exact Props.C12.C12_multi_scala_nonvacuous. Qed.
Print Assumptions Props.C12.C12_multi_scala_nonvacuous.
Goal forall (ds : list ts_decl) (st : ts_state),
    c12_ts_good ds st = true <->
    (forall t, In t (c12_ts_translated ds) -> In t (c12_ts_handled st)) /\
    (c12_ts_translated ds <> [] -> forall h, In h c12_ts_helpers -> In h (c12_ts_defs st)).
Proof. exact Props.C12.C12_multi_typescript_good_meaning. Qed.
Print Assumptions Props.C12.C12_multi_typescript_good_meaning.
Goal forall (uc : unicode) (cfg : ts_config) (st : ts_state) (im : scoped) (pd : parsed) (text : str) (st' : ts_state),
    ts_generate_multi uc cfg st im pd = Ok (text, st') <->
    exists ds, Proofs.C12MultiTS.ts_multi_decls uc cfg st pd = Ok (ds, st') /\
               text = ts_begin_file cfg ++ ts_write_imports im ++ List.concat (map ts_render_decl ds) ++ ts_end_file st'.
Proof. exact Props.C12.C12_multi_typescript_layout. Qed.
Print Assumptions Props.C12.C12_multi_typescript_layout.
Goal forall (uc : unicode) (cfg : ts_config) (st0 : ts_state) (pd : parsed) (ds : list ts_decl) (st : ts_state),
    Proofs.C12MultiTS.ts_multi_decls uc cfg st0 pd = Ok (ds, st) ->
    incl (c12_ts_handled st0) (c12_ts_handled st) /\ c12_ts_good ds st = true.
Proof. exact Props.C12.C12_multi_typescript_file. Qed.
Print Assumptions Props.C12.C12_multi_typescript_file.
Goal forall (uc : unicode) (cfg : ts_config) (st0 : ts_state) (plan : list out_plan)
         (files : list (str * Writer.gen_result)) (fin : outcome ts_state),
    generate_crates (Proofs.C12MultiTS.ts_multi_gen uc cfg) st0 plan = (files, fin) ->
    forall i fname text,
      nth_error files i = Some (fname, Writer.Generated text) ->
      exists p st_i st_i' ds,
        nth_error plan i = Some p /\ fname = op_file p /\
        ts_generate_multi uc cfg st_i (op_imports p) (op_data p) = Ok (text, st_i') /\
        Proofs.C12MultiTS.ts_multi_decls uc cfg st_i (op_data p) = Ok (ds, st_i') /\
        text = ts_begin_file cfg ++ ts_write_imports (op_imports p) ++ List.concat (map ts_render_decl ds) ++ ts_end_file st_i' /\
        incl (c12_ts_handled st0) (c12_ts_handled st_i) /\
        incl (c12_ts_handled st_i) (c12_ts_handled st_i') /\
        c12_ts_good ds st_i' = true.
Proof. exact Props.C12.C12_multi_typescript. Qed.
Print Assumptions Props.C12.C12_multi_typescript.
Goal exists plan p_alpha p_beta t_alpha ds_alpha ds_beta,
    Proofs.C12MultiWitness.y_plan TypeScript Proofs.C12MultiWitness.ws_py_plain = Some plan /\ plan = [p_alpha; p_beta] /\
    generate_crates (Proofs.C12MultiTS.ts_multi_gen uc_exec Proofs.C12MultiWitness.y_ts_cfg) [] plan =
      ([(lit "alpha.ts", Writer.Generated t_alpha); (lit "beta.ts", Writer.Generated Proofs.C12MultiWitness.y_beta_ts)],
       Ok [(lit "Date", [lit "at"])]) /\
    Proofs.C12MultiTS.ts_multi_decls uc_exec Proofs.C12MultiWitness.y_ts_cfg [] (op_data p_alpha) = Ok (ds_alpha, [(lit "Date", [lit "at"])]) /\
    c12_ts_translated ds_alpha = [lit "Date"] /\ c12_ts_good ds_alpha [(lit "Date", [lit "at"])] = true /\
    c12_ts_good ds_alpha [] = false /\
    Proofs.C12MultiTS.ts_multi_decls uc_exec Proofs.C12MultiWitness.y_ts_cfg [(lit "Date", [lit "at"])] (op_data p_beta) =
      Ok (ds_beta, [(lit "Date", [lit "at"])]) /\
    c12_ts_translated ds_beta = [] /\ c12_ts_defs [(lit "Date", [lit "at"])] = c12_ts_helpers.
Proof. exact Props.C12.C12_multi_typescript_nonvacuous. Qed.
Print Assumptions Props.C12.C12_multi_typescript_nonvacuous.
