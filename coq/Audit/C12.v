(* Pinned statements for C12: compiled on every check run. A statement weakened in Props/ fails here. *)
From Coq Require Import String List.
From TS Require Import Model.Str Model.Outcome Model.Unicode Model.Types Model.Parse Model.Lang.Common Model.Lang.Decl
                       Model.Lang.Swift Model.Lang.Scala Model.Lang.Go Model.Lang.Kotlin Model.Lang.Python Spec.C12Spec Proofs.C12Obs.
From TS Require Proofs.C12 Proofs.C12_Swift Proofs.C12_Go Proofs.C12_Kotlin Proofs.C12_Python.
From TS Require Import Model.MultiFile.
From TS Require Model.Writer Proofs.C12Multi Proofs.C12MultiWitness.
Import ListNotations.
From TS Require Props.C12.

Goal forall (uc : unicode) (cfg : sw_config) (pd : parsed) (uses defs : list str),
    c12_sw_observe uc cfg pd = Ok (uses, defs) -> c12_sw_dom cfg (items_of pd) = true ->
    c12_good uses defs = true.
Proof. exact Props.C12.C12_swift. Qed.
Print Assumptions Props.C12.C12_swift.
Goal forall (uc : unicode) (cfg : sw_config) (items : list ritem) (s : sw_state) (ds : list sw_decl) (s' : sw_state),
    c12_sw_dom cfg items = true ->
    mmapM (sw_decl_of uc cfg) items s = Ok (ds, s') ->
    (s = true -> s' = true) /\ (c12_sw_uses ds <> [] -> s' = true).
Proof. exact Props.C12.C12_swift_flag_any_state. Qed.
Print Assumptions Props.C12.C12_swift_flag_any_state.
Goal forall (uc : unicode) (cfg : sc_config) (pd : parsed) (uses defs : list str),
    c12_sc_observe uc cfg pd = Ok (uses, defs) -> c12_sc_dom pd = true ->
    c12_good uses defs = true.
Proof. exact Props.C12.C12_scala. Qed.
Print Assumptions Props.C12.C12_scala.
Goal c12_sc_dom Proofs.C12_Scala.c12_sc_witness = true /\
  c12_sc_scan Proofs.C12_Scala.c12_sc_witness = true /\
  c12_sc_observe uc_exec Proofs.C12_Scala.c12_sc_cfg0 Proofs.C12_Scala.c12_sc_witness =
    Ok ([lit "UShort"], [lit "UByte"; lit "UShort"; lit "UInt"; lit "ULong"]) /\
  c12_good [lit "UShort"] [lit "UByte"; lit "UShort"; lit "UInt"; lit "ULong"] = true.
Proof. exact Props.C12.C12_scala_unsigned_depth_fixed. Qed.
Print Assumptions Props.C12.C12_scala_unsigned_depth_fixed.
Goal forall (uc : unicode) (cfg : go_config) (pd : parsed) (uses defs : list str),
    c12_go_observe uc cfg pd = Ok (uses, defs) -> c12_go_dom cfg (items_of pd) = true ->
    c12_good uses defs = true.
Proof. exact Props.C12.C12_go. Qed.
Print Assumptions Props.C12.C12_go.
Goal forall (uc : unicode), unicode_ok uc ->
  forall (cfg : go_config) (pd : parsed) (uses defs : list str),
    c12_go_observe uc cfg pd = Ok (uses, defs) -> c12_go_dom_acr cfg (items_of pd) = true ->
    c12_good uses defs = true.
Proof. exact Props.C12.C12_go_acronyms. Qed.
Print Assumptions Props.C12.C12_go_acronyms.
Goal c12_go_dom_acr Proofs.C12_Go.c12_go_acr_cfg (items_of Proofs.C12_Go.c12_go_acr_pd) = true /\
  c12_go_observe uc_exec Proofs.C12_Go.c12_go_acr_cfg Proofs.C12_Go.c12_go_acr_pd =
    Ok ([lit "time"], [lit "json"; lit "time"]).
Proof. exact Props.C12.C12_go_acronyms_nonvacuous. Qed.
Print Assumptions Props.C12.C12_go_acronyms_nonvacuous.
Goal forall (uc : unicode) (cfg : kt_config) (pd : parsed) (uses defs : list str),
    c12_kt_observe uc cfg pd = Ok (uses, defs) -> c12_kt_known cfg pd = None ->
    c12_good uses defs = true.
Proof. exact Props.C12.C12_kotlin. Qed.
Print Assumptions Props.C12.C12_kotlin.
Goal c12_kt_known (Proofs.C12.c12_kt_cfg []) Proofs.C12.c12_nonvac_pd = Some "C12-kotlin-empty-package"%string /\
  c12_kt_observe uc_exec (Proofs.C12.c12_kt_cfg []) Proofs.C12.c12_nonvac_pd = Ok ([lit "Serializable"], []) /\
  c12_good [lit "Serializable"] [] = false.
Proof. exact Props.C12.C12_kotlin_empty_package_refuted. Qed.
Print Assumptions Props.C12.C12_kotlin_empty_package_refuted.
Goal c12_kt_known (Proofs.C12.c12_kt_cfg (lit "com.p")) Proofs.C12.c12_kt_inline_pd = Some "C12-kotlin-jvminline"%string /\
  c12_kt_observe uc_exec (Proofs.C12.c12_kt_cfg (lit "com.p")) Proofs.C12.c12_kt_inline_pd =
    Ok ([lit "Serializable"; lit "JvmInline"], [lit "Serializable"; lit "SerialName"]) /\
  c12_good [lit "Serializable"; lit "JvmInline"] [lit "Serializable"; lit "SerialName"] = false.
Proof. exact Props.C12.C12_kotlin_jvminline_refuted. Qed.
Print Assumptions Props.C12.C12_kotlin_jvminline_refuted.
Goal forall (cfg : py_config) (generics : list str) (t : rtype),
    Forall (fun id => ~ In id c12_py_reserved) (c12_rtype_ids t) ->
    forall (s : py_state) (x : texp) (s' : py_state),
      py_texp cfg generics t s = Ok (x, s') ->
      incl (c12_py_imported s) (c12_py_imported s') /\
      (forall u, In u (c12_py_tnames x) -> In u c12_py_fixed -> In u (c12_py_imported s')).
Proof. exact Props.C12.C12_python_format_type. Qed.
Print Assumptions Props.C12.C12_python_format_type.
Goal forall (uc : unicode) (cfg : py_config) (pd : parsed) (uses defs : list str),
    c12_py_observe uc cfg pd = Ok (uses, defs) -> c12_py_dom cfg (items_of pd) = true ->
    c12_py_known cfg pd = None ->
    c12_good uses defs = true.
Proof. exact Props.C12.C12_python. Qed.
Print Assumptions Props.C12.C12_python.
Goal c12_py_known Proofs.C12.c12_py_cfg1 Proofs.C12.c12_py_full_pd = None /\
  c12_py_dom Proofs.C12.c12_py_cfg1 (items_of Proofs.C12.c12_py_full_pd) = true /\
  exists uses defs, c12_py_observe uc_exec Proofs.C12.c12_py_cfg1 Proofs.C12.c12_py_full_pd = Ok (uses, defs) /\
                    In (lit "T") uses /\ In (lit "TypeVar") uses /\ In (lit "parse_rfc3339") uses /\
                    In (lit "deserialize_binary_data") uses /\ In (lit "datetime") uses /\
                    c12_good uses defs = true.
Proof. exact Props.C12.C12_python_nonvacuous. Qed.
Print Assumptions Props.C12.C12_python_nonvacuous.
Goal forall (uc : unicode) (cfg : py_config) (pd : parsed) (ds : list py_decl) (st : py_state),
    py_decls uc cfg pd = Ok (ds, st) -> c12_py_dom cfg (items_of pd) = true ->
    forall u, In u (flat_map (c12_py_decl_uses (c12_py_tv_vocab (items_of pd))) ds) ->
      In u (c12_py_tv_vocab (items_of pd)) \/ In u Proofs.C12_Python.c12_py_fn_names \/
      In u (c12_py_defs (py_type_variables st) (c12_py_fns st) (c12_py_imported st)).
Proof. exact Props.C12.C12_python_body_partial. Qed.
Print Assumptions Props.C12.C12_python_body_partial.
Goal c12_py_known Proofs.C12.c12_py_cfg0 Proofs.C12.c12_py_alias_pd = Some "C12-python-alias-typevar"%string /\
  c12_py_dom Proofs.C12.c12_py_cfg0 (items_of Proofs.C12.c12_py_alias_pd) = true /\
  exists uses defs, c12_py_observe uc_exec Proofs.C12.c12_py_cfg0 Proofs.C12.c12_py_alias_pd = Ok (uses, defs) /\
                    In (lit "T") uses /\ ~ In (lit "T") defs /\ c12_good uses defs = false.
Proof. exact Props.C12.C12_python_alias_typevar_refuted. Qed.
Print Assumptions Props.C12.C12_python_alias_typevar_refuted.
Goal c12_py_known Proofs.C12.c12_py_cfg0 Proofs.C12.c12_py_default_pd = Some "C12-python-default-translation"%string /\
  c12_py_dom Proofs.C12.c12_py_cfg0 (items_of Proofs.C12.c12_py_default_pd) = true /\
  exists uses defs, c12_py_observe uc_exec Proofs.C12.c12_py_cfg0 Proofs.C12.c12_py_default_pd = Ok (uses, defs) /\
                    In (lit "parse_rfc3339") uses /\ ~ In (lit "parse_rfc3339") defs /\ c12_good uses defs = false.
Proof. exact Props.C12.C12_python_default_translation_refuted. Qed.
Print Assumptions Props.C12.C12_python_default_translation_refuted.
Goal forall (uc : unicode) (cfg : py_config) (st : py_state) (pd : parsed) (text : str) (st' : py_state),
    py_generate_multi uc cfg st pd = Ok (text, st') <->
    exists ds, Proofs.C12Multi.py_multi_decls uc cfg st pd = Ok (ds, st') /\
               text = py_begin_file cfg ++ py_write_all_imports st' ++ py_write_custom_translations st' ++
                      List.concat (map py_render_decl ds).
Proof. exact Props.C12.C12_multi_python_layout. Qed.
Print Assumptions Props.C12.C12_multi_python_layout.
Goal forall (uc : unicode) (cfg : py_config) (pd : parsed),
    Proofs.C12Multi.c12_py_observe_multi uc cfg py_empty_state pd = c12_py_observe uc cfg pd.
Proof. exact Props.C12.C12_multi_python_observe_initial. Qed.
Print Assumptions Props.C12.C12_multi_python_observe_initial.
Goal (forall st : py_state,
     Proofs.C12Multi.c12_py_state_ok st = true <->
     (py_type_variables st <> [] -> In (lit "TypeVar") (c12_py_imported st)) /\
     (In (lit "datetime") (py_custom_types st) -> In (lit "datetime") (c12_py_imported st))) /\
  Proofs.C12Multi.c12_py_state_ok py_empty_state = true.
Proof. exact Props.C12.C12_multi_python_state_ok_meaning. Qed.
Print Assumptions Props.C12.C12_multi_python_state_ok_meaning.
Goal forall (uc : unicode) (cfg : py_config) (st0 : py_state) (pd : parsed),
    Proofs.C12Multi.c12_py_state_ok st0 = true -> c12_py_dom cfg (items_of pd) = true ->
    (forall uses defs, Proofs.C12Multi.c12_py_observe_multi uc cfg st0 pd = Ok (uses, defs) ->
       c12_py_known cfg pd = None -> c12_good uses defs = true) /\
    (forall ds st, Proofs.C12Multi.py_multi_decls uc cfg st0 pd = Ok (ds, st) -> Proofs.C12Multi.c12_py_state_ok st = true).
Proof. exact Props.C12.C12_multi_python_file. Qed.
Print Assumptions Props.C12.C12_multi_python_file.
Goal forall (uc : unicode) (cfg : py_config) (st0 : py_state) (plan : list out_plan)
         (files : list (str * Writer.gen_result)) (fin : outcome py_state),
    Proofs.C12Multi.c12_py_state_ok st0 = true ->
    generate_crates (Proofs.C12Multi.py_multi_gen uc cfg) st0 plan = (files, fin) ->
    (forall i fname text,
       nth_error files i = Some (fname, Writer.Generated text) ->
       Forall (fun p => c12_py_dom cfg (items_of (op_data p)) = true) (firstn (S i) plan) ->
       exists p st_i st_i' ds uses defs,
         nth_error plan i = Some p /\ fname = op_file p /\ Proofs.C12Multi.c12_py_state_ok st_i = true /\
         py_generate_multi uc cfg st_i (op_data p) = Ok (text, st_i') /\
         Proofs.C12Multi.py_multi_decls uc cfg st_i (op_data p) = Ok (ds, st_i') /\
         text = py_begin_file cfg ++ py_write_all_imports st_i' ++ py_write_custom_translations st_i' ++
                List.concat (map py_render_decl ds) /\
         Proofs.C12Multi.c12_py_observe_multi uc cfg st_i (op_data p) = Ok (uses, defs) /\
         (c12_py_known cfg (op_data p) = None -> c12_good uses defs = true)) /\
    (forall st', fin = Ok st' -> Forall (fun p => c12_py_dom cfg (items_of (op_data p)) = true) plan ->
       Proofs.C12Multi.c12_py_state_ok st' = true).
Proof. exact Props.C12.C12_multi_python. Qed.
Print Assumptions Props.C12.C12_multi_python.
Goal forall uc cfg st c im pd, Proofs.C12Multi.py_multi_gen uc cfg st c im pd = py_generate_multi uc cfg st pd.
Proof. exact Props.C12.C12_multi_python_gen_meaning. Qed.
Print Assumptions Props.C12.C12_multi_python_gen_meaning.
Goal exists plan t_alpha st_fin,
    Proofs.C12MultiWitness.y_plan Python Proofs.C12MultiWitness.ws_py_plain = Some plan /\
    map op_crate plan = [lit "alpha"; lit "beta"] /\
    forallb (fun p => c12_py_dom Proofs.C12MultiWitness.y_py_cfg (items_of (op_data p))) plan = true /\
    forallb (fun p => Proofs.C12MultiWitness.y_none (c12_py_known Proofs.C12MultiWitness.y_py_cfg (op_data p))) plan = true /\
    generate_crates (Proofs.C12Multi.py_multi_gen uc_exec Proofs.C12MultiWitness.y_py_cfg) py_empty_state plan =
      ([(lit "alpha.py", Writer.Generated t_alpha); (lit "beta.py", Writer.Generated Proofs.C12MultiWitness.y_beta_plain_py)], Ok st_fin) /\
    py_type_variables st_fin = [lit "T"] /\ py_custom_types st_fin = [lit "datetime"] /\
    Proofs.C12MultiWitness.py_multi_observations Proofs.C12MultiWitness.y_py_cfg py_empty_state plan =
      [(lit "alpha.py", Ok (Proofs.C12MultiWitness.y_py_uses_generic (lit "T"), Proofs.C12MultiWitness.y_py_defs_alpha));
       (lit "beta.py", Ok ([lit "TypeVar"; lit "datetime"; lit "BaseModel"], Proofs.C12MultiWitness.y_py_defs_alpha))] /\
    c12_good (Proofs.C12MultiWitness.y_py_uses_generic (lit "T")) Proofs.C12MultiWitness.y_py_defs_alpha = true /\
    c12_good [lit "TypeVar"; lit "datetime"; lit "BaseModel"] Proofs.C12MultiWitness.y_py_defs_alpha = true.
Proof. exact Props.C12.C12_multi_python_nonvacuous_plain. Qed.
Print Assumptions Props.C12.C12_multi_python_nonvacuous_plain.
Goal exists plan t_alpha t_beta st_fin,
    Proofs.C12MultiWitness.y_plan Python Proofs.C12MultiWitness.ws_py_again = Some plan /\
    map op_crate plan = [lit "alpha"; lit "beta"] /\
    forallb (fun p => c12_py_dom Proofs.C12MultiWitness.y_py_cfg (items_of (op_data p))) plan = true /\
    forallb (fun p => Proofs.C12MultiWitness.y_none (c12_py_known Proofs.C12MultiWitness.y_py_cfg (op_data p))) plan = true /\
    generate_crates (Proofs.C12Multi.py_multi_gen uc_exec Proofs.C12MultiWitness.y_py_cfg) py_empty_state plan =
      ([(lit "alpha.py", Writer.Generated t_alpha); (lit "beta.py", Writer.Generated t_beta)], Ok st_fin) /\
    py_type_variables st_fin = [lit "T"; lit "U"] /\
    Proofs.C12MultiWitness.py_multi_observations Proofs.C12MultiWitness.y_py_cfg py_empty_state plan =
      [(lit "alpha.py", Ok (Proofs.C12MultiWitness.y_py_uses_generic (lit "T"), Proofs.C12MultiWitness.y_py_defs_alpha));
       (lit "beta.py", Ok (Proofs.C12MultiWitness.y_py_uses_generic (lit "U"),
                           lit "T" :: lit "U" :: tl Proofs.C12MultiWitness.y_py_defs_alpha))] /\
    c12_good (Proofs.C12MultiWitness.y_py_uses_generic (lit "U")) (lit "T" :: lit "U" :: tl Proofs.C12MultiWitness.y_py_defs_alpha) = true.
Proof. exact Props.C12.C12_multi_python_nonvacuous_again. Qed.
Print Assumptions Props.C12.C12_multi_python_nonvacuous_again.
Goal exists plan p_alpha p_beta t_alpha st1 t_beta st2 uses defs,
    Proofs.C12MultiWitness.y_plan Python Proofs.C12MultiWitness.ws_py_plain = Some plan /\ plan = [p_alpha; p_beta] /\
    py_generate_multi uc_exec Proofs.C12MultiWitness.y_py_cfg py_empty_state (op_data p_alpha) = Ok (t_alpha, st1) /\
    Proofs.C12Multi.c12_py_state_ok st1 = true /\
    Proofs.C12Multi.c12_py_state_ok (Proofs.C12MultiWitness.py_drain st1) = false /\
    generate_crates (Proofs.C12MultiWitness.py_drained_gen Proofs.C12MultiWitness.y_py_cfg) py_empty_state plan =
      ([(lit "alpha.py", Writer.Generated t_alpha); (lit "beta.py", Writer.Generated t_beta)], Ok st2) /\
    t_beta <> Proofs.C12MultiWitness.y_beta_plain_py /\
    Proofs.C12Multi.c12_py_observe_multi uc_exec Proofs.C12MultiWitness.y_py_cfg (Proofs.C12MultiWitness.py_drain st1) (op_data p_beta) = Ok (uses, defs) /\
    In (lit "TypeVar") uses /\ ~ In (lit "TypeVar") defs /\ In (lit "datetime") uses /\ ~ In (lit "datetime") defs /\
    c12_good uses defs = false.
Proof. exact Props.C12.C12_multi_python_drain_regression. Qed.
Print Assumptions Props.C12.C12_multi_python_drain_regression.
