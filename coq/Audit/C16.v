(* Pinned statements for C16: compiled on every check run. A statement weakened in Props/ fails here. *)
From Coq Require Import String.
From TS Require Import Model.Str Model.Outcome Model.Unicode Model.Rename Spec.SerdeCase Spec.C16Spec.
From TS Require Proofs.C16.
From TS Require Props.C16.

Goal forall (uc : unicode), unicode_ok uc ->
  forall (p : position) (rule_str : option str) (s : str),
    known_C16 p s = None ->
    good_C16 uc p rule_str s (rename_all_to_case uc s rule_str) = true.
Proof. exact Props.C16.C16_rename_all_agrees_with_serde. Qed.
Print Assumptions Props.C16.C16_rename_all_agrees_with_serde.
Goal forall (uc : unicode), unicode_ok uc ->
  forall rs r s, rule_from_str rs = Some r -> forallb snake_char s = true ->
    rename_all_to_case uc s (Some rs) = Proofs.C16.as_outcome (apply_to_field r s).
Proof. exact Props.C16.C16_field. Qed.
Print Assumptions Props.C16.C16_field.
Goal forall (uc : unicode), unicode_ok uc ->
  forall rs r s, rule_from_str rs = Some r -> conv_variant s = true -> allcaps s = false ->
    rename_all_to_case uc s (Some rs) = Proofs.C16.as_outcome (apply_to_variant uc r s).
Proof. exact Props.C16.C16_variant. Qed.
Print Assumptions Props.C16.C16_variant.
Goal forall (uc : unicode) rs s, rule_from_str rs = None -> rename_all_to_case uc s (Some rs) = Ok s.
Proof. exact Props.C16.C16_unknown_rule. Qed.
Print Assumptions Props.C16.C16_unknown_rule.
Goal Proofs.C16.refuted PField (lit "snake_case") (lit "fooBar").
Proof. exact Props.C16.C16_field_has_upper_refuted. Qed.
Print Assumptions Props.C16.C16_field_has_upper_refuted.
Goal Proofs.C16.refuted PVariant (lit "snake_case") (lit "URL").
Proof. exact Props.C16.C16_variant_allcaps_refuted. Qed.
Print Assumptions Props.C16.C16_variant_allcaps_refuted.
Goal Proofs.C16.refuted PVariant (lit "PascalCase") (lit "Foo_Bar").
Proof. exact Props.C16.C16_variant_has_underscore_refuted. Qed.
Print Assumptions Props.C16.C16_variant_has_underscore_refuted.
Goal Proofs.C16.refuted PVariant (lit "lowercase") [201%N; 97%N].
Proof. exact Props.C16.C16_variant_nonascii_refuted. Qed.
Print Assumptions Props.C16.C16_variant_nonascii_refuted.
Goal Proofs.C16.refuted PVariant (lit "PascalCase") (lit "aB").
Proof. exact Props.C16.C16_variant_lower_first_refuted. Qed.
Print Assumptions Props.C16.C16_variant_lower_first_refuted.
Goal Proofs.C16.refuted PField (lit "UPPERCASE") [233%N; 97%N].
Proof. exact Props.C16.C16_field_nonascii_refuted. Qed.
Print Assumptions Props.C16.C16_field_nonascii_refuted.
