(* Pinned statements for C16: compiled on every check run. A statement weakened in Props/ fails here. *)
From Coq Require Import String.
From TS Require Import Model.Str Model.Outcome Model.Unicode Model.Rename Spec.SerdeCase Spec.C16Spec.
From TS Require Proofs.C16.
From TS Require Props.C16.

Check (Props.C16.C16_rename_all_agrees_with_serde :
  forall (uc : unicode), unicode_ok uc ->
  forall (p : position) (rule_str : option str) (s : str),
    known_C16 p s = None ->
    good_C16 uc p rule_str s (rename_all_to_case uc s rule_str) = true).
Print Assumptions Props.C16.C16_rename_all_agrees_with_serde.
Check (Props.C16.C16_field :
  forall (uc : unicode), unicode_ok uc ->
  forall rs r s, rule_from_str rs = Some r -> forallb snake_char s = true ->
    rename_all_to_case uc s (Some rs) = Proofs.C16.as_outcome (apply_to_field r s)).
Print Assumptions Props.C16.C16_field.
Check (Props.C16.C16_variant :
  forall (uc : unicode), unicode_ok uc ->
  forall rs r s, rule_from_str rs = Some r -> conv_variant s = true -> allcaps s = false ->
    rename_all_to_case uc s (Some rs) = Proofs.C16.as_outcome (apply_to_variant uc r s)).
Print Assumptions Props.C16.C16_variant.
Check (Props.C16.C16_unknown_rule :
  forall (uc : unicode) rs s, rule_from_str rs = None -> rename_all_to_case uc s (Some rs) = Ok s).
Print Assumptions Props.C16.C16_unknown_rule.
Check (Props.C16.C16_field_has_upper_refuted :
  Proofs.C16.refuted PField (lit "snake_case") (lit "fooBar")).
Print Assumptions Props.C16.C16_field_has_upper_refuted.
Check (Props.C16.C16_variant_allcaps_refuted :
  Proofs.C16.refuted PVariant (lit "snake_case") (lit "URL")).
Print Assumptions Props.C16.C16_variant_allcaps_refuted.
Check (Props.C16.C16_variant_has_underscore_refuted :
  Proofs.C16.refuted PVariant (lit "PascalCase") (lit "Foo_Bar")).
Print Assumptions Props.C16.C16_variant_has_underscore_refuted.
Check (Props.C16.C16_variant_nonascii_refuted :
  Proofs.C16.refuted PVariant (lit "lowercase") [201%N; 97%N]).
Print Assumptions Props.C16.C16_variant_nonascii_refuted.
Check (Props.C16.C16_variant_lower_first_refuted :
  Proofs.C16.refuted PVariant (lit "PascalCase") (lit "aB")).
Print Assumptions Props.C16.C16_variant_lower_first_refuted.
Check (Props.C16.C16_field_nonascii_refuted :
  Proofs.C16.refuted PField (lit "UPPERCASE") [233%N; 97%N]).
Print Assumptions Props.C16.C16_field_nonascii_refuted.
