(* Pinned statements for C03: compiled on every check run. A statement weakened in Props/ fails here. *)
From Coq Require Import String List Bool.
From TS Require Import Model.Str Model.Outcome Model.Unicode Model.Syntax Model.Attrs Model.Types Model.Parse Model.Reconcile
                       Model.Lang.Common Model.Lang.Decl Model.Lang.TypeScript Model.Lang.Kotlin Model.Lang.Swift
                       Model.Lang.Scala Model.Lang.Go Model.Lang.Python.
From TS Require Import Spec.Serde Spec.TargetOsRule Spec.C03Spec.
From TS Require Proofs.FrontItems Proofs.C03 Proofs.C03_TS Proofs.C03_Kotlin Proofs.C03_Swift Proofs.C03_Scala Proofs.C03_Go
                Proofs.C03_Python Proofs.C03_Witness Proofs.C03Src Proofs.C03E2E Proofs.C03_All.
Import ListNotations.
From TS Require Import Model.MultiFile.
From TS Require Proofs.C12Multi Proofs.C12MultiTS Proofs.C12MultiSwift Proofs.C12MultiGo Proofs.MultiSameItems.
Definition parse_leaf (uc : unicode) (tstr : str -> option ty) (T : list str) (it : item) : outcome ritem :=
  match it with
  | IStruct a i g fs => parse_struct uc tstr T a i g fs
  | IEnum a i g vs => parse_enum uc tstr T a i g vs
  | IType a i g t => parse_type_alias uc tstr a i g t
  | IConst a i t e => parse_const uc tstr a i t e
  | _ => Panic "not a leaf"
  end.
From TS Require Props.C03.

Goal forall (uc : unicode) (tstr : str -> option ty) (T : list str) (f : file) (r : option parsed),
  dom_C03_front f = true -> parse_file uc tstr T f = Ok r ->
  good_C03_front T f (c03_obs_of_parsed r) = true.
Proof. exact Props.C03.C03_items. Qed.
Print Assumptions Props.C03.C03_items.
Goal forall (uc : unicode) (tstr : str -> option ty) (T : list str) (f : file) (r : option parsed),
  dom_C03_front f = true -> parse_file uc tstr T f = Ok r ->
  let rs := map (parse_leaf uc tstr T) (expected_leaves T f) in
  let pd := match r with Some pd => pd | None => empty_parsed end in
  let oks := flat_map (fun o => match o with Ok it => [it] | _ => [] end) rs in
  Forall (fun o => is_panic o = false) rs /\
  p_structs pd = flat_map (fun it => match it with ItStruct s => [s] | _ => [] end) oks /\
  p_enums pd = flat_map (fun it => match it with ItEnum e => [e] | _ => [] end) oks /\
  p_aliases pd = flat_map (fun it => match it with ItAlias a => [a] | _ => [] end) oks /\
  p_consts pd = flat_map (fun it => match it with ItConst c => [c] | _ => [] end) oks /\
  p_errors pd = flat_map (fun o => match o with Err e => [e] | _ => [] end) rs.
Proof. exact Props.C03.C03_items_exact. Qed.
Print Assumptions Props.C03.C03_items_exact.
Goal forall (uc : unicode) (tstr : str -> option ty) (T : list str) (f : file) (r : option parsed) (x : item) (e : perr),
  dom_C03_front f = true -> parse_file uc tstr T f = Ok r ->
  In x (expected_leaves T f) -> parse_leaf uc tstr T x = Err e -> exists pd, r = Some pd /\ In e (p_errors pd).
Proof. exact Props.C03.C03_error_recorded. Qed.
Print Assumptions Props.C03.C03_error_recorded.
Goal forall (uc : unicode) (tstr : str -> option ty) (T : list str) (f : file),
  dom_C03_front f = true -> expected_leaves T f = [] -> parse_file uc tstr T f = Ok None.
Proof. exact Props.C03.C03_unannotated_nothing. Qed.
Print Assumptions Props.C03.C03_unannotated_nothing.
Goal forall (uc : unicode) (tstr : str -> option ty) (T : list str) (x : item) (it : ritem),
  parse_leaf uc tstr T x = Ok it ->
  c03_leaf_kind_ok x it /\ original (item_id it) = replace_sub (lit "r#") [] (leaf_ident x).
Proof. exact Props.C03.C03_item_identity. Qed.
Print Assumptions Props.C03.C03_item_identity.
Goal forall (uc : unicode) (tstr : str -> option ty) (T : list str) attrs ident gens (l : list field) (s : rstruct),
  forallb c03_field_ok l = true ->
  parse_struct uc tstr T attrs ident gens (FNamed l) = Ok (ItStruct s) ->
  map (fun rf => original (fid rf)) (sfields s) = expected_field_names T l.
Proof. exact Props.C03.C03_members_struct. Qed.
Print Assumptions Props.C03.C03_members_struct.
Goal forall (uc : unicode) (tstr : str -> option ty) (T : list str) attrs ident gens (vs : list variant) (e : renum),
  forallb c03_variant_ok vs = true ->
  parse_enum uc tstr T attrs ident gens vs = Ok (ItEnum e) ->
  map (fun rv => original (vid (variant_shared rv))) (evariants (enum_shared e)) = expected_variant_names T vs.
Proof. exact Props.C03.C03_members_enum. Qed.
Print Assumptions Props.C03.C03_members_enum.
Goal forall (uc : unicode) (tstr : str -> option ty) (T : list str) attrs ident gens (vs : list variant) (e : renum),
  forallb c03_variant_ok vs = true ->
  parse_enum uc tstr T attrs ident gens vs = Ok (ItEnum e) ->
  Forall2 (fun v rv => match v_fields v with
                       | FNamed l => exists fs sh, rv = VAnon fs sh /\ map (fun rf => original (fid rf)) fs = expected_field_names T l
                       | FUnnamed _ => exists t sh, rv = VTuple t sh
                       | FUnit => exists sh, rv = VUnit sh
                       end)
          (filter (fun v => negb (member_skipped T (v_attrs v))) vs) (evariants (enum_shared e)).
Proof. exact Props.C03.C03_members_variant_fields. Qed.
Print Assumptions Props.C03.C03_members_variant_fields.
Goal forall (uc : unicode) (tstr : str -> option ty) (T : list str) (x : item) (it : ritem),
  parse_leaf uc tstr T x = Ok it -> dom_C03_item it = true.
Proof. exact Props.C03.C03_parsed_in_dom. Qed.
Print Assumptions Props.C03.C03_parsed_in_dom.
Goal forall (uc : unicode), unicode_ok uc -> forall (tstr : str -> option ty) (T : list str) (L : lang) (x : item) (it : ritem),
  dom_C03_src T x = true -> parse_leaf uc tstr T x = Ok it ->
  c03_expected_sigs L it = c03_src_expected_sigs uc T L x.
Proof. exact Props.C03.C03_src_item. Qed.
Print Assumptions Props.C03.C03_src_item.
Goal forall (uc : unicode), unicode_ok uc -> forall (tstr : str -> option ty) (T : list str) (L : lang) (f : file) (its : list ritem),
  forallb (dom_C03_src T) (expected_leaves T f) = true ->
  Forall2 (fun x it => parse_leaf uc tstr T x = Ok it) (expected_leaves T f) its ->
  c03_src_file_expected uc T L f = flat_map (c03_expected_sigs L) its.
Proof. exact Props.C03.C03_src_file. Qed.
Print Assumptions Props.C03.C03_src_file.
Goal forall (uc : unicode) (cfg : ts_config) (it : ritem) st d st',
  ts_decl_of uc cfg it st = Ok (d, st') -> good_C03_item TypeScript it [ts_obs d] = true.
Proof. exact Props.C03.C03_item_TypeScript. Qed.
Print Assumptions Props.C03.C03_item_TypeScript.
Goal forall (uc : unicode) (cfg : ts_config) (pd : parsed) (fd : file_decls),
  ts_file_decls uc cfg pd = Ok fd -> good_C03_file TypeScript pd fd = true.
Proof. exact Props.C03.C03_back_TypeScript. Qed.
Print Assumptions Props.C03.C03_back_TypeScript.
Goal forall (cfg : kt_config) (it : ritem) ds,
  kt_decl_of cfg it = Ok ds -> dom_C03_item it = true -> good_C03_item Kotlin it (map kt_obs ds) = true.
Proof. exact Props.C03.C03_item_Kotlin. Qed.
Print Assumptions Props.C03.C03_item_Kotlin.
Goal forall (uc : unicode) (cfg : kt_config) (pd : parsed) (fd : file_decls),
  kt_file_decls uc cfg pd = Ok fd -> dom_C03_file pd = true -> good_C03_file Kotlin pd fd = true.
Proof. exact Props.C03.C03_back_Kotlin. Qed.
Print Assumptions Props.C03.C03_back_Kotlin.
Goal forall (uc : unicode) (cfg : sw_config) (it : ritem) st d st',
  sw_decl_of uc cfg it st = Ok (d, st') -> dom_C03_item it = true -> good_C03_item Swift it (sw_obs d) = true.
Proof. exact Props.C03.C03_item_Swift. Qed.
Print Assumptions Props.C03.C03_item_Swift.
Goal forall (uc : unicode) (cfg : sw_config) (pd : parsed) (fd : file_decls),
  sw_file_decls uc cfg pd = Ok fd -> dom_C03_file pd = true -> good_C03_file Swift pd fd = true.
Proof. exact Props.C03.C03_back_Swift. Qed.
Print Assumptions Props.C03.C03_back_Swift.
Goal forall (cfg : sc_config) (it : ritem) ds,
  sc_decl_of cfg it = Ok ds -> dom_C03_item it = true -> good_C03_item Scala it (flat_map sc_obs ds) = true.
Proof. exact Props.C03.C03_item_Scala. Qed.
Print Assumptions Props.C03.C03_item_Scala.
Goal forall (uc : unicode) (cfg : sc_config) (pd : parsed) (fd : file_decls),
  sc_file_decls uc cfg pd = Ok fd -> dom_C03_file pd = true -> known_C03_file uc Scala pd = None ->
  good_C03_file Scala pd fd = true.
Proof. exact Props.C03.C03_back_Scala. Qed.
Print Assumptions Props.C03.C03_back_Scala.
Goal exists pd fd, dom_C03_file pd = true /\ known_C03_file uc_exec Scala pd = Some "C03-scala-const"%string /\
                sc_file_decls uc_exec Proofs.C03_Witness.c03_sc_cfg pd = Ok fd /\ good_C03_file Scala pd fd = false.
Proof. exact Props.C03.C03_scala_const_refuted. Qed.
Print Assumptions Props.C03.C03_scala_const_refuted.
Goal forall (uc : unicode) (cfg : go_config) (custom_structs : list str) (it : ritem) st ds st',
  go_decl_of uc cfg custom_structs it st = Ok (ds, st') -> good_C03_item Go it (flat_map go_obs ds) = true.
Proof. exact Props.C03.C03_item_Go. Qed.
Print Assumptions Props.C03.C03_item_Go.
Goal forall (uc : unicode) (cfg : go_config) (pd : parsed) (fd : file_decls),
  go_file_decls uc cfg pd = Ok fd -> good_C03_file Go pd fd = true.
Proof. exact Props.C03.C03_back_Go. Qed.
Print Assumptions Props.C03.C03_back_Go.
Goal forall (uc : unicode) (cfg : py_config) (it : ritem) st ds st',
  py_decl_of uc cfg it st = Ok (ds, st') -> dom_C03_item it = true -> known_C03_item uc Python it = None ->
  good_C03_item Python it (flat_map py_obs ds) = true.
Proof. exact Props.C03.C03_item_Python. Qed.
Print Assumptions Props.C03.C03_item_Python.
Goal forall (uc : unicode) (cfg : py_config) (pd : parsed) (fd : file_decls),
  py_file_decls uc cfg pd = Ok fd -> dom_C03_file pd = true -> known_C03_file uc Python pd = None ->
  good_C03_file Python pd fd = true.
Proof. exact Props.C03.C03_back_Python. Qed.
Print Assumptions Props.C03.C03_back_Python.
Goal exists pd fd, dom_C03_file pd = true /\ known_C03_file uc_exec Python pd = Some "C03-python-typekey-collision"%string /\
                py_file_decls uc_exec Proofs.C03_Witness.c03_py_cfg pd = Ok fd /\ good_C03_file Python pd fd = false.
Proof. exact Props.C03.C03_python_typekey_collision_refuted. Qed.
Print Assumptions Props.C03.C03_python_typekey_collision_refuted.
Goal forall (uc : unicode), unicode_ok uc -> forall (tstr : str -> option ty) (T : list str) (cfg : ts_config)
    (f : file) (pd : parsed) (cn : str) (rn : renames) (fd : file_decls),
  dom_C03_src_file T f = true -> known_C03_src_file uc T TypeScript f = None ->
  parse_file uc tstr T f = Ok (Some pd) -> p_errors pd = [] ->
  ts_file_decls uc cfg (reconcile_crate rn cn pd) = Ok fd ->
  good_C03_src_file uc T TypeScript f (map c03_sig_of (fd_decls fd)) = true.
Proof. exact Props.C03.C03_end_to_end_TypeScript. Qed.
Print Assumptions Props.C03.C03_end_to_end_TypeScript.
Goal forall (uc : unicode), unicode_ok uc -> forall (tstr : str -> option ty) (T : list str) (cfg : kt_config)
    (f : file) (pd : parsed) (cn : str) (rn : renames) (fd : file_decls),
  dom_C03_src_file T f = true -> known_C03_src_file uc T Kotlin f = None ->
  parse_file uc tstr T f = Ok (Some pd) -> p_errors pd = [] ->
  kt_file_decls uc cfg (reconcile_crate rn cn pd) = Ok fd ->
  good_C03_src_file uc T Kotlin f (map c03_sig_of (fd_decls fd)) = true.
Proof. exact Props.C03.C03_end_to_end_Kotlin. Qed.
Print Assumptions Props.C03.C03_end_to_end_Kotlin.
Goal forall (uc : unicode), unicode_ok uc -> forall (tstr : str -> option ty) (T : list str) (cfg : sw_config)
    (f : file) (pd : parsed) (cn : str) (rn : renames) (fd : file_decls),
  dom_C03_src_file T f = true -> known_C03_src_file uc T Swift f = None ->
  parse_file uc tstr T f = Ok (Some pd) -> p_errors pd = [] ->
  sw_file_decls uc cfg (reconcile_crate rn cn pd) = Ok fd ->
  good_C03_src_file uc T Swift f (map c03_sig_of (fd_decls fd)) = true.
Proof. exact Props.C03.C03_end_to_end_Swift. Qed.
Print Assumptions Props.C03.C03_end_to_end_Swift.
Goal forall (uc : unicode), unicode_ok uc -> forall (tstr : str -> option ty) (T : list str) (cfg : sc_config)
    (f : file) (pd : parsed) (cn : str) (rn : renames) (fd : file_decls),
  dom_C03_src_file T f = true -> known_C03_src_file uc T Scala f = None ->
  parse_file uc tstr T f = Ok (Some pd) -> p_errors pd = [] ->
  sc_file_decls uc cfg (reconcile_crate rn cn pd) = Ok fd ->
  good_C03_src_file uc T Scala f (map c03_sig_of (fd_decls fd)) = true.
Proof. exact Props.C03.C03_end_to_end_Scala. Qed.
Print Assumptions Props.C03.C03_end_to_end_Scala.
Goal forall (uc : unicode), unicode_ok uc -> forall (tstr : str -> option ty) (T : list str) (cfg : go_config)
    (f : file) (pd : parsed) (cn : str) (rn : renames) (fd : file_decls),
  dom_C03_src_file T f = true -> known_C03_src_file uc T Go f = None ->
  parse_file uc tstr T f = Ok (Some pd) -> p_errors pd = [] ->
  go_file_decls uc cfg (reconcile_crate rn cn pd) = Ok fd ->
  good_C03_src_file uc T Go f (map c03_sig_of (fd_decls fd)) = true.
Proof. exact Props.C03.C03_end_to_end_Go. Qed.
Print Assumptions Props.C03.C03_end_to_end_Go.
Goal forall (uc : unicode), unicode_ok uc -> forall (tstr : str -> option ty) (T : list str) (cfg : py_config)
    (f : file) (pd : parsed) (cn : str) (rn : renames) (fd : file_decls),
  dom_C03_src_file T f = true -> known_C03_src_file uc T Python f = None ->
  parse_file uc tstr T f = Ok (Some pd) -> p_errors pd = [] ->
  py_file_decls uc cfg (reconcile_crate rn cn pd) = Ok fd ->
  good_C03_src_file uc T Python f (map c03_sig_of (fd_decls fd)) = true.
Proof. exact Props.C03.C03_end_to_end_Python. Qed.
Print Assumptions Props.C03.C03_end_to_end_Python.
Goal forall uc cfg st pd ds st',
  Proofs.C12MultiTS.ts_multi_decls uc cfg st pd = Ok (ds, st') ->
  exists fd, ts_file_decls uc cfg pd = Ok fd /\ fd_decls fd = map ts_obs ds /\ good_C03_file TypeScript pd fd = true.
Proof. exact Props.C03.C03_multi_back_TypeScript. Qed.
Print Assumptions Props.C03.C03_multi_back_TypeScript.
Goal forall uc cfg c im pd text,
  kt_generate_multi uc cfg c im pd = Ok text -> dom_C03_file pd = true ->
  exists ds fd, kt_decls uc cfg pd = Ok ds /\ kt_file_decls uc cfg pd = Ok fd /\ fd_decls fd = map kt_obs ds /\
                good_C03_file Kotlin pd fd = true.
Proof. exact Props.C03.C03_multi_back_Kotlin. Qed.
Print Assumptions Props.C03.C03_multi_back_Kotlin.
Goal forall uc cfg st pd ds st',
  Proofs.C12MultiSwift.sw_multi_decls uc cfg st pd = Ok (ds, st') -> dom_C03_file pd = true ->
  exists fd st0, sw_file_decls uc cfg pd = Ok fd /\
                 fd_decls fd = flat_map sw_obs ds ++ flat_map sw_obs (sw_trailing_decls cfg st0) /\
                 good_C03_file Swift pd fd = true.
Proof. exact Props.C03.C03_multi_back_Swift. Qed.
Print Assumptions Props.C03.C03_multi_back_Swift.
Goal forall uc cfg pd text,
  sc_generate uc cfg pd = Ok text -> dom_C03_file pd = true -> known_C03_file uc Scala pd = None ->
  exists objs pkgs fd, sc_decls uc cfg pd = Ok (objs, pkgs) /\ sc_file_decls uc cfg pd = Ok fd /\
                       fd_decls fd = flat_map sc_obs (objs ++ pkgs) /\ good_C03_file Scala pd fd = true.
Proof. exact Props.C03.C03_multi_back_Scala. Qed.
Print Assumptions Props.C03.C03_multi_back_Scala.
Goal forall uc cfg st pd ds st',
  Proofs.C12MultiGo.go_multi_decls uc cfg st pd = Ok (ds, st') ->
  exists fd, go_file_decls uc cfg pd = Ok fd /\ fd_decls fd = flat_map go_obs ds /\ good_C03_file Go pd fd = true.
Proof. exact Props.C03.C03_multi_back_Go. Qed.
Print Assumptions Props.C03.C03_multi_back_Go.
Goal forall uc cfg st pd ds st',
  Proofs.C12Multi.py_multi_decls uc cfg st pd = Ok (ds, st') -> dom_C03_file pd = true -> known_C03_file uc Python pd = None ->
  exists fd helpers, py_file_decls uc cfg pd = Ok fd /\
                     fd_decls fd = map py_helper_decl helpers ++ flat_map py_obs ds /\ good_C03_file Python pd fd = true.
Proof. exact Props.C03.C03_multi_back_Python. Qed.
Print Assumptions Props.C03.C03_multi_back_Python.
