(* Pinned statements for C15: compiled on every check run. A statement weakened in Props/ fails here. *)
From Coq Require Import List String Permutation.
From TS Require Import Model.Str Model.Outcome Model.Unicode Model.Syntax Model.Attrs Model.Types Model.Parse Model.Rename.
From TS Require Import Model.TopsortAlgo Model.Topsort Model.Lang.Common.
From TS Require Import Model.Lang.TypeScript Model.Lang.Kotlin Model.Lang.Swift Model.Lang.Scala Model.Lang.Go Model.Lang.Python.
From TS Require Import Spec.Lexers Spec.C15Spec Spec.C15Render.
From TS Require Proofs.C15_Front Proofs.C15_Replace Proofs.C15 Proofs.C15_Render Proofs.C15_Kotlin Proofs.C15_Go Proofs.C15_Swift Proofs.C15_Python Proofs.C15_TypeScript.
From TS Require Import Spec.C15RenderSwift.
From TS Require Proofs.C15_SwiftItem.
From TS Require Import Spec.C15RenderGo.
From TS Require Proofs.C15_GoItem Proofs.C15_GoFile.
From TS Require Import Spec.C15RenderScPy.
From TS Require Proofs.C15_ScalaItem.
From TS Require Proofs.C15_PythonItem.
From TS Require Import Spec.C15RenderPyFile.
From TS Require Proofs.C15_PythonFile.
From TS Require Import Spec.C15RenderKtSc.
From TS Require Proofs.C15_KotlinFile.
From TS Require Proofs.C15_ScalaFile.
From TS Require Import Model.MultiFile Spec.C15MultiSpec.
From TS Require Model.Writer Proofs.C10Multi Proofs.C15Multi Proofs.C15MultiWitness Proofs.C15MultiMore.
Import ListNotations.
From TS Require Props.C15.

Goal forall uc attrs,
  parse_comment_attrs uc attrs =
  flat_map (c15_carried uc)
      (flat_map (fun a => match a_meta a with
                          | MNV p (VStr s) => if path_is_ident p (lit "doc") then [s] else []
                          | _ => []
                          end) attrs).
Proof. exact Props.C15.C15_front_carried. Qed.
Print Assumptions Props.C15.C15_front_carried.
Goal forall uc v d, In d (c15_carried uc v) -> safe_line eol_lf_cr d = true.
Proof. exact Props.C15.C15_carried_no_break. Qed.
Print Assumptions Props.C15.C15_carried_no_break.
Goal forall uc attrs d, In d (parse_comment_attrs uc attrs) -> safe_line eol_lf_cr d = true.
Proof. exact Props.C15.C15_front_no_break. Qed.
Print Assumptions Props.C15.C15_front_no_break.
Goal forall uc l docstring vs, forallb (c15_safe l docstring) (flat_map (c15_carried uc) vs) = true.
Proof. exact Props.C15.C15_carried_safe. Qed.
Print Assumptions Props.C15.C15_carried_safe.
Goal forall d, ts_escape_comment d = c15_esc_ts d.
Proof. exact Props.C15.C15_ts_escape_model. Qed.
Print Assumptions Props.C15.C15_ts_escape_model.
Goal forall d, py_escape_docstring d = c15_esc_py d.
Proof. exact Props.C15.C15_py_escape_model. Qed.
Print Assumptions Props.C15.C15_py_escape_model.
Goal forall d, safe_ts (c15_esc_ts d) = true.
Proof. exact Props.C15.C15_ts_escape_safe. Qed.
Print Assumptions Props.C15.C15_ts_escape_safe.
Goal forall d, safe_py_docstring (c15_esc_py d) = true.
Proof. exact Props.C15.C15_py_escape_safe. Qed.
Print Assumptions Props.C15.C15_py_escape_safe.
Goal forall indent docs,
  text_of (ts_tmpl indent docs) = ts_comments indent docs /\ docs_of (ts_tmpl indent docs) = map c15_esc_ts docs.
Proof. exact Props.C15.C15_fragment_ts. Qed.
Print Assumptions Props.C15.C15_fragment_ts.
Goal forall indent docs,
  text_of (kt_tmpl indent docs) = kt_write_comments indent docs /\ docs_of (kt_tmpl indent docs) = docs.
Proof. exact Props.C15.C15_fragment_kt. Qed.
Print Assumptions Props.C15.C15_fragment_kt.
Goal forall indent docs,
  text_of (sw_tmpl indent docs) = sw_render_comments indent docs /\ docs_of (sw_tmpl indent docs) = docs.
Proof. exact Props.C15.C15_fragment_sw. Qed.
Print Assumptions Props.C15.C15_fragment_sw.
Goal forall indent docs,
  text_of (sc_tmpl indent docs) = sc_write_comments indent docs /\ docs_of (sc_tmpl indent docs) = docs.
Proof. exact Props.C15.C15_fragment_sc. Qed.
Print Assumptions Props.C15.C15_fragment_sc.
Goal forall indent docs,
  text_of (go_tmpl indent docs) = go_write_comments indent docs /\ docs_of (go_tmpl indent docs) = docs.
Proof. exact Props.C15.C15_fragment_go. Qed.
Print Assumptions Props.C15.C15_fragment_go.
Goal forall docstring indent docs,
  text_of (py_tmpl docstring indent docs) = py_write_comments docstring docs indent /\
  docs_of (py_tmpl docstring indent docs) = map (c15_written C15py docstring) docs.
Proof. exact Props.C15.C15_fragment_py. Qed.
Print Assumptions Props.C15.C15_fragment_py.
Goal forall indent docs, c15_contained C15ts LCode (mark (ts_tmpl indent docs)) = true.
Proof. exact Props.C15.C15_contained_ts. Qed.
Print Assumptions Props.C15.C15_contained_ts.
Goal forall uc indent vs,
  c15_contained C15kt LCode (mark (kt_tmpl indent (flat_map (c15_carried uc) vs))) = true.
Proof. exact Props.C15.C15_contained_kt. Qed.
Print Assumptions Props.C15.C15_contained_kt.
Goal forall uc indent vs,
  c15_contained C15sw LCode (mark (sw_tmpl indent (flat_map (c15_carried uc) vs))) = true.
Proof. exact Props.C15.C15_contained_sw. Qed.
Print Assumptions Props.C15.C15_contained_sw.
Goal forall uc indent vs,
  c15_contained C15sc LCode (mark (sc_tmpl indent (flat_map (c15_carried uc) vs))) = true.
Proof. exact Props.C15.C15_contained_sc. Qed.
Print Assumptions Props.C15.C15_contained_sc.
Goal forall uc indent vs,
  c15_contained C15go LCode (mark (go_tmpl indent (flat_map (c15_carried uc) vs))) = true.
Proof. exact Props.C15.C15_contained_go. Qed.
Print Assumptions Props.C15.C15_contained_go.
Goal forall uc docstring indent vs,
  c15_contained C15py LCode (mark (py_tmpl docstring indent (flat_map (c15_carried uc) vs))) = true.
Proof. exact Props.C15.C15_contained_py. Qed.
Print Assumptions Props.C15.C15_contained_py.
Goal forall indent docs, c15_contained C15py LCode (mark (py_tmpl true indent docs)) = true.
Proof. exact Props.C15.C15_contained_py_docstring. Qed.
Print Assumptions Props.C15.C15_contained_py_docstring.
Goal forall l docstring indent docs,
  c15_contained l LCode (mark (c15_tmpl l docstring indent docs)) = forallb (c15_safe l docstring) docs.
Proof. exact Props.C15.C15_exact. Qed.
Print Assumptions Props.C15.C15_exact.
Goal forall l docstring indent ws,
  c15_contained l LCode (mark (c15_tmpl_w l docstring indent ws)) = forallb (c15_safe_w l docstring) ws.
Proof. exact Props.C15.C15_exact_written. Qed.
Print Assumptions Props.C15.C15_exact_written.
Goal forall l sites, known_C15 l sites = None.
Proof. exact Props.C15.C15_no_finding_class. Qed.
Print Assumptions Props.C15.C15_no_finding_class.
Goal forall eol d,
  safe_line eol d = true <-> (forall c, In c d -> eol c = false).
Proof. exact Props.C15.C15_safe_line_meaning. Qed.
Print Assumptions Props.C15.C15_safe_line_meaning.
Goal forall d,
  safe_ts d = true <-> (forall a b, d <> a ++ [ch_star; ch_slash] ++ b).
Proof. exact Props.C15.C15_safe_ts_meaning. Qed.
Print Assumptions Props.C15.C15_safe_ts_meaning.
Goal forall l ps, Forall (c15_code_neutral l) ps ->
  c15_contained l LCode (mark (c15_file_pieces l ps)) = forallb (c15_part_safe l) ps.
Proof. exact Props.C15.C15_file_partial. Qed.
Print Assumptions Props.C15.C15_file_partial.
Goal forall (uc : unicode) (cfg : ts_config) it st text st',
  ts_write_item uc cfg it st = Ok (text, st') ->
  exists parts,
    text = text_of (c15_file_pieces C15ts parts) /\
    docs_of (c15_file_pieces C15ts parts) = map c15_esc_ts (c15_item_docs it) /\
    (Forall (c15_code_neutral C15ts) parts ->
     c15_contained C15ts LCode (mark (c15_file_pieces C15ts parts)) = true).
Proof. exact Props.C15.C15_ts_item_partial. Qed.
Print Assumptions Props.C15.C15_ts_item_partial.
Goal forall d : sc_decl,
  exists parts,
    sc_render_decl d = text_of (c15_file_pieces C15sc parts) /\
    docs_of (c15_file_pieces C15sc parts) = Proofs.C15.sc_decl_docs d /\
    (Forall (c15_code_neutral C15sc) parts ->
     c15_contained C15sc LCode (mark (c15_file_pieces C15sc parts)) = forallb safe_sc (Proofs.C15.sc_decl_docs d)).
Proof. exact Props.C15.C15_sc_render_partial. Qed.
Print Assumptions Props.C15.C15_sc_render_partial.
Goal Proofs.C15.c15_pinned C15kt (lit " alpha" ++ [ch_nl] ++ lit "beta ") [lit "alpha"; lit "beta"].
Proof. exact Props.C15.C15_kt_fixed. Qed.
Print Assumptions Props.C15.C15_kt_fixed.
Goal Proofs.C15.c15_pinned C15sw (lit " alpha" ++ [ch_nl] ++ lit "beta ") [lit "alpha"; lit "beta"].
Proof. exact Props.C15.C15_sw_fixed. Qed.
Print Assumptions Props.C15.C15_sw_fixed.
Goal Proofs.C15.c15_pinned C15sc (lit " alpha" ++ [ch_nl] ++ lit "beta ") [lit "alpha"; lit "beta"].
Proof. exact Props.C15.C15_sc_fixed. Qed.
Print Assumptions Props.C15.C15_sc_fixed.
Goal Proofs.C15.c15_pinned C15go (lit " alpha" ++ [ch_nl] ++ lit "beta ") [lit "alpha"; lit "beta"].
Proof. exact Props.C15.C15_go_fixed. Qed.
Print Assumptions Props.C15.C15_go_fixed.
Goal Proofs.C15.c15_pinned C15ts (lit "alpha */ beta") [lit "alpha */ beta"].
Proof. exact Props.C15.C15_ts_fixed. Qed.
Print Assumptions Props.C15.C15_ts_fixed.
Goal Proofs.C15.c15_pinned C15py (lit " alpha """""" beta") [lit "alpha """""" beta"].
Proof. exact Props.C15.C15_py_fixed. Qed.
Print Assumptions Props.C15.C15_py_fixed.
Goal forall it,
  Permutation (c15_item_docs_helpers_first it) (c15_item_generated it ++ c15_item_docs it).
Proof. exact Props.C15.C15_helpers_first_perm. Qed.
Print Assumptions Props.C15.C15_helpers_first_perm.
Goal forall (cfg : kt_config) it text,
  kt_write_item cfg it = Ok text ->
  exists parts,
    text = text_of (c15_file_pieces C15kt parts) /\
    docs_of (c15_file_pieces C15kt parts) = c15_item_docs_helpers_first it /\
    (Forall (c15_code_neutral C15kt) parts ->
     c15_contained C15kt LCode (mark (c15_file_pieces C15kt parts)) =
     forallb safe_kt (c15_item_docs_helpers_first it)).
Proof. exact Props.C15.C15_kt_render_partial. Qed.
Print Assumptions Props.C15.C15_kt_render_partial.
Goal forall (uc : unicode) (cfg : go_config) custom_structs it st text st',
  go_write_item uc cfg custom_structs it st = Ok (text, st') ->
  exists parts,
    text = text_of (c15_file_pieces C15go parts) /\
    docs_of (c15_file_pieces C15go parts) = c15_item_docs_helpers_first it /\
    (Forall (c15_code_neutral C15go) parts ->
     c15_contained C15go LCode (mark (c15_file_pieces C15go parts)) =
     forallb safe_go (c15_item_docs_helpers_first it)).
Proof. exact Props.C15.C15_go_render_partial. Qed.
Print Assumptions Props.C15.C15_go_render_partial.
Goal forall (uc : unicode) (cfg : sw_config) it st text st',
  sw_write_item uc cfg it st = Ok (text, st') ->
  exists parts,
    text = text_of (c15_file_pieces C15sw parts) /\
    docs_of (c15_file_pieces C15sw parts) = c15_sw_item_docs uc it /\
    (Forall (c15_code_neutral C15sw) parts ->
     c15_contained C15sw LCode (mark (c15_file_pieces C15sw parts)) =
     forallb safe_sw (c15_sw_item_docs uc it)).
Proof. exact Props.C15.C15_sw_render_partial. Qed.
Print Assumptions Props.C15.C15_sw_render_partial.
Goal forall (uc : unicode) (cfg : py_config) it st text st',
  py_write_item uc cfg it st = Ok (text, st') ->
  exists parts,
    text = text_of (c15_file_pieces C15py parts) /\
    docs_of (c15_file_pieces C15py parts) = map (c15_site_text C15py) (c15_py_item_sites it) /\
    (Forall (c15_code_neutral C15py) parts ->
     c15_contained C15py LCode (mark (c15_file_pieces C15py parts)) =
     forallb (c15_site_ok C15py) (c15_py_item_sites it)).
Proof. exact Props.C15.C15_py_render_partial. Qed.
Print Assumptions Props.C15.C15_py_render_partial.
Goal forall it,
  Permutation (map snd (c15_py_item_sites it)) (c15_item_generated it ++ c15_item_docs it).
Proof. exact Props.C15.C15_py_sites_perm. Qed.
Print Assumptions Props.C15.C15_py_sites_perm.
Goal forall (uc : unicode) (cfg : ts_config),
  c15_mappings_plain C15ts (ts_type_mappings cfg) = true ->
  forall it st text st',
  c15_item_plain C15ts TypeScript (fun n => str_to_uppercase uc (to_snake_case uc n)) it = true ->
  ts_write_item uc cfg it st = Ok (text, st') ->
  exists parts,
    text = text_of (c15_file_pieces C15ts parts) /\
    docs_of (c15_file_pieces C15ts parts) = map c15_esc_ts (c15_item_docs it) /\
    c15_contained C15ts LCode (mark (c15_file_pieces C15ts parts)) = true.
Proof. exact Props.C15.C15_ts_item. Qed.
Print Assumptions Props.C15.C15_ts_item.
Goal forall (cfg : kt_config),
  c15_plain C15kt (kt_prefix cfg) = true ->
  c15_mappings_plain C15kt (kt_type_mappings cfg) = true ->
  forall it text,
  c15_item_strict C15kt Kotlin it = true ->
  kt_write_item cfg it = Ok text ->
  exists parts,
    text = text_of (c15_file_pieces C15kt parts) /\
    docs_of (c15_file_pieces C15kt parts) = c15_item_docs_helpers_first it /\
    c15_contained C15kt LCode (mark (c15_file_pieces C15kt parts)) =
    forallb safe_kt (c15_item_docs_helpers_first it).
Proof. exact Props.C15.C15_kt_item. Qed.
Print Assumptions Props.C15.C15_kt_item.
Goal forall (uc : unicode) (cfg : ts_config),
  c15_mappings_plain C15ts (ts_type_mappings cfg) = true ->
  forall pd text,
  c15_no_star (ts_version cfg) = true ->
  forallb (c15_item_plain C15ts TypeScript (fun n => str_to_uppercase uc (to_snake_case uc n))) (items_of pd) = true ->
  forallb c15_ts_item_keys_ok (items_of pd) = true ->
  ts_generate uc cfg pd = Ok text ->
  exists items trailer parts,
    topsort (items_of pd) = Ok items /\ Permutation items (items_of pd) /\
    (trailer = [] \/ trailer = c15_ts_trailer_docs) /\
    text = text_of (c15_file_pieces C15ts parts) /\
    docs_of (c15_file_pieces C15ts parts) = map c15_esc_ts (flat_map c15_item_docs items ++ trailer) /\
    c15_contained C15ts LCode (mark (c15_file_pieces C15ts parts)) = true.
Proof. exact Props.C15.C15_ts_file. Qed.
Print Assumptions Props.C15.C15_ts_file.
Goal forall uc tstr T attrs ident gens fs it,
  parse_struct uc tstr T attrs ident gens fs = Ok it ->
  Forall (fun d => safe_line eol_lf_cr d = true) (c15_item_docs it).
Proof. exact Props.C15.C15_parsed_struct_line_free. Qed.
Print Assumptions Props.C15.C15_parsed_struct_line_free.
Goal forall uc tstr T attrs ident gens vs it,
  parse_enum uc tstr T attrs ident gens vs = Ok it ->
  Forall (fun d => safe_line eol_lf_cr d = true) (c15_item_docs it).
Proof. exact Props.C15.C15_parsed_enum_line_free. Qed.
Print Assumptions Props.C15.C15_parsed_enum_line_free.
Goal forall uc tstr attrs ident gens t it,
  parse_type_alias uc tstr attrs ident gens t = Ok it ->
  Forall (fun d => safe_line eol_lf_cr d = true) (c15_item_docs it).
Proof. exact Props.C15.C15_parsed_alias_line_free. Qed.
Print Assumptions Props.C15.C15_parsed_alias_line_free.
Goal forall (cfg : kt_config),
  c15_plain C15kt (kt_prefix cfg) = true ->
  c15_mappings_plain C15kt (kt_type_mappings cfg) = true ->
  forall it text,
  c15_item_strict C15kt Kotlin it = true ->
  Forall (fun d => safe_line eol_lf_cr d = true) (c15_item_docs it) ->
  kt_write_item cfg it = Ok text ->
  exists parts,
    text = text_of (c15_file_pieces C15kt parts) /\
    docs_of (c15_file_pieces C15kt parts) = c15_item_docs_helpers_first it /\
    c15_contained C15kt LCode (mark (c15_file_pieces C15kt parts)) = true.
Proof. exact Props.C15.C15_kt_item_line_free. Qed.
Print Assumptions Props.C15.C15_kt_item_line_free.
Goal forall (uc : unicode) (cfg : sw_config),
  c15_sw_raw (sw_prefix cfg) = true ->
  c15_mappings_plain C15sw (sw_type_mappings cfg) = true ->
  forallb (c15_plain C15sw) (sw_default_decorators cfg) = true ->
  forallb (c15_plain C15sw) (sw_default_generic_constraints cfg) = true ->
  forall it st text st',
  c15_sw_item_ok it = true ->
  sw_write_item uc cfg it st = Ok (text, st') ->
  exists parts,
    text = text_of (c15_file_pieces C15sw parts) /\
    docs_of (c15_file_pieces C15sw parts) = c15_sw_item_docs uc it /\
    c15_contained C15sw LCode (mark (c15_file_pieces C15sw parts)) = forallb safe_sw (c15_sw_item_docs uc it).
Proof. exact Props.C15.C15_sw_item. Qed.
Print Assumptions Props.C15.C15_sw_item.
Goal forall (uc : unicode) (cfg : sw_config),
  c15_sw_raw (sw_prefix cfg) = true ->
  c15_mappings_plain C15sw (sw_type_mappings cfg) = true ->
  forallb (c15_plain C15sw) (sw_default_decorators cfg) = true ->
  forallb (c15_plain C15sw) (sw_default_generic_constraints cfg) = true ->
  forall it st text st',
  c15_sw_item_ok it = true ->
  Forall (fun d => safe_line eol_lf_cr d = true) (c15_item_docs it) ->
  sw_write_item uc cfg it st = Ok (text, st') ->
  exists parts,
    text = text_of (c15_file_pieces C15sw parts) /\
    docs_of (c15_file_pieces C15sw parts) = c15_sw_item_docs uc it /\
    c15_contained C15sw LCode (mark (c15_file_pieces C15sw parts)) = true.
Proof. exact Props.C15.C15_sw_item_line_free. Qed.
Print Assumptions Props.C15.C15_sw_item_line_free.
Goal forall (uc : unicode) (cfg : sw_config),
  c15_sw_raw (sw_prefix cfg) = true ->
  c15_mappings_plain C15sw (sw_type_mappings cfg) = true ->
  forallb (c15_plain C15sw) (sw_default_decorators cfg) = true ->
  forallb (c15_plain C15sw) (sw_default_generic_constraints cfg) = true ->
  forallb (c15_plain C15sw) (sw_codablevoid_constraints cfg) = true ->
  c15_sw_version_ok (sw_version cfg) = true ->
  forall pd text,
  forallb c15_sw_item_ok (items_of pd) = true ->
  sw_generate uc cfg pd = Ok text ->
  exists items trailer parts,
    topsort (items_of pd) = Ok items /\ Permutation items (items_of pd) /\
    (trailer = [] \/ trailer = c15_sw_trailer_docs) /\
    text = text_of (c15_file_pieces C15sw parts) /\
    docs_of (c15_file_pieces C15sw parts) = flat_map (c15_sw_item_docs uc) items ++ trailer /\
    c15_contained C15sw LCode (mark (c15_file_pieces C15sw parts)) =
    forallb safe_sw (flat_map (c15_sw_item_docs uc) items).
Proof. exact Props.C15.C15_sw_file. Qed.
Print Assumptions Props.C15.C15_sw_file.
Goal forall (uc : unicode) (cfg : sw_config),
  c15_sw_raw (sw_prefix cfg) = true ->
  c15_mappings_plain C15sw (sw_type_mappings cfg) = true ->
  forallb (c15_plain C15sw) (sw_default_decorators cfg) = true ->
  forallb (c15_plain C15sw) (sw_default_generic_constraints cfg) = true ->
  forallb (c15_plain C15sw) (sw_codablevoid_constraints cfg) = true ->
  c15_sw_version_ok (sw_version cfg) = true ->
  forall pd text,
  forallb c15_sw_item_ok (items_of pd) = true ->
  Forall (fun it => Forall (fun d => safe_line eol_lf_cr d = true) (c15_item_docs it)) (items_of pd) ->
  sw_generate uc cfg pd = Ok text ->
  exists items trailer parts,
    topsort (items_of pd) = Ok items /\ Permutation items (items_of pd) /\
    (trailer = [] \/ trailer = c15_sw_trailer_docs) /\
    text = text_of (c15_file_pieces C15sw parts) /\
    docs_of (c15_file_pieces C15sw parts) = flat_map (c15_sw_item_docs uc) items ++ trailer /\
    c15_contained C15sw LCode (mark (c15_file_pieces C15sw parts)) = true.
Proof. exact Props.C15.C15_sw_file_line_free. Qed.
Print Assumptions Props.C15.C15_sw_file_line_free.
Goal forall (uc : unicode) (cfg : go_config) custom_structs,
  unicode_ok uc ->
  c15_go_mappings_ok (go_type_mappings cfg) = true ->
  forallb (forallb is_ascii) (go_uppercase_acronyms cfg) = true ->
  forall it st text st',
  c15_go_item_ok it = true ->
  go_write_item uc cfg custom_structs it st = Ok (text, st') ->
  exists parts,
    text = text_of (c15_file_pieces C15go parts) /\
    docs_of (c15_file_pieces C15go parts) = c15_item_docs_helpers_first it /\
    c15_contained C15go LCode (mark (c15_file_pieces C15go parts)) = forallb safe_go (c15_item_docs_helpers_first it).
Proof. exact Props.C15.C15_go_item. Qed.
Print Assumptions Props.C15.C15_go_item.
Goal forall (uc : unicode) (cfg : go_config) custom_structs,
  unicode_ok uc ->
  c15_go_mappings_ok (go_type_mappings cfg) = true ->
  forallb (forallb is_ascii) (go_uppercase_acronyms cfg) = true ->
  forall it st text st',
  c15_go_item_ok it = true ->
  Forall (fun d => safe_line eol_lf_cr d = true) (c15_item_docs it) ->
  go_write_item uc cfg custom_structs it st = Ok (text, st') ->
  exists parts,
    text = text_of (c15_file_pieces C15go parts) /\
    docs_of (c15_file_pieces C15go parts) = c15_item_docs_helpers_first it /\
    c15_contained C15go LCode (mark (c15_file_pieces C15go parts)) = true.
Proof. exact Props.C15.C15_go_item_line_free. Qed.
Print Assumptions Props.C15.C15_go_item_line_free.
Goal forall (uc : unicode), unicode_ok uc -> forall (cfg : go_config),
  c15_go_mappings_ok (go_type_mappings cfg) = true ->
  forallb (forallb is_ascii) (go_uppercase_acronyms cfg) = true ->
  c15_plain C15go (go_package cfg) = true ->
  forall pd text,
  forallb c15_go_item_ok (items_of pd) = true ->
  go_generate uc cfg pd = Ok text ->
  let header := if go_no_version_header cfg then []
                else [lit "Code generated by typeshare " ++ go_version cfg ++ lit ". DO NOT EDIT."] in
  exists items parts,
    topsort (items_of pd) = Ok items /\ Permutation items (items_of pd) /\
    text = text_of (c15_file_pieces C15go parts) /\
    docs_of (c15_file_pieces C15go parts) = header ++ flat_map c15_item_docs_helpers_first items /\
    c15_contained C15go LCode (mark (c15_file_pieces C15go parts)) =
    forallb safe_go (header ++ flat_map c15_item_docs_helpers_first items).
Proof. exact Props.C15.C15_go_file. Qed.
Print Assumptions Props.C15.C15_go_file.
Goal forall (uc : unicode), unicode_ok uc -> forall (cfg : go_config),
  c15_go_mappings_ok (go_type_mappings cfg) = true ->
  forallb (forallb is_ascii) (go_uppercase_acronyms cfg) = true ->
  c15_plain C15go (go_package cfg) = true ->
  forall pd text,
  forallb c15_go_item_ok (items_of pd) = true ->
  Forall (fun d => safe_line eol_lf_cr d = true) (flat_map c15_item_docs (items_of pd)) ->
  safe_go (go_version cfg) = true ->
  go_generate uc cfg pd = Ok text ->
  let header := if go_no_version_header cfg then []
                else [lit "Code generated by typeshare " ++ go_version cfg ++ lit ". DO NOT EDIT."] in
  exists items parts,
    topsort (items_of pd) = Ok items /\ Permutation items (items_of pd) /\
    text = text_of (c15_file_pieces C15go parts) /\
    docs_of (c15_file_pieces C15go parts) = header ++ flat_map c15_item_docs_helpers_first items /\
    c15_contained C15go LCode (mark (c15_file_pieces C15go parts)) = true.
Proof. exact Props.C15.C15_go_file_line_free. Qed.
Print Assumptions Props.C15.C15_go_file_line_free.
Goal forall d : sc_decl,
  c15_sc_decl_plain d = true ->
  exists parts,
    sc_render_decl d = text_of (c15_file_pieces C15sc parts) /\
    docs_of (c15_file_pieces C15sc parts) = Proofs.C15.sc_decl_docs d /\
    c15_contained C15sc LCode (mark (c15_file_pieces C15sc parts)) = forallb safe_sc (Proofs.C15.sc_decl_docs d).
Proof. exact Props.C15.C15_sc_decl. Qed.
Print Assumptions Props.C15.C15_sc_decl.
Goal forall (cfg : sc_config),
  c15_mappings_plain C15sc (sc_type_mappings cfg) = true ->
  forall it text,
  c15_item_strict C15sc Scala it = true ->
  sc_write_item cfg it = Ok text ->
  exists parts,
    text = text_of (c15_file_pieces C15sc parts) /\
    docs_of (c15_file_pieces C15sc parts) = c15_item_docs_helpers_first it /\
    c15_contained C15sc LCode (mark (c15_file_pieces C15sc parts)) =
    forallb safe_sc (c15_item_docs_helpers_first it).
Proof. exact Props.C15.C15_sc_item. Qed.
Print Assumptions Props.C15.C15_sc_item.
Goal forall (cfg : sc_config),
  c15_mappings_plain C15sc (sc_type_mappings cfg) = true ->
  forall it ds,
  c15_item_strict C15sc Scala it = true ->
  sc_decl_of cfg it = Ok ds -> forallb c15_sc_decl_plain ds = true.
Proof. exact Props.C15.C15_sc_item_decls_plain. Qed.
Print Assumptions Props.C15.C15_sc_item_decls_plain.
Goal forall (cfg : sc_config),
  c15_mappings_plain C15sc (sc_type_mappings cfg) = true ->
  forall it text,
  c15_item_strict C15sc Scala it = true ->
  Forall (fun d => safe_line eol_lf_cr d = true) (c15_item_docs it) ->
  sc_write_item cfg it = Ok text ->
  exists parts,
    text = text_of (c15_file_pieces C15sc parts) /\
    docs_of (c15_file_pieces C15sc parts) = c15_item_docs_helpers_first it /\
    c15_contained C15sc LCode (mark (c15_file_pieces C15sc parts)) = true.
Proof. exact Props.C15.C15_sc_item_line_free. Qed.
Print Assumptions Props.C15.C15_sc_item_line_free.
Goal forall (uc : unicode) (cfg : py_config),
  unicode_ok uc ->
  c15_mappings_plain C15py (py_type_mappings cfg) = true ->
  forall it st text st',
  c15_py_item_ok it = true ->
  py_write_item uc cfg it st = Ok (text, st') ->
  exists parts,
    text = text_of (c15_file_pieces C15py parts) /\
    docs_of (c15_file_pieces C15py parts) = map (c15_site_text C15py) (c15_py_item_sites it) /\
    c15_contained C15py LCode (mark (c15_file_pieces C15py parts)) = forallb (c15_site_ok C15py) (c15_py_item_sites it).
Proof. exact Props.C15.C15_py_item. Qed.
Print Assumptions Props.C15.C15_py_item.
Goal forall (uc : unicode) (cfg : py_config),
  unicode_ok uc ->
  c15_mappings_plain C15py (py_type_mappings cfg) = true ->
  forall it st text st',
  c15_py_item_ok it = true ->
  Forall (fun d => safe_line eol_lf_cr d = true) (c15_item_docs it) ->
  py_write_item uc cfg it st = Ok (text, st') ->
  exists parts,
    text = text_of (c15_file_pieces C15py parts) /\
    docs_of (c15_file_pieces C15py parts) = map (c15_site_text C15py) (c15_py_item_sites it) /\
    c15_contained C15py LCode (mark (c15_file_pieces C15py parts)) = true.
Proof. exact Props.C15.C15_py_item_line_free. Qed.
Print Assumptions Props.C15.C15_py_item_line_free.
Goal forall (uc : unicode), unicode_ok uc -> forall (cfg : py_config),
  c15_mappings_plain C15py (py_type_mappings cfg) = true ->
  c15_py_version_ok (py_version cfg) = true ->
  forall pd text,
  forallb c15_py_item_ok (items_of pd) = true ->
  forallb c15_py_item_typevars_ok (items_of pd) = true ->
  py_generate uc cfg pd = Ok text ->
  let header := if py_no_version_header cfg then [] else [c15_py_header_line (py_version cfg)] in
  exists items parts,
    topsort (items_of pd) = Ok items /\ Permutation items (items_of pd) /\
    text = text_of (c15_file_pieces C15py parts) /\
    docs_of (c15_file_pieces C15py parts) = header ++ map (c15_site_text C15py) (flat_map c15_py_item_sites items) /\
    c15_contained C15py LCode (mark (c15_file_pieces C15py parts)) =
      forallb (c15_site_ok C15py) (flat_map c15_py_item_sites items).
Proof. exact Props.C15.C15_py_file. Qed.
Print Assumptions Props.C15.C15_py_file.
Goal forall (uc : unicode), unicode_ok uc -> forall (cfg : py_config),
  c15_mappings_plain C15py (py_type_mappings cfg) = true ->
  c15_py_version_ok (py_version cfg) = true ->
  forall pd text,
  forallb c15_py_item_ok (items_of pd) = true ->
  forallb c15_py_item_typevars_ok (items_of pd) = true ->
  Forall (fun d => safe_line eol_lf_cr d = true) (flat_map c15_item_docs (items_of pd)) ->
  py_generate uc cfg pd = Ok text ->
  let header := if py_no_version_header cfg then [] else [c15_py_header_line (py_version cfg)] in
  exists items parts,
    topsort (items_of pd) = Ok items /\ Permutation items (items_of pd) /\
    text = text_of (c15_file_pieces C15py parts) /\
    docs_of (c15_file_pieces C15py parts) = header ++ map (c15_site_text C15py) (flat_map c15_py_item_sites items) /\
    c15_contained C15py LCode (mark (c15_file_pieces C15py parts)) = true.
Proof. exact Props.C15.C15_py_file_line_free. Qed.
Print Assumptions Props.C15.C15_py_file_line_free.
Goal forall (uc : unicode) (cfg : kt_config),
  c15_plain C15kt (kt_prefix cfg) = true ->
  c15_mappings_plain C15kt (kt_type_mappings cfg) = true ->
  c15_plain C15kt (kt_package cfg) = true ->
  c15_version_nested_ok (kt_version cfg) = true ->
  forall pd text,
  forallb (c15_item_strict C15kt Kotlin) (items_of pd) = true ->
  kt_generate uc cfg pd = Ok text ->
  exists items parts,
    topsort (items_of pd) = Ok items /\ Permutation items (items_of pd) /\
    text = text_of (c15_file_pieces C15kt parts) /\
    docs_of (c15_file_pieces C15kt parts) = flat_map c15_item_docs_helpers_first items /\
    c15_contained C15kt LCode (mark (c15_file_pieces C15kt parts)) =
    forallb safe_kt (flat_map c15_item_docs_helpers_first items).
Proof. exact Props.C15.C15_kt_file. Qed.
Print Assumptions Props.C15.C15_kt_file.
Goal forall (uc : unicode) (cfg : kt_config),
  c15_plain C15kt (kt_prefix cfg) = true ->
  c15_mappings_plain C15kt (kt_type_mappings cfg) = true ->
  c15_plain C15kt (kt_package cfg) = true ->
  c15_version_nested_ok (kt_version cfg) = true ->
  forall pd text,
  forallb (c15_item_strict C15kt Kotlin) (items_of pd) = true ->
  Forall (fun it => Forall (fun d => safe_line eol_lf_cr d = true) (c15_item_docs it)) (items_of pd) ->
  kt_generate uc cfg pd = Ok text ->
  exists items parts,
    topsort (items_of pd) = Ok items /\ Permutation items (items_of pd) /\
    text = text_of (c15_file_pieces C15kt parts) /\
    docs_of (c15_file_pieces C15kt parts) = flat_map c15_item_docs_helpers_first items /\
    c15_contained C15kt LCode (mark (c15_file_pieces C15kt parts)) = true.
Proof. exact Props.C15.C15_kt_file_line_free. Qed.
Print Assumptions Props.C15.C15_kt_file_line_free.
Goal forall pd, items_of pd = c15_sc_file_items pd ++ map ItConst (p_consts pd).
Proof. exact Props.C15.C15_sc_file_items_order. Qed.
Print Assumptions Props.C15.C15_sc_file_items_order.
Goal forall (uc : unicode) (cfg : sc_config),
  c15_mappings_plain C15sc (sc_type_mappings cfg) = true ->
  c15_plain C15sc (sc_package cfg) = true ->
  c15_version_nested_ok (sc_version cfg) = true ->
  forall pd text,
  forallb (c15_item_strict C15sc Scala) (items_of pd) = true ->
  sc_generate uc cfg pd = Ok text ->
  exists parts,
    text = text_of (c15_file_pieces C15sc parts) /\
    docs_of (c15_file_pieces C15sc parts) = flat_map c15_item_docs_helpers_first (c15_sc_file_items pd) /\
    c15_contained C15sc LCode (mark (c15_file_pieces C15sc parts)) =
    forallb safe_sc (flat_map c15_item_docs_helpers_first (c15_sc_file_items pd)).
Proof. exact Props.C15.C15_sc_file. Qed.
Print Assumptions Props.C15.C15_sc_file.
Goal forall (uc : unicode) (cfg : sc_config),
  c15_mappings_plain C15sc (sc_type_mappings cfg) = true ->
  c15_plain C15sc (sc_package cfg) = true ->
  c15_version_nested_ok (sc_version cfg) = true ->
  forall pd text,
  forallb (c15_item_strict C15sc Scala) (items_of pd) = true ->
  Forall (fun it => Forall (fun d => safe_line eol_lf_cr d = true) (c15_item_docs it)) (items_of pd) ->
  sc_generate uc cfg pd = Ok text ->
  exists parts,
    text = text_of (c15_file_pieces C15sc parts) /\
    docs_of (c15_file_pieces C15sc parts) = flat_map c15_item_docs_helpers_first (c15_sc_file_items pd) /\
    c15_contained C15sc LCode (mark (c15_file_pieces C15sc parts)) = true.
Proof. exact Props.C15.C15_sc_file_line_free. Qed.
Print Assumptions Props.C15.C15_sc_file_line_free.
Goal forall (uc : unicode) (cfg : ts_config),
  c15_mappings_plain C15ts (ts_type_mappings cfg) = true ->
  forall (st : ts_state) (im : scoped) pd text (st' : ts_state),
  c15_no_star (ts_version cfg) = true ->
  forallb (c15_item_plain C15ts TypeScript (fun n => str_to_uppercase uc (to_snake_case uc n))) (items_of pd) = true ->
  forallb c15_ts_item_keys_ok (items_of pd) = true ->
  c15_ts_imports_ok im = true ->
  Proofs.C15_TypeScript.ts_state_ok st = true ->
  ts_generate_multi uc cfg st im pd = Ok (text, st') ->
  exists items trailer parts,
    topsort (items_of pd) = Ok items /\ Permutation items (items_of pd) /\
    (trailer = [] \/ trailer = c15_ts_trailer_docs) /\
    text = text_of (c15_file_pieces C15ts parts) /\
    docs_of (c15_file_pieces C15ts parts) = map c15_esc_ts (flat_map c15_item_docs items ++ trailer) /\
    c15_contained C15ts LCode (mark (c15_file_pieces C15ts parts)) = true /\
    Proofs.C15_TypeScript.ts_state_ok st' = true.
Proof. exact Props.C15.C15_ts_multi_file. Qed.
Print Assumptions Props.C15.C15_ts_multi_file.
Goal forall (uc : unicode) (cfg : kt_config),
  c15_plain C15kt (kt_prefix cfg) = true ->
  c15_mappings_plain C15kt (kt_type_mappings cfg) = true ->
  c15_plain C15kt (kt_package cfg) = true ->
  c15_version_nested_ok (kt_version cfg) = true ->
  forall (c : str) (im : scoped) pd text,
  forallb (c15_item_strict C15kt Kotlin) (items_of pd) = true ->
  c15_plain C15kt c = true -> c15_kt_imports_ok im = true ->
  kt_generate_multi uc cfg c im pd = Ok text ->
  exists items parts,
    topsort (items_of pd) = Ok items /\ Permutation items (items_of pd) /\
    text = text_of (c15_file_pieces C15kt parts) /\
    docs_of (c15_file_pieces C15kt parts) = flat_map c15_item_docs_helpers_first items /\
    c15_contained C15kt LCode (mark (c15_file_pieces C15kt parts)) =
    forallb safe_kt (flat_map c15_item_docs_helpers_first items).
Proof. exact Props.C15.C15_kt_multi_file. Qed.
Print Assumptions Props.C15.C15_kt_multi_file.
Goal forall (uc : unicode) (cfg : kt_config),
  c15_plain C15kt (kt_prefix cfg) = true ->
  c15_mappings_plain C15kt (kt_type_mappings cfg) = true ->
  c15_plain C15kt (kt_package cfg) = true ->
  c15_version_nested_ok (kt_version cfg) = true ->
  forall (c : str) (im : scoped) pd text,
  forallb (c15_item_strict C15kt Kotlin) (items_of pd) = true ->
  Forall (fun it => Forall (fun d => safe_line eol_lf_cr d = true) (c15_item_docs it)) (items_of pd) ->
  c15_plain C15kt c = true -> c15_kt_imports_ok im = true ->
  kt_generate_multi uc cfg c im pd = Ok text ->
  exists items parts,
    topsort (items_of pd) = Ok items /\ Permutation items (items_of pd) /\
    text = text_of (c15_file_pieces C15kt parts) /\
    docs_of (c15_file_pieces C15kt parts) = flat_map c15_item_docs_helpers_first items /\
    c15_contained C15kt LCode (mark (c15_file_pieces C15kt parts)) = true.
Proof. exact Props.C15.C15_kt_multi_file_line_free. Qed.
Print Assumptions Props.C15.C15_kt_multi_file_line_free.
Goal forall (uc : unicode) (cfg : ts_config) (plan : list out_plan) files fin,
  c15_mappings_plain C15ts (ts_type_mappings cfg) = true -> c15_no_star (ts_version cfg) = true ->
  Proofs.C15Multi.c15_ts_plan_ok uc plan = true ->
  generate_crates (fun st (_ : str) im pd => ts_generate_multi uc cfg st im pd) [] plan = (files, fin) ->
  forall f text, In (f, Model.Writer.Generated text) files ->
    exists parts, text = text_of (c15_file_pieces C15ts parts) /\
                  c15_contained C15ts LCode (mark (c15_file_pieces C15ts parts)) = true.
Proof. exact Props.C15.C15_ts_multi_run. Qed.
Print Assumptions Props.C15.C15_ts_multi_run.
Goal forall (uc : unicode) (cfg : kt_config) (plan : list out_plan) files fin,
  c15_plain C15kt (kt_prefix cfg) = true -> c15_mappings_plain C15kt (kt_type_mappings cfg) = true ->
  c15_plain C15kt (kt_package cfg) = true -> c15_version_nested_ok (kt_version cfg) = true ->
  Proofs.C15Multi.c15_kt_plan_ok plan = true ->
  Forall (fun p => Forall (fun it => Forall (fun d => safe_line eol_lf_cr d = true) (c15_item_docs it)) (items_of (op_data p))) plan ->
  generate_crates (fun (st : unit) c im pd => Proofs.C10Multi.wrap_unit st (kt_generate_multi uc cfg c im pd)) tt plan = (files, fin) ->
  forall f text, In (f, Model.Writer.Generated text) files ->
    exists parts, text = text_of (c15_file_pieces C15kt parts) /\
                  c15_contained C15kt LCode (mark (c15_file_pieces C15kt parts)) = true.
Proof. exact Props.C15.C15_kt_multi_run. Qed.
Print Assumptions Props.C15.C15_kt_multi_run.
Goal forall (uc : unicode) (cfg : sw_config),
  c15_sw_raw (sw_prefix cfg) = true ->
  c15_mappings_plain C15sw (sw_type_mappings cfg) = true ->
  forallb (c15_plain C15sw) (sw_default_decorators cfg) = true ->
  forallb (c15_plain C15sw) (sw_default_generic_constraints cfg) = true ->
  c15_sw_version_ok (sw_version cfg) = true ->
  forall (st : sw_state) pd text (st' : sw_state),
  forallb c15_sw_item_ok (items_of pd) = true ->
  sw_generate_multi uc cfg st pd = Ok (text, st') ->
  exists items parts,
    topsort (items_of pd) = Ok items /\ Permutation items (items_of pd) /\
    text = text_of (c15_file_pieces C15sw parts) /\
    docs_of (c15_file_pieces C15sw parts) = flat_map (c15_sw_item_docs uc) items /\
    c15_contained C15sw LCode (mark (c15_file_pieces C15sw parts)) =
    forallb safe_sw (flat_map (c15_sw_item_docs uc) items).
Proof. exact Props.C15.C15_sw_multi_file. Qed.
Print Assumptions Props.C15.C15_sw_multi_file.
Goal forall (uc : unicode), unicode_ok uc -> forall (cfg : go_config),
  c15_go_mappings_ok (go_type_mappings cfg) = true ->
  forallb (forallb is_ascii) (go_uppercase_acronyms cfg) = true ->
  c15_plain C15go (go_package cfg) = true ->
  forall (st : go_state) pd text (st' : go_state),
  forallb c15_go_item_ok (items_of pd) = true -> Proofs.C15_GoFile.go_inv st ->
  go_generate_multi uc cfg st pd = Ok (text, st') ->
  let header := if go_no_version_header cfg then []
                else [lit "Code generated by typeshare " ++ go_version cfg ++ lit ". DO NOT EDIT."] in
  exists items parts,
    topsort (items_of pd) = Ok items /\ Permutation items (items_of pd) /\
    text = text_of (c15_file_pieces C15go parts) /\
    docs_of (c15_file_pieces C15go parts) = header ++ flat_map c15_item_docs_helpers_first items /\
    c15_contained C15go LCode (mark (c15_file_pieces C15go parts)) =
    forallb safe_go (header ++ flat_map c15_item_docs_helpers_first items) /\
    Proofs.C15_GoFile.go_inv st'.
Proof. exact Props.C15.C15_go_multi_file. Qed.
Print Assumptions Props.C15.C15_go_multi_file.
Goal forall (uc : unicode), unicode_ok uc -> forall (cfg : py_config),
  c15_mappings_plain C15py (py_type_mappings cfg) = true ->
  c15_py_version_ok (py_version cfg) = true ->
  forall (st : py_state) pd text (st' : py_state),
  forallb c15_py_item_ok (items_of pd) = true ->
  forallb c15_py_item_typevars_ok (items_of pd) = true ->
  Proofs.C15_PythonFile.pyf_inv st ->
  py_generate_multi uc cfg st pd = Ok (text, st') ->
  let header := if py_no_version_header cfg then [] else [c15_py_header_line (py_version cfg)] in
  exists items parts,
    topsort (items_of pd) = Ok items /\ Permutation items (items_of pd) /\
    text = text_of (c15_file_pieces C15py parts) /\
    docs_of (c15_file_pieces C15py parts) = header ++ map (c15_site_text C15py) (flat_map c15_py_item_sites items) /\
    c15_contained C15py LCode (mark (c15_file_pieces C15py parts)) =
      forallb (c15_site_ok C15py) (flat_map c15_py_item_sites items) /\
    Proofs.C15_PythonFile.pyf_inv st'.
Proof. exact Props.C15.C15_py_multi_file. Qed.
Print Assumptions Props.C15.C15_py_multi_file.
