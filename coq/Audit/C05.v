(* Pinned statements for C05: compiled on every check run. A statement weakened in Props/ fails here. *)
From Coq Require Import String List.
From TS Require Import Model.Str Model.Outcome Model.Syntax Model.Types Model.Lang.Common Model.Lang.Decl Model.Lang.TypeScript Model.Lang.Kotlin Model.Lang.Scala Model.Lang.Swift Model.Lang.Go Model.Lang.Python Spec.C05Spec.
From TS Require Proofs.C05 Proofs.C05_Back.
Import ListNotations.
From TS Require Props.C05.

Goal forall (t : ty), c05_src_ok t = true -> parse_ty t = Ok (c05_denote t).
Proof. exact Props.C05.C05_parse. Qed.
Print Assumptions Props.C05.C05_parse.
Goal forall (q : list str) (id : str) (t : ty) (rest : list (option ty)),
    mem_str id c05_wrappers = true -> c05_denote (TPath q id (Some t :: rest)) = c05_denote t.
Proof. exact Props.C05.C05_wrappers_vanish. Qed.
Print Assumptions Props.C05.C05_wrappers_vanish.
Goal forall (inst : bool) (m : c05_tmap) (g : list str) (t : rtype) (id n : str),
    c05_lookup m id = Some n -> ~ In id (c05_tree_ids (c05_core inst m g t)).
Proof. exact Props.C05.C05_mapped_never_survives. Qed.
Print Assumptions Props.C05.C05_mapped_never_survives.
Goal forall (L : lang) (c : c05_cfg) (g : list str) (id n : str) (ps : list rtype),
    c05_lookup (c05_m c) id = Some n ->
    c05_erase L c g (RSimple id) = XRaw n /\ c05_erase L c g (RGeneric id ps) = XRaw n.
Proof. exact Props.C05.C05_mapped_name_stands. Qed.
Print Assumptions Props.C05.C05_mapped_name_stands.
Goal forall (L : lang) (c : c05_cfg) (g : list str) (id : str),
    mem_str id g = true -> c05_lookup (c05_m c) id = None -> c05_erase L c g (RSimple id) = XName id [].
Proof. exact Props.C05.C05_generic_parameter_not_prefixed. Qed.
Print Assumptions Props.C05.C05_generic_parameter_not_prefixed.
Goal forall (L : lang) (c : c05_cfg) (g : list str) (id : str) (ps : list rtype),
    c05_lookup (c05_m c) id = None ->
    exists name, c05_erase L c g (RGeneric id ps) = XName name (map (c05_erase L c g) ps).
Proof. exact Props.C05.C05_generic_arguments_in_order. Qed.
Print Assumptions Props.C05.C05_generic_arguments_in_order.
Goal forall (cfg : ts_config) (g : list str) (t : rtype),
    dom_C05 t = true -> known_C05 TypeScript (Proofs.C05.c05_ts_cfg cfg) g t = None ->
    forall st, exists st', ts_texp cfg g t st = Ok (c05_erase TypeScript (Proofs.C05.c05_ts_cfg cfg) g t, st').
Proof. exact Props.C05.C05_fmt_typescript. Qed.
Print Assumptions Props.C05.C05_fmt_typescript.
Goal forall (cfg : kt_config) (g : list str) (t : rtype),
    dom_C05 t = true -> known_C05 Kotlin (Proofs.C05_Back.c05_kt_cfg cfg) g t = None ->
    kt_texp cfg g t = Ok (c05_erase Kotlin (Proofs.C05_Back.c05_kt_cfg cfg) g t).
Proof. exact Props.C05.C05_fmt_kotlin. Qed.
Print Assumptions Props.C05.C05_fmt_kotlin.
Goal forall (cfg : sc_config) (g : list str) (t : rtype),
    dom_C05 t = true -> known_C05 Scala (Proofs.C05_Back.c05_sc_cfg cfg) g t = None ->
    sc_texp cfg g t = Ok (c05_erase Scala (Proofs.C05_Back.c05_sc_cfg cfg) g t).
Proof. exact Props.C05.C05_fmt_scala. Qed.
Print Assumptions Props.C05.C05_fmt_scala.
Goal forall (cfg : sw_config) (g : list str) (t : rtype),
    dom_C05 t = true -> known_C05 Swift (Proofs.C05_Back.c05_sw_cfg cfg) g t = None ->
    forall st, exists st', sw_texp cfg g t st = Ok (c05_erase Swift (Proofs.C05_Back.c05_sw_cfg cfg) g t, st').
Proof. exact Props.C05.C05_fmt_swift. Qed.
Print Assumptions Props.C05.C05_fmt_swift.
Goal forall (cfg : go_config) (g : list str) (t : rtype),
    dom_C05 t = true -> known_C05 Go (Proofs.C05_Back.c05_go_cfg cfg) g t = None ->
    forall st, exists x st', go_texp cfg g t st = Ok (x, st') /\
                             go_obs_ty x = c05_erase Go (Proofs.C05_Back.c05_go_cfg cfg) g t.
Proof. exact Props.C05.C05_fmt_go. Qed.
Print Assumptions Props.C05.C05_fmt_go.
Goal forall (cfg : go_config) (g : list str) (t : rtype) (n : N) (st : go_state) (x : go_ty) (st' : go_state),
    tmap_get (go_type_mappings cfg) (rtype_display (RArray t n)) = None ->
    go_texp cfg g (RArray t n) st = Ok (x, st') -> exists e, x = GArray n e.
Proof. exact Props.C05.C05_go_array_length_kept. Qed.
Print Assumptions Props.C05.C05_go_array_length_kept.
Goal forall (cfg : py_config) (g : list str) (t : rtype),
    dom_C05 t = true -> known_C05 Python (Proofs.C05_Back.c05_py_cfg cfg) g t = None ->
    forall st, exists st', py_texp cfg g t st = Ok (c05_erase Python (Proofs.C05_Back.c05_py_cfg cfg) g t, st').
Proof. exact Props.C05.C05_fmt_python. Qed.
Print Assumptions Props.C05.C05_fmt_python.
Goal forall (swcfg : sw_config) (L : lang) (p : prim) (name : str),
    c05_leaf_ok p = true -> known_C05_prim L p = None ->
    Proofs.C05_Back.c05_model_prim_name swcfg L p = Some name -> good_C05_prim L p name = true.
Proof. exact Props.C05.C05_prims. Qed.
Print Assumptions Props.C05.C05_prims.
Goal forall p, In p [PU8; PU16; PU32; PU53] ->
    known_C05_prim Scala p = Some C05K_scala_unsigned /\ good_C05_prim Scala p (c05_prim_target Scala p) = false.
Proof. exact Props.C05.C05_scala_unsigned_refuted. Qed.
Print Assumptions Props.C05.C05_scala_unsigned_refuted.
Goal known_C05_prim Go PChar = Some C05K_go_char /\ good_C05_prim Go PChar (c05_prim_target Go PChar) = false.
Proof. exact Props.C05.C05_go_char_refuted. Qed.
Print Assumptions Props.C05.C05_go_char_refuted.
Goal known_C05_prim Swift PChar = Some C05K_swift_char /\ good_C05_prim Swift PChar (c05_prim_target Swift PChar) = false.
Proof. exact Props.C05.C05_swift_char_refuted. Qed.
Print Assumptions Props.C05.C05_swift_char_refuted.
Goal let g := [lit "T"] in let t := RHashMap (RSimple (lit "T")) (RPrim PString) in
  dom_C05 t = true /\
  known_C05 TypeScript (Proofs.C05.c05_ts_cfg (Proofs.C05_Back.c05_ts_with [])) g t = Some C05K_generic_map_key /\
  good_C05 TypeScript (Proofs.C05.c05_ts_cfg (Proofs.C05_Back.c05_ts_with [])) g t
           (Proofs.C05_Back.c05_obs_st (ts_texp (Proofs.C05_Back.c05_ts_with []) g t [])) = false /\
  known_C05 Python (Proofs.C05_Back.c05_py_cfg (Proofs.C05_Back.c05_py_with [])) g t = Some C05K_generic_map_key /\
  good_C05 Python (Proofs.C05_Back.c05_py_cfg (Proofs.C05_Back.c05_py_with [])) g t
           (Proofs.C05_Back.c05_obs_st (py_texp (Proofs.C05_Back.c05_py_with []) g t py_empty_state)) = false.
Proof. exact Props.C05.C05_generic_map_key_refuted. Qed.
Print Assumptions Props.C05.C05_generic_map_key_refuted.
Goal let m := [(lit "u32", lit "Foo")] in let t := RVec (RPrim PU32) in
  dom_C05 t = true /\
  known_C05 Kotlin (Proofs.C05_Back.c05_kt_cfg (Proofs.C05_Back.c05_kt_with [] m)) [] t = Some C05K_special_mapping_ignored /\
  kt_texp (Proofs.C05_Back.c05_kt_with [] m) [] t = Ok (XName (lit "List") [XName (lit "UInt") []]) /\
  good_C05 Kotlin (Proofs.C05_Back.c05_kt_cfg (Proofs.C05_Back.c05_kt_with [] m)) [] t
           (Proofs.C05_Back.c05_obs (kt_texp (Proofs.C05_Back.c05_kt_with [] m) [] t)) = false.
Proof. exact Props.C05.C05_special_mapping_ignored_refuted. Qed.
Print Assumptions Props.C05.C05_special_mapping_ignored_refuted.
Goal let m1 := [(lit "HashMap<String, u32>", lit "Foo")] in let t1 := RHashMap (RPrim PString) (RPrim PU32) in
  let m2 := [(lit "Option<Vec>", lit "Foo")] in let t2 := ROption (RVec (RPrim PString)) in
  known_C05 TypeScript (Proofs.C05.c05_ts_cfg (Proofs.C05_Back.c05_ts_with m1)) [] t1 = Some C05K_mapping_key_display /\
  good_C05 TypeScript (Proofs.C05.c05_ts_cfg (Proofs.C05_Back.c05_ts_with m1)) [] t1
           (Proofs.C05_Back.c05_obs_st (ts_texp (Proofs.C05_Back.c05_ts_with m1) [] t1 [])) = false /\
  known_C05 TypeScript (Proofs.C05.c05_ts_cfg (Proofs.C05_Back.c05_ts_with m2)) [] t2 = Some C05K_mapping_key_display /\
  ts_texp (Proofs.C05_Back.c05_ts_with m2) [] t2 [] = Ok (XRaw (lit "Foo"), []) /\
  good_C05 TypeScript (Proofs.C05.c05_ts_cfg (Proofs.C05_Back.c05_ts_with m2)) [] t2
           (Proofs.C05_Back.c05_obs_st (ts_texp (Proofs.C05_Back.c05_ts_with m2) [] t2 [])) = false.
Proof. exact Props.C05.C05_mapping_key_display_refuted. Qed.
Print Assumptions Props.C05.C05_mapping_key_display_refuted.
