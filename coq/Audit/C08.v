(* Pinned statements for C08: compiled on every check run. A statement weakened in Props/ fails here. *)
From Coq Require Import String.
From TS Require Import Model.Str Model.Outcome Model.Unicode Model.Syntax Model.Attrs Model.Types Model.Parse.
From TS Require Import Spec.Serde Spec.C08Spec.
From TS Require Proofs.FrontTypes Proofs.FrontItems Proofs.C08.
From TS Require Props.C08.

Goal forall t : ty, has_unsupported t = true -> is_ok (parse_ty t) = false.
Proof. exact Props.C08.C08_unsupported_type_never_parses. Qed.
Print Assumptions Props.C08.C08_unsupported_type_never_parses.
Goal forall (uc : unicode) (tstr : str -> option ty) (T : list str),
    (forall attrs, is_skipped T attrs = skipped8 T attrs) ->
  forall it : item,
    item_unsupported uc tstr T it = true ->
    is_ok (Proofs.C08.parse_leaf8 uc tstr T it) = false.
Proof. exact Props.C08.C08_unsupported_item_rejected. Qed.
Print Assumptions Props.C08.C08_unsupported_item_rejected.
Goal forall (uc : unicode) (tstr : str -> option ty) (it : item),
    item_unsupported uc tstr [] it = true ->
    is_ok (Proofs.C08.parse_leaf8 uc tstr [] it) = false.
Proof. exact Props.C08.C08_unsupported_item_rejected_no_target. Qed.
Print Assumptions Props.C08.C08_unsupported_item_rejected_no_target.
Goal forall (uc : unicode) (tstr : str -> option ty) (attrs : list attr) (ident : str) (t : ty) (e : cexpr) (c : rconst),
    parse_const uc tstr attrs ident t e = Ok (ItConst c) -> const_value8 e = Some (cvalue c).
Proof. exact Props.C08.C08_const_value_faithful. Qed.
Print Assumptions Props.C08.C08_const_value_faithful.
Goal forall uc tstr T attrs ident gens l1 f l2, is_skipped T (f_attrs f) = true ->
    parse_struct uc tstr T attrs ident gens (FNamed (l1 ++ f :: l2)) =
    parse_struct uc tstr T attrs ident gens (FNamed (l1 ++ l2)).
Proof. exact Props.C08.C08_skipped_field_is_as_absent. Qed.
Print Assumptions Props.C08.C08_skipped_field_is_as_absent.
Goal forall uc tstr T attrs ident gens l1 v l2, is_skipped T (v_attrs v) = true ->
    parse_enum uc tstr T attrs ident gens (l1 ++ v :: l2) = parse_enum uc tstr T attrs ident gens (l1 ++ l2).
Proof. exact Props.C08.C08_skipped_variant_is_as_absent. Qed.
Print Assumptions Props.C08.C08_skipped_variant_is_as_absent.
Goal (forall e, In e [CENeg (Proofs.C08.c08_lit 5); CENeg (CEParen (Proofs.C08.c08_lit 5)); CEParen (CENeg (Proofs.C08.c08_lit 5))] ->
     item_unsupported uc_exec (fun _ => None) [] (Proofs.C08.c08_const e) = false /\
     match Proofs.C08.parse_leaf8 uc_exec (fun _ => None) [] (Proofs.C08.c08_const e) with
     | Ok (ItConst c) => cvalue c = Zneg 5
     | _ => False
     end) /\
  item_unsupported uc_exec (fun _ => None) [] (Proofs.C08.c08_const CEOther) = true /\
  Proofs.C08.parse_leaf8 uc_exec (fun _ => None) [] (Proofs.C08.c08_const CEOther) = Err EConstExprInvalid /\
  Proofs.C08.parse_leaf8 uc_exec (fun _ => None) [] (Proofs.C08.c08_const (CENeg CEOther)) = Err EConstExprInvalid /\
  Proofs.C08.parse_leaf8 uc_exec (fun _ => None) [] (Proofs.C08.c08_const (CELit CNotInt)) = Err EConstTypeInvalid.
Proof. exact Props.C08.C08_const_expr_fixed. Qed.
Print Assumptions Props.C08.C08_const_expr_fixed.
Goal let flat := {| a_inner := false; a_meta := MList [lit "serde"] (Some [MPath [lit "flatten"]]) None |} in
  let tagc := {| a_inner := false; a_meta := MList [lit "serde"] (Some [MNV [lit "tag"] (VStr (lit "t")); MNV [lit "content"] (VStr (lit "c"))]) None |} in
  let it := IEnum [Proofs.C08.a_typeshare; tagc] (lit "E") []
                  [{| v_attrs := []; v_ident := lit "V";
                      v_fields := FNamed [{| f_attrs := [flat]; f_ident := Some (lit "x"); f_ty := Proofs.C08.ty_u8 |}] |}] in
  item_unsupported uc_exec (fun _ => None) [] it = true /\
  Proofs.C08.parse_leaf8 uc_exec (fun _ => None) [] it = Err ESerdeFlatten.
Proof. exact Props.C08.C08_flatten_variant_fixed. Qed.
Print Assumptions Props.C08.C08_flatten_variant_fixed.
Goal let it := IStruct [Proofs.C08.a_typeshare] (lit "S") []
                    (FNamed [{| f_attrs := []; f_ident := Some (lit "a");
                                f_ty := TPath [] (lit "Vec") [Some (TPath [] (lit "Option") [Some (TPath [] (lit "u64") [])])] |}]) in
  item_unsupported uc_exec (fun _ => None) [] it = true /\
  is_ok (Proofs.C08.parse_leaf8 uc_exec (fun _ => None) [] it) = false.
Proof. exact Props.C08.C08_nonvacuous_witness. Qed.
Print Assumptions Props.C08.C08_nonvacuous_witness.
