(* Pinned statements for C08: compiled on every check run. A statement weakened in Props/ fails here. *)
From Coq Require Import String.
From TS Require Import Model.Str Model.Outcome Model.Unicode Model.Syntax Model.Attrs Model.Types Model.Parse.
From TS Require Import Spec.Serde Spec.C08Spec.
From TS Require Proofs.FrontTypes Proofs.FrontItems Proofs.C08.
From TS Require Props.C08.

Goal forall t : ty, has_unsupported t = true -> is_ok (parse_ty t) = false.
Proof. exact Props.C08.C08_unsupported_type_never_parses. Qed.
Print Assumptions Props.C08.C08_unsupported_type_never_parses.
Goal forall (uc : unicode) (tstr : str -> option ty) (T : list str),
    (forall attrs, is_skipped T attrs = skipped8 T attrs) ->
  forall it : item,
    item_unsupported uc tstr T it = true -> known_C08 T it = None ->
    is_ok (Proofs.C08.parse_leaf8 uc tstr T it) = false.
Proof. exact Props.C08.C08_unsupported_item_rejected. Qed.
Print Assumptions Props.C08.C08_unsupported_item_rejected.
Goal forall (uc : unicode) (tstr : str -> option ty) (it : item),
    item_unsupported uc tstr [] it = true -> known_C08 [] it = None ->
    is_ok (Proofs.C08.parse_leaf8 uc tstr [] it) = false.
Proof. exact Props.C08.C08_unsupported_item_rejected_no_target. Qed.
Print Assumptions Props.C08.C08_unsupported_item_rejected_no_target.
Goal forall uc tstr T attrs ident gens l1 f l2, is_skipped T (f_attrs f) = true ->
    parse_struct uc tstr T attrs ident gens (FNamed (l1 ++ f :: l2)) =
    parse_struct uc tstr T attrs ident gens (FNamed (l1 ++ l2)).
Proof. exact Props.C08.C08_skipped_field_is_as_absent. Qed.
Print Assumptions Props.C08.C08_skipped_field_is_as_absent.
Goal forall uc tstr T attrs ident gens l1 v l2, is_skipped T (v_attrs v) = true ->
    parse_enum uc tstr T attrs ident gens (l1 ++ v :: l2) = parse_enum uc tstr T attrs ident gens (l1 ++ l2).
Proof. exact Props.C08.C08_skipped_variant_is_as_absent. Qed.
Print Assumptions Props.C08.C08_skipped_variant_is_as_absent.
Goal let it := IConst [Proofs.C08.a_typeshare] (lit "X") (TPath [] (lit "i32") [])
                   {| ce_first_lit := Some (CInt (Some (Zpos 5))); ce_plain := None |} in
  item_unsupported uc_exec (fun _ => None) [] it = true /\ known_C08 [] it <> None /\
  is_ok (Proofs.C08.parse_leaf8 uc_exec (fun _ => None) [] it) = true.
Proof. exact Props.C08.C08_const_expr_refuted. Qed.
Print Assumptions Props.C08.C08_const_expr_refuted.
