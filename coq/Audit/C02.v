(* Pinned statements for C02: compiled on every check run. A statement weakened in Props/ fails here. *)
From Coq Require Import String.
From TS Require Import Model.Str Model.Outcome Model.Unicode Model.Syntax Model.Types Model.Parse Model.Reconcile
                       Model.Lang.Common Model.Lang.Decl Model.Lang.ConvertCase
                       Model.Lang.TypeScript Model.Lang.Kotlin Model.Lang.Swift Model.Lang.Scala Model.Lang.Go Model.Lang.Python
                       Spec.Serde Spec.C02Spec.
From TS Require Proofs.C02 Proofs.C02_TS Proofs.C02_KtSc Proofs.C02_Swift Proofs.C02_Go Proofs.C02_Py Proofs.C02_Witness Proofs.GoAcronyms.
From TS Require Import Model.MultiFile.
From TS Require Proofs.C12Multi Proofs.C12MultiTS Proofs.C12MultiSwift Proofs.C12MultiGo Proofs.MultiSameItems.
Import ListNotations.
From TS Require Props.C02.

Goal forall (uc : unicode), unicode_ok uc ->
  forall (tstr : str -> option ty) (T : list str) attrs ident gens vs e,
    parse_enum uc tstr T attrs ident gens vs = Ok (ItEnum e) ->
    c02_lex T attrs vs = true ->
    known_C02_front T attrs vs = None ->
    c02_expect_src uc T attrs vs = Some (c02_expect_ir e).
Proof. exact Props.C02.C02_front. Qed.
Print Assumptions Props.C02.C02_front.
Goal forall (uc : unicode), unicode_ok uc ->
  forall (tstr : str -> option ty) (T : list str) (l : lang) (acr : bool) attrs ident gens vs e,
    parse_enum uc tstr T attrs ident gens vs = Ok (ItEnum e) ->
    dom_C02 uc T attrs vs = true ->
    known_C02 l acr uc T attrs vs = None ->
    c02_expect_src uc T attrs vs = Some (c02_expect_ir e) /\
    dom_C02_back (c02_expect_ir e) = true /\ known_C02_back l acr (c02_expect_ir e) = None.
Proof. exact Props.C02.C02_front_bridge. Qed.
Print Assumptions Props.C02.C02_front_bridge.
Goal forall cn rn im e, c02_expect_ir (Proofs.C02.c02_reconciled cn rn im e) = c02_expect_ir e.
Proof. exact Props.C02.C02_reconcile_preserves. Qed.
Print Assumptions Props.C02.C02_reconcile_preserves.
Goal forall (uc : unicode) (cfg : ts_config) e st d st',
    ts_decl_of uc cfg (ItEnum e) st = Ok (d, st') ->
    dom_C02_back (c02_expect_ir e) = true ->
    good_C02 TypeScript (c02_expect_ir e) [ts_obs d] = true.
Proof. exact Props.C02.C02_back_ts. Qed.
Print Assumptions Props.C02.C02_back_ts.
Goal forall (cfg : sc_config) e ds,
    sc_decl_of cfg (ItEnum e) = Ok ds ->
    dom_C02_back (c02_expect_ir e) = true ->
    good_C02 Scala (c02_expect_ir e) (flat_map sc_obs ds) = true.
Proof. exact Props.C02.C02_back_scala. Qed.
Print Assumptions Props.C02.C02_back_scala.
Goal forall (cfg : kt_config) (acr : bool) e ds,
    kt_decl_of cfg (ItEnum e) = Ok ds ->
    dom_C02_back (c02_expect_ir e) = true ->
    known_C02_back Kotlin acr (c02_expect_ir e) = None ->
    good_C02 Kotlin (c02_expect_ir e) (map kt_obs ds) = true.
Proof. exact Props.C02.C02_back_kotlin. Qed.
Print Assumptions Props.C02.C02_back_kotlin.
Goal forall (uc : unicode) (cfg : sw_config) (acr : bool) e st d st',
    sw_decl_of uc cfg (ItEnum e) st = Ok (d, st') ->
    dom_C02_back (c02_expect_ir e) = true ->
    known_C02_back Swift acr (c02_expect_ir e) = None ->
    good_C02 Swift (c02_expect_ir e) (sw_obs d) = true.
Proof. exact Props.C02.C02_back_swift. Qed.
Print Assumptions Props.C02.C02_back_swift.
Goal forall (uc : unicode), unicode_ok uc ->
  forall (cfg : py_config) (acr : bool) e st ds st',
    py_decl_of uc cfg (ItEnum e) st = Ok (ds, st') ->
    dom_C02_back (c02_expect_ir e) = true ->
    known_C02_back Python acr (c02_expect_ir e) = None ->
    good_C02 Python (c02_expect_ir e) (flat_map py_obs ds) = true.
Proof. exact Props.C02.C02_back_python. Qed.
Print Assumptions Props.C02.C02_back_python.
Goal forall (uc : unicode) (cfg : go_config) custom e s ds s',
    go_decl_of uc cfg custom (ItEnum e) s = Ok (ds, s') ->
    dom_C02_back (c02_expect_ir e) = true ->
    c02_good_core Go (c02_expect_ir e) (flat_map go_obs ds) = true /\
    (go_uppercase_acronyms cfg = [] -> c02_good_cases (flat_map go_obs ds) = true).
Proof. exact Props.C02.C02_back_go_partial. Qed.
Print Assumptions Props.C02.C02_back_go_partial.
Goal forall (uc : unicode), unicode_ok uc ->
  forall (acronyms : list str) (name : str),
    forallb (forallb is_ascii) acronyms = true -> forallb is_ascii name = true ->
    exists r, go_convert_acronyms_to_uppercase uc acronyms name = Ok r /\
              List.length r = List.length name /\ str_upper_ascii r = str_upper_ascii name.
Proof. exact Props.C02.C02_go_rewrite_case_only. Qed.
Print Assumptions Props.C02.C02_go_rewrite_case_only.
Goal forall (uc : unicode), unicode_ok uc ->
  forall (cfg : go_config), forallb (forallb is_ascii) (go_uppercase_acronyms cfg) = true ->
  forall custom e s ds s',
    go_decl_of uc cfg custom (ItEnum e) s = Ok (ds, s') ->
    dom_C02_back (c02_expect_ir e) = true ->
    known_C02_back Go (match go_uppercase_acronyms cfg with [] => false | _ => true end) (c02_expect_ir e) = None ->
    good_C02 Go (c02_expect_ir e) (flat_map go_obs ds) = true.
Proof. exact Props.C02.C02_back_go. Qed.
Print Assumptions Props.C02.C02_back_go.
Goal forall (uc : unicode), unicode_ok uc ->
  forall (acronyms : list str) (name : str),
    forallb (forallb is_ascii) acronyms = true -> forallb is_ascii name = true ->
    go_convert_acronyms_to_uppercase uc acronyms name = Ok (c02_go_rewrite acronyms name).
Proof. exact Props.C02.C02_go_rewrite_is_model. Qed.
Print Assumptions Props.C02.C02_go_rewrite_is_model.
Goal forall acronyms x c, known_C02_back_go acronyms x = Some c -> known_C02_back Go true x = Some c.
Proof. exact Props.C02.C02_go_exact_in_class. Qed.
Print Assumptions Props.C02.C02_go_exact_in_class.
Goal forall (uc : unicode), unicode_ok uc ->
  forall (cfg : go_config), forallb (forallb is_ascii) (go_uppercase_acronyms cfg) = true ->
  forall custom e s ds s',
    go_decl_of uc cfg custom (ItEnum e) s = Ok (ds, s') ->
    dom_C02_back (c02_expect_ir e) = true ->
    (good_C02 Go (c02_expect_ir e) (flat_map go_obs ds) = true <->
     known_C02_back_go (go_uppercase_acronyms cfg) (c02_expect_ir e) = None).
Proof. exact Props.C02.C02_back_go_exact. Qed.
Print Assumptions Props.C02.C02_back_go_exact.
Goal forall (uc : unicode), unicode_ok uc ->
  forall s, forallb is_ascii s = true -> str_to_uppercase uc (cc_to_snake uc s) = c02_py_key s.
Proof. exact Props.C02.C02_py_key_is_convert_case. Qed.
Print Assumptions Props.C02.C02_py_key_is_convert_case.
Goal forall l, In l all_langs ->
    Proofs.C02_Witness.c02_refuted l [] Proofs.C02_Witness.c02_w_allcaps_attrs [Proofs.C02_Witness.c02_w_unit [] "URL"] "C02-allcaps".
Proof. exact Props.C02.C02_allcaps_refuted. Qed.
Print Assumptions Props.C02.C02_allcaps_refuted.
Goal Proofs.C02_Witness.c02_refuted Swift [] []
    [Proofs.C02_Witness.c02_w_unit [] "URL"; Proofs.C02_Witness.c02_w_unit [] "Url"] "C02-swift-case-collision".
Proof. exact Props.C02.C02_swift_case_collision_refuted. Qed.
Print Assumptions Props.C02.C02_swift_case_collision_refuted.
Goal Proofs.C02_Witness.c02_refuted Kotlin [] [Proofs.C02_Witness.c02_w_keys]
    [Proofs.C02_Witness.c02_w_unit [] "URL"; Proofs.C02_Witness.c02_w_tuple [] "Url" "u8"] "C02-kotlin-case-collision".
Proof. exact Props.C02.C02_kotlin_case_collision_refuted. Qed.
Print Assumptions Props.C02.C02_kotlin_case_collision_refuted.
Goal Proofs.C02_Witness.c02_refuted Python [] []
    [Proofs.C02_Witness.c02_w_unit [] "FooBar"; Proofs.C02_Witness.c02_w_unit [] "Foobar"] "C02-python-unit-member-collision".
Proof. exact Props.C02.C02_python_unit_member_collision_refuted. Qed.
Print Assumptions Props.C02.C02_python_unit_member_collision_refuted.
Goal Proofs.C02_Witness.c02_refuted Python [] [Proofs.C02_Witness.c02_w_keys]
    [Proofs.C02_Witness.c02_w_struct [Proofs.C02_Witness.c02_w_serde [Proofs.C02_Witness.c02_w_nv "rename" "fooBar"]] "A" "x" "u8";
     Proofs.C02_Witness.c02_w_unit [Proofs.C02_Witness.c02_w_serde [Proofs.C02_Witness.c02_w_nv "rename" "foo_bar"]] "B"]
    "C02-python-types-member-collision".
Proof. exact Props.C02.C02_python_types_member_collision_refuted. Qed.
Print Assumptions Props.C02.C02_python_types_member_collision_refuted.
Goal Proofs.C02_Witness.c02_refuted Go [lit "ID"] [Proofs.C02_Witness.c02_w_keys]
    [Proofs.C02_Witness.c02_w_tuple [] "UserId" "u8"; Proofs.C02_Witness.c02_w_unit [] "UserID"] "C02-go-acronym-case-collision".
Proof. exact Props.C02.C02_go_acronym_case_collision_refuted. Qed.
Print Assumptions Props.C02.C02_go_acronym_case_collision_refuted.
Goal forall uc cfg st pd ds st',
  Proofs.C12MultiTS.ts_multi_decls uc cfg st pd = Ok (ds, st') ->
  exists items, Model.Topsort.topsort (items_of pd) = Ok items /\
    Forall2 (fun it d => forall e, it = ItEnum e -> dom_C02_back (c02_expect_ir e) = true ->
                                   good_C02 TypeScript (c02_expect_ir e) [ts_obs d] = true) items ds.
Proof. exact Props.C02.C02_multi_back_ts. Qed.
Print Assumptions Props.C02.C02_multi_back_ts.
Goal forall uc cfg acr st pd ds st',
  Proofs.C12MultiSwift.sw_multi_decls uc cfg st pd = Ok (ds, st') ->
  exists items, Model.Topsort.topsort (items_of pd) = Ok items /\
    Forall2 (fun it d => forall e, it = ItEnum e -> dom_C02_back (c02_expect_ir e) = true ->
                                   known_C02_back Swift acr (c02_expect_ir e) = None ->
                                   good_C02 Swift (c02_expect_ir e) (sw_obs d) = true) items ds.
Proof. exact Props.C02.C02_multi_back_swift. Qed.
Print Assumptions Props.C02.C02_multi_back_swift.
Goal forall uc (Huc : unicode_ok uc) cfg acr st pd ds st',
  Proofs.C12Multi.py_multi_decls uc cfg st pd = Ok (ds, st') ->
  exists items dss, Model.Topsort.topsort (items_of pd) = Ok items /\ ds = List.concat dss /\
    Forall2 (fun it d => forall e, it = ItEnum e -> dom_C02_back (c02_expect_ir e) = true ->
                                   known_C02_back Python acr (c02_expect_ir e) = None ->
                                   good_C02 Python (c02_expect_ir e) (flat_map py_obs d) = true) items dss.
Proof. exact Props.C02.C02_multi_back_python. Qed.
Print Assumptions Props.C02.C02_multi_back_python.
Goal forall uc (Huc : unicode_ok uc) cfg st pd ds st',
  forallb (forallb is_ascii) (go_uppercase_acronyms cfg) = true ->
  Proofs.C12MultiGo.go_multi_decls uc cfg st pd = Ok (ds, st') ->
  exists items dss, Model.Topsort.topsort (items_of pd) = Ok items /\ ds = List.concat dss /\
    Forall2 (fun it d => forall e, it = ItEnum e -> dom_C02_back (c02_expect_ir e) = true ->
               known_C02_back Go (match go_uppercase_acronyms cfg with [] => false | _ => true end) (c02_expect_ir e) = None ->
               good_C02 Go (c02_expect_ir e) (flat_map go_obs d) = true) items dss.
Proof. exact Props.C02.C02_multi_back_go. Qed.
Print Assumptions Props.C02.C02_multi_back_go.
Goal forall uc cfg st pd ds st',
  Proofs.C12MultiGo.go_multi_decls uc cfg st pd = Ok (ds, st') ->
  exists items dss, Model.Topsort.topsort (items_of pd) = Ok items /\ ds = List.concat dss /\
    Forall2 (fun it d => forall e, it = ItEnum e -> dom_C02_back (c02_expect_ir e) = true ->
               c02_good_core Go (c02_expect_ir e) (flat_map go_obs d) = true /\
               (go_uppercase_acronyms cfg = [] -> c02_good_cases (flat_map go_obs d) = true)) items dss.
Proof. exact Props.C02.C02_multi_back_go_partial. Qed.
Print Assumptions Props.C02.C02_multi_back_go_partial.
Goal forall uc cfg acr c im pd text,
  kt_generate_multi uc cfg c im pd = Ok text ->
  exists ds items dss, kt_decls uc cfg pd = Ok ds /\ Model.Topsort.topsort (items_of pd) = Ok items /\ ds = List.concat dss /\
    Forall2 (fun it d => forall e, it = ItEnum e -> dom_C02_back (c02_expect_ir e) = true ->
                                   known_C02_back Kotlin acr (c02_expect_ir e) = None ->
                                   good_C02 Kotlin (c02_expect_ir e) (map kt_obs d) = true) items dss.
Proof. exact Props.C02.C02_multi_back_kotlin. Qed.
Print Assumptions Props.C02.C02_multi_back_kotlin.
Goal forall uc cfg pd text,
  sc_generate uc cfg pd = Ok text ->
  exists objs pkgs sts ens, sc_decls uc cfg pd = Ok (objs, pkgs) /\ pkgs = sts ++ List.concat ens /\
    Forall2 (fun e d => dom_C02_back (c02_expect_ir e) = true ->
                        good_C02 Scala (c02_expect_ir e) (flat_map sc_obs d) = true) (p_enums pd) ens.
Proof. exact Props.C02.C02_multi_back_scala. Qed.
Print Assumptions Props.C02.C02_multi_back_scala.
