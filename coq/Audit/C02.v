(* Pinned statements for C02: compiled on every check run. A statement weakened in Props/ fails here. *)
From Coq Require Import String.
From TS Require Import Model.Str Model.Outcome Model.Unicode Model.Syntax Model.Types Model.Parse
                       Model.Lang.Common Model.Lang.Decl Model.Lang.TypeScript
                       Spec.Serde Spec.C02Spec.
From TS Require Proofs.C02 Proofs.C02_TS.
From TS Require Props.C02.

Goal forall (uc : unicode), unicode_ok uc ->
  forall (tstr : str -> option ty) (T : list str) attrs ident gens vs e,
    parse_enum uc tstr T attrs ident gens vs = Ok (ItEnum e) ->
    c02_lex T attrs vs = true ->
    known_C02_front T attrs vs = None ->
    c02_expect_src uc T attrs vs = Some (c02_expect_ir e).
Proof. exact Props.C02.C02_front. Qed.
Print Assumptions Props.C02.C02_front.
Goal forall (uc : unicode) (cfg : ts_config) e st d st',
    ts_decl_of uc cfg (ItEnum e) st = Ok (d, st') ->
    dom_C02_back (c02_expect_ir e) = true ->
    good_C02 TypeScript (c02_expect_ir e) [ts_obs d] = true.
Proof. exact Props.C02.C02_back_ts. Qed.
Print Assumptions Props.C02.C02_back_ts.
