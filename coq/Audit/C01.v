(* Pinned statements for C01: compiled on every check run. A statement weakened in Props/ fails here. *)
From Coq Require Import List.
From TS Require Import Model.Str Model.Outcome Model.Unicode Model.Syntax Model.Attrs Model.Types Model.Parse
                       Model.Lang.Common Model.Lang.Decl Model.Lang.TypeScript Model.Lang.Kotlin Model.Lang.Swift
                       Model.Lang.Scala Model.Lang.Go Model.Lang.Python.
From TS Require Import Spec.SerdeCase Spec.C16Spec Spec.Serde Spec.C03Spec Spec.C01Spec.
From TS Require Proofs.C01.
From TS Require Props.C01.

Goal forall (l : lang) (expected : list (list str)) (gs : list (list member)),
    Proofs.C01.groups_fit l expected gs -> dom_C01 l expected = true -> good_groups_C01 expected gs = true.
Proof. exact Props.C01.C01_fit_is_good. Qed.
Print Assumptions Props.C01.C01_fit_is_good.
Goal forall (uc : unicode) (cfg : ts_config) (it : ritem) st d st',
    ts_decl_of uc cfg it st = Ok (d, st') ->
    Proofs.C01.groups_fit TypeScript (ir_groups it) (obs_groups [ts_obs d]).
Proof. exact Props.C01.C01_back_typescript. Qed.
Print Assumptions Props.C01.C01_back_typescript.
Goal forall (cfg : kt_config) (it : ritem) ds,
    kt_decl_of cfg it = Ok ds ->
    Proofs.C01.groups_fit Kotlin (ir_groups it) (obs_groups (map kt_obs ds)).
Proof. exact Props.C01.C01_back_kotlin. Qed.
Print Assumptions Props.C01.C01_back_kotlin.
Goal forall (uc : unicode) (cfg : sw_config) (it : ritem) st d st',
    sw_decl_of uc cfg it st = Ok (d, st') ->
    Proofs.C01.groups_fit Swift (ir_groups it) (obs_groups (sw_obs d)).
Proof. exact Props.C01.C01_back_swift. Qed.
Print Assumptions Props.C01.C01_back_swift.
Goal forall (cfg : sc_config) (it : ritem) ds,
    sc_decl_of cfg it = Ok ds ->
    Proofs.C01.groups_fit Scala (ir_groups it) (obs_groups (flat_map sc_obs ds)).
Proof. exact Props.C01.C01_back_scala. Qed.
Print Assumptions Props.C01.C01_back_scala.
Goal forall (uc : unicode) (cfg : go_config) (custom_structs : list str) (it : ritem) st ds st',
    go_decl_of uc cfg custom_structs it st = Ok (ds, st') ->
    Proofs.C01.groups_fit Go (ir_groups it) (obs_groups (flat_map go_obs ds)).
Proof. exact Props.C01.C01_back_go. Qed.
Print Assumptions Props.C01.C01_back_go.
Goal forall (uc : unicode) (cfg : py_config) (it : ritem) st ds st',
    py_decl_of uc cfg it st = Ok (ds, st') ->
    Proofs.C01.groups_fit Python (ir_groups it) (obs_groups (flat_map py_obs ds)).
Proof. exact Props.C01.C01_back_python. Qed.
Print Assumptions Props.C01.C01_back_python.
