(* Pinned statements for C01: compiled on every check run. A statement weakened in Props/ fails here. *)
From Coq Require Import List.
From TS Require Import Model.Str Model.Outcome Model.Unicode Model.Syntax Model.Attrs Model.Types Model.Parse
                       Model.Lang.Common Model.Lang.Decl Model.Lang.TypeScript Model.Lang.Kotlin Model.Lang.Swift
                       Model.Lang.Scala Model.Lang.Go Model.Lang.Python.
From TS Require Import Spec.SerdeCase Spec.C16Spec Spec.Serde Spec.C03Spec Spec.C01Spec.
From TS Require Import Model.Reconcile.
From Coq Require Import Permutation.
From TS Require Proofs.C01 Proofs.C01Front Proofs.C01Layout Proofs.C01File.
Import ListNotations.
Local Open Scope N_scope.
From TS Require Props.C01.

Goal forall (l : lang) (expected : list (list str)) (gs : list (list member)),
    Proofs.C01.groups_fit l expected gs -> dom_C01 l expected = true -> good_groups_C01 l expected gs = true.
Proof. exact Props.C01.C01_fit_is_good. Qed.
Print Assumptions Props.C01.C01_fit_is_good.
Goal forall (uc : unicode) (cfg : ts_config) (it : ritem) st d st',
    ts_decl_of uc cfg it st = Ok (d, st') ->
    Proofs.C01.groups_fit TypeScript (ir_groups it) (obs_groups [ts_obs d]).
Proof. exact Props.C01.C01_back_typescript. Qed.
Print Assumptions Props.C01.C01_back_typescript.
Goal forall (cfg : kt_config) (it : ritem) ds,
    kt_decl_of cfg it = Ok ds ->
    Proofs.C01.groups_fit Kotlin (ir_groups it) (obs_groups (map kt_obs ds)).
Proof. exact Props.C01.C01_back_kotlin. Qed.
Print Assumptions Props.C01.C01_back_kotlin.
Goal forall (uc : unicode) (cfg : sw_config) (it : ritem) st d st',
    sw_decl_of uc cfg it st = Ok (d, st') ->
    Proofs.C01.groups_fit Swift (ir_groups it) (obs_groups (sw_obs d)).
Proof. exact Props.C01.C01_back_swift. Qed.
Print Assumptions Props.C01.C01_back_swift.
Goal forall (cfg : sc_config) (it : ritem) ds,
    sc_decl_of cfg it = Ok ds ->
    Proofs.C01.groups_fit Scala (ir_groups it) (obs_groups (flat_map sc_obs ds)).
Proof. exact Props.C01.C01_back_scala. Qed.
Print Assumptions Props.C01.C01_back_scala.
Goal forall (uc : unicode) (cfg : go_config) (custom_structs : list str) (it : ritem) st ds st',
    go_decl_of uc cfg custom_structs it st = Ok (ds, st') ->
    Proofs.C01.groups_fit Go (ir_groups it) (obs_groups (flat_map go_obs ds)).
Proof. exact Props.C01.C01_back_go. Qed.
Print Assumptions Props.C01.C01_back_go.
Goal forall (uc : unicode) (cfg : py_config) (it : ritem) st ds st',
    py_decl_of uc cfg it st = Ok (ds, st') ->
    Proofs.C01.groups_fit Python (ir_groups it) (obs_groups (flat_map py_obs ds)).
Proof. exact Props.C01.C01_back_python. Qed.
Print Assumptions Props.C01.C01_back_python.
Goal forall (uc : unicode), unicode_ok uc -> forall (tstr : str -> option ty) (T : list str) attrs ident gens l s,
    parse_struct uc tstr T attrs ident gens (FNamed l) = Ok (ItStruct s) ->
    src_dom T (IStruct attrs ident gens (FNamed l)) = true ->
    src_groups T (IStruct attrs ident gens (FNamed l)) = Some (ir_groups (ItStruct s)).
Proof. exact Props.C01.C01_front_struct. Qed.
Print Assumptions Props.C01.C01_front_struct.
Goal forall (uc : unicode), unicode_ok uc -> forall (tstr : str -> option ty) (T : list str) attrs ident gens vs e,
    parse_enum uc tstr T attrs ident gens vs = Ok (ItEnum e) ->
    src_dom T (IEnum attrs ident gens vs) = true ->
    src_groups T (IEnum attrs ident gens vs) = Some (ir_groups (ItEnum e)).
Proof. exact Props.C01.C01_front_enum. Qed.
Print Assumptions Props.C01.C01_front_enum.
Goal forall rn cn pd s', In s' (p_structs (reconcile_crate rn cn pd)) ->
    exists s, In s (p_structs pd) /\ sid s' = sid s /\ ir_groups (ItStruct s') = ir_groups (ItStruct s).
Proof. exact Props.C01.C01_reconcile_structs. Qed.
Print Assumptions Props.C01.C01_reconcile_structs.
Goal forall rn cn pd e', In e' (p_enums (reconcile_crate rn cn pd)) ->
    exists e, In e (p_enums pd) /\ eid (enum_shared e') = eid (enum_shared e) /\ ir_groups (ItEnum e') = ir_groups (ItEnum e).
Proof. exact Props.C01.C01_reconcile_enums. Qed.
Print Assumptions Props.C01.C01_reconcile_enums.
Goal forall (uc : unicode), unicode_ok uc -> forall (tstr : str -> option ty) (T : list str)
         (l : lang) (it : item) (rit : ritem) (expected : list (list str)) (gs : list (list member)),
    Proofs.C01Front.parses uc tstr T it rit -> Proofs.C01Front.c01_shape it rit -> src_dom T it = true ->
    src_groups T it = Some expected -> dom_C01 l expected = true ->
    Proofs.C01.groups_fit l (ir_groups rit) gs ->
    good_groups_C01 l expected gs = true.
Proof. exact Props.C01.C01_field_keys. Qed.
Print Assumptions Props.C01.C01_field_keys.
Goal forall k rest, c01_key_ok k = true ->
    if c01_has_dash k then Proofs.C01Layout.read_lit (typescript_property_aware_rename k ++ rest) = Some (k, rest)
    else typescript_property_aware_rename k = k.
Proof. exact Props.C01.C01_layout_typescript. Qed.
Print Assumptions Props.C01.C01_layout_typescript.
Goal forall m k, km_serial_name m = Some k -> c01_key_ok k = true ->
    kt_render_member m = (kt_write_comments 1 (km_docs m) ++ [ch_tab]) ++ lit "@SerialName(" ++ [ch_dq] ++ k ++ [ch_dq] ++ lit ")" ++ nl ++ Proofs.C01Layout.kt_member_rest m /\
    Proofs.C01Layout.read_lit ([ch_dq] ++ k ++ [ch_dq] ++ lit ")" ++ nl ++ Proofs.C01Layout.kt_member_rest m) = Some (k, lit ")" ++ nl ++ Proofs.C01Layout.kt_member_rest m).
Proof. exact Props.C01.C01_layout_kotlin. Qed.
Print Assumptions Props.C01.C01_layout_kotlin.
Goal forall m k, swm_coding_key m = Some k -> c01_key_ok k = true ->
    sw_render_member_coding_key m = sw_member_ident m ++ lit " = " ++ [ch_dq] ++ k ++ [ch_dq] /\
    Proofs.C01Layout.read_lit ([ch_dq] ++ k ++ [ch_dq]) = Some (k, []).
Proof. exact Props.C01.C01_layout_swift. Qed.
Print Assumptions Props.C01.C01_layout_swift.
Goal forall m, c01_key_ok (gm_key m) = true ->
    go_render_member m = Proofs.C01Layout.go_member_front m ++ lit "`json:" ++ [ch_dq] ++ Proofs.C01Layout.go_tag_body m ++ [ch_dq] ++ lit "`" ++ go_nl /\
    Proofs.C01Layout.before_comma (Proofs.C01Layout.go_tag_body m) = gm_key m /\
    (forall rest, Proofs.C01Layout.read_lit ([ch_dq] ++ Proofs.C01Layout.go_tag_body m ++ [ch_dq] ++ rest) = Some (Proofs.C01Layout.go_tag_body m, rest)).
Proof. exact Props.C01.C01_layout_go. Qed.
Print Assumptions Props.C01.C01_layout_go.
Goal forall m k, pym_alias m = Some k -> c01_key_ok k = true ->
    py_render_member m = Proofs.C01Layout.py_member_front m ++ lit "alias=" ++ [ch_dq] ++ k ++ [ch_dq] ++ Proofs.C01Layout.py_member_back m /\
    Proofs.C01Layout.read_lit ([ch_dq] ++ k ++ [ch_dq] ++ Proofs.C01Layout.py_member_back m) = Some (k, Proofs.C01Layout.py_member_back m).
Proof. exact Props.C01.C01_layout_python. Qed.
Print Assumptions Props.C01.C01_layout_python.
Goal exists rit, Proofs.C01Front.parses uc_exec (fun _ => None) [] Proofs.C01Front.c01_ex_item rit /\
              Proofs.C01Front.c01_shape Proofs.C01Front.c01_ex_item rit /\
              src_dom [] Proofs.C01Front.c01_ex_item = true /\
              src_groups [] Proofs.C01Front.c01_ex_item = Some [[lit "user-id"; lit "class"; lit "in"]] /\
              dom_C01 Kotlin [[lit "user-id"; lit "class"; lit "in"]] = true /\
              dom_C01 Scala [[lit "user-id"; lit "class"; lit "in"]] = false.
Proof. exact Props.C01.C01_nonvacuous. Qed.
Print Assumptions Props.C01.C01_nonvacuous.
Goal forall (T : list str) (l : lang) (it : item) (expected : list (list str)),
    l <> Scala -> src_dom T it = true -> src_groups T it = Some expected -> dom_C01 l expected = true.
Proof. exact Props.C01.C01_source_domain_implies_key_domain. Qed.
Print Assumptions Props.C01.C01_source_domain_implies_key_domain.
Goal forall (uc : unicode), unicode_ok uc -> forall (tstr : str -> option ty) (T : list str)
         (l : lang) (it : item) (rit : ritem) (expected : list (list str)) (gs : list (list member)),
    l <> Scala ->
    Proofs.C01Front.parses uc tstr T it rit -> Proofs.C01Front.c01_shape it rit -> src_dom T it = true ->
    src_groups T it = Some expected ->
    Proofs.C01.groups_fit l (ir_groups rit) gs ->
    good_groups_C01 l expected gs = true.
Proof. exact Props.C01.C01_field_keys_binding_languages. Qed.
Print Assumptions Props.C01.C01_field_keys_binding_languages.
Goal forall uc cfg pd fd, ts_file_decls uc cfg pd = Ok fd ->
    exists items, Permutation items (items_of pd) /\
                  Proofs.C01.groups_fit TypeScript (flat_map ir_groups items) (obs_groups (fd_decls fd)).
Proof. exact Props.C01.C01_file_typescript. Qed.
Print Assumptions Props.C01.C01_file_typescript.
Goal forall uc cfg pd fd, kt_file_decls uc cfg pd = Ok fd ->
    exists items, Permutation items (items_of pd) /\
                  Proofs.C01.groups_fit Kotlin (flat_map ir_groups items) (obs_groups (fd_decls fd)).
Proof. exact Props.C01.C01_file_kotlin. Qed.
Print Assumptions Props.C01.C01_file_kotlin.
Goal forall uc cfg pd fd, sw_file_decls uc cfg pd = Ok fd ->
    exists items, Permutation items (items_of pd) /\
                  Proofs.C01.groups_fit Swift (flat_map ir_groups items) (obs_groups (fd_decls fd)).
Proof. exact Props.C01.C01_file_swift. Qed.
Print Assumptions Props.C01.C01_file_swift.
Goal forall uc cfg pd fd, sc_file_decls uc cfg pd = Ok fd ->
    Proofs.C01.groups_fit Scala
      (flat_map ir_groups (map ItAlias (p_aliases pd) ++ map ItStruct (p_structs pd) ++ map ItEnum (p_enums pd)))
      (obs_groups (fd_decls fd)).
Proof. exact Props.C01.C01_file_scala. Qed.
Print Assumptions Props.C01.C01_file_scala.
Goal forall uc cfg pd fd, go_file_decls uc cfg pd = Ok fd ->
    exists items, Permutation items (items_of pd) /\
                  Proofs.C01.groups_fit Go (flat_map ir_groups items) (obs_groups (fd_decls fd)).
Proof. exact Props.C01.C01_file_go. Qed.
Print Assumptions Props.C01.C01_file_go.
Goal forall uc cfg pd fd, py_file_decls uc cfg pd = Ok fd ->
    exists items, Permutation items (items_of pd) /\
                  Proofs.C01.groups_fit Python (flat_map ir_groups items) (obs_groups (fd_decls fd)).
Proof. exact Props.C01.C01_file_python. Qed.
Print Assumptions Props.C01.C01_file_python.
