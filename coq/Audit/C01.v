(* Pinned statements for C01: compiled on every check run. A statement weakened in Props/ fails here. *)
From Coq Require Import List.
From TS Require Import Model.Str Model.Outcome Model.Unicode Model.Syntax Model.Attrs Model.Types Model.Parse
                       Model.Lang.Common Model.Lang.Decl Model.Lang.TypeScript Model.Lang.Kotlin Model.Lang.Swift
                       Model.Lang.Scala Model.Lang.Go Model.Lang.Python.
From TS Require Import Spec.SerdeCase Spec.C16Spec Spec.Serde Spec.C03Spec Spec.C01Spec.
From TS Require Import Model.Reconcile.
From Coq Require Import Permutation.
From TS Require Proofs.C01 Proofs.C01Front Proofs.C01Layout Proofs.C01File.
From TS Require Import Model.MultiFile.
From TS Require Model.Writer.
From TS Require Proofs.C12Multi Proofs.C12MultiTS Proofs.C12MultiSwift Proofs.C12MultiGo Proofs.C12MultiStateless
                Proofs.MultiSameDecls Proofs.MultiSameProps Proofs.MultiSameWitness Proofs.C12MultiWitness.
Import ListNotations.
Local Open Scope N_scope.
From TS Require Props.C01.

Goal forall (l : lang) (expected : list (list str)) (gs : list (list member)),
    Proofs.C01.groups_fit l expected gs -> dom_C01 l expected = true -> good_groups_C01 l expected gs = true.
Proof. exact Props.C01.C01_fit_is_good. Qed.
Print Assumptions Props.C01.C01_fit_is_good.
Goal forall (uc : unicode) (cfg : ts_config) (it : ritem) st d st',
    ts_decl_of uc cfg it st = Ok (d, st') ->
    Proofs.C01.groups_fit TypeScript (ir_groups it) (obs_groups [ts_obs d]).
Proof. exact Props.C01.C01_back_typescript. Qed.
Print Assumptions Props.C01.C01_back_typescript.
Goal forall (cfg : kt_config) (it : ritem) ds,
    kt_decl_of cfg it = Ok ds ->
    Proofs.C01.groups_fit Kotlin (ir_groups it) (obs_groups (map kt_obs ds)).
Proof. exact Props.C01.C01_back_kotlin. Qed.
Print Assumptions Props.C01.C01_back_kotlin.
Goal forall (uc : unicode) (cfg : sw_config) (it : ritem) st d st',
    sw_decl_of uc cfg it st = Ok (d, st') ->
    Proofs.C01.groups_fit Swift (ir_groups it) (obs_groups (sw_obs d)).
Proof. exact Props.C01.C01_back_swift. Qed.
Print Assumptions Props.C01.C01_back_swift.
Goal forall (cfg : sc_config) (it : ritem) ds,
    sc_decl_of cfg it = Ok ds ->
    Proofs.C01.groups_fit Scala (ir_groups it) (obs_groups (flat_map sc_obs ds)).
Proof. exact Props.C01.C01_back_scala. Qed.
Print Assumptions Props.C01.C01_back_scala.
Goal forall (uc : unicode) (cfg : go_config) (custom_structs : list str) (it : ritem) st ds st',
    go_decl_of uc cfg custom_structs it st = Ok (ds, st') ->
    Proofs.C01.groups_fit Go (ir_groups it) (obs_groups (flat_map go_obs ds)).
Proof. exact Props.C01.C01_back_go. Qed.
Print Assumptions Props.C01.C01_back_go.
Goal forall (uc : unicode) (cfg : py_config) (it : ritem) st ds st',
    py_decl_of uc cfg it st = Ok (ds, st') ->
    Proofs.C01.groups_fit Python (ir_groups it) (obs_groups (flat_map py_obs ds)).
Proof. exact Props.C01.C01_back_python. Qed.
Print Assumptions Props.C01.C01_back_python.
Goal forall (uc : unicode), unicode_ok uc -> forall (tstr : str -> option ty) (T : list str) attrs ident gens l s,
    parse_struct uc tstr T attrs ident gens (FNamed l) = Ok (ItStruct s) ->
    src_dom T (IStruct attrs ident gens (FNamed l)) = true ->
    src_groups T (IStruct attrs ident gens (FNamed l)) = Some (ir_groups (ItStruct s)).
Proof. exact Props.C01.C01_front_struct. Qed.
Print Assumptions Props.C01.C01_front_struct.
Goal forall (uc : unicode), unicode_ok uc -> forall (tstr : str -> option ty) (T : list str) attrs ident gens vs e,
    parse_enum uc tstr T attrs ident gens vs = Ok (ItEnum e) ->
    src_dom T (IEnum attrs ident gens vs) = true ->
    src_groups T (IEnum attrs ident gens vs) = Some (ir_groups (ItEnum e)).
Proof. exact Props.C01.C01_front_enum. Qed.
Print Assumptions Props.C01.C01_front_enum.
Goal forall rn cn pd s', In s' (p_structs (reconcile_crate rn cn pd)) ->
    exists s, In s (p_structs pd) /\ sid s' = sid s /\ ir_groups (ItStruct s') = ir_groups (ItStruct s).
Proof. exact Props.C01.C01_reconcile_structs. Qed.
Print Assumptions Props.C01.C01_reconcile_structs.
Goal forall rn cn pd e', In e' (p_enums (reconcile_crate rn cn pd)) ->
    exists e, In e (p_enums pd) /\ eid (enum_shared e') = eid (enum_shared e) /\ ir_groups (ItEnum e') = ir_groups (ItEnum e).
Proof. exact Props.C01.C01_reconcile_enums. Qed.
Print Assumptions Props.C01.C01_reconcile_enums.
Goal forall (uc : unicode), unicode_ok uc -> forall (tstr : str -> option ty) (T : list str)
         (l : lang) (it : item) (rit : ritem) (expected : list (list str)) (gs : list (list member)),
    Proofs.C01Front.parses uc tstr T it rit -> Proofs.C01Front.c01_shape it rit -> src_dom T it = true ->
    src_groups T it = Some expected -> dom_C01 l expected = true ->
    Proofs.C01.groups_fit l (ir_groups rit) gs ->
    good_groups_C01 l expected gs = true.
Proof. exact Props.C01.C01_field_keys. Qed.
Print Assumptions Props.C01.C01_field_keys.
Goal forall k rest, c01_key_ok k = true ->
    if c01_has_dash k then Proofs.C01Layout.read_lit (typescript_property_aware_rename k ++ rest) = Some (k, rest)
    else typescript_property_aware_rename k = k.
Proof. exact Props.C01.C01_layout_typescript. Qed.
Print Assumptions Props.C01.C01_layout_typescript.
Goal forall m k, km_serial_name m = Some k -> c01_key_ok k = true ->
    kt_render_member m = (kt_write_comments 1 (km_docs m) ++ [ch_tab]) ++ lit "@SerialName(" ++ [ch_dq] ++ k ++ [ch_dq] ++ lit ")" ++ nl ++ Proofs.C01Layout.kt_member_rest m /\
    Proofs.C01Layout.read_lit ([ch_dq] ++ k ++ [ch_dq] ++ lit ")" ++ nl ++ Proofs.C01Layout.kt_member_rest m) = Some (k, lit ")" ++ nl ++ Proofs.C01Layout.kt_member_rest m).
Proof. exact Props.C01.C01_layout_kotlin. Qed.
Print Assumptions Props.C01.C01_layout_kotlin.
Goal forall m k, swm_coding_key m = Some k -> c01_key_ok k = true ->
    sw_render_member_coding_key m = sw_member_ident m ++ lit " = " ++ [ch_dq] ++ k ++ [ch_dq] /\
    Proofs.C01Layout.read_lit ([ch_dq] ++ k ++ [ch_dq]) = Some (k, []).
Proof. exact Props.C01.C01_layout_swift. Qed.
Print Assumptions Props.C01.C01_layout_swift.
Goal forall m, c01_key_ok (gm_key m) = true ->
    go_render_member m = Proofs.C01Layout.go_member_front m ++ lit "`json:" ++ [ch_dq] ++ Proofs.C01Layout.go_tag_body m ++ [ch_dq] ++ lit "`" ++ go_nl /\
    Proofs.C01Layout.before_comma (Proofs.C01Layout.go_tag_body m) = gm_key m /\
    (forall rest, Proofs.C01Layout.read_lit ([ch_dq] ++ Proofs.C01Layout.go_tag_body m ++ [ch_dq] ++ rest) = Some (Proofs.C01Layout.go_tag_body m, rest)).
Proof. exact Props.C01.C01_layout_go. Qed.
Print Assumptions Props.C01.C01_layout_go.
Goal forall m k, pym_alias m = Some k -> c01_key_ok k = true ->
    py_render_member m = Proofs.C01Layout.py_member_front m ++ lit "alias=" ++ [ch_dq] ++ k ++ [ch_dq] ++ Proofs.C01Layout.py_member_back m /\
    Proofs.C01Layout.read_lit ([ch_dq] ++ k ++ [ch_dq] ++ Proofs.C01Layout.py_member_back m) = Some (k, Proofs.C01Layout.py_member_back m).
Proof. exact Props.C01.C01_layout_python. Qed.
Print Assumptions Props.C01.C01_layout_python.
Goal exists rit, Proofs.C01Front.parses uc_exec (fun _ => None) [] Proofs.C01Front.c01_ex_item rit /\
              Proofs.C01Front.c01_shape Proofs.C01Front.c01_ex_item rit /\
              src_dom [] Proofs.C01Front.c01_ex_item = true /\
              src_groups [] Proofs.C01Front.c01_ex_item = Some [[lit "user-id"; lit "class"; lit "in"]] /\
              dom_C01 Kotlin [[lit "user-id"; lit "class"; lit "in"]] = true /\
              dom_C01 Scala [[lit "user-id"; lit "class"; lit "in"]] = false.
Proof. exact Props.C01.C01_nonvacuous. Qed.
Print Assumptions Props.C01.C01_nonvacuous.
Goal forall (T : list str) (l : lang) (it : item) (expected : list (list str)),
    l <> Scala -> src_dom T it = true -> src_groups T it = Some expected -> dom_C01 l expected = true.
Proof. exact Props.C01.C01_source_domain_implies_key_domain. Qed.
Print Assumptions Props.C01.C01_source_domain_implies_key_domain.
Goal forall (uc : unicode), unicode_ok uc -> forall (tstr : str -> option ty) (T : list str)
         (l : lang) (it : item) (rit : ritem) (expected : list (list str)) (gs : list (list member)),
    l <> Scala ->
    Proofs.C01Front.parses uc tstr T it rit -> Proofs.C01Front.c01_shape it rit -> src_dom T it = true ->
    src_groups T it = Some expected ->
    Proofs.C01.groups_fit l (ir_groups rit) gs ->
    good_groups_C01 l expected gs = true.
Proof. exact Props.C01.C01_field_keys_binding_languages. Qed.
Print Assumptions Props.C01.C01_field_keys_binding_languages.
Goal forall uc cfg pd fd, ts_file_decls uc cfg pd = Ok fd ->
    exists items, Permutation items (items_of pd) /\
                  Proofs.C01.groups_fit TypeScript (flat_map ir_groups items) (obs_groups (fd_decls fd)).
Proof. exact Props.C01.C01_file_typescript. Qed.
Print Assumptions Props.C01.C01_file_typescript.
Goal forall uc cfg pd fd, kt_file_decls uc cfg pd = Ok fd ->
    exists items, Permutation items (items_of pd) /\
                  Proofs.C01.groups_fit Kotlin (flat_map ir_groups items) (obs_groups (fd_decls fd)).
Proof. exact Props.C01.C01_file_kotlin. Qed.
Print Assumptions Props.C01.C01_file_kotlin.
Goal forall uc cfg pd fd, sw_file_decls uc cfg pd = Ok fd ->
    exists items, Permutation items (items_of pd) /\
                  Proofs.C01.groups_fit Swift (flat_map ir_groups items) (obs_groups (fd_decls fd)).
Proof. exact Props.C01.C01_file_swift. Qed.
Print Assumptions Props.C01.C01_file_swift.
Goal forall uc cfg pd fd, sc_file_decls uc cfg pd = Ok fd ->
    Proofs.C01.groups_fit Scala
      (flat_map ir_groups (map ItAlias (p_aliases pd) ++ map ItStruct (p_structs pd) ++ map ItEnum (p_enums pd)))
      (obs_groups (fd_decls fd)).
Proof. exact Props.C01.C01_file_scala. Qed.
Print Assumptions Props.C01.C01_file_scala.
Goal forall uc cfg pd fd, go_file_decls uc cfg pd = Ok fd ->
    exists items, Permutation items (items_of pd) /\
                  Proofs.C01.groups_fit Go (flat_map ir_groups items) (obs_groups (fd_decls fd)).
Proof. exact Props.C01.C01_file_go. Qed.
Print Assumptions Props.C01.C01_file_go.
Goal forall uc cfg pd fd, py_file_decls uc cfg pd = Ok fd ->
    exists items, Permutation items (items_of pd) /\
                  Proofs.C01.groups_fit Python (flat_map ir_groups items) (obs_groups (fd_decls fd)).
Proof. exact Props.C01.C01_file_python. Qed.
Print Assumptions Props.C01.C01_file_python.
Goal forall (A St : Type) (o1 o2 : outcome (A * St)),
    Proofs.MultiSameDecls.same_outcome o1 o2 <->
    (forall a s1, o1 = Ok (a, s1) -> exists s2, o2 = Ok (a, s2)) /\
    (forall e, o1 = Err e -> o2 = Err e) /\
    (forall p, o1 = Panic p -> o2 = Panic p).
Proof. exact Props.C01.C01_multi_same_outcome_meaning. Qed.
Print Assumptions Props.C01.C01_multi_same_outcome_meaning.
Goal forall uc cfg st1 st2 pd,
    Proofs.MultiSameDecls.same_outcome (Proofs.C12MultiTS.ts_multi_decls uc cfg st1 pd) (Proofs.C12MultiTS.ts_multi_decls uc cfg st2 pd).
Proof. exact Props.C01.C01_multi_decls_state_independent_typescript. Qed.
Print Assumptions Props.C01.C01_multi_decls_state_independent_typescript.
Goal forall uc cfg st1 st2 pd,
    Proofs.MultiSameDecls.same_outcome (Proofs.C12MultiSwift.sw_multi_decls uc cfg st1 pd) (Proofs.C12MultiSwift.sw_multi_decls uc cfg st2 pd).
Proof. exact Props.C01.C01_multi_decls_state_independent_swift. Qed.
Print Assumptions Props.C01.C01_multi_decls_state_independent_swift.
Goal forall uc cfg st1 st2 pd,
    Proofs.MultiSameDecls.same_outcome (Proofs.C12MultiGo.go_multi_decls uc cfg st1 pd) (Proofs.C12MultiGo.go_multi_decls uc cfg st2 pd).
Proof. exact Props.C01.C01_multi_decls_state_independent_go. Qed.
Print Assumptions Props.C01.C01_multi_decls_state_independent_go.
Goal forall uc cfg st1 st2 pd,
    Proofs.MultiSameDecls.same_outcome (Proofs.C12Multi.py_multi_decls uc cfg st1 pd) (Proofs.C12Multi.py_multi_decls uc cfg st2 pd).
Proof. exact Props.C01.C01_multi_decls_state_independent_python. Qed.
Print Assumptions Props.C01.C01_multi_decls_state_independent_python.
Goal forall uc cfg st pd,
    Proofs.MultiSameDecls.same_outcome (Proofs.C12MultiTS.ts_multi_decls uc cfg st pd) (ts_decls uc cfg pd) /\
    Proofs.MultiSameDecls.same_outcome (ts_decls uc cfg pd) (Proofs.C12MultiTS.ts_multi_decls uc cfg st pd).
Proof. exact Props.C01.C01_multi_same_decls_typescript. Qed.
Print Assumptions Props.C01.C01_multi_same_decls_typescript.
Goal forall uc cfg st pd,
    Proofs.MultiSameDecls.same_outcome (Proofs.C12MultiSwift.sw_multi_decls uc cfg st pd) (sw_decls uc cfg pd) /\
    Proofs.MultiSameDecls.same_outcome (sw_decls uc cfg pd) (Proofs.C12MultiSwift.sw_multi_decls uc cfg st pd).
Proof. exact Props.C01.C01_multi_same_decls_swift. Qed.
Print Assumptions Props.C01.C01_multi_same_decls_swift.
Goal forall uc cfg st pd,
    Proofs.MultiSameDecls.same_outcome (Proofs.C12MultiGo.go_multi_decls uc cfg st pd) (go_decls uc cfg pd) /\
    Proofs.MultiSameDecls.same_outcome (go_decls uc cfg pd) (Proofs.C12MultiGo.go_multi_decls uc cfg st pd).
Proof. exact Props.C01.C01_multi_same_decls_go. Qed.
Print Assumptions Props.C01.C01_multi_same_decls_go.
Goal forall uc cfg st pd,
    Proofs.MultiSameDecls.same_outcome (Proofs.C12Multi.py_multi_decls uc cfg st pd) (py_decls uc cfg pd) /\
    Proofs.MultiSameDecls.same_outcome (py_decls uc cfg pd) (Proofs.C12Multi.py_multi_decls uc cfg st pd).
Proof. exact Props.C01.C01_multi_same_decls_python. Qed.
Print Assumptions Props.C01.C01_multi_same_decls_python.
Goal forall uc cfg st pd ds st', Proofs.C12MultiTS.ts_multi_decls uc cfg st pd = Ok (ds, st') ->
    exists fd, ts_file_decls uc cfg pd = Ok fd /\ fd_decls fd = map ts_obs ds.
Proof. exact Props.C01.C01_multi_file_decls_typescript. Qed.
Print Assumptions Props.C01.C01_multi_file_decls_typescript.
Goal forall uc cfg st pd ds st', Proofs.C12MultiSwift.sw_multi_decls uc cfg st pd = Ok (ds, st') ->
    exists fd st0, sw_file_decls uc cfg pd = Ok fd /\ sw_decls uc cfg pd = Ok (ds, st0) /\
                   fd_decls fd = flat_map sw_obs ds ++ flat_map sw_obs (sw_trailing_decls cfg st0).
Proof. exact Props.C01.C01_multi_file_decls_swift. Qed.
Print Assumptions Props.C01.C01_multi_file_decls_swift.
Goal forall uc cfg st pd ds st', Proofs.C12MultiGo.go_multi_decls uc cfg st pd = Ok (ds, st') ->
    exists fd, go_file_decls uc cfg pd = Ok fd /\ fd_decls fd = flat_map go_obs ds.
Proof. exact Props.C01.C01_multi_file_decls_go. Qed.
Print Assumptions Props.C01.C01_multi_file_decls_go.
Goal forall uc cfg st pd ds st', Proofs.C12Multi.py_multi_decls uc cfg st pd = Ok (ds, st') ->
    exists fd helpers, py_file_decls uc cfg pd = Ok fd /\
                       fd_decls fd = map py_helper_decl helpers ++ flat_map py_obs ds.
Proof. exact Props.C01.C01_multi_file_decls_python. Qed.
Print Assumptions Props.C01.C01_multi_file_decls_python.
Goal forall uc cfg c im pd text, kt_generate_multi uc cfg c im pd = Ok text ->
    exists ds fd, kt_decls uc cfg pd = Ok ds /\ kt_file_decls uc cfg pd = Ok fd /\ fd_decls fd = map kt_obs ds.
Proof. exact Props.C01.C01_multi_file_decls_kotlin. Qed.
Print Assumptions Props.C01.C01_multi_file_decls_kotlin.
Goal forall uc cfg pd text, sc_generate uc cfg pd = Ok text ->
    exists objs pkgs fd, sc_decls uc cfg pd = Ok (objs, pkgs) /\ sc_file_decls uc cfg pd = Ok fd /\
                         fd_decls fd = flat_map sc_obs (objs ++ pkgs).
Proof. exact Props.C01.C01_multi_file_decls_scala. Qed.
Print Assumptions Props.C01.C01_multi_file_decls_scala.
Goal forall uc cfg st pd ds st', Proofs.C12MultiTS.ts_multi_decls uc cfg st pd = Ok (ds, st') ->
    exists items, Model.Topsort.topsort (items_of pd) = Ok items /\
      Forall2 (fun it d => forall s, exists s', ts_decl_of uc cfg it s = Ok (d, s')) items ds.
Proof. exact Props.C01.C01_multi_decls_items_typescript. Qed.
Print Assumptions Props.C01.C01_multi_decls_items_typescript.
Goal forall uc cfg st pd ds st', Proofs.C12MultiSwift.sw_multi_decls uc cfg st pd = Ok (ds, st') ->
    exists items, Model.Topsort.topsort (items_of pd) = Ok items /\
      Forall2 (fun it d => forall s, exists s', sw_decl_of uc cfg it s = Ok (d, s')) items ds.
Proof. exact Props.C01.C01_multi_decls_items_swift. Qed.
Print Assumptions Props.C01.C01_multi_decls_items_swift.
Goal forall uc cfg st pd ds st', Proofs.C12MultiGo.go_multi_decls uc cfg st pd = Ok (ds, st') ->
    exists items dss, Model.Topsort.topsort (items_of pd) = Ok items /\ ds = List.concat dss /\
      Forall2 (fun it d => forall s, exists s', go_decl_of uc cfg (go_types_mapping_to_struct items) it s = Ok (d, s')) items dss.
Proof. exact Props.C01.C01_multi_decls_items_go. Qed.
Print Assumptions Props.C01.C01_multi_decls_items_go.
Goal forall uc cfg st pd ds st', Proofs.C12Multi.py_multi_decls uc cfg st pd = Ok (ds, st') ->
    exists items dss, Model.Topsort.topsort (items_of pd) = Ok items /\ ds = List.concat dss /\
      Forall2 (fun it d => forall s, exists s', py_decl_of uc cfg it s = Ok (d, s')) items dss.
Proof. exact Props.C01.C01_multi_decls_items_python. Qed.
Print Assumptions Props.C01.C01_multi_decls_items_python.
Goal forall uc cfg st pd ds st', Proofs.C12MultiTS.ts_multi_decls uc cfg st pd = Ok (ds, st') ->
    exists items, Permutation items (items_of pd) /\
                  Proofs.C01.groups_fit TypeScript (flat_map ir_groups items) (obs_groups (map ts_obs ds)).
Proof. exact Props.C01.C01_multi_file_typescript. Qed.
Print Assumptions Props.C01.C01_multi_file_typescript.
Goal forall uc cfg c im pd text, kt_generate_multi uc cfg c im pd = Ok text ->
    exists ds, kt_decls uc cfg pd = Ok ds /\
      exists items, Permutation items (items_of pd) /\
                    Proofs.C01.groups_fit Kotlin (flat_map ir_groups items) (obs_groups (map kt_obs ds)).
Proof. exact Props.C01.C01_multi_file_kotlin. Qed.
Print Assumptions Props.C01.C01_multi_file_kotlin.
Goal forall uc cfg st pd ds st', Proofs.C12MultiSwift.sw_multi_decls uc cfg st pd = Ok (ds, st') ->
    exists items, Permutation items (items_of pd) /\
                  Proofs.C01.groups_fit Swift (flat_map ir_groups items) (obs_groups (flat_map sw_obs ds)).
Proof. exact Props.C01.C01_multi_file_swift. Qed.
Print Assumptions Props.C01.C01_multi_file_swift.
Goal forall uc cfg pd text, sc_generate uc cfg pd = Ok text ->
    exists objs pkgs, sc_decls uc cfg pd = Ok (objs, pkgs) /\
      Proofs.C01.groups_fit Scala
        (flat_map ir_groups (map ItAlias (p_aliases pd) ++ map ItStruct (p_structs pd) ++ map ItEnum (p_enums pd)))
        (obs_groups (flat_map sc_obs (objs ++ pkgs))).
Proof. exact Props.C01.C01_multi_file_scala. Qed.
Print Assumptions Props.C01.C01_multi_file_scala.
Goal forall uc cfg st pd ds st', Proofs.C12MultiGo.go_multi_decls uc cfg st pd = Ok (ds, st') ->
    exists items, Permutation items (items_of pd) /\
                  Proofs.C01.groups_fit Go (flat_map ir_groups items) (obs_groups (flat_map go_obs ds)).
Proof. exact Props.C01.C01_multi_file_go. Qed.
Print Assumptions Props.C01.C01_multi_file_go.
Goal forall uc cfg st pd ds st', Proofs.C12Multi.py_multi_decls uc cfg st pd = Ok (ds, st') ->
    exists items, Permutation items (items_of pd) /\
                  Proofs.C01.groups_fit Python (flat_map ir_groups items) (obs_groups (flat_map py_obs ds)).
Proof. exact Props.C01.C01_multi_file_python. Qed.
Print Assumptions Props.C01.C01_multi_file_python.
Goal forall uc cfg st0 plan files fin,
    generate_crates (Proofs.C12MultiTS.ts_multi_gen uc cfg) st0 plan = (files, fin) ->
    forall i fname text,
      nth_error files i = Some (fname, Writer.Generated text) ->
      exists p st_i st_i' ds,
        nth_error plan i = Some p /\ fname = op_file p /\
        ts_generate_multi uc cfg st_i (op_imports p) (op_data p) = Ok (text, st_i') /\
        Proofs.C12MultiTS.ts_multi_decls uc cfg st_i (op_data p) = Ok (ds, st_i') /\
        text = ts_begin_file cfg ++ ts_write_imports (op_imports p) ++ List.concat (map ts_render_decl ds) ++ ts_end_file st_i' /\
        (exists st1, ts_decls uc cfg (op_data p) = Ok (ds, st1)) /\
        exists items, Permutation items (items_of (op_data p)) /\
                      Proofs.C01.groups_fit TypeScript (flat_map ir_groups items) (obs_groups (map ts_obs ds)).
Proof. exact Props.C01.C01_multi_run_typescript. Qed.
Print Assumptions Props.C01.C01_multi_run_typescript.
Goal forall uc cfg st0 plan files fin,
    generate_crates (Proofs.C12Multi.py_multi_gen uc cfg) st0 plan = (files, fin) ->
    forall i fname text,
      nth_error files i = Some (fname, Writer.Generated text) ->
      exists p st_i st_i' ds,
        nth_error plan i = Some p /\ fname = op_file p /\
        py_generate_multi uc cfg st_i (op_data p) = Ok (text, st_i') /\
        Proofs.C12Multi.py_multi_decls uc cfg st_i (op_data p) = Ok (ds, st_i') /\
        text = py_begin_file cfg ++ py_write_all_imports st_i' ++ py_write_custom_translations st_i' ++
               List.concat (map py_render_decl ds) /\
        (exists st1, py_decls uc cfg (op_data p) = Ok (ds, st1)) /\
        exists items, Permutation items (items_of (op_data p)) /\
                      Proofs.C01.groups_fit Python (flat_map ir_groups items) (obs_groups (flat_map py_obs ds)).
Proof. exact Props.C01.C01_multi_run_python. Qed.
Print Assumptions Props.C01.C01_multi_run_python.
Goal exists pa pb dsa st_a dsb st_b st_b0 fd,
    Proofs.C12MultiWitness.y_plan Python Proofs.C12MultiWitness.ws_py_again = Some [pa; pb] /\
    map op_crate [pa; pb] = [lit "alpha"; lit "beta"] /\
    Proofs.C12Multi.py_multi_decls uc_exec Proofs.C12MultiWitness.y_py_cfg py_empty_state (op_data pa) = Ok (dsa, st_a) /\
    py_type_variables st_a = [lit "T"] /\ py_custom_types st_a = [lit "datetime"] /\
    Proofs.C12Multi.py_multi_decls uc_exec Proofs.C12MultiWitness.y_py_cfg st_a (op_data pb) = Ok (dsb, st_b) /\
    Proofs.C12Multi.py_multi_decls uc_exec Proofs.C12MultiWitness.y_py_cfg py_empty_state (op_data pb) = Ok (dsb, st_b0) /\
    py_decls uc_exec Proofs.C12MultiWitness.y_py_cfg (op_data pb) = Ok (dsb, st_b0) /\
    List.length dsb = 1%nat /\
    map (fun g => map mb_key g) (obs_groups (flat_map py_obs dsb)) = [[lit "item"; lit "at"]] /\
    py_type_variables st_b = [lit "T"; lit "U"] /\ py_type_variables st_b0 = [lit "U"] /\
    py_file_decls uc_exec Proofs.C12MultiWitness.y_py_cfg (op_data pb) = Ok fd /\
    fd_decls fd = map py_helper_decl [lit "U"; lit "serialize_datetime_data"; lit "parse_rfc3339"] ++ flat_map py_obs dsb.
Proof. exact Props.C01.C01_multi_same_decls_nonvacuous. Qed.
Print Assumptions Props.C01.C01_multi_same_decls_nonvacuous.
Goal (exists pa pb dsa dsb,
     Proofs.C12MultiWitness.y_plan TypeScript Proofs.C12MultiWitness.ws_py_plain = Some [pa; pb] /\
     Proofs.C12MultiTS.ts_multi_decls uc_exec Proofs.C12MultiWitness.y_ts_cfg [] (op_data pa) = Ok (dsa, [(lit "Date", [lit "at"])]) /\
     Proofs.C12MultiTS.ts_multi_decls uc_exec Proofs.C12MultiWitness.y_ts_cfg [(lit "Date", [lit "at"])] (op_data pb) = Ok (dsb, [(lit "Date", [lit "at"])]) /\
     Proofs.C12MultiTS.ts_multi_decls uc_exec Proofs.C12MultiWitness.y_ts_cfg [] (op_data pb) = Ok (dsb, []) /\ List.length dsb = 1%nat) /\
  (exists pa pb dsa dsb,
     Proofs.C12MultiWitness.y_plan Swift Proofs.C12MultiWitness.ws_sw_unit = Some [pa; pb] /\
     Proofs.C12MultiSwift.sw_multi_decls uc_exec Proofs.C12MultiWitness.y_sw_cfg false (op_data pa) = Ok (dsa, true) /\
     Proofs.C12MultiSwift.sw_multi_decls uc_exec Proofs.C12MultiWitness.y_sw_cfg true (op_data pb) = Ok (dsb, true) /\
     Proofs.C12MultiSwift.sw_multi_decls uc_exec Proofs.C12MultiWitness.y_sw_cfg false (op_data pb) = Ok (dsb, false) /\ List.length dsb = 1%nat) /\
  (exists pa pb dsa dsb,
     Proofs.C12MultiWitness.y_plan Go Proofs.C12MultiWitness.ws_py_plain = Some [pa; pb] /\
     Proofs.C12MultiGo.go_multi_decls uc_exec Proofs.C12MultiWitness.y_go_cfg [] (op_data pa) = Ok (dsa, [lit "encoding/json"; lit "time"]) /\
     Proofs.C12MultiGo.go_multi_decls uc_exec Proofs.C12MultiWitness.y_go_cfg [lit "encoding/json"; lit "time"] (op_data pb) = Ok (dsb, [lit "encoding/json"; lit "time"]) /\
     Proofs.C12MultiGo.go_multi_decls uc_exec Proofs.C12MultiWitness.y_go_cfg [] (op_data pb) = Ok (dsb, [lit "encoding/json"]) /\ List.length dsb = 1%nat).
Proof. exact Props.C01.C01_multi_same_decls_nonvacuous_ts_sw_go. Qed.
Print Assumptions Props.C01.C01_multi_same_decls_nonvacuous_ts_sw_go.
