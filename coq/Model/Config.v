(* cli/src/config.rs (Config, store_config, load_config, find_configuration_file), cli/src/args.rs
   (the options that correspond to configuration values) and the configuration part of
   cli/src/main.rs (override_configuration, language(), generate_types, the -g branch of main).

   Not modelled: clap (the options arrive as a record of [option]s) and toml.  The serialiser and the
   parser are Section variables [ser] / [parse]; the parser stops at "which tables and keys does the
   file contain" ([pconfig]); the filling of absent tables and keys from Default - the effect of the
   #[serde(default)] attributes of config.rs - is modelled ([fill_config]).  The file system is an
   association list from absolute paths (lists of components below the root) to file contents;
   directories are not represented (a path that is not listed is "not a file"). *)
From Coq Require Import String.
From TS Require Import Model.Str Model.Types.

(* HashMap<String, String>: association list; only ever handed on unchanged *)
Definition amap := list (str * str).

(* ---------- config.rs: the parameter structs ---------- *)
Record python_params := { py_type_mappings : amap }.
Record kotlin_params := { kt_package : str; kt_module_name : str; kt_prefix : str; kt_type_mappings : amap }.
Record scala_params := { sc_package : str; sc_module_name : str; sc_type_mappings : amap }.
Record swift_params := { sw_prefix : str; sw_default_decorators : list str;
                         sw_default_generic_constraints : list str;
                         sw_codablevoid_constraints : list str; sw_type_mappings : amap }.
Record typescript_params := { tsc_type_mappings : amap }.
Record go_params := { go_package : str; go_uppercase_acronyms : list str; go_no_pointer_slice : bool;
                      go_type_mappings : amap }.

Record config := { c_swift : swift_params; c_typescript : typescript_params; c_kotlin : kotlin_params;
                   c_scala : scala_params; c_python : python_params; c_go : go_params;
                   c_target_os : list str (* #[serde(skip)] *) }.

(* #[derive(Default)] *)
Definition default_python_params : python_params := {| py_type_mappings := [] |}.
Definition default_kotlin_params : kotlin_params :=
  {| kt_package := []; kt_module_name := []; kt_prefix := []; kt_type_mappings := [] |}.
Definition default_scala_params : scala_params := {| sc_package := []; sc_module_name := []; sc_type_mappings := [] |}.
Definition default_swift_params : swift_params :=
  {| sw_prefix := []; sw_default_decorators := []; sw_default_generic_constraints := [];
     sw_codablevoid_constraints := []; sw_type_mappings := [] |}.
Definition default_typescript_params : typescript_params := {| tsc_type_mappings := [] |}.
Definition default_go_params : go_params :=
  {| go_package := []; go_uppercase_acronyms := []; go_no_pointer_slice := false; go_type_mappings := [] |}.
Definition default_config : config :=
  {| c_swift := default_swift_params; c_typescript := default_typescript_params; c_kotlin := default_kotlin_params;
     c_scala := default_scala_params; c_python := default_python_params; c_go := default_go_params;
     c_target_os := [] |}.

(* field assignment  config.<table>.<field> = v  *)
Definition set_swift_prefix (v : str) (c : config) : config :=
  {| c_swift := {| sw_prefix := v; sw_default_decorators := sw_default_decorators (c_swift c);
                   sw_default_generic_constraints := sw_default_generic_constraints (c_swift c);
                   sw_codablevoid_constraints := sw_codablevoid_constraints (c_swift c);
                   sw_type_mappings := sw_type_mappings (c_swift c) |};
     c_typescript := c_typescript c; c_kotlin := c_kotlin c; c_scala := c_scala c; c_python := c_python c;
     c_go := c_go c; c_target_os := c_target_os c |}.
Definition with_kotlin (k : kotlin_params) (c : config) : config :=
  {| c_swift := c_swift c; c_typescript := c_typescript c; c_kotlin := k; c_scala := c_scala c;
     c_python := c_python c; c_go := c_go c; c_target_os := c_target_os c |}.
Definition set_kotlin_prefix (v : str) (c : config) : config :=
  with_kotlin {| kt_package := kt_package (c_kotlin c); kt_module_name := kt_module_name (c_kotlin c); kt_prefix := v;
                 kt_type_mappings := kt_type_mappings (c_kotlin c) |} c.
Definition set_kotlin_package (v : str) (c : config) : config :=
  with_kotlin {| kt_package := v; kt_module_name := kt_module_name (c_kotlin c); kt_prefix := kt_prefix (c_kotlin c);
                 kt_type_mappings := kt_type_mappings (c_kotlin c) |} c.
Definition set_kotlin_module_name (v : str) (c : config) : config :=
  with_kotlin {| kt_package := kt_package (c_kotlin c); kt_module_name := v; kt_prefix := kt_prefix (c_kotlin c);
                 kt_type_mappings := kt_type_mappings (c_kotlin c) |} c.
Definition with_scala (s : scala_params) (c : config) : config :=
  {| c_swift := c_swift c; c_typescript := c_typescript c; c_kotlin := c_kotlin c; c_scala := s;
     c_python := c_python c; c_go := c_go c; c_target_os := c_target_os c |}.
Definition set_scala_package (v : str) (c : config) : config :=
  with_scala {| sc_package := v; sc_module_name := sc_module_name (c_scala c); sc_type_mappings := sc_type_mappings (c_scala c) |} c.
Definition set_scala_module_name (v : str) (c : config) : config :=
  with_scala {| sc_package := sc_package (c_scala c); sc_module_name := v; sc_type_mappings := sc_type_mappings (c_scala c) |} c.
Definition set_go_package (v : str) (c : config) : config :=
  {| c_swift := c_swift c; c_typescript := c_typescript c; c_kotlin := c_kotlin c; c_scala := c_scala c;
     c_python := c_python c;
     c_go := {| go_package := v; go_uppercase_acronyms := go_uppercase_acronyms (c_go c);
                go_no_pointer_slice := go_no_pointer_slice (c_go c); go_type_mappings := go_type_mappings (c_go c) |};
     c_target_os := c_target_os c |}.
Definition set_target_os (v : list str) (c : config) : config :=
  {| c_swift := c_swift c; c_typescript := c_typescript c; c_kotlin := c_kotlin c; c_scala := c_scala c;
     c_python := c_python c; c_go := c_go c; c_target_os := v |}.

(* ---------- args.rs ---------- *)
Inductive available_language := AKotlin | AScala | ASwift | ATypescript | AGo | APython.

(* a path given by the user: absolute, or relative to the current directory *)
Definition fpath := list str.
Inductive upath := PAbs (p : fpath) | PRel (p : fpath).

Record cli_options := {
  o_language : option available_language;
  o_swift_prefix : option str;
  o_kotlin_prefix : option str;
  o_java_package : option str;
  o_kotlin_module_name : option str;
  o_scala_package : option str;
  o_scala_module_name : option str;
  o_go_package : option str;
  o_config_file : option upath;
  o_generate_config : bool;         (* output.generate_config *)
  o_output_folder : bool;           (* -d given (else -o): destination is Output::Folder *)
  o_target_os : option (list str) }.

(* ---------- results ---------- *)
Inductive cfg_error :=
| EGoPackageMissing     (* anyhow::ensure!(!config.go.package.is_empty(), "Please provide a package name ..") *)
| EConfigExists         (* OpenOptions::create_new: the path exists *)
| EConfigRead           (* fs::read_to_string fails *)
| EConfigParse.         (* toml::from_str fails *)
Inductive cres (A : Type) :=
| COk (a : A)
| CErr (e : cfg_error)
| CPanic (site : string).
Arguments COk {A} a.
Arguments CErr {A} e.
Arguments CPanic {A} site.

Definition str_is_empty (s : str) : bool := match s with [] => true | _ :: _ => false end.
Definition is_go (l : option available_language) : bool := match l with Some AGo => true | _ => false end.

(* ---------- main.rs: override_configuration (features go, python enabled) ---------- *)
Definition override_configuration (cfg : config) (options : cli_options) : cres config :=
  let cfg := match o_swift_prefix options with Some swift_prefix => set_swift_prefix swift_prefix cfg | None => cfg end in
  let cfg := match o_kotlin_prefix options with Some kotlin_prefix => set_kotlin_prefix kotlin_prefix cfg | None => cfg end in
  let cfg := match o_java_package options with Some java_package => set_kotlin_package java_package cfg | None => cfg end in
  let cfg := match o_kotlin_module_name options with Some module_name => set_kotlin_module_name module_name cfg | None => cfg end in
  let cfg := match o_scala_package options with Some scala_package => set_scala_package scala_package cfg | None => cfg end in
  let cfg := match o_scala_module_name options with Some scala_module_name => set_scala_module_name scala_module_name cfg | None => cfg end in
  let cfg := match o_go_package options with Some go_pkg => set_go_package go_pkg cfg | None => cfg end in
  if is_go (o_language options) && str_is_empty (go_package (c_go cfg)) then CErr EGoPackageMissing
  else
  (* config.target_os = options.target_os.as_deref().unwrap_or_default().to_vec() *)
  let cfg := set_target_os (match o_target_os options with Some t => t | None => [] end) cfg in
  COk cfg.

(* ---------- main.rs: language() - which Config field reaches which back-end field ---------- *)
Record swift_backend := { bsw_prefix : str; bsw_type_mappings : amap; bsw_default_decorators : list str;
                          bsw_default_generic_constraints : list str;   (* argument of GenericConstraints::from_config *)
                          bsw_multi_file : bool; bsw_codablevoid_constraints : list str }.
Record kotlin_backend := { bkt_package : str; bkt_module_name : str; bkt_prefix : str; bkt_type_mappings : amap }.
Record scala_backend := { bsc_package : str; bsc_module_name : str; bsc_type_mappings : amap }.
Record typescript_backend := { bts_type_mappings : amap }.
Record go_backend := { bgo_package : str; bgo_type_mappings : amap; bgo_uppercase_acronyms : list str;
                       bgo_no_pointer_slice : bool }.
Record python_backend := { bpy_type_mappings : amap }.
Inductive backend :=
| BSwift (b : swift_backend)
| BKotlin (b : kotlin_backend)
| BScala (b : scala_backend)
| BTypeScript (b : typescript_backend)
| BGo (b : go_backend)
| BPython (b : python_backend).

Definition language_params (language_type : lang) (cfg : config) (multi_file : bool) : backend :=
  match language_type with
  | Swift => BSwift {| bsw_prefix := sw_prefix (c_swift cfg);
                       bsw_type_mappings := sw_type_mappings (c_swift cfg);
                       bsw_default_decorators := sw_default_decorators (c_swift cfg);
                       bsw_default_generic_constraints := sw_default_generic_constraints (c_swift cfg);
                       bsw_multi_file := multi_file;
                       bsw_codablevoid_constraints := sw_codablevoid_constraints (c_swift cfg) |}
  | Kotlin => BKotlin {| bkt_package := kt_package (c_kotlin cfg);
                         bkt_module_name := kt_module_name (c_kotlin cfg);
                         bkt_prefix := kt_prefix (c_kotlin cfg);
                         bkt_type_mappings := kt_type_mappings (c_kotlin cfg) |}
  | Scala => BScala {| bsc_package := sc_package (c_scala cfg);
                       bsc_module_name := sc_module_name (c_scala cfg);
                       bsc_type_mappings := sc_type_mappings (c_scala cfg) |}
  | TypeScript => BTypeScript {| bts_type_mappings := tsc_type_mappings (c_typescript cfg) |}
  | Go => BGo {| bgo_package := go_package (c_go cfg);
                 bgo_type_mappings := go_type_mappings (c_go cfg);
                 bgo_uppercase_acronyms := go_uppercase_acronyms (c_go cfg);
                 bgo_no_pointer_slice := go_no_pointer_slice (c_go cfg) |}
  | Python => BPython {| bpy_type_mappings := py_type_mappings (c_python cfg) |}
  end.

(* generate_types: args::AvailableLanguage -> SupportedLanguage *)
Definition supported_of (l : available_language) : lang :=
  match l with
  | AKotlin => Kotlin | AScala => Scala | ASwift => Swift | ATypescript => TypeScript | AGo => Go | APython => Python
  end.

(* ---------- what a configuration file says: tables and keys present or absent ---------- *)
Record p_python := { ppy_type_mappings : option amap }.
Record p_kotlin := { pkt_package : option str; pkt_module_name : option str; pkt_prefix : option str;
                     pkt_type_mappings : option amap }.
Record p_scala := { psc_package : option str; psc_module_name : option str; psc_type_mappings : option amap }.
Record p_swift := { psw_prefix : option str; psw_default_decorators : option (list str);
                    psw_default_generic_constraints : option (list str);
                    psw_codablevoid_constraints : option (list str); psw_type_mappings : option amap }.
Record p_typescript := { pts_type_mappings : option amap }.
Record p_go := { pgo_package : option str; pgo_uppercase_acronyms : option (list str);
                 pgo_no_pointer_slice : option bool; pgo_type_mappings : option amap }.
Record pconfig := { pc_swift : option p_swift; pc_typescript : option p_typescript; pc_kotlin : option p_kotlin;
                    pc_scala : option p_scala; pc_python : option p_python; pc_go : option p_go }.

(* #[serde(default)] on a struct: an absent field takes the value it has in the struct's Default *)
Definition or_default {A} (o : option A) (d : A) : A := match o with Some v => v | None => d end.

Definition fill_python (t : option p_python) : python_params :=
  match t with
  | None => default_python_params
  | Some p => {| py_type_mappings := or_default (ppy_type_mappings p) (py_type_mappings default_python_params) |}
  end.
Definition fill_kotlin (t : option p_kotlin) : kotlin_params :=
  match t with
  | None => default_kotlin_params
  | Some p => {| kt_package := or_default (pkt_package p) (kt_package default_kotlin_params);
                 kt_module_name := or_default (pkt_module_name p) (kt_module_name default_kotlin_params);
                 kt_prefix := or_default (pkt_prefix p) (kt_prefix default_kotlin_params);
                 kt_type_mappings := or_default (pkt_type_mappings p) (kt_type_mappings default_kotlin_params) |}
  end.
Definition fill_scala (t : option p_scala) : scala_params :=
  match t with
  | None => default_scala_params
  | Some p => {| sc_package := or_default (psc_package p) (sc_package default_scala_params);
                 sc_module_name := or_default (psc_module_name p) (sc_module_name default_scala_params);
                 sc_type_mappings := or_default (psc_type_mappings p) (sc_type_mappings default_scala_params) |}
  end.
Definition fill_swift (t : option p_swift) : swift_params :=
  match t with
  | None => default_swift_params
  | Some p => {| sw_prefix := or_default (psw_prefix p) (sw_prefix default_swift_params);
                 sw_default_decorators := or_default (psw_default_decorators p) (sw_default_decorators default_swift_params);
                 sw_default_generic_constraints :=
                   or_default (psw_default_generic_constraints p) (sw_default_generic_constraints default_swift_params);
                 sw_codablevoid_constraints :=
                   or_default (psw_codablevoid_constraints p) (sw_codablevoid_constraints default_swift_params);
                 sw_type_mappings := or_default (psw_type_mappings p) (sw_type_mappings default_swift_params) |}
  end.
Definition fill_typescript (t : option p_typescript) : typescript_params :=
  match t with
  | None => default_typescript_params
  | Some p => {| tsc_type_mappings := or_default (pts_type_mappings p) (tsc_type_mappings default_typescript_params) |}
  end.
Definition fill_go (t : option p_go) : go_params :=
  match t with
  | None => default_go_params
  | Some p => {| go_package := or_default (pgo_package p) (go_package default_go_params);
                 go_uppercase_acronyms := or_default (pgo_uppercase_acronyms p) (go_uppercase_acronyms default_go_params);
                 go_no_pointer_slice := or_default (pgo_no_pointer_slice p) (go_no_pointer_slice default_go_params);
                 go_type_mappings := or_default (pgo_type_mappings p) (go_type_mappings default_go_params) |}
  end.
(* Config: #[serde(default)]; target_os: #[serde(skip)] = never read from the file, always Default *)
Definition fill_config (p : pconfig) : config :=
  {| c_swift := fill_swift (pc_swift p); c_typescript := fill_typescript (pc_typescript p);
     c_kotlin := fill_kotlin (pc_kotlin p); c_scala := fill_scala (pc_scala p);
     c_python := fill_python (pc_python p); c_go := fill_go (pc_go p);
     c_target_os := c_target_os default_config |}.

(* what load_config hands on: the parsed file with defaults filled in, or Config::default() when no
   configuration file is in play *)
Definition config_of_file (file : option pconfig) : config :=
  match file with Some f => fill_config f | None => default_config end.

(* The file contents in which every table and key of [c] is present (what to_string_pretty is observed
   to write; target_os is skipped).  Used only to instantiate [ser] in the driver and in the
   non-vacuity example - no theorem assumes that the serialiser writes every key. *)
Definition present_config (c : config) : pconfig :=
  {| pc_swift := Some {| psw_prefix := Some (sw_prefix (c_swift c));
                         psw_default_decorators := Some (sw_default_decorators (c_swift c));
                         psw_default_generic_constraints := Some (sw_default_generic_constraints (c_swift c));
                         psw_codablevoid_constraints := Some (sw_codablevoid_constraints (c_swift c));
                         psw_type_mappings := Some (sw_type_mappings (c_swift c)) |};
     pc_typescript := Some {| pts_type_mappings := Some (tsc_type_mappings (c_typescript c)) |};
     pc_kotlin := Some {| pkt_package := Some (kt_package (c_kotlin c));
                          pkt_module_name := Some (kt_module_name (c_kotlin c));
                          pkt_prefix := Some (kt_prefix (c_kotlin c));
                          pkt_type_mappings := Some (kt_type_mappings (c_kotlin c)) |};
     pc_scala := Some {| psc_package := Some (sc_package (c_scala c));
                         psc_module_name := Some (sc_module_name (c_scala c));
                         psc_type_mappings := Some (sc_type_mappings (c_scala c)) |};
     pc_python := Some {| ppy_type_mappings := Some (py_type_mappings (c_python c)) |};
     pc_go := Some {| pgo_package := Some (go_package (c_go c));
                      pgo_uppercase_acronyms := Some (go_uppercase_acronyms (c_go c));
                      pgo_no_pointer_slice := Some (go_no_pointer_slice (c_go c));
                      pgo_type_mappings := Some (go_type_mappings (c_go c)) |} |}.

(* ---------- paths ---------- *)
Definition CONFIG_FILE_NAME : str := lit "typeshare.toml".     (* DEFAULT_CONFIG_FILE_NAME *)

Fixpoint fpath_eqb (a b : fpath) : bool :=
  match a, b with
  | [], [] => true
  | x :: a', y :: b' => str_eqb x y && fpath_eqb a' b'
  | _, _ => false
  end.

Definition resolve (cwd : fpath) (u : upath) : fpath :=
  match u with PAbs p => p | PRel p => cwd ++ p end.

(* the path store_config writes to: file_path.unwrap_or(Path::new(DEFAULT_CONFIG_FILE_NAME)) *)
Definition store_target (cwd : fpath) (file_path : option upath) : fpath :=
  resolve cwd (match file_path with Some u => u | None => PRel [CONFIG_FILE_NAME] end).

(* PathBuf::pop: "Returns false and does nothing if self.parent() is None" (the root has no parent) *)
Definition fpath_pop (p : fpath) : fpath * bool :=
  match rev p with
  | [] => (p, false)
  | _ :: r => (rev r, true)
  end.

Section ConfigFiles.
  Variable bytes : Type.                       (* file contents *)
  Variable ser : config -> bytes.              (* toml::to_string_pretty(config) *)
  Variable parse : bytes -> option pconfig.    (* toml::from_str up to the filling of defaults; None = Err *)

  Definition fsys := list (fpath * bytes).

  Fixpoint fs_lookup (fs : fsys) (p : fpath) : option bytes :=
    match fs with
    | [] => None
    | (q, b) :: r => if fpath_eqb q p then Some b else fs_lookup r p
    end.
  Definition is_file (fs : fsys) (p : fpath) : bool :=
    match fs_lookup fs p with Some _ => true | None => false end.

  (* toml::from_str::<Config> *)
  Definition de (b : bytes) : option config := option_map fill_config (parse b).

  (* find_configuration_file, literally: loop { path.push(file); if path.is_file() { break Some(path) }
     else if !(path.pop() && path.pop()) { break None } }.  Outer None = out of fuel. *)
  Fixpoint find_loop (fuel : nat) (fs : fsys) (path : fpath) : option (option fpath) :=
    match fuel with
    | O => None
    | S f =>
      let path := path ++ [CONFIG_FILE_NAME] in
      if is_file fs path then Some (Some path)
      else
        let '(path, popped1) := fpath_pop path in
        if negb popped1 then Some None
        else
          let '(path, popped2) := fpath_pop path in
          if negb popped2 then Some None
          else find_loop f fs path
    end.

  (* the same walk by structural recursion on the components of the current directory, innermost
     first: the first pop removes the file name again, the second one the innermost component and
     fails exactly at the root *)
  Fixpoint find_up (fs : fsys) (rdir : list str) : option fpath :=
    let candidate := rev (CONFIG_FILE_NAME :: rdir) in
    if is_file fs candidate then Some candidate
    else match rdir with
         | [] => None
         | _ :: parent => find_up fs parent
         end.
  Definition find_configuration_file (fs : fsys) (cwd : fpath) : option fpath := find_up fs (rev cwd).

  Definition load_config (fs : fsys) (cwd : fpath) (file_path : option upath) : cres config :=
    let file_path :=
      match file_path with
      | Some u => Some (resolve cwd u)
      | None => find_configuration_file fs cwd
      end in
    match file_path with
    | Some p =>
      match fs_lookup fs p with
      | None => CErr EConfigRead
      | Some config_string =>
        match de config_string with
        | Some c => COk c
        | None => CErr EConfigParse
        end
      end
    | None => COk default_config
    end.

  (* returns the file system afterwards and the result *)
  Definition store_config (fs : fsys) (cwd : fpath) (cfg : config) (file_path : option upath) : fsys * cres unit :=
    let file_path := resolve cwd (match file_path with Some u => u | None => PRel [CONFIG_FILE_NAME] end) in
    let config_output := ser cfg in
    (* OpenOptions::new().write(true).create_new(true).open(file_path)?  (only files are represented) *)
    if is_file fs file_path then (fs, CErr EConfigExists)
    else ((file_path, config_output) :: fs, COk tt).

  (* generate_types up to the construction of the back end and of ParseContext.target_os *)
  Definition generate_types (fs : fsys) (cwd : fpath) (options : cli_options) : cres (backend * list str) :=
    match load_config fs cwd (o_config_file options) with
    | CErr e => CErr e
    | CPanic s => CPanic s
    | COk cfg =>
      match override_configuration cfg options with
      | CErr e => CErr e
      | CPanic s => CPanic s
      | COk cfg =>
        match o_language options with
        | None => CPanic "main.rs:88 no language specified"
        | Some language =>
          let language_type := supported_of language in
          let multi_file := o_output_folder options in
          let target_os := c_target_os cfg in
          COk (language_params language_type cfg multi_file, target_os)
        end
      end
    end.

  (* the -g branch of main *)
  Definition generate_config (fs : fsys) (cwd : fpath) (options : cli_options) : fsys * cres unit :=
    match override_configuration default_config options with
    | COk cfg => store_config fs cwd cfg (o_config_file options)
    | CErr e => (fs, CErr e)
    | CPanic s => (fs, CPanic s)
    end.

  (* main after argument parsing (no subcommand) *)
  Definition cli_main (fs : fsys) (cwd : fpath) (options : cli_options) : fsys * cres (option (backend * list str)) :=
    if o_generate_config options then
      let '(fs', r) := generate_config fs cwd options in
      (fs', match r with COk _ => COk None | CErr e => CErr e | CPanic s => CPanic s end)
    else
      (fs, match generate_types fs cwd options with COk x => COk (Some x) | CErr e => CErr e | CPanic s => CPanic s end).
End ConfigFiles.

Arguments fs_lookup {bytes}.
Arguments is_file {bytes}.
Arguments de {bytes}.
Arguments find_loop {bytes}.
Arguments find_up {bytes}.
Arguments find_configuration_file {bytes}.
Arguments load_config {bytes}.
Arguments store_config {bytes}.
Arguments generate_types {bytes}.
Arguments generate_config {bytes}.
Arguments cli_main {bytes}.
