(* core/src/parser.rs:139-572, 627-647, 718-844 and core/src/visitors.rs (single-file part):
   from the syn-level AST to ParsedData. *)
From Coq Require Import String BinInt.
From TS Require Import Model.Str Model.Outcome Model.Unicode Model.Syntax Model.Attrs Model.TargetOs
                       Model.Rename Model.Types.

(* ---------- sorted sets (BTreeSet<String>, BTreeSet<FieldDecorator>) ---------- *)
Fixpoint sset_insert (x : str) (l : list str) : list str :=
  match l with
  | [] => [x]
  | y :: r => if str_eqb x y then l else if str_ltb x y then x :: l else y :: sset_insert x r
  end.

(* derive(PartialOrd, Ord) on FieldDecorator: Word(_) < NameValue(_, _), then field by field *)
Definition fdecor_eqb (a b : fdecor) : bool :=
  match a, b with
  | DWord x, DWord y => str_eqb x y
  | DNameValue n v, DNameValue n' v' => str_eqb n n' && str_eqb v v'
  | _, _ => false
  end.
Definition fdecor_ltb (a b : fdecor) : bool :=
  match a, b with
  | DWord x, DWord y => str_ltb x y
  | DWord _, DNameValue _ _ => true
  | DNameValue _ _, DWord _ => false
  | DNameValue n v, DNameValue n' v' => str_ltb n n' || (str_eqb n n' && str_ltb v v')
  end.
Fixpoint dset_insert (x : fdecor) (l : list fdecor) : list fdecor :=
  match l with
  | [] => [x]
  | y :: r => if fdecor_eqb x y then l else if fdecor_ltb x y then x :: l else y :: dset_insert x r
  end.

(* str::split(',') *)
Fixpoint split_on (c : char) (s : str) (cur : str) : list str :=
  match s with
  | [] => [rev cur]
  | x :: r => if x =? c then rev cur :: split_on c r [] else split_on c r (x :: cur)
  end.
Definition split_comma (s : str) : list str := split_on 44 s [].

Section U.
Variable uc : unicode.
Variable tstr : str -> option ty.        (* syn::parse_str::<Type>; None = syn error *)
Variable target_os : list str.

(* C13_decision_total: accept_target_os is always Some *)
Definition accepts (attrs : list attr) : bool :=
  match accept_target_os attrs target_os with Some b => b | None => true end.

(* parser.rs:685 *)
Definition is_skipped (attrs : list attr) : bool := has_skip_marker attrs || negb (accepts attrs).

(* parser.rs:627 get_ident. NB rename_all_to_case runs (and may panic) before serde(rename) is
   consulted. *)
Definition get_ident (ident : option str) (attrs : list attr) (rename_all : option str) : outcome id :=
  let original := match ident with None => lit "???" | Some i => replace_sub (lit "r#") [] i end in
  do r <- rename_all_to_case uc original rename_all;
  match serde_rename uc attrs with
  | Some s => Ok {| original := original; renamed := s; via_serde_rename := true |}
  | None => Ok {| original := original; renamed := r; via_serde_rename := false |}
  end.

(* parser.rs:827 get_decorators *)
Definition deckind_name (k : deckind) : str :=
  match k with DKSwift => lit "swift" | DKSwiftGenericConstraints => lit "swiftGenericConstraints" | DKKotlin => lit "kotlin" end.
Definition get_decorators (attrs : list attr) : decmap :=
  flat_map (fun k =>
    match get_name_value_meta_items uc attrs (deckind_name k) TYPESHARE with
    | [] => []
    | vals => [(k, fold_left (fun acc v => fold_left (fun a piece => sset_insert (trim uc piece) a) (split_comma v) acc) vals [])]
    end) [DKSwift; DKSwiftGenericConstraints; DKKotlin].

(* SupportedLanguage::from_str on the lower-cased identifier *)
Definition lang_of_str (s : str) : option lang :=
  let l := str_to_lowercase uc s in
  if str_eqb l (lit "go") then Some Go else if str_eqb l (lit "kotlin") then Some Kotlin
  else if str_eqb l (lit "scala") then Some Scala else if str_eqb l (lit "swift") then Some Swift
  else if str_eqb l (lit "typescript") then Some TypeScript else if str_eqb l (lit "python") then Some Python
  else None.

Fixpoint fdecmap_extend (l : lang) (ds : list fdecor) (m : fdecmap) : fdecmap :=
  match m with
  | [] => [(l, fold_left (fun a d => dset_insert d a) ds [])]
  | (k, v) :: r => if lang_eqb k l then (k, fold_left (fun a d => dset_insert d a) ds v) :: r
                   else (k, v) :: fdecmap_extend l ds r
  end.

(* parser.rs:721 get_field_decorators. `ident.try_into().unwrap()` panics on a nested list whose
   name is not a language. *)
Definition get_field_decorators (attrs : list attr) : outcome fdecmap :=
  let lists := flat_map (fun a => get_meta_items a TYPESHARE) attrs in
  fold_left (fun acc m =>
    do mp <- acc;
    match m with
    | MList [name] _ dargs =>
      match lang_of_str name with
      | None => Ok mp                               (* a nested list that names no language is not a decorator (/repo fix) *)
      | Some l =>
        let ds := match dargs with
                  | None => []
                  | Some l' => map (fun d => match d with
                                             | (i, None) => DWord i
                                             | (i, Some v) => DNameValue i (trim uc v)
                                             end) l'
                  end in
        Ok (fdecmap_extend l ds mp)
      end
    | _ => Ok mp
    end) lists (Ok []).

Definition generic_types (gs : list gparam) : list str :=
  flat_map (fun g => match g with GPType i => [i] | GPOther => [] end) gs.

Definition field_type (f : field) : outcome rtype :=
  match get_field_type_override uc (f_attrs f) with
  | Some s => parse_ty_str tstr s
  | None => parse_ty (f_ty f)
  end.

(* the closure at parser.rs:249-270 (struct fields) / 460-477 (struct-variant fields); since the /repo fix of
   C08-flatten-variant both reject serde(flatten), so both callers pass check_flatten = true *)
Definition parse_field (check_flatten : bool) (rename_all : option str) (f : field) : outcome rfield :=
  do t <- field_type f;
  if check_flatten && serde_flatten (f_attrs f) then Err ESerdeFlatten else
  do decs <- get_field_decorators (f_attrs f);
  do i <- get_ident (f_ident f) (f_attrs f) rename_all;
  Ok {| fid := i; fty := t; fcomments := parse_comment_attrs uc (f_attrs f);
        has_default := serde_default (f_attrs f); fdecs := decs |}.

Definition mk_alias (attrs : list attr) (ident : str) (gens : list gparam) (t : rtype) : outcome ritem :=
  do i <- get_ident (Some ident) attrs None;
  Ok (ItAlias {| aid := i; agenerics := generic_types gens; atype := t;
                 acomments := parse_comment_attrs uc attrs; adecs := get_decorators attrs;
                 aredacted := is_redacted attrs |}).

(* parser.rs:213 parse_struct *)
Definition parse_struct (attrs : list attr) (ident : str) (gens : list gparam) (fs : fields) : outcome ritem :=
  let rename_all := serde_rename_all uc attrs in
  match get_serialized_as_type uc attrs with
  | Some s =>
    (* struct literal fields are evaluated in order: id first, then the type *)
    do i <- get_ident (Some ident) attrs None;
    do t <- parse_ty_str tstr s;
    Ok (ItAlias {| aid := i; agenerics := generic_types gens; atype := t;
                   acomments := parse_comment_attrs uc attrs; adecs := get_decorators attrs;
                   aredacted := is_redacted attrs |})
  | None =>
    match fs with
    | FNamed l =>
      do fields <- mapM (parse_field true rename_all) (filter (fun f => negb (is_skipped (f_attrs f))) l);
      do i <- get_ident (Some ident) attrs None;
      Ok (ItStruct {| sid := i; sgenerics := generic_types gens; sfields := fields;
                      scomments := parse_comment_attrs uc attrs; sdecs := get_decorators attrs;
                      sredacted := is_redacted attrs |})
    | FUnnamed l =>
      match l with
      | _ :: _ :: _ => Err EComplexTupleStruct
      | [] => Err (EUnsupportedTypeP (ident ++ lit "()"))       (* `struct S();` (/repo fix) *)
      | [f] =>
        do t <- field_type f;
        mk_alias attrs ident gens t
      end
    | FUnit =>
      do i <- get_ident (Some ident) attrs None;
      Ok (ItStruct {| sid := i; sgenerics := generic_types gens; sfields := [];
                      scomments := parse_comment_attrs uc attrs; sdecs := get_decorators attrs;
                      sredacted := is_redacted attrs |})
    end
  end.

(* parser.rs:421 parse_enum_variant *)
Definition parse_enum_variant (enum_rename_all : option str) (v : variant) : outcome rvariant :=
  do i <- get_ident (Some (v_ident v)) (v_attrs v) enum_rename_all;
  let sh := {| vid := i; vcomments := parse_comment_attrs uc (v_attrs v) |} in
  let variant_rename_all := serde_rename_all uc (v_attrs v) in
  match v_fields v with
  | FUnit => Ok (VUnit sh)
  | FUnnamed l =>
    match l with
    | _ :: _ :: _ => Err EMultipleUnnamed
    | [] => Err (EUnsupportedTypeP (v_ident v ++ lit "()"))     (* `V()` (/repo fix) *)
    | [f] => do t <- field_type f; Ok (VTuple t sh)
    end
  | FNamed l =>
    (* serde(flatten) on a struct-variant field is rejected like on a struct field (/repo fix of C08-flatten-variant) *)
    do fields <- mapM (parse_field true variant_rename_all) (filter (fun f => negb (is_skipped (f_attrs f))) l);
    Ok (VAnon fields sh)
  end.

(* parser.rs:321 parse_enum *)
Definition parse_enum (attrs : list attr) (ident : str) (gens : list gparam) (vs : list variant) : outcome ritem :=
  let rename_all := serde_rename_all uc attrs in
  match get_serialized_as_type uc attrs with
  | Some s =>
    do i <- get_ident (Some ident) attrs None;
    do t <- parse_ty_str tstr s;
    Ok (ItAlias {| aid := i; agenerics := generic_types gens; atype := t;
                   acomments := parse_comment_attrs uc attrs; adecs := get_decorators attrs;
                   aredacted := is_redacted attrs |})
  | None =>
    let maybe_tag := get_tag_key uc attrs in
    let maybe_content := get_content_key uc attrs in
    do variants <- mapM (parse_enum_variant rename_all) (filter (fun v => negb (is_skipped (v_attrs v))) vs);
    let is_recursive := existsb (fun v => match v with
                                          | VUnit _ => false
                                          | VTuple t _ => contains_type t ident
                                          | VAnon fs _ => existsb (fun f => contains_type (fty f) ident) fs
                                          end) variants in
    do i <- get_ident (Some ident) attrs None;
    let sh := {| eid := i; egenerics := generic_types gens; ecomments := parse_comment_attrs uc attrs;
                 evariants := variants; edecs := get_decorators attrs; erecursive := is_recursive;
                 eredacted := is_redacted attrs |} in
    if forallb (fun v => match v with VUnit _ => true | _ => false end) variants then
      match maybe_tag, maybe_content with
      | Some _, _ => Err (ESerdeTagNotAllowed ident)
      | None, Some _ => Err (ESerdeContentNotAllowed ident)
      | None, None => Ok (ItEnum (EUnit sh))
      end
    else
      match maybe_tag, maybe_content with
      | None, _ => Err (ESerdeTagRequired ident)
      | Some _, None => Err (ESerdeContentRequired ident)
      | Some t, Some c => Ok (ItEnum (EAlgebraic t c sh))
      end
  end.

(* parser.rs:486 parse_type_alias *)
Definition parse_type_alias (attrs : list attr) (ident : str) (gens : list gparam) (t : ty) : outcome ritem :=
  do rt <- match get_serialized_as_type uc attrs with
           | Some s => parse_ty_str tstr s
           | None => parse_ty t
           end;
  mk_alias attrs ident gens rt.

(* parser.rs:543 parse_const_expr (/repo fix of C08-const-expr): an integer literal, possibly parenthesised
   or negated; another literal is RustConstTypeInvalid, any other expression RustConstExprInvalid.
   (-int cannot overflow: a literal is at most i128::MAX.) *)
Fixpoint parse_const_expr (e : cexpr) : outcome Z :=
  match e with
  | CELit (CInt (Some z)) => Ok z
  | CELit _ => Err EConstTypeInvalid
  | CEParen x => parse_const_expr x
  | CENeg x => do z <- parse_const_expr x; Ok (Z.opp z)
  | CEOther => Err EConstExprInvalid
  end.

(* parser.rs:514 parse_const *)
Definition parse_const (attrs : list attr) (ident : str) (t : ty) (e : cexpr) : outcome ritem :=
  do v <- parse_const_expr e;
  do rt <- match get_serialized_as_type uc attrs with
           | Some s => parse_ty_str tstr s
           | None => parse_ty t
           end;
  match rt with
  | RHashMap _ _ | RVec _ | ROption _ | RGeneric _ _ => Err EConstTypeInvalid
  | _ =>
    do i <- get_ident (Some ident) attrs None;
    Ok (ItConst {| cid := i; ctype := rt; cvalue := v |})
  end.

(* ---------- ParsedData and the visitor (visitors.rs:276-334, 73-94) ---------- *)
Record imported := { base_crate : str; type_name : str }.
Record parsed := {
  p_structs : list rstruct; p_enums : list renum; p_aliases : list ralias; p_consts : list rconst;
  p_type_names : list str;              (* HashSet<String>: insertion order kept, set semantics *)
  p_errors : list perr;                 (* ErrorInfo.error; file_name is the path of this file *)
  p_imports : list imported             (* HashSet<ImportedType>; empty in single-file mode *)
}.
Definition empty_parsed : parsed :=
  {| p_structs := []; p_enums := []; p_aliases := []; p_consts := []; p_type_names := []; p_errors := []; p_imports := [] |}.

Definition tn_insert (x : str) (l : list str) : list str := if mem_str x l then l else l ++ [x].

(* ParsedData::push (parser.rs:150). A struct, an enum and an alias insert their generated name into
   type_names; a CONST does not (since the /repo fix of finding C14-glob-const: a constant is not a type, no
   other file can refer to it in a type position, so it stays out of the table import statements are
   generated from and out of the set of local type names of reconcile_referenced_types). *)
Definition push (pd : parsed) (it : ritem) : parsed :=
  let names := tn_insert (renamed (item_id it)) (p_type_names pd) in
  match it with
  | ItStruct s => {| p_structs := p_structs pd ++ [s]; p_enums := p_enums pd; p_aliases := p_aliases pd; p_consts := p_consts pd; p_type_names := names; p_errors := p_errors pd; p_imports := p_imports pd |}
  | ItEnum e => {| p_structs := p_structs pd; p_enums := p_enums pd ++ [e]; p_aliases := p_aliases pd; p_consts := p_consts pd; p_type_names := names; p_errors := p_errors pd; p_imports := p_imports pd |}
  | ItAlias a => {| p_structs := p_structs pd; p_enums := p_enums pd; p_aliases := p_aliases pd ++ [a]; p_consts := p_consts pd; p_type_names := names; p_errors := p_errors pd; p_imports := p_imports pd |}
  | ItConst c => {| p_structs := p_structs pd; p_enums := p_enums pd; p_aliases := p_aliases pd; p_consts := p_consts pd ++ [c]; p_type_names := p_type_names pd; p_errors := p_errors pd; p_imports := p_imports pd |}
  end.

(* collect_result: Err is recorded, a panic unwinds the worker *)
Definition collect_result (pd : parsed) (r : outcome ritem) : outcome parsed :=
  match r with
  | Ok it => Ok (push pd it)
  | Err e => Ok {| p_structs := p_structs pd; p_enums := p_enums pd; p_aliases := p_aliases pd; p_consts := p_consts pd;
                   p_type_names := p_type_names pd; p_errors := p_errors pd ++ [e]; p_imports := p_imports pd |}
  | Panic s => Panic s
  end.

Definition wanted (attrs : list attr) : bool := has_typeshare_annotation attrs && accepts attrs.

Fixpoint visit_item (it : item) (pd : parsed) : outcome parsed :=
  match it with
  | IStruct attrs ident gens fs => if wanted attrs then collect_result pd (parse_struct attrs ident gens fs) else Ok pd
  | IEnum attrs ident gens vs => if wanted attrs then collect_result pd (parse_enum attrs ident gens vs) else Ok pd
  | IType attrs ident gens t => if wanted attrs then collect_result pd (parse_type_alias attrs ident gens t) else Ok pd
  | IConst attrs ident t e => if wanted attrs then collect_result pd (parse_const attrs ident t e) else Ok pd
  | IUse _ => Ok pd
  | INest inner =>
    (fix go (l : list item) (pd : parsed) : outcome parsed :=
       match l with [] => Ok pd | x :: r => do pd' <- visit_item x pd; go r pd' end) inner pd
  end.

Fixpoint visit_items (l : list item) (pd : parsed) : outcome parsed :=
  match l with [] => Ok pd | x :: r => do pd' <- visit_item x pd; visit_items r pd' end.

Definition parsed_is_empty (pd : parsed) : bool :=
  match p_structs pd, p_enums pd, p_aliases pd, p_consts pd, p_errors pd with
  | [], [], [], [], [] => true
  | _, _, _, _, _ => false
  end.

(* parser.rs:182 parse (single-file mode): None = nothing to generate for this file *)
Definition parse_file (f : file) : outcome (option parsed) :=
  if negb (fl_marker f) then Ok None else
  do pd <- (if accepts (fl_attrs f) then visit_items (fl_items f) empty_parsed else Ok empty_parsed);
  Ok (if parsed_is_empty pd then None else Some pd).
End U.
