(* Strings as lists of Unicode scalar values; ASCII operations of Rust's std modelled concretely.
   Mirrors: char::to_ascii_uppercase / to_ascii_lowercase / is_ascii_digit, str::replace (single
   char pattern), String == , [T]::join, {:?} on str (escape_debug, ASCII part). *)
From Coq Require Export List NArith Bool String Ascii.
Export ListNotations.
Open Scope N_scope.

Definition char := N.
Definition str := list char.

Definition is_alower (c:char) : bool := (97 <=? c) && (c <=? 122).
Definition is_aupper (c:char) : bool := (65 <=? c) && (c <=? 90).
Definition is_adigit (c:char) : bool := (48 <=? c) && (c <=? 57).
Definition is_aalpha (c:char) : bool := is_alower c || is_aupper c.
Definition is_ascii (c:char) : bool := c <? 128.
Definition aupper (c:char) : char := if is_alower c then c - 32 else c.
Definition alower (c:char) : char := if is_aupper c then c + 32 else c.

Definition ch_us : char := 95.     (* _ *)
Definition ch_dash : char := 45.   (* - *)
Definition ch_nl : char := 10.
Definition ch_cr : char := 13.
Definition ch_tab : char := 9.
Definition ch_sp : char := 32.
Definition ch_dq : char := 34.
Definition ch_sq : char := 39.
Definition ch_bs : char := 92.

Fixpoint str_eqb (a b : str) : bool :=
  match a, b with
  | [], [] => true
  | x :: a', y :: b' => (x =? y) && str_eqb a' b'
  | _, _ => false
  end.

Definition lit (s : string) : str := map (fun a => N_of_ascii a) (list_ascii_of_string s).

Definition str_upper_ascii (s:str) : str := map aupper s.
Definition str_lower_ascii (s:str) : str := map alower s.

(* str::replace(c, d) for single chars *)
Definition replace_char (c d : char) (s : str) : str :=
  map (fun x => if x =? c then d else x) s.
(* str::replace(c, "") *)
Definition remove_char (c : char) (s : str) : str :=
  filter (fun x => negb (x =? c)) s.

Definition contains_char (c:char) (s:str) : bool := existsb (N.eqb c) s.

Fixpoint join (sep : str) (l : list str) : str :=
  match l with
  | [] => []
  | [x] => x
  | x :: r => x ++ sep ++ join sep r
  end.

Definition mem_str (x : str) (l : list str) : bool := existsb (str_eqb x) l.

Fixpoint starts_with (p s : str) : bool :=
  match p, s with
  | [], _ => true
  | x :: p', y :: s' => (x =? y) && starts_with p' s'
  | _ :: _, [] => false
  end.

(* substring search: str::contains(&str) *)
Fixpoint contains_sub (p s : str) : bool :=
  starts_with p s || match s with [] => false | _ :: s' => contains_sub p s' end.

(* str::replace(pat, to) with a non-empty multi-char pattern, leftmost non-overlapping. *)
Fixpoint replace_sub_fuel (fuel:nat) (p t s : str) : str :=
  match fuel with
  | O => s
  | S f =>
    match s with
    | [] => []
    | c :: s' => if starts_with p s then t ++ replace_sub_fuel f p t (skipn (List.length p) s)
                 else c :: replace_sub_fuel f p t s'
    end
  end.
Definition replace_sub (p t s : str) : str :=
  match p with [] => s | _ => replace_sub_fuel (S (List.length s)) p t s end.

(* str::split_inclusive('\n'): every piece ends with the LF that terminates it, except possibly the last
   one; the empty string has no piece, and there is no empty piece after a final LF.
   [cur]: the characters of the current piece read so far, reversed. *)
Fixpoint split_inclusive_nl_from (cur : str) (s : str) : list str :=
  match s with
  | [] => match cur with [] => [] | _ => [rev cur] end
  | c :: r => if c =? ch_nl then rev (c :: cur) :: split_inclusive_nl_from [] r
              else split_inclusive_nl_from (c :: cur) r
  end.
Definition split_inclusive_nl (s : str) : list str := split_inclusive_nl_from [] s.

(* str::strip_suffix(c : char) *)
Definition strip_suffix_char (c : char) (s : str) : option str :=
  match rev s with
  | x :: r => if x =? c then Some (rev r) else None
  | [] => None
  end.

(* core::str LinesMap: `let Some(line) = line.strip_suffix('\n') else { return line };
                        let Some(line) = line.strip_suffix('\r') else { return line }; line`
   - a CR is removed only in front of the LF that ended the piece *)
Definition lines_map (line : str) : str :=
  match strip_suffix_char ch_nl line with
  | None => line
  | Some l => match strip_suffix_char ch_cr l with None => l | Some l' => l' end
  end.

(* str::lines() = split_inclusive('\n').map(LinesMap) *)
Definition str_lines (s : str) : list str := map lines_map (split_inclusive_nl s).

(* str::split(c : char): always at least one piece; [cur] as above *)
Fixpoint split_char_from (c : char) (cur : str) (s : str) : list str :=
  match s with
  | [] => [rev cur]
  | x :: r => if x =? c then rev cur :: split_char_from c [] r else split_char_from c (x :: cur) r
  end.
Definition split_char (c : char) (s : str) : list str := split_char_from c [] s.

(* hex digits for \u{..} *)
Definition hex_digit (d:N) : char := if d <? 10 then 48 + d else 87 + d.
Fixpoint hex_fuel (fuel:nat) (n:N) (acc:str) : str :=
  match fuel with
  | O => acc
  | S f => let acc' := hex_digit (n mod 16) :: acc in
           if n / 16 =? 0 then acc' else hex_fuel f (n / 16) acc'
  end.
Definition to_hex (n:N) : str := hex_fuel 8 n [].

(* <str as Debug>::fmt — the part of char::escape_debug typeshare's outputs can reach:
   quotes, backslash, \n \r \t \0, other C0 controls and DEL as \u{..}; everything else verbatim.
   (Grapheme-extend and non-printable code points >= 128 are outside the tabulated alphabet.) *)
Definition escape_debug_char (c:char) : str :=
  if c =? ch_dq then [ch_bs; ch_dq]
  else if c =? ch_bs then [ch_bs; ch_bs]
  else if c =? ch_nl then [ch_bs; 110]
  else if c =? ch_cr then [ch_bs; 114]
  else if c =? ch_tab then [ch_bs; 116]
  else if c =? 0 then [ch_bs; 48]
  else if c =? ch_sq then [ch_sq]
  else if (c <? 32) || (c =? 127) then [ch_bs; 117; 123] ++ to_hex c ++ [125]
  else [c].
Definition debug_str (s:str) : str := [ch_dq] ++ flat_map escape_debug_char s ++ [ch_dq].

(* decimal printing of naturals / integers *)
Fixpoint dec_fuel (fuel:nat) (n:N) (acc:str) : str :=
  match fuel with
  | O => acc
  | S f => let acc' := (48 + n mod 10) :: acc in
           if n / 10 =? 0 then acc' else dec_fuel f (n / 10) acc'
  end.
Definition dec_of_N (n:N) : str := dec_fuel 60 n [].
Definition dec_of_Z (z:Z) : str :=
  match z with
  | Z0 => [48]
  | Zpos p => dec_of_N (Npos p)
  | Zneg p => 45 :: dec_of_N (Npos p)
  end.

Fixpoint repeat_str (s:str) (n:nat) : str :=
  match n with O => [] | S k => s ++ repeat_str s k end.

(* lexicographic order on code points = Rust's Ord for String (byte order of UTF-8 coincides
   with code point order). *)
Fixpoint str_ltb (a b : str) : bool :=
  match a, b with
  | [], [] => false
  | [], _ :: _ => true
  | _ :: _, [] => false
  | x :: a', y :: b' => (x <? y) || ((x =? y) && str_ltb a' b')
  end.
Definition str_leb (a b : str) : bool := negb (str_ltb b a).

Lemma str_eqb_refl s : str_eqb s s = true.
Proof. induction s as [|c r IH]; simpl; [reflexivity|]. now rewrite N.eqb_refl. Qed.

Lemma str_eqb_eq a b : str_eqb a b = true <-> a = b.
Proof.
  revert b; induction a as [|x a IH]; intros [|y b]; simpl; split; try congruence; try reflexivity.
  - intros H. apply andb_true_iff in H as [H1 H2]. apply N.eqb_eq in H1. apply IH in H2. now subst.
  - intros H. injection H as -> ->. rewrite N.eqb_refl. now apply IH.
Qed.

Lemma str_eqb_neq a b : str_eqb a b = false <-> a <> b.
Proof. rewrite <- str_eqb_eq. destruct (str_eqb a b); split; congruence. Qed.

Lemma str_eqb_sym a b : str_eqb a b = str_eqb b a.
Proof.
  destruct (str_eqb a b) eqn:E.
  - apply str_eqb_eq in E. subst. now rewrite str_eqb_refl.
  - symmetry. apply str_eqb_neq. apply str_eqb_neq in E. congruence.
Qed.
