(* cli/src/parse.rs:111-123 (the collector thread) and parser.rs:123 (ParsedData +=), plus the
   single-file pipeline of cli/src/main.rs generate_types. The scheduler is an ARRIVAL LIST: the
   order in which per-file results reach the collector (any permutation is possible). *)
From Coq Require Import String.
From TS Require Import Model.Str Model.Outcome Model.Types Model.Parse Model.Reconcile.

(* impl AddAssign<ParsedData> for ParsedData *)
Definition pd_add (a b : parsed) : parsed :=
  {| p_structs := p_structs a ++ p_structs b;
     p_enums := p_enums a ++ p_enums b;
     p_aliases := p_aliases a ++ p_aliases b;
     p_consts := p_consts a ++ p_consts b;
     p_type_names := fold_left (fun acc x => tn_insert x acc) (p_type_names b) (p_type_names a);
     p_errors := p_errors a ++ p_errors b;
     p_imports := p_imports a ++ p_imports b |}.

(* BTreeMap<CrateName, ParsedData>::entry(crate).or_default() += parsed *)
Fixpoint crate_upsert (m : crates) (cn : str) (pd : parsed) : crates :=
  match m with
  | [] => [(cn, pd_add empty_parsed pd)]
  | (k, v) :: r =>
    if str_eqb k cn then (k, pd_add v pd) :: r
    else if str_ltb cn k then (cn, pd_add empty_parsed pd) :: m
    else (k, v) :: crate_upsert r cn pd
  end.

(* the collector loop over the arrival list *)
Definition collect (arrivals : list (str * parsed)) : crates :=
  fold_left (fun m a => crate_upsert m (fst a) (snd a)) arrivals [].

(* single-file mode: every file belongs to the crate "" *)
Definition collect_single (arrivals : list parsed) : parsed :=
  fold_left pd_add arrivals empty_parsed.

(* what the back end is handed in single-file mode: reconcile, then take the crate "" *)
Definition single_file_input (arrivals : list parsed) : parsed :=
  reconcile_crate (crate_renames [] (collect_single arrivals)) [] (collect_single arrivals).
