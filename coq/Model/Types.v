(* core/src/rust_types.rs: the IR, TryFrom<&syn::Type> for RustType, Display, id(), contains_type,
   is_optional, parameters(), all_reference_type_names. *)
From Coq Require Import String.
From TS Require Import Model.Str Model.Outcome Model.Unicode Model.Syntax.

Inductive prim := PDateTime | PUnit | PString | PChar | PI8 | PI16 | PI32 | PI64 | PU8 | PU16 | PU32
                | PU64 | PISize | PUSize | PBool | PF32 | PF64 | PI54 | PU53.

(* RustType with SpecialRustType inlined *)
Inductive rtype :=
| RSimple (id : str)
| RGeneric (id : str) (params : list rtype)
| RVec (t : rtype)
| RArray (t : rtype) (n : N)
| RSlice (t : rtype)
| RHashMap (k v : rtype)
| ROption (t : rtype)
| RPrim (p : prim).

Section RtypeInd.
  Variable P : rtype -> Prop.
  Hypothesis HS : forall id, P (RSimple id).
  Hypothesis HG : forall id ps, Forall P ps -> P (RGeneric id ps).
  Hypothesis HV : forall t, P t -> P (RVec t).
  Hypothesis HA : forall t n, P t -> P (RArray t n).
  Hypothesis HSl : forall t, P t -> P (RSlice t).
  Hypothesis HH : forall k v, P k -> P v -> P (RHashMap k v).
  Hypothesis HO : forall t, P t -> P (ROption t).
  Hypothesis HP : forall p, P (RPrim p).
  Fixpoint rtype_ind' (t : rtype) : P t :=
    match t with
    | RSimple id => HS id
    | RGeneric id ps => HG id ps ((fix go (l : list rtype) : Forall P l :=
                                     match l with [] => Forall_nil P | x :: r => Forall_cons x (rtype_ind' x) (go r) end) ps)
    | RVec t => HV t (rtype_ind' t)
    | RArray t n => HA t n (rtype_ind' t)
    | RSlice t => HSl t (rtype_ind' t)
    | RHashMap k v => HH k v (rtype_ind' k) (rtype_ind' v)
    | ROption t => HO t (rtype_ind' t)
    | RPrim p => HP p
    end.
End RtypeInd.

(* SpecialRustType::id() *)
Definition prim_id (p : prim) : str :=
  match p with
  | PUnit => lit "()" | PF64 => lit "f64" | PF32 => lit "f32" | PDateTime => lit "OffsetDateTime"
  | PString => lit "String" | PChar => lit "char" | PBool => lit "bool"
  | PI8 => lit "i8" | PI16 => lit "i16" | PI32 => lit "i32" | PI64 => lit "i64"
  | PU8 => lit "u8" | PU16 => lit "u16" | PU32 => lit "u32" | PU64 => lit "u64"
  | PISize => lit "isize" | PUSize => lit "usize" | PU53 => lit "U53" | PI54 => lit "I54"
  end.

(* RustType::id() *)
Definition rtype_id (t : rtype) : str :=
  match t with
  | RSimple id | RGeneric id _ => id
  | RVec _ => lit "Vec" | RArray _ _ => lit "[]" | RSlice _ => lit "&[]"
  | RHashMap _ _ => lit "HashMap" | ROption _ => lit "Option"
  | RPrim p => prim_id p
  end.

(* Display for RustType / SpecialRustType (rust_types.rs:215-312).
   NB Option<T> prints only T's id(), HashMap has no space after the comma, arrays lose their length. *)
Fixpoint rtype_display (t : rtype) : str :=
  match t with
  | RSimple id => id
  | RGeneric id ps =>
    match ps with
    | [] => id
    | _ => id ++ lit "<" ++ join (lit ", ") (map rtype_display ps) ++ lit ">"
    end
  | RVec x => lit "Vec<" ++ rtype_display x ++ lit ">"
  | RArray x _ => lit "[" ++ rtype_display x ++ lit "]"
  | RSlice x => lit "&[" ++ rtype_display x ++ lit "]"
  | RHashMap k v => lit "HashMap<" ++ rtype_display k ++ lit "," ++ rtype_display v ++ lit ">"
  | ROption x => lit "Option<" ++ rtype_id x ++ lit ">"
  | RPrim p => prim_id p
  end.

(* RustType::contains_type *)
Fixpoint contains_type (t : rtype) (name : str) : bool :=
  match t with
  | RSimple id => str_eqb id name
  | RGeneric id ps => str_eqb id name || existsb (fun p => contains_type p name) ps
  | RVec x | RArray x _ | RSlice x | ROption x => contains_type x name
  | RHashMap k v => contains_type k name || contains_type v name
  | RPrim p => str_eqb name (prim_id p)
  end.

Definition is_optional (t : rtype) : bool := match t with ROption _ => true | _ => false end.
Definition is_double_optional (t : rtype) : bool :=
  match t with ROption (ROption _) => true | _ => false end.
Definition is_vec (t : rtype) : bool := match t with RVec _ => true | _ => false end.
Definition is_hash_map (t : rtype) : bool := match t with RHashMap _ _ => true | _ => false end.

(* RustType::parameters() *)
Definition rtype_params (t : rtype) : list rtype :=
  match t with
  | RSimple _ | RPrim _ => []
  | RGeneric _ ps => ps
  | RVec x | RArray x _ | RSlice x | ROption x => [x]
  | RHashMap k v => [k; v]
  end.

(* visitors.rs:348 accept_type; IGNORED_TYPES *)
Definition IGNORED_TYPES : list str :=
  [lit "Option"; lit "String"; lit "Vec"; lit "HashMap"; lit "T"; lit "I54"; lit "U53"].

Section U.
Variable uc : unicode.

Definition accept_type (name : str) : bool :=
  match name with
  | [] => false
  | c :: _ => u_is_upper uc c && negb (mem_str name IGNORED_TYPES)
  end.

(* RustType::all_reference_type_names: RustRefTypeIter yields the ids of the type and of all nested
   parameters (in a stack order); every consumer collects them into a HashSet, so only the set
   matters - modelled as a pre-order traversal. *)
Fixpoint all_type_ids (t : rtype) : list str :=
  rtype_id t ::
  match t with
  | RSimple _ | RPrim _ => []
  | RGeneric _ ps => flat_map all_type_ids ps
  | RVec x | RArray x _ | RSlice x | ROption x => all_type_ids x
  | RHashMap k v => all_type_ids k ++ all_type_ids v
  end.
Definition all_reference_type_names (t : rtype) : list str := filter accept_type (all_type_ids t).
End U.

(* ---------- TryFrom<&syn::Type> for RustType (rust_types.rs:337-435) ---------- *)
Definition SMART_POINTERS : list str :=
  [lit "Box"; lit "Weak"; lit "Arc"; lit "Rc"; lit "Cow"; lit "ArcWeak"; lit "RcWeak"; lit "Cell";
   lit "Mutex"; lit "RefCell"; lit "RwLock"].

Definition prim_of_name (id : str) : option prim :=
  if str_eqb id (lit "OffsetDateTime") then Some PDateTime
  else if str_eqb id (lit "str") || str_eqb id (lit "String") then Some PString
  else if str_eqb id (lit "bool") then Some PBool
  else if str_eqb id (lit "char") then Some PChar
  else if str_eqb id (lit "u8") then Some PU8
  else if str_eqb id (lit "u16") then Some PU16
  else if str_eqb id (lit "u32") then Some PU32
  else if str_eqb id (lit "U53") then Some PU53
  else if str_eqb id (lit "i8") then Some PI8
  else if str_eqb id (lit "i16") then Some PI16
  else if str_eqb id (lit "i32") then Some PI32
  else if str_eqb id (lit "I54") then Some PI54
  else if str_eqb id (lit "f32") then Some PF32
  else if str_eqb id (lit "f64") then Some PF64
  else None.

Definition UNSUPPORTED_INTS : list str := [lit "u64"; lit "i64"; lit "usize"; lit "isize"].

(* the `match id.as_str()` of rust_types.rs, after the parameters have been parsed; a container or smart pointer
   written without its type argument(s) is an error naming it (required_parameter, /repo fix) *)
Definition path_dispatch (id : str) (params : list rtype) : outcome rtype :=
  if str_eqb id (lit "Vec") then
    match params with x :: _ => Ok (RVec x) | [] => Err (EUnsupportedType [id]) end
  else if str_eqb id (lit "Option") then
    match params with x :: _ => Ok (ROption x) | [] => Err (EUnsupportedType [id]) end
  else if str_eqb id (lit "HashMap") then
    match params with
    | k :: v :: _ => Ok (RHashMap k v)
    | [_] => Err (EUnsupportedType [id])
    | [] => Err (EUnsupportedType [id])
    end
  else if mem_str id SMART_POINTERS then
    match params with x :: _ => Ok x | [] => Err (EUnsupportedType [id]) end
  else if mem_str id UNSUPPORTED_INTS then Err (EUnsupportedType [id])
  else match prim_of_name id with
       | Some p => Ok (RPrim p)
       | None => match params with
                 | [] => Ok (RSimple id)
                 | _ => Ok (RGeneric id params)
                 end
       end.

Fixpoint parse_ty (t : ty) : outcome rtype :=
  match t with
  | TTuple [] => Ok (RPrim PUnit)
  | TTuple _ => Err EParameterizedTuple
  | TRef t' => parse_ty t'
  | TPath _ id args =>
    (* filter_map over generic arguments keeps the Type arguments; collect::<Result<Vec,_>>
       stops at the first error *)
    do params <- (fix go (l : list (option ty)) : outcome (list rtype) :=
                    match l with
                    | [] => Ok []
                    | None :: r => go r
                    | Some a :: r => do x <- parse_ty a; do xs <- go r; Ok (x :: xs)
                    end) args;
    path_dispatch id params
  | TArray e (ALit n) =>
    do x <- parse_ty e;
    match n with Some k => Ok (RArray x k) | None => Err ENumericLiteral end
  | TArray _ AOther => Err EUnexpectedToken
  | TSlice e => do x <- parse_ty e; Ok (RSlice x)
  | TOther => Err EUnexpectedToken
  end.

(* FromStr for RustType: syn::parse_str (supplied by the harness as [tstr], None = syn error) *)
Definition parse_ty_str (tstr : str -> option ty) (s : str) : outcome rtype :=
  match tstr s with
  | None => Err (EUnsupportedType [])
  | Some t => parse_ty t
  end.

(* ---------- IR records ---------- *)
Record id := { original : str; renamed : str; via_serde_rename : bool }.

Inductive lang := Go | Kotlin | Scala | Swift | TypeScript | Python.
Definition lang_eqb (a b : lang) : bool :=
  match a, b with
  | Go, Go | Kotlin, Kotlin | Scala, Scala | Swift, Swift | TypeScript, TypeScript | Python, Python => true
  | _, _ => false
  end.
Definition all_langs : list lang := [Go; Kotlin; Scala; Swift; TypeScript; Python].

Inductive fdecor := DWord (w : str) | DNameValue (n v : str).
Inductive deckind := DKSwift | DKSwiftGenericConstraints | DKKotlin.
Definition deckind_eqb (a b : deckind) : bool :=
  match a, b with DKSwift, DKSwift | DKSwiftGenericConstraints, DKSwiftGenericConstraints | DKKotlin, DKKotlin => true | _, _ => false end.

(* HashMap<DecoratorKind, BTreeSet<String>> / HashMap<SupportedLanguage, BTreeSet<FieldDecorator>>:
   association lists keyed by an enum (only ever looked up by key), values sorted sets *)
Definition decmap := list (deckind * list str).
Definition fdecmap := list (lang * list fdecor).

Record rfield := { fid : id; fty : rtype; fcomments : list str; has_default : bool; fdecs : fdecmap }.
Record rstruct := { sid : id; sgenerics : list str; sfields : list rfield; scomments : list str;
                    sdecs : decmap; sredacted : bool }.
Record vshared := { vid : id; vcomments : list str }.
Inductive rvariant :=
| VUnit (sh : vshared)
| VTuple (t : rtype) (sh : vshared)
| VAnon (fields : list rfield) (sh : vshared).
Definition variant_shared (v : rvariant) : vshared :=
  match v with VUnit sh | VTuple _ sh | VAnon _ sh => sh end.
Record eshared := { eid : id; egenerics : list str; ecomments : list str; evariants : list rvariant;
                    edecs : decmap; erecursive : bool; eredacted : bool }.
Inductive renum := EUnit (sh : eshared) | EAlgebraic (tag content : str) (sh : eshared).
Definition enum_shared (e : renum) : eshared := match e with EUnit sh | EAlgebraic _ _ sh => sh end.
Record ralias := { aid : id; agenerics : list str; atype : rtype; acomments : list str;
                   adecs : decmap; aredacted : bool }.
Record rconst := { cid : id; ctype : rtype; cvalue : Z }.
Inductive ritem := ItStruct (s : rstruct) | ItEnum (e : renum) | ItAlias (a : ralias) | ItConst (c : rconst).

Definition item_id (it : ritem) : id :=
  match it with
  | ItStruct s => sid s | ItEnum e => eid (enum_shared e) | ItAlias a => aid a | ItConst c => cid c
  end.

(* derived PartialEq for RustItem: same constructor, then the hand-written PartialEq of the
   payload, which compares id.original only *)
Definition ritem_eqb (a b : ritem) : bool :=
  match a, b with
  | ItStruct x, ItStruct y => str_eqb (original (sid x)) (original (sid y))
  | ItEnum x, ItEnum y => str_eqb (original (eid (enum_shared x))) (original (eid (enum_shared y)))
  | ItAlias x, ItAlias y => str_eqb (original (aid x)) (original (aid y))
  | ItConst x, ItConst y => str_eqb (original (cid x)) (original (cid y))
  | _, _ => false
  end.

(* RustField::type_override: first `type = ".."` decorator in BTreeSet order *)
Fixpoint lookup_lang {B} (l : lang) (m : list (lang * B)) : option B :=
  match m with [] => None | (k, v) :: r => if lang_eqb k l then Some v else lookup_lang l r end.
Definition type_override (f : rfield) (l : lang) : option str :=
  match lookup_lang l (fdecs f) with
  | None => None
  | Some ds =>
    (fix find (ds : list fdecor) :=
       match ds with
       | [] => None
       | DNameValue n v :: r => if str_eqb n (lit "type") then Some v else find r
       | _ :: r => find r
       end) ds
  end.
