(* core/src/rename.rs (RenameExt for String) and parser.rs:649 rename_all_to_case. *)
From Coq Require Import String.
From TS Require Import Model.Str Model.Outcome Model.Unicode.

(* self.to_ascii_uppercase() == *self *)
Definition all_upper (s:str) : bool := str_eqb (str_upper_ascii s) s.

(* rename.rs:25 to_pascal_case; the loop over chars with the [capitalize] flag *)
Fixpoint pascal_go (tolow cap : bool) (s : str) : str :=
  match s with
  | [] => []
  | c :: r => if c =? ch_us then pascal_go tolow true r
              else if cap then aupper c :: pascal_go tolow false r
              else (if tolow then alower c else c) :: pascal_go tolow false r
  end.
Definition to_pascal_case (s:str) : str := pascal_go (all_upper s) true s.

(* rename.rs:20 to_camel_case: the first CHARACTER of the PascalCase form is ASCII-lowered (no byte slicing
   since the /repo fix: an empty form stays empty, a non-ASCII first character is left alone). The result type
   stays `outcome` because callers are written in the monad; it never fails. *)
Definition to_camel_case (s:str) : outcome str :=
  match to_pascal_case s with
  | [] => Ok []
  | c :: r => Ok (alower c :: r)
  end.

Section U.
Variable uc : unicode.

(* rename.rs:51 to_snake_case *)
Fixpoint snake_go (allup first : bool) (s : str) : str :=
  match s with
  | [] => []
  | c :: r =>
    (if negb first && u_is_upper uc c && negb allup then [ch_us] else []) ++
    alower c :: snake_go allup false r
  end.
Definition to_snake_case (s:str) : str := snake_go (all_upper s) true s.
Definition to_screaming_snake_case (s:str) : str := str_upper_ascii (to_snake_case s).
Definition to_kebab_case (s:str) : str := replace_char ch_us ch_dash (to_snake_case s).
Definition to_screaming_kebab_case (s:str) : str := str_upper_ascii (to_kebab_case s).

(* parser.rs:649 rename_all_to_case *)
Definition rename_all_to_case (original : str) (case : option str) : outcome str :=
  match case with
  | None => Ok original
  | Some v =>
    if str_eqb v (lit "lowercase") then Ok (str_to_lowercase uc original)
    else if str_eqb v (lit "UPPERCASE") then Ok (str_to_uppercase uc original)
    else if str_eqb v (lit "PascalCase") then Ok (to_pascal_case original)
    else if str_eqb v (lit "camelCase") then to_camel_case original
    else if str_eqb v (lit "snake_case") then Ok (to_snake_case original)
    else if str_eqb v (lit "SCREAMING_SNAKE_CASE") then Ok (to_screaming_snake_case original)
    else if str_eqb v (lit "kebab-case") then Ok (to_kebab_case original)
    else if str_eqb v (lit "SCREAMING-KEBAB-CASE") then Ok (to_screaming_kebab_case original)
    else Ok original
  end.
End U.
