(* parser.rs:577-852: attribute helpers.  One Gallina function per Rust function. *)
From Coq Require Import String.
From TS Require Import Model.Str Model.Outcome Model.Unicode Model.Syntax.

Definition TYPESHARE : str := lit "typeshare".
Definition SERDE : str := lit "serde".

(* parser.rs:615 get_meta_items: attr.path().is_ident(ident), then
   parse_args_with(Punctuated<Meta>) - Err (also for non-list attributes) yields nothing *)
Definition get_meta_items (a : attr) (ident : str) : list meta :=
  if path_is_ident (meta_path (a_meta a)) ident then
    match a_meta a with
    | MList _ (Some l) _ => l
    | _ => []
    end
  else [].

Section U.
Variable uc : unicode.

(* parser.rs:811-823 expr_to_string / literal_to_string: str.value().trim() *)
Definition expr_to_string (v : value) : option str :=
  match v with VStr s => Some (trim uc s) | VOther => None end.

(* parser.rs:596 get_name_value_meta_items (an iterator; callers take .next() or all) *)
Definition nv_items_of (name : str) (ms : list meta) : list str :=
  flat_map (fun m => match m with
                     | MNV p v => if path_is_ident p name then
                                    match expr_to_string v with Some s => [s] | None => [] end
                                  else []
                     | _ => []
                     end) ms.
Definition get_name_value_meta_items (attrs : list attr) (name ident : str) : list str :=
  flat_map (fun a => nv_items_of name (get_meta_items a ident)) attrs.

Definition first {A} (l : list A) : option A := match l with [] => None | x :: _ => Some x end.

Definition serde_rename_all (attrs : list attr) : option str :=
  first (get_name_value_meta_items attrs (lit "rename_all") SERDE).
Definition serde_rename (attrs : list attr) : option str :=
  first (get_name_value_meta_items attrs (lit "rename") SERDE).
Definition get_serialized_as_type (attrs : list attr) : option str :=
  first (get_name_value_meta_items attrs (lit "serialized_as") TYPESHARE).
Definition get_field_type_override := get_serialized_as_type.
Definition get_tag_key (attrs : list attr) : option str :=
  first (get_name_value_meta_items attrs (lit "tag") SERDE).
Definition get_content_key (attrs : list attr) : option str :=
  first (get_name_value_meta_items attrs (lit "content") SERDE).

(* parser.rs:675 parse_comment_attrs, the closure of the flat_map: the (trimmed) value of one doc
   attribute becomes one entry per line: `if doc.is_empty() { return vec![doc]; }
   doc.lines().flat_map(|line| line.split('\r')).map(|line| line.trim().to_string())` *)
Definition doc_entries (doc : str) : list str :=
  match doc with
  | [] => [doc]
  | _ => map (trim uc) (flat_map (split_char ch_cr) (str_lines doc))
  end.

(* parser.rs:675 parse_comment_attrs: attr.meta is NameValue `doc = "..."` *)
Definition parse_comment_attrs (attrs : list attr) : list str :=
  flat_map doc_entries
    (flat_map (fun a => match a_meta a with
                        | MNV p v => if path_is_ident p (lit "doc") then
                                       match expr_to_string v with Some s => [s] | None => [] end
                                     else []
                        | _ => []
                        end) attrs).
End U.

(* parser.rs:577 has_typeshare_annotation: any path segment of any attribute equals "typeshare" *)
Definition has_typeshare_annotation (attrs : list attr) : bool :=
  existsb (fun a => existsb (fun seg => str_eqb seg TYPESHARE) (meta_path (a_meta a))) attrs.

Definition is_path_word (m : meta) (w : str) : bool :=
  match m with MPath p => path_is_ident p w | _ => false end.

(* the "skip" half of parser.rs:685 is_skipped *)
Definition has_skip_marker (attrs : list attr) : bool :=
  existsb (fun a => existsb (fun m => is_path_word m (lit "skip"))
                            (get_meta_items a SERDE ++ get_meta_items a TYPESHARE)) attrs.

(* parser.rs:696 is_redacted *)
Definition is_redacted (attrs : list attr) : bool :=
  existsb (fun a => existsb (fun m => is_path_word m (lit "redacted")) (get_meta_items a TYPESHARE)) attrs.

(* parser.rs:703 serde_attr *)
Definition serde_attr (attrs : list attr) (w : str) : bool :=
  existsb (fun a => existsb (fun m => is_path_word m w) (get_meta_items a SERDE)) attrs.
Definition serde_default (attrs : list attr) : bool := serde_attr attrs (lit "default").
Definition serde_flatten (attrs : list attr) : bool := serde_attr attrs (lit "flatten").
