(* core/src/reconcile.rs: rewrite references to serde-renamed types, then sort. *)
From Coq Require Import String.
From TS Require Import Model.Str Model.Outcome Model.Types Model.Parse.

(* BTreeMap<CrateName, ParsedData>: list sorted by crate name *)
Definition crates := list (str * parsed).

(* RenamedTypes = HashMap<original, HashMap<crate, renamed>>; built by a fold whose later inserts
   overwrite earlier ones: association list searched from the END *)
Definition renames := list (str * str * str).     (* (original, crate, renamed), in insertion order *)

Definition crate_renames (cn : str) (pd : parsed) : renames :=
  flat_map (fun s => if via_serde_rename (sid s) then [(original (sid s), cn, renamed (sid s))] else []) (p_structs pd) ++
  flat_map (fun e => let i := eid (enum_shared e) in if via_serde_rename i then [(original i, cn, renamed i)] else []) (p_enums pd) ++
  flat_map (fun a => if via_serde_rename (aid a) then [(original (aid a), cn, renamed (aid a))] else []) (p_aliases pd).

(* reconcile.rs:72 collect_serde_renames *)
Definition collect_serde_renames (cs : crates) : renames :=
  flat_map (fun c => crate_renames (fst c) (snd c)) cs.

Definition has_original (rn : renames) (id : str) : bool :=
  existsb (fun r => str_eqb (fst (fst r)) id) rn.
(* name_map.get(crate): the last insert for (id, crate) *)
Definition lookup_rename (rn : renames) (id cn : str) : option str :=
  option_map snd (find (fun r => str_eqb (fst (fst r)) id && str_eqb (snd (fst r)) cn) (rev rn)).

(* reconcile.rs:169 resolve_renamed. [imports] is the HashSet in its iteration order. *)
Definition resolve_renamed (cn : str) (rn : renames) (imports : list imported) (id : str) : option str :=
  if negb (has_original rn id) then None else
  match flat_map (fun i => if str_eqb (type_name i) id then
                             match lookup_rename rn id (base_crate i) with Some r => [r] | None => [] end
                           else []) imports with
  | r :: _ => Some r
  | [] => lookup_rename rn id cn
  end.

(* reconcile.rs:126 check_type: the id of a Simple and (fix: commit in /repo) the id of a Generic are resolved
   through resolve_renamed; a Generic's own id first, then its parameters *)
Fixpoint check_type (cn : str) (rn : renames) (imports : list imported) (t : rtype) : rtype :=
  match t with
  | RGeneric id ps => RGeneric (match resolve_renamed cn rn imports id with Some r => r | None => id end)
                               (map (check_type cn rn imports) ps)
  | RVec x => RVec (check_type cn rn imports x)
  | RArray x n => RArray (check_type cn rn imports x) n
  | RSlice x => RSlice (check_type cn rn imports x)
  | RHashMap k v => RHashMap (check_type cn rn imports k) (check_type cn rn imports v)
  | ROption x => ROption (check_type cn rn imports x)
  | RSimple id => match resolve_renamed cn rn imports id with Some r => RSimple r | None => RSimple id end
  | RPrim p => RPrim p
  end.

Definition check_field cn rn imports (f : rfield) : rfield :=
  {| fid := fid f; fty := check_type cn rn imports (fty f); fcomments := fcomments f;
     has_default := has_default f; fdecs := fdecs f |}.
Definition check_variant cn rn imports (v : rvariant) : rvariant :=
  match v with
  | VUnit sh => VUnit sh
  | VTuple t sh => VTuple (check_type cn rn imports t) sh
  | VAnon fs sh => VAnon (map (check_field cn rn imports) fs) sh
  end.
Definition check_const cn rn imports (c : rconst) : rconst :=
  {| cid := cid c; ctype := check_type cn rn imports (ctype c); cvalue := cvalue c |}.
Definition check_eshared cn rn imports (sh : eshared) : eshared :=
  {| eid := eid sh; egenerics := egenerics sh; ecomments := ecomments sh;
     evariants := map (check_variant cn rn imports) (evariants sh); edecs := edecs sh;
     erecursive := erecursive sh; eredacted := eredacted sh |}.

(* HashSet<ImportedType> as a duplicate-free list (insertion order kept, set semantics) *)
Definition imp_eqb (a b : imported) : bool :=
  str_eqb (base_crate a) (base_crate b) && str_eqb (type_name a) (type_name b).
Definition imp_mem (x : imported) (l : list imported) : bool := existsb (imp_eqb x) l.
Definition imp_insert (x : imported) (l : list imported) : list imported :=
  if imp_mem x l then l else l ++ [x].
Definition imp_extend (l : list imported) (xs : list imported) : list imported :=
  fold_left (fun acc x => imp_insert x acc) xs l.

(* reconcile.rs:71-84 (fix: commit in /repo), the closure mapped over the import set when it is put back:
   serde_renamed.get(&import.type_name).and_then(|by_crate| by_crate.get(&import.base_crate)) - an import of a
   type that its crate serde-renames gets the new name (a glob import is looked up like any other: `*` is the
   Rust name of no type) *)
Definition rename_import (rn : renames) (i : imported) : imported :=
  match lookup_rename rn (type_name i) (base_crate i) with
  | Some r => {| base_crate := base_crate i; type_name := r |}
  | None => i
  end.

(* Vec::sort() is a stable merge sort; Ord compares id.original: stable insertion sort *)
Section StableSort.
  Context {A : Type} (key : A -> str).
  Fixpoint insert_stable (x : A) (l : list A) : list A :=
    match l with
    | [] => [x]
    | y :: r => if str_ltb (key x) (key y) then x :: l else y :: insert_stable x r
    end.
  Definition stable_sort (l : list A) : list A := fold_left (fun acc x => insert_stable x acc) l [].
End StableSort.

Definition reconcile_crate (rn : renames) (cn : str) (pd : parsed) : parsed :=
  let im := p_imports pd in
  {| p_structs := stable_sort (fun s => original (sid s))
       (map (fun s => {| sid := sid s; sgenerics := sgenerics s; sfields := map (check_field cn rn im) (sfields s);
                         scomments := scomments s; sdecs := sdecs s; sredacted := sredacted s |}) (p_structs pd));
     p_enums := stable_sort (fun e => original (eid (enum_shared e)))
       (map (fun e => match e with
                      | EUnit sh => EUnit (check_eshared cn rn im sh)
                      | EAlgebraic t c sh => EAlgebraic t c (check_eshared cn rn im sh)
                      end) (p_enums pd));
     p_aliases := stable_sort (fun a => original (aid a))
       (map (fun a => {| aid := aid a; agenerics := agenerics a; atype := check_type cn rn im (atype a);
                         acomments := acomments a; adecs := adecs a; aredacted := aredacted a |}) (p_aliases pd));
     (* reconciled after the aliases (fix: commit in /repo), then sorted with the others (fix: commit in /repo) *)
     p_consts := stable_sort (fun c => original (cid c)) (map (check_const cn rn im) (p_consts pd));
     (* put back for file generation, every import under the name the file of its crate defines the type under
        (fix: commit in /repo); `.collect()` into a HashSet: two imports that get the same name become one *)
     p_type_names := p_type_names pd; p_errors := p_errors pd;
     p_imports := imp_extend [] (map (rename_import rn) (p_imports pd)) |}.

(* reconcile.rs:22 reconcile_aliases *)
Definition reconcile_aliases (cs : crates) : crates :=
  let rn := collect_serde_renames cs in
  map (fun c => (fst c, reconcile_crate rn (fst c) (snd c))) cs.
