(* Model of the `#[typeshare]` attribute macro, /repo/annotation/src/lib.rs (C19).

   Part 1 is the macro itself, one Gallina function per Rust function, over a DeriveInput-level
   AST.  syn is not modelled: the macro's input is what `syn::parse::<DeriveInput>` returned
   ([Derive d]) or the fact that it failed ([Other ..]: type alias, const, fn, static, mod, ... or
   a struct/enum/union that the annotation crate's syn - built WITHOUT the "full" feature - cannot
   parse; the item's token stream is then handed back untouched, lib.rs:50).  Types, visibilities,
   generics, where-clauses and discriminants are carried as token strings: the macro never looks
   at them and `DeriveInput::to_token_stream` prints them back.

   Part 2 is NOT code of /repo: it is the part of rustc's attribute processing that the check needs
   to compare the model with `-Zunpretty=expanded` output (attribute macros on an item are expanded
   one after the other, `derive`/`cfg`/`cfg_attr` are consumed by the compiler).  It is trusted as a
   description of rustc and validated only by the correspondence check.

   No proofs in this file. *)
From TS Require Import Model.Str Model.Syntax.

(* ------------------------------------------------------------------ the AST *)
(* syn::Field: attrs, vis, ident (None in tuple structs / tuple variants), ty *)
Record dfield := { df_attrs : list attr; df_vis : str; df_ident : option str; df_ty : str }.
(* syn::Fields *)
Inductive dfields := DNamed (l : list dfield) | DUnnamed (l : list dfield) | DUnit.
(* syn::Variant: attrs, ident, fields, discriminant (`= expr` tokens) *)
Record dvariant := { dv_attrs : list attr; dv_ident : str; dv_fields : dfields; dv_discr : option str }.
(* syn::Data; DataUnion.fields is a FieldsNamed *)
Inductive ddata := DDStruct (fs : dfields) | DDEnum (vs : list dvariant) | DDUnion (fs : list dfield).
(* syn::DeriveInput. [di_attrs] are the item's outer attributes as the macro receives them, i.e.
   all of them EXCEPT the `#[typeshare..]` invocation being expanded (rustc removes that one and
   passes its arguments as `_attr`, which lib.rs:44 ignores). *)
Record derive_input := {
  di_attrs : list attr; di_vis : str; di_ident : str; di_generics : str; di_where : str; di_data : ddata }.
(* The macro's input. [Other attrs tokens]: parse::<DeriveInput> failed; [attrs] are the item's
   outer attributes and [tokens] the rest of the item (kept apart only so that Part 2 can find
   further invocations on the same item; the macro returns both untouched). *)
Inductive macro_input := Derive (d : derive_input) | Other (attrs : list attr) (tokens : str).

(* ------------------------------------------------------------------ Part 1: lib.rs *)
(* lib.rs:56 *)
Definition CONFIG_ATTRIBUTE_NAME : str := lit "typeshare".

(* `x.path().to_token_stream().to_string()`: the path's tokens (identifiers and `::`, a leading
   `::` first) rendered by TokenStream's Display.  How Display separates tokens depends on the
   compiler version ("a::b" in current rustc, "a :: b" in proc_macro2's fallback), so the separator
   is a parameter; Proofs/C19.v shows that the predicate below does not depend on it.
   Syntax.path encodes a leading `::` as an empty first segment (identifiers are never empty). *)
Definition ANN_COLON2 : str := lit "::".
Fixpoint ann_path_tokens (segs : list str) : list str :=
  match segs with
  | [] => []
  | [s] => [s]
  | s :: r => s :: ANN_COLON2 :: ann_path_tokens r
  end.
Definition ann_path_to_string (sp : str) (p : path) : str :=
  match p with
  | [] :: segs => join sp (ANN_COLON2 :: ann_path_tokens segs)
  | _ => join sp (ann_path_tokens p)
  end.
Definition ANN_TOKEN_SPACING : str := [].

(* Vec::retain *)
Fixpoint ann_retain {A} (keep : A -> bool) (v : list A) : list A :=
  match v with
  | [] => []
  | x :: r => if keep x then x :: ann_retain keep r else ann_retain keep r
  end.

(* lib.rs:55-59.  Only the attribute's PATH is looked at - not its style (inner/outer), not its
   arguments. *)
Definition remove_configuration_from_attributes (attributes : list attr) : list attr :=
  ann_retain (fun x => negb (str_eqb (ann_path_to_string ANN_TOKEN_SPACING (meta_path (a_meta x))) CONFIG_ATTRIBUTE_NAME))
             attributes.

Definition ann_set_field_attrs (f : dfield) (a : list attr) : dfield :=
  {| df_attrs := a; df_vis := df_vis f; df_ident := df_ident f; df_ty := df_ty f |}.

(* lib.rs:61-65  `for field in fields.iter_mut() { remove_configuration_from_attributes(&mut field.attrs) }`;
   Fields::iter_mut yields the fields of Named and Unnamed, nothing for Unit *)
Fixpoint ann_for_fields (l : list dfield) : list dfield :=
  match l with
  | [] => []
  | field :: r => ann_set_field_attrs field (remove_configuration_from_attributes (df_attrs field)) :: ann_for_fields r
  end.
Definition remove_configuration_from_fields (fields : dfields) : dfields :=
  match fields with
  | DNamed l => DNamed (ann_for_fields l)
  | DUnnamed l => DUnnamed (ann_for_fields l)
  | DUnit => DUnit
  end.

(* lib.rs:69-74  `for variant in data_enum.variants.iter_mut()` *)
Fixpoint ann_for_variants (l : list dvariant) : list dvariant :=
  match l with
  | [] => []
  | variant :: r =>
    {| dv_attrs := remove_configuration_from_attributes (dv_attrs variant);
       dv_ident := dv_ident variant;
       dv_fields := remove_configuration_from_fields (dv_fields variant);
       dv_discr := dv_discr variant |} :: ann_for_variants r
  end.

(* lib.rs:78-82  `for field in data_union.fields.named.iter_mut()` (a loop of its own in the source) *)
Fixpoint ann_for_union_fields (l : list dfield) : list dfield :=
  match l with
  | [] => []
  | field :: r => ann_set_field_attrs field (remove_configuration_from_attributes (df_attrs field)) :: ann_for_union_fields r
  end.

(* lib.rs:53-83.  item.attrs, vis, ident, generics are not touched. *)
Definition strip_configuration_attribute (item : derive_input) : derive_input :=
  {| di_attrs := di_attrs item; di_vis := di_vis item; di_ident := di_ident item;
     di_generics := di_generics item; di_where := di_where item;
     di_data := match di_data item with
                | DDEnum variants => DDEnum (ann_for_variants variants)
                | DDStruct fields => DDStruct (remove_configuration_from_fields fields)
                | DDUnion fields => DDUnion (ann_for_union_fields fields)
                end |}.

(* lib.rs:43-52.  `_attr` (the invocation's own arguments) is ignored, hence absent here. *)
Definition typeshare_macro (i : macro_input) : macro_input :=
  match i with
  | Derive item => Derive (strip_configuration_attribute item)
  | Other attrs tokens => Other attrs tokens
  end.

(* The macro applied to an item written by the user, seen as a complete Rust parser sees it
   ([full]), when the annotation crate's own syn does ([parses] = true) or does not parse it as a
   DeriveInput: in the second case the tokens come back unchanged, whatever they are. *)
Definition typeshare_macro_on (parses : bool) (full : macro_input) : macro_input :=
  if parses then typeshare_macro full else full.

(* ------------------------------------------------------------------ Part 2: the compiler's side *)
Definition ann_item_attrs (i : macro_input) : list attr :=
  match i with Derive d => di_attrs d | Other a _ => a end.
Definition ann_with_item_attrs (i : macro_input) (a : list attr) : macro_input :=
  match i with
  | Derive d => Derive {| di_attrs := a; di_vis := di_vis d; di_ident := di_ident d; di_generics := di_generics d;
                          di_where := di_where d; di_data := di_data d |}
  | Other _ t => Other a t
  end.

(* attribute paths that name-resolve to the macro in a crate that has `use typeshare::typeshare;`
   in scope and `typeshare` in the extern prelude (the generated programs) *)
Definition ann_is_invocation_path (p : path) : bool :=
  match p with
  | [a] => str_eqb a CONFIG_ATTRIBUTE_NAME
  | [a; b] => str_eqb a CONFIG_ATTRIBUTE_NAME && str_eqb b CONFIG_ATTRIBUTE_NAME
  | [z; a; b] => str_eqb z [] && str_eqb a CONFIG_ATTRIBUTE_NAME && str_eqb b CONFIG_ATTRIBUTE_NAME
  | _ => false
  end.
Definition ann_is_invocation (a : attr) : bool := ann_is_invocation_path (meta_path (a_meta a)).

(* remove the first invocation among the item's attributes (None: there is none) *)
Fixpoint ann_take_invocation (l : list attr) : option (list attr) :=
  match l with
  | [] => None
  | a :: r => if ann_is_invocation a then Some r else option_map (cons a) (ann_take_invocation r)
  end.

(* rustc's expansion loop on one item: while an attribute macro invocation is left on the item,
   detach the first one and replace the item by the macro's output. *)
Fixpoint rustc_expand_item (fuel : nat) (i : macro_input) : macro_input :=
  match fuel with
  | O => i
  | S f =>
    match ann_take_invocation (ann_item_attrs i) with
    | None => i
    | Some a' => rustc_expand_item f (typeshare_macro (ann_with_item_attrs i a'))
    end
  end.
Definition rustc_expand (i : macro_input) : macro_input :=
  rustc_expand_item (S (List.length (ann_item_attrs i))) i.

(* Built-in attributes that `-Zunpretty=expanded` no longer shows: `derive(..)` (expanded into the
   impls that follow the item), `cfg(p)` (evaluated: removed when true, the annotated node removed
   when false), `cfg_attr(p, a, ..)` (replaced by a, .. when true, removed when false).  Only the
   closed predicates all(), any(), not(all()), not(any()) are evaluated; anything else is left in
   place (the generated programs use no others). *)
Definition ANN_DERIVE : str := lit "derive".
Definition ANN_CFG : str := lit "cfg".
Definition ANN_CFG_ATTR : str := lit "cfg_attr".
Definition ANN_ALL : str := lit "all".
Definition ANN_ANY : str := lit "any".
Definition ANN_NOT : str := lit "not".

Definition ann_cfg_const0 (m : meta) : option bool :=
  match m with
  | MList p (Some []) _ =>
    if path_is_ident p ANN_ALL then Some true else if path_is_ident p ANN_ANY then Some false else None
  | _ => None
  end.
Definition ann_cfg_const (m : meta) : option bool :=
  match m with
  | MList p (Some [c]) _ => if path_is_ident p ANN_NOT then option_map negb (ann_cfg_const0 c) else None
  | _ => ann_cfg_const0 m
  end.

Inductive ann_fate := AKeep (l : list attr) | ADropAttr | ADropNode.
Definition ann_fate_of (a : attr) : ann_fate :=
  match a_meta a with
  | MList p (Some args) _ =>
    if path_is_ident p ANN_DERIVE then ADropAttr
    else if path_is_ident p ANN_CFG then
      match args with
      | [c] => match ann_cfg_const c with Some true => ADropAttr | Some false => ADropNode | None => AKeep [a] end
      | _ => AKeep [a]
      end
    else if path_is_ident p ANN_CFG_ATTR then
      match args with
      | c :: ms =>
        match ann_cfg_const c with
        | Some true => AKeep (map (fun m => {| a_inner := a_inner a; a_meta := m |}) ms)
        | Some false => ADropAttr
        | None => AKeep [a]
        end
      | [] => AKeep [a]
      end
    else AKeep [a]
  | _ => AKeep [a]
  end.

(* None: the node carrying these attributes is configured out *)
Fixpoint ann_view_attrs (l : list attr) : option (list attr) :=
  match l with
  | [] => Some []
  | a :: r =>
    match ann_fate_of a, ann_view_attrs r with
    | ADropNode, _ => None
    | _, None => None
    | ADropAttr, Some r' => Some r'
    | AKeep k, Some r' => Some (k ++ r')
    end
  end.

Fixpoint ann_view_field_list (l : list dfield) : list dfield :=
  match l with
  | [] => []
  | f :: r =>
    match ann_view_attrs (df_attrs f) with
    | Some a => ann_set_field_attrs f a :: ann_view_field_list r
    | None => ann_view_field_list r
    end
  end.
Definition ann_view_fields (fs : dfields) : dfields :=
  match fs with
  | DNamed l => DNamed (ann_view_field_list l)
  | DUnnamed l => DUnnamed (ann_view_field_list l)
  | DUnit => DUnit
  end.
Fixpoint ann_view_variants (l : list dvariant) : list dvariant :=
  match l with
  | [] => []
  | v :: r =>
    match ann_view_attrs (dv_attrs v) with
    | Some a => {| dv_attrs := a; dv_ident := dv_ident v; dv_fields := ann_view_fields (dv_fields v); dv_discr := dv_discr v |}
                :: ann_view_variants r
    | None => ann_view_variants r
    end
  end.
Definition ann_view_data (d : ddata) : ddata :=
  match d with
  | DDStruct fs => DDStruct (ann_view_fields fs)
  | DDEnum vs => DDEnum (ann_view_variants vs)
  | DDUnion l => DDUnion (ann_view_field_list l)
  end.

(* what is left of an item once rustc has consumed its built-in attributes; None: item configured out *)
Definition rustc_builtin_view (i : macro_input) : option macro_input :=
  match ann_view_attrs (ann_item_attrs i) with
  | None => None
  | Some a =>
    Some match i with
         | Derive d => Derive {| di_attrs := a; di_vis := di_vis d; di_ident := di_ident d; di_generics := di_generics d;
                                 di_where := di_where d; di_data := ann_view_data (di_data d) |}
         | Other _ t => Other a t
         end
  end.

(* number of attributes at member positions that still resolve to the attribute macro once
   cfg_attr is unfolded: rustc rejects each of them ("expected non-macro attribute, found attribute
   macro") - the observable consequence of a helper that was not stripped. *)
Definition ann_count_invocations (l : list attr) : nat := List.length (filter ann_is_invocation l).
Definition ann_fields_list (fs : dfields) : list dfield :=
  match fs with DNamed l | DUnnamed l => l | DUnit => [] end.
Definition ann_member_attr_lists (i : macro_input) : list (list attr) :=
  match i with
  | Derive d =>
    match di_data d with
    | DDStruct fs => map df_attrs (ann_fields_list fs)
    | DDEnum vs => flat_map (fun v => dv_attrs v :: map df_attrs (ann_fields_list (dv_fields v))) vs
    | DDUnion l => map df_attrs l
    end
  | Other _ _ => []
  end.
Definition rustc_macro_attrs_at_members (i : macro_input) : nat :=
  match rustc_builtin_view i with
  | None => O
  | Some v => list_sum (map ann_count_invocations (ann_member_attr_lists v))
  end.
