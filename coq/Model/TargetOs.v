(* core/src/target_os_check.rs: TargetOsIterator (LIFO stack walk) and accept_target_os. *)
From TS Require Import Model.Str Model.Syntax Model.Attrs.

(* TargetScope: true = Reject, false = Accept *)
Definition NOT : str := lit "not".
Definition TARGET_OS : str := lit "target_os".

Fixpoint msize (m : meta) : nat :=
  match m with
  | MList _ (Some args) _ => S (fold_right (fun a acc => (msize a + acc)%nat) 0%nat args)
  | _ => 1%nat
  end.
Definition ssize (st : list (bool * meta)) : nat :=
  fold_right (fun p acc => (msize (snd p) + acc)%nat) 0%nat st.

(* Iterator::next called until exhaustion: the list of yielded (scope, value).
   [meta.pop()] takes the LAST element of the Vec; an unparsable nested list makes next() return
   None (`.ok()?`), which ends the iterator and drops whatever is still on the stack.
   The loop is not structurally recursive: explicit fuel, [None] when it runs out. *)
Fixpoint walk (fuel : nat) (st : list (bool * meta)) : option (list (bool * str)) :=
  match fuel with
  | O => None
  | S f =>
    match rev st with
    | [] => Some []
    | (sc, m) :: rest_rev =>
      let st' := rev rest_rev in
      let sc' := if path_is_ident (meta_path m) NOT then true else sc in
      match m with
      | MPath _ => walk f st'
      | MList _ None _ => Some []
      | MList _ (Some args) _ => walk f (st' ++ map (fun a => (sc', a)) args)
      | MNV p v =>
        if path_is_ident p TARGET_OS then
          match v with
          | VStr s => option_map (cons (sc', s)) (walk f st')
          | VOther => walk f st'
          end
        else walk f st'
      end
    end
  end.

Definition target_os_iter (m : meta) : option (list (bool * str)) :=
  walk (S (msize m)) [(false, m)].

(* all values yielded for an attribute list: flat_map get_meta_items "cfg", flat_map iterator *)
Definition cfg_metas (attrs : list attr) : list meta :=
  flat_map (fun a => get_meta_items a (lit "cfg")) attrs.

Fixpoint collect_yields (ms : list meta) : option (list (bool * str)) :=
  match ms with
  | [] => Some []
  | m :: r => match target_os_iter m, collect_yields r with
              | Some a, Some b => Some (a ++ b)
              | _, _ => None
              end
  end.

Definition decide (yields : list (bool * str)) (target_os : list str) : bool :=
  let accepted := map snd (filter (fun p => negb (fst p)) yields) in
  let rejected := map snd (filter (fun p => fst p) yields) in
  let is_rejected := existsb (fun t => mem_str t rejected) target_os in
  let is_accepted := match accepted with [] => true | _ => existsb (fun t => mem_str t accepted) target_os end in
  negb is_rejected && is_accepted.

(* target_os_check.rs:84 accept_target_os; None only if the fuel were insufficient *)
Definition accept_target_os (attrs : list attr) (target_os : list str) : option bool :=
  match target_os with
  | [] => Some true
  | _ => option_map (fun y => decide y target_os) (collect_yields (cfg_metas attrs))
  end.
