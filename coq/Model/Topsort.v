(* core/src/topsort.rs:8-227: the dependency collectors and topsort over RustItems. *)
From Coq Require Import String.
From TS Require Import Model.Str Model.Outcome Model.Types Model.TopsortAlgo.

(* res: Vec<String>, seen: HashSet<String> *)
Record dstate := { dres : list str; dseen : list str }.

Definition seen_insert (x : str) (s : dstate) : bool * dstate :=
  if mem_str x (dseen s) then (false, s)
  else (true, {| dres := dres s; dseen := x :: dseen s |}).
Definition seen_remove (x : str) (s : dstate) : dstate :=
  {| dres := dres s; dseen := filter (fun y => negb (str_eqb x y)) (dseen s) |}.
Definition res_push (x : str) (s : dstate) : dstate :=
  {| dres := dres s ++ [x]; dseen := dseen s |}.

(* HashMap::from_iter(things.map(|t| (id.original, t))): a later duplicate key overwrites *)
Definition types_get (things : list ritem) (name : str) : option ritem :=
  find (fun it => str_eqb (original (item_id it)) name) (rev things).

Section Deps.
Variable types : str -> option ritem.
Variable rec_item : ritem -> dstate -> option dstate.   (* get_dependencies, one level of fuel down *)

Definition obind {A B} (x : option A) (f : A -> option B) : option B :=
  match x with Some a => f a | None => None end.

(* the Simple arm; the Generic arm does the same with the generic type's own id *)
Definition visit_name (id : str) (s : dstate) : option dstate :=
  match types id with
  | None => Some s
  | Some tp =>
    let '(fresh, s1) := seen_insert id s in
    if fresh then
      obind (rec_item tp (res_push id s1)) (fun s2 => Some (seen_remove id s2))
    else Some s
  end.

(* topsort.rs:8 get_dependencies_from_type *)
Fixpoint deps_type (tp : rtype) (s : dstate) : option dstate :=
    (match tp with
     | RGeneric id params =>
       (* the generic type itself, if it is typeshared; then EVERY argument, whatever the generic
          type is: `for parameter in parameters { get_dependencies_from_type(parameter, ..) }` *)
       obind (visit_name id s) (fun s1 =>
       fold_left (fun acc p => obind acc (deps_type p)) params (Some s1))
     | RSimple id => visit_name id s
     | RHashMap k v => obind (deps_type k s) (deps_type v)
     | ROption x => deps_type x s
     | RVec x | RArray x _ | RSlice x => deps_type x s
     | _ => Some s                     (* the primitives: `_ => {}` *)
     end).

Definition deps_fields (fs : list rtype) (s : dstate) : option dstate :=
  fold_left (fun acc t => obind acc (deps_type t)) fs (Some s).

(* get_struct/enum/type_alias/const_dependencies and the dispatch get_dependencies *)
Definition deps_item (it : ritem) (s : dstate) : option dstate :=
  match it with
  | ItEnum (EUnit _) => Some s
  | ItEnum (EAlgebraic _ _ sh) =>
    let name := original (eid sh) in
    let '(fresh, s1) := seen_insert name s in
    (* for variant in variants: Unit => {}, AnonymousStruct => each field.ty in order, Tuple => ty
       (the enum's own name is put into `seen` only, never into `res`) *)
    if fresh then
      obind (deps_fields (flat_map (fun v => match v with
                                             | VUnit _ => []
                                             | VAnon fs _ => map fty fs
                                             | VTuple t _ => [t]
                                             end) (evariants sh))
                         s1)
            (fun s2 => Some (seen_remove name s2))
    else Some s
  | ItStruct st =>
    let name := original (sid st) in
    let '(fresh, s1) := seen_insert name s in
    if fresh then obind (deps_fields (map fty (sfields st)) s1) (fun s2 => Some (seen_remove name s2))
    else Some s
  | ItAlias a =>
    let name := original (aid a) in
    let '(fresh, s1) := seen_insert name s in
    if fresh then
      obind (deps_type (atype a) s1) (fun s2 =>
      obind (fold_left (fun acc gname => obind acc (fun sa =>
                          match types gname with Some thing => rec_item thing sa | None => Some sa end))
                       (agenerics a) (Some s2)) (fun s3 =>
      Some (seen_remove name s3)))
    else Some s
  | ItConst c =>
    let name := original (cid c) in
    let '(fresh, s1) := seen_insert name s in
    if fresh then obind (deps_type (ctype c) s1) (fun s2 => Some (seen_remove name s2))
    else Some s
  end.
End Deps.

(* recursion through the `types` map is not structural: fuel; None = exhausted *)
Fixpoint get_dependencies (fuel : nat) (types : str -> option ritem) (it : ritem) (s : dstate) : option dstate :=
  match fuel with
  | O => None
  | S f => deps_item types (get_dependencies f types) it s
  end.

(* things.iter().position(|r| r == thing).expect(..) *)
Fixpoint get_index (thing : ritem) (things : list ritem) : option nat :=
  match things with
  | [] => None
  | x :: r => if ritem_eqb x thing then Some O else option_map S (get_index thing r)
  end.

Definition deps_fuel (things : list ritem) : nat := 4 * List.length things + 16.

Definition dag_row (things : list ritem) (thing : ritem) : outcome (list nat) :=
  match get_dependencies (deps_fuel things) (types_get things) thing {| dres := []; dseen := [] |} with
  | None => Panic "fuel"
  | Some s =>
    mapM (fun dep => match types_get things dep with
                     | None => Panic "topsort.rs:222"            (* types.get(dep).unwrap() *)
                     | Some it => match get_index it things with
                                  | None => Panic "topsort.rs:154"   (* expect("Unable to find thing") *)
                                  | Some i => Ok i
                                  end
                     end) (dres s)
  end.

Definition build_dag (things : list ritem) : outcome (list (list nat)) := mapM (dag_row things) things.

(* topsort.rs:198 topsort *)
Definition topsort (things : list ritem) : outcome (list ritem) :=
  do dag <- build_dag things;
  do order <- toposort_impl dag;
  sort_by_indices things order.
