(* Unicode-aware std calls used by typeshare: char::is_uppercase / is_lowercase,
   str::to_lowercase / to_uppercase, str::trim.  Theorems take an arbitrary table [uc] that agrees
   with ASCII below 128; for execution [uc_exec] tabulates a finite set of representative
   non-ASCII code points, and the correspondence check compares exactly that table with Rust's
   std on every run (the generators only emit tabulated code points). *)
From TS Require Import Model.Str.

Record unicode := {
  u_is_upper : char -> bool;
  u_is_lower : char -> bool;
  u_lower : char -> str;     (* char::to_lowercase (may expand) *)
  u_upper : char -> str;     (* char::to_uppercase (may expand) *)
  u_is_ws : char -> bool     (* char::is_whitespace *)
}.

Definition ascii_ws (c:char) : bool :=
  (c =? 32) || ((9 <=? c) && (c <=? 13)).

Record unicode_ok (uc : unicode) : Prop := {
  ok_upper : forall c, c < 128 -> u_is_upper uc c = is_aupper c;
  ok_lower : forall c, c < 128 -> u_is_lower uc c = is_alower c;
  ok_to_lower : forall c, c < 128 -> u_lower uc c = [alower c];
  ok_to_upper : forall c, c < 128 -> u_upper uc c = [aupper c];
  ok_ws : forall c, c < 128 -> u_is_ws uc c = ascii_ws c
}.

Definition str_to_lowercase (uc:unicode) (s:str) : str := flat_map (u_lower uc) s.
Definition str_to_uppercase (uc:unicode) (s:str) : str := flat_map (u_upper uc) s.

Fixpoint trim_start (uc:unicode) (s:str) : str :=
  match s with
  | [] => []
  | c :: r => if u_is_ws uc c then trim_start uc r else s
  end.
Definition trim (uc:unicode) (s:str) : str := rev (trim_start uc (rev (trim_start uc s))).

(* Executable table. Entries: (code point, is_upper, is_lower, to_lower, to_upper, is_ws). *)
Definition uc_entry := (char * (bool * bool * str * str * bool))%type.
Definition uc_table : list uc_entry :=
  [ (233,  (false, true,  [233],  [201],  false))      (* é *)
  ; (201,  (true,  false, [233],  [201],  false))      (* É *)
  ; (223,  (false, true,  [223],  [83;83], false))     (* ß -> SS *)
  ; (453,  (false, false, [454],  [452],  false))      (* ǅ titlecase *)
  ; (454,  (false, true,  [454],  [452],  false))      (* ǆ *)
  ; (452,  (true,  false, [454],  [452],  false))      (* Ǆ *)
  ; (20013,(false, false, [20013],[20013],false))      (* 中 *)
  ; (1078, (false, true,  [1078], [1046], false))      (* ж *)
  ; (1046, (true,  false, [1078], [1046], false))      (* Ж *)
  ; (304,  (true,  false, [105;775], [304], false))    (* İ -> i + combining dot *)
  ; (160,  (false, false, [160],  [160],  true))       (* NBSP is whitespace *)
  ; (8232, (false, false, [8232], [8232], true))       (* LINE SEPARATOR *)
  ; (128512,(false,false, [128512],[128512],false))    (* emoji *)
  ].

Fixpoint uc_find (c:char) (t:list uc_entry) : option (bool * bool * str * str * bool) :=
  match t with
  | [] => None
  | (k, v) :: r => if k =? c then Some v else uc_find c r
  end.

Definition uc_exec : unicode := {|
  u_is_upper c := if c <? 128 then is_aupper c else
                  match uc_find c uc_table with Some (u,_,_,_,_) => u | None => false end;
  u_is_lower c := if c <? 128 then is_alower c else
                  match uc_find c uc_table with Some (_,l,_,_,_) => l | None => false end;
  u_lower c := if c <? 128 then [alower c] else
               match uc_find c uc_table with Some (_,_,lo,_,_) => lo | None => [c] end;
  u_upper c := if c <? 128 then [aupper c] else
               match uc_find c uc_table with Some (_,_,_,up,_) => up | None => [c] end;
  u_is_ws c := if c <? 128 then ascii_ws c else
               match uc_find c uc_table with Some (_,_,_,_,w) => w | None => false end
|}.

Lemma uc_exec_ok : unicode_ok uc_exec.
Proof.
  constructor; intros c H; apply N.ltb_lt in H; unfold uc_exec; cbn; now rewrite H.
Qed.
