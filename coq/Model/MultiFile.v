(* Multi-file (folder output, `-d`) mode, function by function:
     core/src/language/mod.rs   CrateName::find_crate_name, used_imports, generate_types (data.multi_file)
     cli/src/parse.rs           output_file_name, parse_file_context, all_types, the collector
     cli/src/writer.rs          write_multiple_files, check_write_file
     core/src/visitors.rs       accept_crate, ItemUseIter / parse_import, visit_path, visit_item_use,
                                reconcile_referenced_types, parsed_data()
     core/src/language/*.rs     begin_file / write_imports / post_generation in multi-file mode
   No proofs here.

   Sets and maps.  HashSet<ImportedType> is a duplicate-free list; WHERE THE ITERATION ORDER OF A
   HashSet / HashMap CAN REACH THE RESULT the function takes the order as an explicit argument:
     [ho_file]  : iteration order of the per-file import set  (find_type's `.find`, visitors.rs:157)
     [ho_crate] : iteration order of the per-crate import set (resolve_renamed's first matching import,
                  reconcile.rs:178; the loop of used_imports, mod.rs:461 - whose result no longer depends on
                  it since the wildcard branch creates its entry, mod.rs:473; only the fallback's choice is
                  left, and that goes through [hc]; the set used_imports iterates over is the one
                  reconcile_aliases REBUILDS with the serde-renamed names, reconcile.rs:71 - a new HashSet
                  with an order of its own, which for the same reason needs no oracle)
     [hc]       : iteration order of CrateTypes = HashMap<CrateName, HashSet<TypeName>>
                  (the fallback's `.next()`, mod.rs:444)
   An oracle is any function list -> list; the real program realises some permutation. *)
From Coq Require Import String.
From TS Require Import Model.Str Model.Outcome Model.Unicode Model.Syntax Model.Attrs Model.Rename Model.Types
                       Model.Parse Model.Reconcile Model.Collect Model.TopsortAlgo Model.Topsort
                       Model.Lang.Common Model.Lang.TypeScript Model.Lang.Kotlin Model.Lang.Swift
                       Model.Lang.Scala Model.Lang.Go Model.Lang.Python.
From TS Require Model.Writer.

(* ---------- CrateName::find_crate_name (mod.rs:64) ----------
   path.iter().rev().skip_while(|p| *p != "src").nth(1), then '-' -> '_'.
   A path is the list of its components as Path::iter() yields them (root first).
   (`to_str()` failing on non-UTF-8 components is outside the model: components are Unicode.) *)
Definition SRC : str := lit "src".
Fixpoint skip_until_src (rev_components : list str) : list str :=
  match rev_components with
  | [] => []
  | c :: r => if str_eqb c SRC then rev_components else skip_until_src r
  end.
Definition find_crate_name (components : list str) : option str :=
  match skip_until_src (rev components) with
  | _ :: above :: _ => Some (replace_char ch_dash ch_us above)
  | _ => None
  end.

(* ---------- SupportedLanguage::language_extension, parse.rs:49 output_file_name ---------- *)
Definition language_extension (l : lang) : str :=
  match l with
  | Go => lit "go" | Kotlin => lit "kt" | Scala => lit "scala" | Swift => lit "swift"
  | TypeScript => lit "ts" | Python => lit "py"
  end.
Definition output_file_name (l : lang) (crate_name : str) : str :=
  match l with
  | Swift => to_pascal_case crate_name ++ lit "." ++ language_extension l
  | _ => crate_name ++ lit "." ++ language_extension l
  end.

(* Language::ignored_reference_types: the keys of type_mappings for TypeScript (typescript.rs:260)
   and Kotlin (kotlin.rs:301), the trait default (nothing) elsewhere; only queried with `contains` *)
Definition ignored_reference_types (l : lang) (type_mappings : tmap) : list str :=
  match l with TypeScript | Kotlin => map fst type_mappings | _ => [] end.

(* ---------- visitors.rs:17 IGNORED_BASE_CRATES, :335 accept_crate ---------- *)
Definition IGNORED_BASE_CRATES : list str :=
  [lit "std"; lit "serde"; lit "serde_json"; lit "typeshare"; lit "once_cell"; lit "itertools"; lit "anyhow";
   lit "thiserror"; lit "quote"; lit "syn"; lit "clap"; lit "tokio"; lit "reqwest"; lit "regex"; lit "http";
   lit "time"; lit "axum"; lit "either"; lit "chrono"; lit "base64"; lit "rayon"; lit "ring"; lit "zip"; lit "neon"].

Definition GLOB : str := lit "*".

(* HashSet<ImportedType> as a duplicate-free list: imp_eqb / imp_mem / imp_insert / imp_extend of Model/Reconcile.v
   (reconcile_aliases rebuilds the per-crate import set) *)

Definition with_imports (pd : parsed) (im : list imported) : parsed :=
  {| p_structs := p_structs pd; p_enums := p_enums pd; p_aliases := p_aliases pd; p_consts := p_consts pd;
     p_type_names := p_type_names pd; p_errors := p_errors pd; p_imports := im |}.

(* `crate`, `super`, `self` stand for the crate of the file *)
Definition is_crate_alias (name : str) : bool :=
  str_eqb name (lit "crate") || str_eqb name (lit "super") || str_eqb name (lit "self").
Definition resolve_crate (own name : str) : str := if is_crate_alias name then own else name.

(* BTreeMap<&CrateName, BTreeSet<&str>> = ScopedCrateTypes: sorted association list of sorted sets *)
Definition scoped := list (str * list str).

(* used.entry(k).and_modify(|v| v.insert(name)).or_insert(BTreeSet::from([name])) *)
Fixpoint scoped_add (m : scoped) (k name : str) : scoped :=
  match m with
  | [] => [(k, [name])]
  | (k', v) :: r =>
    if str_eqb k' k then (k', sset_insert name v) :: r
    else if str_ltb k k' then (k, [name]) :: m
    else (k', v) :: scoped_add r k name
  end.
(* used.entry(k).or_insert_with(BTreeSet::new).extend(all)   (mod.rs:473, since the /repo fix of findings
   C14-glob / C14-glob-order: the entry is created when no earlier import of crate k made it, so a wildcard
   import is effective on its own and wherever it comes in the iteration).  An entry is created even when
   [all] is empty (a crate whose type table is empty: only consts). *)
Definition sset_extend (v all : list str) : list str := fold_left (fun acc n => sset_insert n acc) all v.
Fixpoint scoped_extend (m : scoped) (k : str) (all : list str) : scoped :=
  match m with
  | [] => [(k, sset_extend [] all)]
  | (k', v) :: r =>
    if str_eqb k' k then (k', sset_extend v all) :: r
    else if str_ltb k k' then (k, sset_extend [] all) :: m
    else (k', v) :: scoped_extend r k all
  end.
(* the import LIST: (module, name) pairs in the order write_imports prints them *)
Definition scoped_pairs (m : scoped) : list (str * str) :=
  flat_map (fun kv => map (fun n => (fst kv, n)) (snd kv)) m.

(* CrateTypes = HashMap<CrateName, HashSet<TypeName>> *)
Definition crate_types := list (str * list str).
Fixpoint crate_types_get (m : crate_types) (k : str) : option (list str) :=
  match m with [] => None | (a, v) :: r => if str_eqb a k then Some v else crate_types_get r k end.

(* parse.rs:68 all_types: every crate with the type_names it accumulated (structs, enums, aliases; no consts) *)
Definition all_types (cs : crates) : crate_types := map (fun c => (fst c, p_type_names (snd c))) cs.

(* mod.rs:439 the `fallback` closure: the FIRST crate, in the iteration order [hc_types] of the
   HashMap, that is not the current one and has a type of that name *)
Definition import_fallback (hc_types : crate_types) (own name : str) (m : scoped) : scoped :=
  match find (fun kv => negb (str_eqb (fst kv) own) && mem_str name (snd kv)) hc_types with
  | Some kv => scoped_add m (fst kv) name
  | None => m
  end.

(* mod.rs:430 used_imports. [imports_iter] = data.import_types in its iteration order,
   [hc_types] = all_types in its iteration order. *)
Definition used_imports (hc_types : crate_types) (own : str) (imports_iter : list imported) : scoped :=
  fold_left (fun m imp =>
    if str_eqb (base_crate imp) own then m          (* .filter(|imp| imp.base_crate != data.crate_name) *)
    else match crate_types_get hc_types (base_crate imp) with
         | Some type_names =>
           if str_eqb (type_name imp) GLOB then scoped_extend m (base_crate imp) type_names
           else if mem_str (type_name imp) type_names then scoped_add m (base_crate imp) (type_name imp)
           else import_fallback hc_types own (type_name imp) m
         | None => import_fallback hc_types own (type_name imp) m
         end) imports_iter [].

Definition opt_list {A} (o : option A) : list A := match o with Some a => [a] | None => [] end.

Section U.
Variable uc : unicode.

Definition accept_crate (crate_name : str) : bool :=
  negb (mem_str crate_name IGNORED_BASE_CRATES) &&
  match crate_name with [] => false | c :: _ => u_is_lower uc c end.

(* ---------- visitors.rs:367-455 ItemUseIter ----------
   The explicit stack (head of the list = top = what `pop` returns). `base_name` is set by the
   FIRST UseTree::Path popped and never changes. A Name or a Glob met while base_name is None
   (`use foo;`, `use {a, b};`, `use *;`: a leaf without a leading path names a crate or module, not a
   type) is SKIPPED: resolve_crate_name() returns None and the loop `continue`s (since the /repo fix of
   visitors.rs:401, where base_name() used to `.expect("base name not in use statement?")`).
   Group: `self.use_tree.extend(g.items.iter())` pushes left to right, so the LAST element is popped
   first. The loop is not structurally recursive: fuel, "fuel" when exhausted. *)
Fixpoint use_tree_size (t : use_tree) : nat :=
  match t with
  | UPath _ s => S (use_tree_size s)
  | UGroup l => S ((fix sum (l : list use_tree) : nat := match l with [] => O | x :: r => (use_tree_size x + sum r)%nat end) l)
  | _ => 1%nat
  end.

Fixpoint item_use_iter (fuel : nat) (own : str) (stack : list use_tree) (base_name : option str) : outcome (list imported) :=
  match stack with
  | [] => Ok []
  | t :: rest =>
    match fuel with
    | O => Panic "fuel"
    | S fuel' =>
      match t with
      | UPath ident sub =>
        item_use_iter fuel' own (sub :: rest) (match base_name with None => Some ident | Some b => Some b end)
      | UName ident =>
        match base_name with
        | None => item_use_iter fuel' own rest base_name
        | Some b =>
          let base := resolve_crate own b in
          do more <- item_use_iter fuel' own rest base_name;
          Ok (if accept_crate base && accept_type uc ident
              then {| base_crate := base; type_name := ident |} :: more else more)
        end
      | URename _ _ => item_use_iter fuel' own rest base_name
      | UGlob =>
        match base_name with
        | None => item_use_iter fuel' own rest base_name
        | Some b =>
          let base := resolve_crate own b in
          do more <- item_use_iter fuel' own rest base_name;
          Ok (if accept_crate base then {| base_crate := base; type_name := GLOB |} :: more else more)
        end
      | UGroup items => item_use_iter fuel' own (rev items ++ rest) base_name
      end
    end
  end.

(* visitors.rs:457 parse_import *)
Definition parse_import (own : str) (t : use_tree) : outcome (list imported) :=
  item_use_iter (S (use_tree_size t)) own [t] None.

(* ---------- visitors.rs:203 visit_path: the candidate one syn::Path contributes ----------
   [p] as in fl_paths: a leading `::` is an empty first element; syn's `segments` do not contain it. *)
Definition path_segments (p : path) : path := match p with [] :: r => r | _ => p end.
Definition path_candidate (own : str) (ignored_types : list str) (p : path) : option imported :=
  match path_segments p with
  | [] => None
  | crate_candidate :: r =>
    let type_candidate := last r crate_candidate in
    if accept_crate crate_candidate && accept_type uc type_candidate &&
       negb (mem_str type_candidate ignored_types) && negb (str_eqb crate_candidate type_candidate)
    then Some {| base_crate := resolve_crate own crate_candidate; type_name := type_candidate |}
    else None
  end.

(* ---------- visitors.rs:97 reconcile_referenced_types ---------- *)
Definition variant_reference_names (v : rvariant) : list str :=
  match v with
  | VUnit _ => []
  | VTuple t _ => all_reference_type_names uc t
  | VAnon fs _ => flat_map (fun f => all_reference_type_names uc (fty f)) fs
  end.
Definition all_references (pd : parsed) : list str :=
  flat_map (fun s => flat_map (fun f => all_reference_type_names uc (fty f)) (sfields s)) (p_structs pd) ++
  flat_map (fun e => flat_map variant_reference_names (evariants (enum_shared e))) (p_enums pd) ++
  flat_map (fun a => all_reference_type_names uc (atype a)) (p_aliases pd) ++
  flat_map (fun c => all_reference_type_names uc (ctype c)) (p_consts pd).

Definition reconcile_referenced_types (ho_file : list imported -> list imported) (pd : parsed) : parsed :=
  let not_local := filter (fun n => negb (mem_str n (p_type_names pd))) (unique_strs (all_references pd) []) in
  let iter := ho_file (p_imports pd) in
  let find_type (name : str) : list imported := opt_list (find (fun imp => str_eqb (type_name imp) name) iter) in
  let diff := imp_extend [] (flat_map find_type not_local) in
  let globs := filter (fun imp => str_eqb (type_name imp) GLOB) (p_imports pd) in
  with_imports pd (imp_extend diff globs).

Section File.
Variable tstr : str -> option ty.
Variable target_os : list str.
Variable own : str.                       (* the crate of this file *)
Variable ignored_types : list str.        (* ParseContext::ignored_types *)

(* visit_item_use (visitors.rs:250) next to the item visitors of Model/Parse.v *)
Definition not_ignored (imp : imported) : bool := negb (mem_str (type_name imp) ignored_types).
Fixpoint visit_item_multi (it : item) (pd : parsed) : outcome parsed :=
  match it with
  | IUse t =>
    do found <- parse_import own t;
    Ok (with_imports pd (imp_extend (p_imports pd) (filter not_ignored found)))
  | INest inner =>
    (fix go (l : list item) (pd : parsed) : outcome parsed :=
       match l with [] => Ok pd | x :: r => do pd' <- visit_item_multi x pd; go r pd' end) inner pd
  | _ => visit_item uc tstr target_os it pd
  end.
Fixpoint visit_items_multi (l : list item) (pd : parsed) : outcome parsed :=
  match l with [] => Ok pd | x :: r => do pd' <- visit_item_multi x pd; visit_items_multi r pd' end.

(* parser.rs:182 parse with parse_context.multi_file = true, then TypeShareVisitor::parsed_data().
   visit_path never fails and only inserts into a set, so its contributions are added after the
   items (the first panic in visit order is still the one reported). *)
Definition parse_file_multi (ho_file : list imported -> list imported) (f : file) : outcome (option parsed) :=
  if negb (fl_marker f) then Ok None else
  do pd <- (if accepts target_os (fl_attrs f) then
              do pd1 <- visit_items_multi (fl_items f) empty_parsed;
              Ok (with_imports pd1 (imp_extend (p_imports pd1)
                                      (flat_map (fun p => opt_list (path_candidate own ignored_types p)) (fl_paths f))))
            else Ok empty_parsed);
  Ok (if parsed_is_empty pd then None else Some (reconcile_referenced_types ho_file pd)).
End File.

(* ---------- cli: parse_dir_entry over a workspace, in ARRIVAL order at the collector ----------
   A file outside any `src` is skipped (parse.rs:22). The first Err (syn error) or panic ends the run. *)
Record ws_entry := { we_path : list str; we_file : file; we_tstr : str -> option ty }.

Fixpoint parse_workspace (target_os ignored_types : list str) (ho_file : list imported -> list imported)
                         (ws : list ws_entry) : outcome (list (str * parsed)) :=
  match ws with
  | [] => Ok []
  | e :: r =>
    match find_crate_name (we_path e) with
    | None => parse_workspace target_os ignored_types ho_file r
    | Some cn =>
      do o <- parse_file_multi (we_tstr e) target_os cn ignored_types ho_file (we_file e);
      do rest <- parse_workspace target_os ignored_types ho_file r;
      Ok (match o with Some pd => (cn, pd) :: rest | None => rest end)
    end
  end.

(* the same sources in single-file mode (`-o`): every file is parsed with multi_file = false, the crate
   name is SINGLE_FILE_CRATE_NAME for all of them (parse.rs:26); results in arrival order *)
Fixpoint parse_workspace_single (target_os : list str) (ws : list ws_entry) : outcome (list parsed) :=
  match ws with
  | [] => Ok []
  | e :: r =>
    do o <- parse_file uc (we_tstr e) target_os (we_file e);
    do rest <- parse_workspace_single target_os r;
    Ok (match o with Some pd => pd :: rest | None => rest end)
  end.
End U.

(* the files multi-file mode looks at: those under some <crate>/src *)
Definition crate_entries (ws : list ws_entry) : list ws_entry :=
  filter (fun e => match find_crate_name (we_path e) with Some _ => true | None => false end) ws.

(* the per-crate import set (the union the collector's `extend` builds) in iteration order *)
Definition imports_iter (ho_crate : list imported -> list imported) (pd : parsed) : list imported :=
  ho_crate (imp_extend [] (p_imports pd)).
Definition order_imports (ho_crate : list imported -> list imported) (cs : crates) : crates :=
  map (fun c => (fst c, with_imports (snd c) (imports_iter ho_crate (snd c)))) cs.

(* main.rs:122-139: parallel_parse (collector), reconcile_aliases, all_types *)
Definition multi_crates (ho_crate : list imported -> list imported) (arrivals : list (str * parsed)) : crates :=
  reconcile_aliases (order_imports ho_crate (collect arrivals)).

(* main.rs:248 check_parse_errors: any recorded error fails the run before anything is written *)
Definition first_parse_error (cs : crates) : option perr :=
  match flat_map (fun c => p_errors (snd c)) cs with e :: _ => Some e | [] => None end.

(* what used_imports returns for one crate of the reconciled map *)
Definition crate_imports (hc : crate_types -> crate_types) (cs : crates) (cn : str) (pd : parsed) : scoped :=
  used_imports (hc (all_types cs)) cn (p_imports pd).

(* ---------- the partition: which file receives which items (all six languages) ---------- *)
Record out_plan := { op_file : str; op_crate : str; op_imports : scoped; op_data : parsed }.
Definition multi_plan (l : lang) (hc : crate_types -> crate_types) (cs : crates) : list out_plan :=
  map (fun c => {| op_file := output_file_name l (fst c); op_crate := fst c;
                   op_imports := crate_imports hc cs (fst c) (snd c); op_data := snd c |}) cs.

(* ---------- multi-file text ---------- *)
(* typescript.rs:246 write_imports *)
Definition ts_write_imports (imports : scoped) : str :=
  flat_map (fun kv => lit "import { " ++ join (lit ", ") (snd kv) ++ lit " } from ""./" ++ fst kv ++ lit """;" ++ nl) imports ++ nl.

(* Language::generate_types (mod.rs:160) with data.multi_file. The TypeScript value lives as long as
   the run: types_for_custom_json_translation is NOT cleared between files, so the state is threaded. *)
Definition ts_generate_multi (uc : unicode) (cfg : ts_config) (st0 : ts_state) (imports : scoped) (pd : parsed)
  : outcome (str * ts_state) :=
  do items <- topsort (items_of pd);
  match mconcat (ts_write_item uc cfg) items st0 with
  | Ok (body, st) => Ok (ts_begin_file cfg ++ ts_write_imports imports ++ body ++ ts_end_file st, st)
  | Err e => Err e
  | Panic p => Panic p
  end.

(* kotlin.rs:101 begin_file with parsed_data.multi_file: `package <package>.<crate>` *)
Definition kt_begin_file_multi (cfg : kt_config) (crate_name : str) : str :=
  if match kt_package cfg with [] => true | _ => false end then []
  else
    (if kt_no_version_header cfg then []
     else lit "/**" ++ nl ++ lit " * Generated by typeshare " ++ kt_version cfg ++ nl ++ lit " */" ++ nl ++ nl) ++
    lit "package " ++ kt_package cfg ++ lit "." ++ crate_name ++ nl ++ nl ++
    lit "import kotlinx.serialization.Serializable" ++ nl ++
    lit "import kotlinx.serialization.SerialName" ++ nl ++ nl.
(* kotlin.rs:293 write_imports: `import {package}.{crate}.{prefix}{name}` - a class is declared under the
   prefixed name, so that is the name imported (fix 26) *)
Definition kt_write_imports (cfg : kt_config) (imports : scoped) : str :=
  flat_map (fun kv => flat_map (fun t => lit "import " ++ kt_package cfg ++ lit "." ++ fst kv ++ lit "." ++ kt_prefix cfg ++ t ++ nl) (snd kv)) imports ++ nl.
Definition kt_generate_multi (uc : unicode) (cfg : kt_config) (crate_name : str) (imports : scoped) (pd : parsed) : outcome str :=
  do items <- topsort (items_of pd);
  do body <- kt_concat (kt_write_item cfg) items;
  Ok (kt_begin_file_multi cfg crate_name ++ kt_write_imports cfg imports ++ body).

(* Swift: write_imports writes nothing (swift.rs:526); end_file writes CodableVoid only when
   !multi_file (swift.rs:239); should_emit_codable_void is never reset, post_generation writes
   Codable.swift when it is set (swift.rs:535, :768). *)
Definition sw_generate_multi (uc : unicode) (cfg : sw_config) (st0 : sw_state) (pd : parsed) : outcome (str * sw_state) :=
  do items <- topsort (items_of pd);
  match mconcat (sw_write_item uc cfg) items st0 with
  | Ok (body, st) => Ok (sw_begin_file cfg ++ body, st)
  | Err e => Err e
  | Panic p => Panic p
  end.
(* get_codable_contents (): what sw_end_file prints without write_codable's final newline *)
Definition sw_codable_contents (cfg : sw_config) : str := removelast (sw_end_file cfg true).

(* Go and Python override generate_types and never call write_imports; their import tables live
   in the language value and are not cleared between files. Scala's override is stateless. *)
Definition go_generate_multi (uc : unicode) (cfg : go_config) (st0 : go_state) (pd : parsed) : outcome (str * go_state) :=
  do items <- topsort (items_of pd);
  let custom_structs := go_types_mapping_to_struct items in
  let run : M go_state str :=
    mdo header <- go_begin_file cfg;
    mdo body <- mconcat (go_write_item uc cfg custom_structs) items;
    mdo imports <- mget;
    ret (header ++ go_write_all_imports imports ++ body) in
  run st0.
Definition py_generate_multi (uc : unicode) (cfg : py_config) (st0 : py_state) (pd : parsed) : outcome (str * py_state) :=
  do items <- topsort (items_of pd);
  match mconcat (py_write_item uc cfg) items st0 with
  | Ok (body, st) => Ok (py_begin_file cfg ++ py_write_all_imports st ++ py_write_custom_translations st ++ body, st)
  | Err e => Err e
  | Panic p => Panic p
  end.

(* ---------- writer.rs:37 write_multiple_files ----------
   The writer itself (check_write_file, the loop over the crates in BTreeMap order that stops at the
   first failure and leaves the earlier files behind, Swift's post_generation) is Model/Writer.v; it
   takes the generated bytes as an input.  Here: that input.  The language value lives as long as
   the run, so whatever it accumulates is threaded from one crate to the next. *)
Section Generate.
Context {St : Type}.
Variable gen : St -> str -> scoped -> parsed -> outcome (str * St).   (* state, crate, imports, data *)
Fixpoint generate_crates (st : St) (plan : list out_plan) : list (str * Writer.gen_result) * outcome St :=
  match plan with
  | [] => ([], Ok st)
  | p :: r =>
    match gen st (op_crate p) (op_imports p) (op_data p) with
    | Ok (text, st') => let '(rest, fin) := generate_crates st' r in ((op_file p, Writer.Generated text) :: rest, fin)
    | Err e => ([(op_file p, Writer.GenFailed)], Err e)
    | Panic s => ([(op_file p, Writer.GenFailed)], Panic s)
    end
  end.
End Generate.

(* what the run hands to the writer: MultiFile folder [(file_name, generated)] codable *)
Definition multi_outputs (folder : str) (generated : list (str * Writer.gen_result)) (codable : option str) : Writer.outputs :=
  Writer.MultiFile folder generated codable.
