(* Results of Rust code that may return Err or panic. Every partial operation of the modelled
   Rust code (index, unwrap, slicing, todo!, expect) is an explicit [Panic site]. *)
From Coq Require Import String.
From TS Require Import Model.Str.

(* ParseError / RustTypeParseError / RustTypeFormatError, constructor by constructor. *)
Inductive perr :=
| ESyn                                   (* syn::Error *)
| EUnsupportedType (ids : list str)      (* RustTypeParseError::UnsupportedType *)
| EUnexpectedToken                       (* RustTypeParseError::UnexpectedToken *)
| EParameterizedTuple                    (* RustTypeParseError::UnexpectedParameterizedTuple *)
| ENumericLiteral                        (* RustTypeParseError::NumericLiteral *)
| EUnsupportedLanguage (s : str)
| EUnsupportedTypeP (s : str)            (* ParseError::UnsupportedType *)
| EComplexTupleStruct
| EMultipleUnnamed
| ESerdeTagNotAllowed (e : str)
| ESerdeContentNotAllowed (e : str)
| ESerdeTagRequired (e : str)
| ESerdeContentRequired (e : str)
| EConstExprInvalid
| EConstTypeInvalid
| ESerdeFlatten
| EIO
| EGenericsForbiddenInGo (s : str)       (* RustTypeFormatError *)
| EGenericKeyForbiddenInTS (s : str)
| EUnsupportedSpecialType (s : str)
(* std::io::Error values the back ends return from Language::write_* / begin_file (reported by the CLI as
   "typeshare failed to generate types: <message>", exit 1) *)
| EConstUnsupported (name : str)         (* io::ErrorKind::Unsupported: "constants are not supported for <Lang>: cannot generate `<name>`" (kotlin.rs, swift.rs write_const) *)
| EPackageRequired.                      (* io::ErrorKind::InvalidInput: "a package name must be provided for Scala (--scala-package or typeshare.toml)" (scala.rs begin_file) *)

Inductive outcome (A : Type) :=
| Ok (a : A)
| Err (e : perr)
| Panic (site : string).
Arguments Ok {A} a.
Arguments Err {A} e.
Arguments Panic {A} site.

Definition bind {A B} (x : outcome A) (f : A -> outcome B) : outcome B :=
  match x with
  | Ok a => f a
  | Err e => Err e
  | Panic s => Panic s
  end.
Notation "'do' x <- m ; k" := (bind m (fun x => k)) (at level 200, x name, m at level 100, k at level 200).

Definition omap {A B} (f : A -> B) (x : outcome A) : outcome B := bind x (fun a => Ok (f a)).

(* iterator.map(f).collect::<Result<Vec<_>,_>>() : stops at the first Err (or panic) *)
Fixpoint mapM {A B} (f : A -> outcome B) (l : list A) : outcome (list B) :=
  match l with
  | nil => Ok nil
  | x :: r => do y <- f x; do ys <- mapM f r; Ok (y :: ys)
  end.

Definition is_ok {A} (x : outcome A) : bool := match x with Ok _ => true | _ => false end.
Definition is_panic {A} (x : outcome A) : bool := match x with Panic _ => true | _ => false end.
