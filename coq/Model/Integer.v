(* lib/src/integer.rs: I54 / U53 over Z with explicit 64-bit ranges and explicit `as` wrap-around.
   A value of type U53 / I54 is represented by its inner integer. *)
From Coq Require Import ZArith Bool.
From TS Require Import Model.Str.
Local Open Scope Z_scope.

Definition U53_MAX : Z := 9007199254740991.
Definition I54_MAX : Z := U53_MAX.                 (* U53_MAX as i64 *)
Definition I54_MIN : Z := -9007199254740991.

Definition in_u64 (v:Z) : bool := (0 <=? v) && (v <? 2^64).
Definition in_i64 (v:Z) : bool := (-(2^63) <=? v) && (v <? 2^63).

(* truncated_type!: TryFrom<$untruncated>: `if !($min..=$max).contains(&value) { Err }` *)
Definition u53_try_from (v:Z) : option Z := if negb ((0 <=? v) && (v <=? U53_MAX)) then None else Some v.
Definition i54_try_from (v:Z) : option Z := if negb ((I54_MIN <=? v) && (v <=? I54_MAX)) then None else Some v.

(* From<$truncated> for $untruncated *)
Definition u53_into_u64 (x:Z) : Z := x.
Definition i54_into_i64 (x:Z) : Z := x.

(* Rust `as` between integer types: wrap modulo 2^bits (two's complement for signed targets) *)
Definition wrap_unsigned (bits:Z) (x:Z) : Z := x mod 2^bits.
Definition wrap_signed (bits:Z) (x:Z) : Z :=
  let m := x mod 2^bits in if m <? 2^(bits-1) then m else m - 2^bits.

(* impl_truncated_type_from!: From<narrow> = value.into() (value preserving widening) *)
Definition widen (v:Z) : Z := v.
(* TryFrom<$from> for $into: range check against $into::MIN/MAX, then `value.0 as $into` *)
Definition narrow_unsigned (bits:Z) (x:Z) : option Z :=
  if (x <? 0) || (x >? 2^bits - 1) then None else Some (wrap_unsigned bits x).
Definition narrow_signed (bits:Z) (x:Z) : option Z :=
  if (x <? -(2^(bits-1))) || (x >? 2^(bits-1) - 1) then None else Some (wrap_signed bits x).

(* usize_from_u53_saturated: min(value, usize::MAX as u64) as usize, for a pointer width *)
Definition usize_from_u53_saturated (ptr_bits:Z) (x:Z) : Z :=
  wrap_unsigned ptr_bits (Z.min x (wrap_unsigned 64 (2^ptr_bits - 1))).

(* derive(PartialEq, Eq, PartialOrd, Ord) on a one-field tuple struct compares the field *)
Definition int_cmp (a b : Z) : comparison := Z.compare a b.
Definition int_eqb (a b : Z) : bool := Z.eqb a b.

(* ---- serde ----
   Serialize (derive on a newtype struct) writes the inner integer as a JSON number.
   Deserialize is `#[serde(try_from = "u64" / "i64")]`: deserialize the wide integer, then TryFrom.
   serde_json's classification of a number literal  -?digits(.digits)?([eE][+-]?digits)?  :
   no fraction/exponent and fits u64 -> PosInt; negative, non-zero, fits i64 -> NegInt;
   everything else (fraction, exponent, "-0", out of 64-bit range) -> Float. *)
Record jlit := { j_neg : bool; j_int : Z (* digits as a natural *); j_float : bool (* has . or e *) }.
Inductive jnum := PosInt (n:Z) | NegInt (z:Z) | JFloat.

Definition classify (l:jlit) : jnum :=
  if j_float l then JFloat
  else if j_neg l then
    (if (j_int l =? 0) then JFloat else if j_int l <=? 2^63 then NegInt (- j_int l) else JFloat)
  else if j_int l <? 2^64 then PosInt (j_int l) else JFloat.

(* serde's primitive visitors: u64 accepts PosInt; i64 accepts NegInt and PosInt <= i64::MAX;
   a float is "invalid type" for both *)
Definition deser_u64 (l:jlit) : option Z :=
  match classify l with PosInt n => Some n | _ => None end.
Definition deser_i64 (l:jlit) : option Z :=
  match classify l with
  | PosInt n => if n <? 2^63 then Some n else None
  | NegInt z => Some z
  | JFloat => None
  end.
Definition deser_u53 (l:jlit) : option Z := match deser_u64 l with Some v => u53_try_from v | None => None end.
Definition deser_i54 (l:jlit) : option Z := match deser_i64 l with Some v => i54_try_from v | None => None end.

(* to_string of the inner integer *)
Definition ser_int (x:Z) : jlit := {| j_neg := x <? 0; j_int := Z.abs x; j_float := false |}.
Definition ser_text (x:Z) : str := dec_of_Z x.
