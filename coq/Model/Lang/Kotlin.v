(* core/src/language/kotlin.rs, in the shape  emit = render ∘ decls  (Model/Lang/Decl.v):
     kt_texp / kt_member_of / kt_entry_of / kt_variant_of / kt_decl_of   DECISIONS: abstract declarations from the IR
     kt_show / kt_render_member / kt_render_variant / kt_render_decl     LAYOUT: fixed template text around decided pieces
     kt_obs_member / kt_obs_variant / kt_obs / kt_file_decls             the language-independent observation
   The Kotlin generator keeps no state while printing: the fields of `struct Kotlin` are configuration
   only, nothing is buffered and nothing is written out of order, so the monad is [outcome] itself
   (Err = the io::Error that wraps a RustTypeFormatError, or the one write_const returns). *)
From Coq Require Import String.
From TS Require Import Model.Str Model.Outcome Model.Unicode Model.Types Model.Parse Model.Rename
                       Model.TopsortAlgo Model.Topsort Model.Lang.Common Model.Lang.Decl Model.Lang.TypeScript.

(* kotlin.rs:18 pub struct Kotlin; kt_version = env!("CARGO_PKG_VERSION").
   module_name is a pub field the CLI sets, but no function of the generator reads it. *)
Record kt_config := { kt_package : str; kt_module_name : str; kt_prefix : str; kt_type_mappings : tmap;
                      kt_no_version_header : bool; kt_version : str }.

(* kotlin.rs:14 *)
Definition KT_INLINE := lit "JvmInline".

(* kotlin.rs:306 *)
Inductive kt_visibility := KtPublic | KtPrivate.

(* decorators.get(&DecoratorKind::..) on HashMap<DecoratorKind, BTreeSet<String>> *)
Fixpoint kt_decmap_get (k : deckind) (m : decmap) : option (list str) :=
  match m with [] => None | (a, v) :: r => if deckind_eqb a k then Some v else kt_decmap_get k r end.

(* kotlin.rs:496 is_inline *)
Definition kt_is_inline (decorators : decmap) : bool :=
  match kt_decmap_get DKKotlin decorators with
  | Some kotlin_decorators => mem_str KT_INLINE kotlin_decorators
  | None => false
  end.

(* kotlin.rs:475 write_comment, kotlin.rs:485 write_comments (layout) *)
Definition kt_write_comment (indent : nat) (comment : str) : str :=
  tabs indent ++ lit "/// " ++ comment ++ nl.
Definition kt_write_comments (indent : nat) (comments : list str) : str :=
  List.concat (map (kt_write_comment indent) comments).

(* parser.rs:855 remove_dash_from_identifier *)
Definition kt_remove_dash_from_identifier (name : str) : str := replace_char ch_dash ch_us name.

(* try_for_each writing text: the pieces in order, stopping at the first Err / panic *)
Definition kt_concat {A} (f : A -> outcome str) (l : list A) : outcome str :=
  do parts <- mapM f l; Ok (List.concat parts).

(* ---- target type expressions: layout. [kt_texp] (below) builds XName / XOpt / XRaw only:
     XName n args   user types (prefix already applied), generic parameters, builtins, and the
                    generic containers List<T>, HashMap<K, V>
     XOpt e         Option<T>, printed  T?
     XRaw t         a type_mappings result or a #[typeshare(kotlin(type = ".."))] override, verbatim
   the other three constructors are printed the way Kotlin would spell them, for totality only. *)
Fixpoint kt_show (x : texp) : str :=
  match x with
  | XName n [] => n
  | XName n args => n ++ lit "<" ++ join (lit ", ") (map kt_show args) ++ lit ">"
  | XOpt e => kt_show e ++ lit "?"
  | XRaw t => t
  | XSeq e => lit "List<" ++ kt_show e ++ lit ">"
  | XFixed es => lit "List<" ++ join (lit ", ") (map kt_show es) ++ lit ">"
  | XMap k v => lit "HashMap<" ++ kt_show k ++ lit ", " ++ kt_show v ++ lit ">"
  end.

(* ---- declarations: the values the decision layer computes and the layout layer prints ---- *)

(* what follows the type of a constructor parameter (kotlin.rs:457-460) *)
Inductive kt_default :=
| KtRequired            (* nothing *)
| KtNullableDefault     (* "? = null": #[serde(default)] on a field whose type is not Option<_> *)
| KtNullDefault.        (* " = null":  the field's type is Option<_> (its "?" is the XOpt of km_type) *)

(* one `val` of a primary constructor (write_element) *)
Record kt_member := {
  km_docs : list str;
  km_serial_name : option str;     (* Some k: the line @SerialName("k") precedes the val *)
  km_visibility : kt_visibility;
  km_name : str;                   (* identifier after `val` *)
  km_type : texp;                  (* the type as printed, before the default suffix *)
  km_default : kt_default }.

(* one entry of an `enum class` (unit enum) *)
Record kt_entry := { ke_docs : list str; ke_name : str; ke_wire : str }.

(* what a subclass of a `sealed class` (algebraic enum) carries *)
Inductive kt_payload :=
| KTPUnit                                         (* object Name *)
| KTPNewtype (ty : texp)                          (* data class Name<G>(val <content>: ty) *)
| KTPInner (inner : str) (generics : list str).   (* data class Name<G>(val <content>: inner<generics>) *)

Record kt_variant := {
  kv_docs : list str;
  kv_wire : str;                   (* text between the quotes of @SerialName("..") *)
  kv_name : str;                   (* object / data class name *)
  kv_payload : kt_payload;
  kv_parent : str }.               (* the sealed class named after ": " *)

(* one emitted top-level definition *)
Inductive kt_decl :=
| KTObject (docs : list str) (name : str)
| KTDataClass (docs : list str) (name : str) (generics : list str) (ms : list kt_member)
              (to_string : option str)             (* Some s: redacted, toString() returns the literal s *)
| KTTypeAlias (docs : list str) (name : str) (generics : list str) (ty : texp)
| KTValueClass (docs : list str) (name : str) (m : kt_member) (redacted : bool)
| KTEnumClass (docs : list str) (name : str) (generics : list str) (es : list kt_entry)
| KTSealedClass (docs : list str) (name : str) (generics : list str) (content : str) (vs : list kt_variant).

(* the file header (begin_file): None = nothing at all is written, not even the imports *)
Record kt_header := { kh_version : option str; kh_package : str;
                      kh_imports : list (str * str) }.     (* (package, simple name) of each fixed import *)
Definition kt_qualified (i : str * str) : str := fst i ++ lit "." ++ snd i.

Section KT.
Variable uc : unicode.
Variable cfg : kt_config.

(* ================= decisions ================= *)

(* kotlin.rs:37 format_simple_type, the two unmapped cases: a generic parameter is kept, every other
   name is a user type and gets the prefix *)
Definition kt_type_name (base : str) (generic_types : list str) : str :=
  if mem_str base generic_types then base else kt_prefix cfg ++ base.

(* kotlin.rs:37 format_simple_type *)
Definition kt_format_simple_type (base : str) (generic_types : list str) : texp :=
  match tmap_get (kt_type_mappings cfg) base with
  | Some mapped => XRaw mapped
  | None => XName (kt_type_name base generic_types) []
  end.

(* mod.rs:207 format_type, mod.rs:242 format_generic_type, mod.rs:268 format_generic_parameters
   (defaults) and kotlin.rs:51 format_special_type. Unlike TypeScript, special types never consult
   type_mappings. *)
Fixpoint kt_texp (generic_types : list str) (t : rtype) : outcome texp :=
  match t with
  | RSimple id => Ok (kt_format_simple_type id generic_types)
  | RGeneric id ps =>
    match tmap_get (kt_type_mappings cfg) id with
    | Some mapped => Ok (XRaw mapped)              (* a mapped generic type drops its arguments *)
    | None =>
      do parameters <- (fix go (l : list rtype) : outcome (list texp) :=
                          match l with
                          | [] => Ok []
                          | x :: r => do y <- kt_texp generic_types x; do ys <- go r; Ok (y :: ys)
                          end) ps;
      (* format_simple_type again; the name is not mapped here *)
      Ok (XName (kt_type_name id generic_types) parameters)
    end
  | RVec x | RArray x _ | RSlice x =>                                           (* kotlin.rs:57-65 *)
    do e <- kt_texp generic_types x; Ok (XName (lit "List") [e])
  | ROption x => do e <- kt_texp generic_types x; Ok (XOpt e)                   (* kotlin.rs:66 *)
  | RHashMap k v =>                                                             (* kotlin.rs:69 *)
    do ks <- kt_texp generic_types k;
    do vs <- kt_texp generic_types v;
    Ok (XName (lit "HashMap") [ks; vs])
  | RPrim p =>
    match p with
    | PUnit => Ok (XName (lit "Unit") [])
    | PString | PChar => Ok (XName (lit "String") [])
    | PI8 => Ok (XName (lit "Byte") [])
    | PI16 => Ok (XName (lit "Short") [])
    | PISize | PI32 => Ok (XName (lit "Int") [])
    | PI54 | PI64 => Ok (XName (lit "Long") [])
    | PU8 => Ok (XName (lit "UByte") [])
    | PU16 => Ok (XName (lit "UShort") [])
    | PUSize | PU32 => Ok (XName (lit "UInt") [])
    | PU53 | PU64 => Ok (XName (lit "ULong") [])
    | PBool => Ok (XName (lit "Boolean") [])
    | PF32 => Ok (XName (lit "Float") [])
    | PF64 => Ok (XName (lit "Double") [])
    | PDateTime => Err (EUnsupportedSpecialType (rtype_display t))              (* kotlin.rs:93 *)
    end
  end.

Definition kt_format_type (generic_types : list str) (t : rtype) : outcome str :=
  do x <- kt_texp generic_types t; Ok (kt_show x).

(* kotlin.rs:101 begin_file (parsed_data.multi_file = false): decisions *)
Definition kt_header_of : option kt_header :=
  if match kt_package cfg with [] => true | _ => false end then None
  else Some {| kh_version := if kt_no_version_header cfg then None else Some (kt_version cfg);
               kh_package := kt_package cfg;
               kh_imports := [(lit "kotlinx.serialization", lit "Serializable");
                              (lit "kotlinx.serialization", lit "SerialName")] |}.

(* kotlin.rs:432 write_element: decisions *)
Definition kt_member_of (f : rfield) (generic_types : list str) (requires_serial_name : bool)
                        (visibility : kt_visibility) : outcome kt_member :=
  do ty <- match type_override f Kotlin with
           | Some type_override => Ok (XRaw type_override)
           | None => kt_texp generic_types (fty f)
           end;
  Ok {| km_docs := fcomments f;
        km_serial_name := if requires_serial_name then Some (renamed (fid f)) else None;
        km_visibility := visibility;
        km_name := kt_remove_dash_from_identifier (renamed (fid f));
        km_type := ty;
        km_default := if has_default f && negb (is_optional (fty f)) then KtNullableDefault
                      else if is_optional (fty f) then KtNullDefault else KtRequired |}.

(* kotlin.rs:186 write_struct: decisions. The definition name is prefix + id.renamed. *)
Definition kt_struct_decl (rs : rstruct) : outcome kt_decl :=
  match sfields rs with
  | [] => Ok (KTObject (scomments rs) (kt_prefix cfg ++ renamed (sid rs)))
  | _ =>
    let requires_serial_name := existsb (fun f => contains_char ch_dash (renamed (fid f))) (sfields rs) in
    do ms <- mapM (fun f => kt_member_of f (sgenerics rs) requires_serial_name KtPublic) (sfields rs);
    Ok (KTDataClass (scomments rs) (kt_prefix cfg ++ renamed (sid rs)) (sgenerics rs) ms
                    (if sredacted rs then Some (renamed (sid rs)) else None))
  end.

(* kotlin.rs:123 write_type_alias: decisions. A typealias is named prefix + id.ORIGINAL (type_name),
   a value class prefix + id.RENAMED. *)
Definition kt_alias_decl (a : ralias) : outcome kt_decl :=
  let type_name := kt_prefix cfg ++ original (aid a) in
  if kt_is_inline (adecs a) then
    do m <- kt_member_of
              {| fid := {| original := lit "value"; renamed := lit "value"; via_serde_rename := false |};
                 fty := atype a; fcomments := []; has_default := false; fdecs := [] |}
              [] false (if aredacted a then KtPrivate else KtPublic);
    Ok (KTValueClass (acomments a) (kt_prefix cfg ++ renamed (aid a)) m (aredacted a))
  else
    do ty <- kt_texp (agenerics a) (atype a);
    Ok (KTTypeAlias (acomments a) type_name (agenerics a) ty).

(* mod.rs:366 write_types_for_anonymous_structs with the closure of kotlin.rs:249: one helper struct
   per struct variant, DEFINED under prefix + enum.id.RENAMED + variant.id.original + "Inner" *)
Definition kt_inner_decls (e : renum) : outcome (list kt_decl) :=
  let sh := enum_shared e in
  do dss <- mapM (fun v => match v with
                           | VAnon fields vsh =>
                             let struct_name := renamed (eid sh) ++ original (vid vsh) ++ lit "Inner" in
                             do d <- kt_struct_decl (anon_struct sh struct_name (original (vid vsh)) fields);
                             Ok [d]
                           | _ => Ok []
                           end) (evariants sh);
  Ok (List.concat dss).

(* kotlin.rs:312 write_enum_variants, one iteration of the loop over a unit enum *)
Definition kt_entry_of (v : rvariant) : outcome kt_entry :=
  let vsh := variant_shared v in
  Ok {| ke_docs := vcomments vsh; ke_name := original (vid vsh); ke_wire := renamed (vid vsh) |}.

(* kotlin.rs:331-425, one iteration of the loop over an algebraic enum. The helper struct of a struct
   variant is REFERRED to as prefix + enum.id.ORIGINAL + variant.id.original + "Inner", and the sealed
   parent as prefix + enum.id.ORIGINAL. *)
Definition kt_variant_of (sh : eshared) (v : rvariant) : outcome kt_variant :=
  let vsh := variant_shared v in
  let variant_name :=                                                           (* kotlin.rs:337 *)
    let variant_name := to_pascal_case (original (vid vsh)) in
    match variant_name with
    | c :: _ => if is_adigit c then lit "_" ++ variant_name else variant_name
    | [] => variant_name
    end in
  do payload <- match v with
                | VUnit _ => Ok KTPUnit
                | VTuple ty _ => do variant_type <- kt_texp (egenerics sh) ty; Ok (KTPNewtype variant_type)
                | VAnon fields shared =>
                  Ok (KTPInner (kt_prefix cfg ++ original (eid sh) ++ original (vid shared) ++ lit "Inner")
                               (anon_struct_generics (egenerics sh) fields))      (* kotlin.rs:386 *)
                end;
  Ok {| kv_docs := vcomments vsh;
        kv_wire := renamed (vid vsh);                                           (* kotlin.rs:332 *)
        kv_name := variant_name;
        kv_payload := payload;
        kv_parent := kt_prefix cfg ++ original (eid sh) |}.

(* kotlin.rs:247 write_enum: decisions. The helper structs come first, then the enum itself,
   defined under prefix + id.renamed. *)
Definition kt_enum_decls (e : renum) : outcome (list kt_decl) :=
  let sh := enum_shared e in
  do anon <- kt_inner_decls e;
  do d <- match e with
          | EUnit shared =>
            do es <- mapM kt_entry_of (evariants shared);
            Ok (KTEnumClass (ecomments sh) (kt_prefix cfg ++ renamed (eid sh)) (egenerics sh) es)
          | EAlgebraic _ content_key shared =>
            do vs <- mapM (kt_variant_of shared) (evariants shared);
            Ok (KTSealedClass (ecomments sh) (kt_prefix cfg ++ renamed (eid sh)) (egenerics sh) content_key vs)
          end;
  Ok (anon ++ [d]).

(* the definitions emitted for one source item, in output order. kotlin.rs:182 write_const returns
   Err(io::Error(Unsupported, "constants are not supported for Kotlin: cannot generate `NAME`")) (the /repo fix
   of the todo!() at kotlin.rs:183) *)
Definition kt_decl_of (it : ritem) : outcome (list kt_decl) :=
  match it with
  | ItEnum e => kt_enum_decls e
  | ItStruct s => do d <- kt_struct_decl s; Ok [d]
  | ItAlias a => do d <- kt_alias_decl a; Ok [d]
  | ItConst c => Err (EConstUnsupported (original (cid c)))
  end.

(* ================= layout ================= *)

(* kotlin.rs:101 begin_file *)
Definition kt_render_header (h : option kt_header) : str :=
  match h with
  | None => []
  | Some h =>
    (match kh_version h with
     | None => []
     | Some v => lit "/**" ++ nl ++ lit " * Generated by typeshare " ++ v ++ nl ++ lit " */" ++ nl ++ nl
     end) ++
    lit "package " ++ kh_package h ++ nl ++ nl ++
    List.concat (map (fun i => lit "import " ++ kt_qualified i ++ nl) (kh_imports h)) ++ nl
  end.

(* kotlin.rs:432 write_element (no trailing newline) *)
Definition kt_render_member (m : kt_member) : str :=
  kt_write_comments 1 (km_docs m) ++
  (match km_serial_name m with
   | Some k => [ch_tab] ++ lit "@SerialName(" ++ debug_str k ++ lit ")" ++ nl
   | None => []
   end) ++
  (match km_visibility m with KtPublic => [ch_tab] ++ lit "val " | KtPrivate => [ch_tab] ++ lit "private val " end) ++
  km_name m ++ lit ": " ++ kt_show (km_type m) ++
  (match km_default m with
   | KtNullableDefault => lit "? = null"
   | KtNullDefault => lit " = null"
   | KtRequired => []
   end).

(* kotlin.rs:315-324 *)
Definition kt_render_entry (e : kt_entry) : str :=
  kt_write_comments 1 (ke_docs e) ++
  [ch_tab] ++ lit "@SerialName(" ++ debug_str (ke_wire e) ++ lit ")" ++ nl ++
  [ch_tab] ++ ke_name e ++ lit "(" ++ debug_str (ke_wire e) ++ lit ")," ++ nl.

(* kotlin.rs:331-425. [content] is spelled once in every variant that is not an object. The wire
   name is put between quotes as it is (format!(r##""{}""##)), not through {:?}. *)
Definition kt_render_variant (content : str) (generics : list str) (v : kt_variant) : str :=
  let gp := generics_suffix generics in
  kt_write_comments 1 (kv_docs v) ++
  [ch_tab] ++ lit "@Serializable" ++ nl ++
  [ch_tab] ++ lit "@SerialName(" ++ ([ch_dq] ++ kv_wire v ++ [ch_dq]) ++ lit ")" ++ nl ++
  match kv_payload v with
  | KTPUnit => [ch_tab] ++ lit "object " ++ kv_name v
  | KTPNewtype ty =>
    [ch_tab] ++ lit "data class " ++ kv_name v ++ gp ++ lit "(" ++
    lit "val " ++ content ++ lit ": " ++ kt_show ty ++ lit ")"
  | KTPInner inner gs =>
    [ch_tab] ++ lit "data class " ++ kv_name v ++ gp ++ lit "(" ++
    lit "val " ++ content ++ lit ": " ++ inner ++ generics_suffix gs ++ lit ")"
  end ++
  lit ": " ++ kv_parent v ++ gp ++ lit "()" ++ nl.

Definition kt_render_decl (d : kt_decl) : str :=
  match d with
  | KTObject docs name =>                                                       (* kotlin.rs:192 *)
    kt_write_comments 0 docs ++ lit "@Serializable" ++ nl ++ lit "object " ++ name ++ nl ++ nl
  | KTDataClass docs name gs ms to_string =>                                    (* kotlin.rs:194-242 *)
    kt_write_comments 0 docs ++ lit "@Serializable" ++ nl ++
    lit "data class " ++ name ++ generics_suffix gs ++ lit " (" ++ nl ++
    (* split_last: every element but the last is followed by ",\n", the last by "\n" *)
    join (lit "," ++ nl) (map kt_render_member ms) ++ nl ++
    (match to_string with
     | Some s =>
       lit ") {" ++ nl ++
       [ch_tab] ++ lit "override fun toString(): String = " ++ debug_str s ++ nl ++
       lit "}" ++ nl
     | None => lit ")" ++ nl
     end) ++
    nl
  | KTTypeAlias docs name gs ty =>                                              (* kotlin.rs:167 *)
    kt_write_comments 0 docs ++
    lit "typealias " ++ name ++ generics_suffix gs ++ lit " = " ++ kt_show ty ++ nl ++ nl
  | KTValueClass docs name m redacted =>                                        (* kotlin.rs:128-165 *)
    kt_write_comments 0 docs ++
    lit "@Serializable" ++ nl ++ lit "@JvmInline" ++ nl ++
    lit "value class " ++ name ++ lit "(" ++ nl ++
    kt_render_member m ++ nl ++
    (if redacted then
       lit ") {" ++ nl ++ [ch_tab] ++ lit "fun unwrap() = value" ++ nl ++ nl ++
       [ch_tab] ++ lit "override fun toString(): String = ""***""" ++ nl ++ lit "}" ++ nl
     else lit ")" ++ nl) ++
    nl
  | KTEnumClass docs name gs es =>                                              (* kotlin.rs:253-285 *)
    kt_write_comments 0 docs ++ lit "@Serializable" ++ nl ++
    lit "enum class " ++ name ++ generics_suffix gs ++ lit "(val string: String) " ++
    lit "{" ++ nl ++ List.concat (map kt_render_entry es) ++ lit "}" ++ nl ++ nl
  | KTSealedClass docs name gs content vs =>
    kt_write_comments 0 docs ++ lit "@Serializable" ++ nl ++
    lit "sealed class " ++ name ++ generics_suffix gs ++ lit " " ++
    lit "{" ++ nl ++ List.concat (map (kt_render_variant content gs) vs) ++ lit "}" ++ nl ++ nl
  end.

(* write_struct / write_enum (with write_types_for_anonymous_structs) / write_type_alias /
   write_const = render of the declarations *)
Definition kt_write_item (it : ritem) : outcome str :=
  do ds <- kt_decl_of it; Ok (List.concat (map kt_render_decl ds)).

Definition kt_begin_file : str := kt_render_header kt_header_of.

(* Language::generate_types (mod.rs:160, not overridden), single-file (no imports); end_file is the
   default (writes nothing). No Unicode-aware std call is reached from kotlin.rs (to_pascal_case and
   is_ascii_digit are ASCII-only); [uc] is mentioned only so that every back end has the same
   signature  unicode -> config -> parsed -> outcome str. *)
Definition kt_generate (pd : parsed) : outcome str :=
  let _ := uc in
  do items <- topsort (items_of pd);
  do body <- kt_concat kt_write_item items;
  Ok (kt_begin_file ++ body).

(* ================= observation: the language-independent view ================= *)

(* mb_name     the identifier after `val` (dashes replaced by underscores; Kotlin escapes no keyword,
               so mb_escaped is false)
   mb_key      @SerialName("k") on the member: k, bound BSerialName; otherwise the val name itself, BName
   mb_optional the member carries a default suffix: "? = null" or " = null"
   mb_type     the printed type without the optional marker of that idiom:
                 T? = null  from Option<T>            : km_type is XOpt T, the outer XOpt is stripped
                 T? = null  from #[serde(default)] T  : the "?" belongs to the suffix, km_type is T already
                 a type override (XRaw) is the user's text and is never stripped
               without a default suffix nothing is stripped. *)
Definition kt_obs_member (m : kt_member) : member :=
  {| mb_name := km_name m; mb_escaped := false;
     mb_key := match km_serial_name m with Some k => k | None => km_name m end;
     mb_binding := match km_serial_name m with Some _ => BSerialName | None => BName end;
     mb_optional := match km_default m with KtRequired => false | _ => true end;
     mb_type := match km_default m, km_type m with
                | KtNullDefault, XOpt x => x
                | _, t => t
                end;
     mb_docs := km_docs m |}.

Definition kt_obs_entry (e : kt_entry) : variantd :=
  {| vd_name := ke_name e; vd_wire := ke_wire e; vd_payload := PayUnit; vd_parent := None; vd_docs := ke_docs e |}.

(* A newtype payload `val content: T` has no default suffix, hence is never optional in the sense of
   mb_optional; an Option<T> payload keeps its XOpt inside the type. PayRef carries the helper's
   name as the REFERENCE spells it. *)
Definition kt_obs_variant (v : kt_variant) : variantd :=
  {| vd_name := kv_name v; vd_wire := kv_wire v;
     vd_payload := match kv_payload v with
                   | KTPUnit => PayUnit
                   | KTPNewtype ty => PayNewtype ty false
                   | KTPInner inner gs => PayRef inner gs
                   end;
     vd_parent := Some (kv_parent v); vd_docs := kv_docs v |}.

(* One observation per emitted definition (the …Inner helper structs are KTObject / KTDataClass
   values of their own, under their DEFINITION name).
   A value class is observed as the alias it comes from: d_type is the wrapped type (no default
   suffix can occur there: has_default = false, and for an Option<_> the outer XOpt is stripped
   by kt_obs_member), and its single `value` member is listed too.
   The tag key of an algebraic enum is never written in Kotlin; the content key once in every
   data class variant (kt_render_variant). *)
Definition kt_obs (d : kt_decl) : decl :=
  match d with
  | KTObject docs name =>
    {| d_kind := DStruct; d_name := name; d_escaped := false; d_generics := []; d_docs := docs; d_members := [];
       d_variants := []; d_tag_keys := []; d_content_keys := []; d_type := None; d_value := None |}
  | KTDataClass docs name gs ms _ =>
    {| d_kind := DStruct; d_name := name; d_escaped := false; d_generics := gs; d_docs := docs;
       d_members := map kt_obs_member ms;
       d_variants := []; d_tag_keys := []; d_content_keys := []; d_type := None; d_value := None |}
  | KTTypeAlias docs name gs ty =>
    {| d_kind := DAlias; d_name := name; d_escaped := false; d_generics := gs; d_docs := docs; d_members := [];
       d_variants := []; d_tag_keys := []; d_content_keys := []; d_type := Some ty; d_value := None |}
  | KTValueClass docs name m _ =>
    {| d_kind := DAlias; d_name := name; d_escaped := false; d_generics := []; d_docs := docs;
       d_members := [kt_obs_member m];
       d_variants := []; d_tag_keys := []; d_content_keys := []; d_type := Some (mb_type (kt_obs_member m)); d_value := None |}
  | KTEnumClass docs name gs es =>
    {| d_kind := DEnum; d_name := name; d_escaped := false; d_generics := gs; d_docs := docs; d_members := [];
       d_variants := map kt_obs_entry es;
       d_tag_keys := []; d_content_keys := []; d_type := None; d_value := None |}
  | KTSealedClass docs name gs content vs =>
    {| d_kind := DEnum; d_name := name; d_escaped := false; d_generics := gs; d_docs := docs; d_members := [];
       d_variants := map kt_obs_variant vs;
       d_tag_keys := [];
       d_content_keys := flat_map (fun v => match kv_payload v with KTPUnit => [] | _ => [content] end) vs;
       d_type := None; d_value := None |}
  end.

(* the declarations of a whole file, in output order *)
Definition kt_decls (pd : parsed) : outcome (list kt_decl) :=
  let _ := uc in
  do items <- topsort (items_of pd);
  do dss <- mapM kt_decl_of items;
  Ok (List.concat dss).

(* fd_header: the header lines as written (version line, package, the fixed imports); fd_imports the
   imported qualified names; fd_helper_defs the simple names those imports bring into the file.
   Kotlin defines no helper of its own (no DHelper). With an empty package nothing of this is
   written. *)
Definition kt_file_decls (pd : parsed) : outcome file_decls :=
  do ds <- kt_decls pd;
  Ok {| fd_header := match kt_header_of with
                     | None => []
                     | Some h =>
                       (match kh_version h with Some v => [lit "Generated by typeshare " ++ v] | None => [] end) ++
                       [lit "package " ++ kh_package h] ++
                       map (fun i => lit "import " ++ kt_qualified i) (kh_imports h)
                     end;
        fd_imports := match kt_header_of with None => [] | Some h => map kt_qualified (kh_imports h) end;
        fd_decls := map kt_obs ds;
        fd_helper_defs := match kt_header_of with None => [] | Some h => map snd (kh_imports h) end |}.
End KT.
