(* core/src/language/mod.rs: what the six back ends share. *)
From Coq Require Import String.
From TS Require Import Model.Str Model.Outcome Model.Types Model.Parse Model.TopsortAlgo Model.Topsort.

(* type_mappings: HashMap<String,String>, only ever looked up by key *)
Definition tmap := list (str * str).
Fixpoint tmap_get (m : tmap) (k : str) : option str :=
  match m with [] => None | (a, b) :: r => if str_eqb a k then Some b else tmap_get r k end.

(* state-passing over `outcome` for back ends that accumulate side information while printing *)
Definition M (St A : Type) : Type := St -> outcome (A * St).
Definition ret {St A} (a : A) : M St A := fun s => Ok (a, s).
Definition mbind {St A B} (m : M St A) (f : A -> M St B) : M St B :=
  fun s => match m s with Ok (a, s') => f a s' | Err e => Err e | Panic p => Panic p end.
Definition fail {St A} (e : perr) : M St A := fun _ => Err e.
Definition mpanic {St A} (site : string) : M St A := fun _ => Panic site.
Definition mget {St} : M St St := fun s => Ok (s, s).
Definition mput {St} (s' : St) : M St unit := fun _ => Ok (tt, s').
Notation "'mdo' x <- m ; k" := (mbind m (fun x => k)) (at level 200, x name, m at level 100, k at level 200).

Fixpoint mmapM {St A B} (f : A -> M St B) (l : list A) : M St (list B) :=
  match l with
  | [] => ret []
  | x :: r => mdo y <- f x; mdo ys <- mmapM f r; ret (y :: ys)
  end.
(* try_for_each writing text: concatenation of the pieces *)
Definition mconcat {St A} (f : A -> M St str) (l : list A) : M St str :=
  mdo parts <- mmapM f l; ret (List.concat parts).

(* generate_types: aliases, structs, enums, consts in this order, then topsort *)
Definition items_of (pd : parsed) : list ritem :=
  map ItAlias (p_aliases pd) ++ map ItStruct (p_structs pd) ++ map ItEnum (p_enums pd) ++ map ItConst (p_consts pd).

(* "<A, B>" or "" : the generic parameter list most printers append to a definition name *)
Definition generics_suffix (gs : list str) : str :=
  match gs with [] => [] | _ => lit "<" ++ join (lit ", ") gs ++ lit ">" end.

(* Itertools::unique over the enum's generic parameters used by a field list
   (write_types_for_anonymous_structs, mod.rs:381-391) *)
Fixpoint unique_strs (l : list str) (seen : list str) : list str :=
  match l with
  | [] => []
  | x :: r => if mem_str x seen then unique_strs r seen else x :: unique_strs r (x :: seen)
  end.
Definition anon_struct_generics (enum_generics : list str) (fields : list rfield) : list str :=
  unique_strs (flat_map (fun f => filter (fun g => contains_type (fty f) g) enum_generics) fields) [].

(* the RustStruct handed to write_struct for a struct variant (mod.rs:393-411) *)
Definition anon_struct (e : eshared) (struct_name : str) (variant_original : str) (fields : list rfield) : rstruct :=
  {| sid := {| original := struct_name; renamed := struct_name; via_serde_rename := false |};
     sgenerics := anon_struct_generics (egenerics e) fields;
     sfields := fields;
     scomments := [lit "Generated type representing the anonymous struct variant `" ++ variant_original ++
                   lit "` of the `" ++ original (eid e) ++ lit "` Rust enum"];
     sdecs := edecs e;
     sredacted := eredacted e |}.
