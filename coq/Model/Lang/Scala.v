(* core/src/language/scala.rs, function by function. Output is text (str).
   Scala overrides Language::generate_types (scala.rs:29): no topsort, consts are never written,
   and the generator keeps no mutable state while printing (type_mappings is only read), so every
   function is a plain `outcome str`. *)
From Coq Require Import String.
From TS Require Import Model.Str Model.Outcome Model.Unicode Model.Types Model.Parse Model.Rename
                       Model.TopsortAlgo Model.Topsort Model.Lang.Common.

(* pub fields of `struct Scala` (scala.rs:16) + the text of env!("CARGO_PKG_VERSION").
   module_name is a pub field that the generator never reads. *)
Record sc_config := { sc_package : str; sc_module_name : str; sc_type_mappings : tmap;
                      sc_no_version_header : bool; sc_version : str }.

Definition sc_nl : str := [ch_nl].
Definition sc_tabs (n : nat) : str := repeat_str [ch_tab] n.     (* "\t".repeat(indent) *)

(* str::rsplit_once(c): split at the LAST occurrence of c *)
Fixpoint sc_rsplit_once (c : char) (s : str) : option (str * str) :=
  match s with
  | [] => None
  | x :: r =>
    match sc_rsplit_once c r with
    | Some (a, b) => Some (x :: a, b)
    | None => if N.eqb x c then Some ([], r) else None
    end
  end.
Definition sc_ch_dot : char := 46%N.

(* try_for_each / for loops writing text with `?`: concatenation, first Err/panic wins *)
Definition sc_concat {A} (f : A -> outcome str) (l : list A) : outcome str :=
  do parts <- mapM f l; Ok (List.concat parts).

(* the recurring
     (!generic_types.is_empty()).then(|| format!("[{}]", generic_types.join(", "))).unwrap_or_default()
   (scala.rs:150, 172, 200, 292, 307, 348) and format_generic_parameters (scala.rs:70) *)
Definition sc_generic_parameters (gs : list str) : str :=
  match gs with [] => [] | _ => lit "[" ++ join (lit ", ") gs ++ lit "]" end.

(* scala.rs:388 write_comment, 398 write_comments *)
Definition sc_write_comment (indent : nat) (comment : str) : str :=
  sc_tabs indent ++ lit "// " ++ comment ++ sc_nl.
Definition sc_write_comments (indent : nat) (comments : list str) : str :=
  List.concat (map (sc_write_comment indent) comments).

Definition sc_is_unsigned (t : rtype) : bool :=
  match t with
  | RPrim (PU8 | PU16 | PU32 | PU53 | PU64 | PUSize) => true
  | _ => false
  end.

(* scala.rs:450 unsigned_integer_used. NB it looks exactly ONE level below the top of each
   alias / field / variant type (and not below an array or a slice at all), so e.g. Vec<Vec<u8>>
   or [u8; 4] print UByte without the `type UByte = Byte` aliases being emitted. *)
Definition sc_unsigned_integer_used (pd : parsed) : bool :=
  let types_in_aliases := map atype (p_aliases pd) in
  let types_in_structs := map fty (flat_map sfields (p_structs pd)) in
  let types_in_enum :=
    flat_map (fun e =>
      flat_map (fun v => match v with
                         | VUnit _ => []
                         | VTuple t _ => [t]
                         | VAnon fs _ => map fty fs
                         end) (evariants (enum_shared e))) (p_enums pd) in
  existsb sc_is_unsigned
    (flat_map (fun t => match t with
                        | RGeneric _ ps => ps
                        | ROption x | RVec x => [x]
                        | RHashMap k v => [k; v]
                        | RArray _ _ | RSlice _ | RPrim _ => [t]
                        | RSimple _ => []
                        end) (types_in_aliases ++ types_in_structs ++ types_in_enum)).

Section SC.
Variable uc : unicode.
Variable cfg : sc_config.

(* format_type / format_simple_type / format_generic_type (mod.rs:207-264 defaults, with
   scala.rs:70 format_generic_parameters) and scala.rs:74 format_special_type.
   generic_types is threaded through but never consulted by this back end. *)
Fixpoint sc_format_type (generics : list str) (t : rtype) : outcome str :=
  match t with
  | RSimple id => Ok (match tmap_get (sc_type_mappings cfg) id with Some m => m | None => id end)
  | RGeneric id ps =>
    match tmap_get (sc_type_mappings cfg) id with
    | Some m => Ok m
    | None =>
      do parts <- (fix go (l : list rtype) : outcome (list str) :=
                     match l with
                     | [] => Ok []
                     | x :: r => do y <- sc_format_type generics x; do ys <- go r; Ok (y :: ys)
                     end) ps;
      Ok (id ++ sc_generic_parameters parts)
    end
  | RVec x | RArray x _ | RSlice x =>
    do s <- sc_format_type generics x; Ok (lit "Vector[" ++ s ++ lit "]")
  | ROption x => do s <- sc_format_type generics x; Ok (lit "Option[" ++ s ++ lit "]")
  | RHashMap k v =>
    do ks <- sc_format_type generics k;
    do vs <- sc_format_type generics v;
    Ok (lit "Map[" ++ ks ++ lit ", " ++ vs ++ lit "]")
  | RPrim p =>
    match p with
    | PUnit => Ok (lit "Unit")
    | PString | PChar => Ok (lit "String")
    | PI8 => Ok (lit "Byte")
    | PI16 => Ok (lit "Short")
    | PISize | PI32 => Ok (lit "Int")
    | PI54 | PI64 => Ok (lit "Long")
    | PU8 => Ok (lit "UByte")
    | PU16 => Ok (lit "UShort")
    | PUSize | PU32 => Ok (lit "UInt")
    | PU53 | PU64 => Ok (lit "ULong")
    | PBool => Ok (lit "Boolean")
    | PF32 => Ok (lit "Float")
    | PF64 => Ok (lit "Double")
    | PDateTime => Err (EUnsupportedSpecialType (prim_id PDateTime))     (* scala.rs:117 *)
    end
  end.

(* scala.rs:124 begin_file. The header is written before the panic, but a panic loses the output. *)
Definition sc_begin_file : outcome str :=
  let header := if sc_no_version_header cfg then []
                else lit "/**" ++ sc_nl ++ lit " * Generated by typeshare " ++ sc_version cfg ++ sc_nl ++
                     lit " */" ++ sc_nl in
  match sc_package cfg with
  | [] => Panic "scala.rs:131"
  | _ =>
    Ok (header ++
        match sc_rsplit_once sc_ch_dot (sc_package cfg) with
        | None => []
        | Some (parent, _) => lit "package " ++ parent ++ sc_nl ++ sc_nl
        end)
  end.

(* scala.rs:143 write_type_alias (the name printed is id.original, not id.renamed) *)
Definition sc_write_type_alias (a : ralias) : outcome str :=
  do ty <- sc_format_type (agenerics a) (atype a);
  Ok (sc_write_comments 0 (acomments a) ++
      lit "type " ++ original (aid a) ++ sc_generic_parameters (agenerics a) ++ lit " = " ++ ty ++
      sc_nl ++ sc_nl).

(* scala.rs:361 write_element *)
Definition sc_write_element (generics : list str) (f : rfield) : outcome str :=
  do ty <- match type_override f Scala with
           | Some o => Ok o
           | None => sc_format_type generics (fty f)
           end;
  Ok (sc_write_comments 1 (fcomments f) ++
      [ch_tab] ++ replace_char ch_dash ch_us (renamed (fid f)) (* remove_dash_from_identifier *) ++
      lit ": " ++ ty ++
      (if has_default f && negb (is_optional (fty f)) then lit " = _"
       else if is_optional (fty f) then lit " = None" else [])).

(* scala.rs:164 write_struct *)
Definition sc_write_struct (s : rstruct) : outcome str :=
  match sfields s with
  | [] =>
    Ok (sc_write_comments 0 (scomments s) ++
        lit "class " ++ renamed (sid s) ++ lit " extends Serializable" ++ sc_nl ++ sc_nl)
  | _ =>
    (* split_last: every element but the last is followed by ",\n", the last by "\n" *)
    do elems <- mapM (sc_write_element (sgenerics s)) (sfields s);
    Ok (sc_write_comments 0 (scomments s) ++
        lit "case class " ++ renamed (sid s) ++ sc_generic_parameters (sgenerics s) ++ lit " (" ++ sc_nl ++
        join (lit "," ++ sc_nl) elems ++ sc_nl ++
        lit ")" ++ sc_nl ++ sc_nl)
  end.

(* scala.rs:238 write_enum_variants *)
Definition sc_write_variant_unit_enum (e : eshared) (v : rvariant) : outcome str :=
  let sh := variant_shared v in
  Ok (sc_write_comments 1 (vcomments sh) ++
      [ch_tab] ++ lit "case object " ++ original (vid sh) ++ lit " extends " ++ renamed (eid e) ++ lit " {" ++ sc_nl ++
      [ch_tab; ch_tab] ++ lit "val serialName: String = " ++ debug_str (renamed (vid sh)) ++ sc_nl ++
      [ch_tab] ++ lit "}" ++ sc_nl).

Definition sc_write_variant_algebraic (content_key : str) (e : eshared) (v : rvariant) : outcome str :=
  let sh := variant_shared v in
  let printed_value := debug_str (renamed (vid sh)) in
  (* scala.rs:266-281: a leading ASCII digit gets an underscore in front *)
  let variant_name := match original (vid sh) with
                      | c :: _ => if is_adigit c then ch_us :: original (vid sh) else original (vid sh)
                      | [] => original (vid sh)
                      end in
  let gp := sc_generic_parameters (egenerics e) in
  do decl <- match v with
             | VUnit _ => Ok ([ch_tab] ++ lit "case object " ++ variant_name)
             | VTuple t _ =>
               do variant_type <- sc_format_type (egenerics e) t;
               Ok ([ch_tab] ++ lit "case class " ++ variant_name ++ gp ++ lit "(" ++
                   content_key ++ lit ": " ++ variant_type ++ lit ")")
             | VAnon fields vsh =>
               (* NB the class referred to is named from id.original, while write_enum (scala.rs:195)
                  declares it from id.renamed *)
               Ok ([ch_tab] ++ lit "case class " ++ variant_name ++ gp ++ lit "(" ++
                   content_key ++ lit ": " ++ original (eid e) ++ original (vid vsh) ++ lit "Inner" ++
                   sc_generic_parameters (anon_struct_generics (egenerics e) fields) ++ lit ")")
             end;
  Ok (sc_write_comments 1 (vcomments sh) ++ decl ++
      lit " extends " ++ original (eid e) ++ gp ++ lit " {" ++ sc_nl ++
      [ch_tab; ch_tab] ++ lit "val serialName: String = " ++ printed_value ++ sc_nl ++
      [ch_tab] ++ lit "}" ++ sc_nl).

Definition sc_write_enum_variants (e : renum) : outcome str :=
  match e with
  | EUnit sh => sc_concat (sc_write_variant_unit_enum sh) (evariants sh)
  | EAlgebraic _ content_key sh => sc_concat (sc_write_variant_algebraic content_key sh) (evariants sh)
  end.

(* mod.rs:366 write_types_for_anonymous_structs with the closure of scala.rs:194 *)
Definition sc_write_types_for_anonymous_structs (e : eshared) : outcome str :=
  sc_concat (fun v => match v with
                      | VAnon fields vsh =>
                        sc_write_struct (anon_struct e (renamed (eid e) ++ original (vid vsh) ++ lit "Inner")
                                                     (original (vid vsh)) fields)
                      | _ => Ok []
                      end) (evariants e).

(* scala.rs:192 write_enum (both arms of the match at scala.rs:204 print the same line) *)
Definition sc_write_enum (e : renum) : outcome str :=
  let sh := enum_shared e in
  do anon <- sc_write_types_for_anonymous_structs sh;
  do vs <- sc_write_enum_variants e;
  Ok (anon ++
      sc_write_comments 0 (ecomments sh) ++
      lit "sealed trait " ++ renamed (eid sh) ++ sc_generic_parameters (egenerics sh) ++ lit " {" ++ sc_nl ++
      [ch_tab] ++ lit "def serialName: String" ++ sc_nl ++
      lit "}" ++ sc_nl ++
      lit "object " ++ renamed (eid sh) ++ lit " {" ++ sc_nl ++
      vs ++
      lit "}" ++ sc_nl ++ sc_nl).

(* scala.rs:409 begin_package_object, 420 begin_package: nothing is opened when the package has
   no dot ... *)
Definition sc_begin_package_object : str :=
  match sc_rsplit_once sc_ch_dot (sc_package cfg) with
  | None => []
  | Some (_, last) => lit "package object " ++ last ++ lit " {" ++ sc_nl ++ sc_nl
  end.
Definition sc_begin_package : str :=
  match sc_rsplit_once sc_ch_dot (sc_package cfg) with
  | None => []
  | Some (_, last) => lit "package " ++ last ++ lit " {" ++ sc_nl ++ sc_nl
  end.
(* ... but scala.rs:440 end_package_object, 445 end_package always close a brace *)
Definition sc_end_package_object : str := lit "}" ++ sc_nl.
Definition sc_end_package : str := lit "}" ++ sc_nl.

(* scala.rs:431 write_unsigned_aliases (ULong = Int is what the code says) *)
Definition sc_write_unsigned_aliases : str :=
  lit "type UByte = Byte" ++ sc_nl ++ lit "type UShort = Short" ++ sc_nl ++
  lit "type UInt = Int" ++ sc_nl ++ lit "type ULong = Int" ++ sc_nl ++ sc_nl.

Definition sc_is_empty {A} (l : list A) : bool := match l with [] => true | _ => false end.

(* scala.rs:29 generate_types (the override): begin_file; package object with the unsigned aliases
   and the type aliases; package with structs then enums, in ParsedData order (no topsort);
   data.consts is ignored, so write_const's todo!() (scala.rs:161) is unreachable; end_file is the
   empty trait default. `uc` is not needed by this back end (no Unicode-aware std call is made);
   it is kept as a parameter so that all back ends have the same signature. *)
Definition sc_generate (pd : parsed) : outcome str :=
  let _ := uc in
  do head <- sc_begin_file;
  let unsigned_used := sc_unsigned_integer_used pd in
  do package_object <-
    (if unsigned_used || negb (sc_is_empty (p_aliases pd)) then
       do aliases <- sc_concat sc_write_type_alias (p_aliases pd);
       Ok (sc_begin_package_object ++
           (if unsigned_used then sc_write_unsigned_aliases else []) ++
           aliases ++ sc_end_package_object)
     else Ok []);
  do package <-
    (if negb (sc_is_empty (p_structs pd)) || negb (sc_is_empty (p_enums pd)) then
       do structs <- sc_concat sc_write_struct (p_structs pd);
       do enums <- sc_concat sc_write_enum (p_enums pd);
       Ok (sc_begin_package ++ structs ++ enums ++ sc_end_package)
     else Ok []);
  Ok (head ++ package_object ++ package).
End SC.
