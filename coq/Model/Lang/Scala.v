(* core/src/language/scala.rs, function by function, in the shape  emit = render . decls :
   a DECISION layer ([sc_texp], [sc_member_of], [sc_variant_of], [sc_decl_of]) computes abstract
   declarations from the IR; a LAYOUT layer ([sc_show], [sc_render_member], [sc_render_variant],
   [sc_render_decl]) prints them; [sc_obs_member], [sc_obs_variant], [sc_obs] project them to the
   language-independent observation types of Model/Lang/Decl.v.
   Scala overrides Language::generate_types (scala.rs:29): no topsort, consts are never written,
   and the generator keeps no mutable state while printing (type_mappings is only read), so the
   monad of the decision layer is the plain `outcome`. *)
From Coq Require Import String.
From TS Require Import Model.Str Model.Outcome Model.Unicode Model.Types Model.Parse Model.Rename
                       Model.TopsortAlgo Model.Topsort Model.Lang.Common Model.Lang.Decl.

(* pub fields of `struct Scala` (scala.rs:16) + the text of env!("CARGO_PKG_VERSION").
   module_name is a pub field that the generator never reads. *)
Record sc_config := { sc_package : str; sc_module_name : str; sc_type_mappings : tmap;
                      sc_no_version_header : bool; sc_version : str }.

Definition sc_nl : str := [ch_nl].
Definition sc_tabs (n : nat) : str := repeat_str [ch_tab] n.     (* "\t".repeat(indent) *)

(* str::rsplit_once(c): split at the LAST occurrence of c *)
Fixpoint sc_rsplit_once (c : char) (s : str) : option (str * str) :=
  match s with
  | [] => None
  | x :: r =>
    match sc_rsplit_once c r with
    | Some (a, b) => Some (x :: a, b)
    | None => if N.eqb x c then Some ([], r) else None
    end
  end.
Definition sc_ch_dot : char := 46%N.

(* try_for_each / for loops writing text with `?`: concatenation, first Err/panic wins *)
Definition sc_concat {A} (f : A -> outcome str) (l : list A) : outcome str :=
  do parts <- mapM f l; Ok (List.concat parts).

(* the recurring
     (!generic_types.is_empty()).then(|| format!("[{}]", generic_types.join(", "))).unwrap_or_default()
   (scala.rs:150, 172, 200, 292, 307, 348) and format_generic_parameters (scala.rs:70) *)
Definition sc_generic_parameters (gs : list str) : str :=
  match gs with [] => [] | _ => lit "[" ++ join (lit ", ") gs ++ lit "]" end.

(* scala.rs:388 write_comment, 398 write_comments *)
Definition sc_write_comment (indent : nat) (comment : str) : str :=
  sc_tabs indent ++ lit "// " ++ comment ++ sc_nl.
Definition sc_write_comments (indent : nat) (comments : list str) : str :=
  List.concat (map (sc_write_comment indent) comments).

Definition sc_is_unsigned (t : rtype) : bool :=
  match t with
  | RPrim (PU8 | PU16 | PU32 | PU53 | PU64 | PUSize) => true
  | _ => false
  end.

(* scala.rs contains_unsigned_integer (/repo fix of C12-scala-unsigned-depth): an unsigned integer anywhere in
   the type, at any depth, arrays and slices included - wherever format_type prints UByte/UShort/UInt/ULong. *)
Fixpoint sc_contains_unsigned (t : rtype) : bool :=
  match t with
  | RSimple _ => false
  | RGeneric _ ps => existsb sc_contains_unsigned ps
  | RVec x | RArray x _ | RSlice x | ROption x => sc_contains_unsigned x
  | RHashMap k v => sc_contains_unsigned k || sc_contains_unsigned v
  | RPrim _ => sc_is_unsigned t
  end.

(* scala.rs:450 unsigned_integer_used: the types of all aliases, struct fields and variant payloads / fields
   (whatever their type override), scanned recursively. *)
Definition sc_unsigned_integer_used (pd : parsed) : bool :=
  let types_in_aliases := map atype (p_aliases pd) in
  let types_in_structs := map fty (flat_map sfields (p_structs pd)) in
  let types_in_enum :=
    flat_map (fun e =>
      flat_map (fun v => match v with
                         | VUnit _ => []
                         | VTuple t _ => [t]
                         | VAnon fs _ => map fty fs
                         end) (evariants (enum_shared e))) (p_enums pd) in
  existsb sc_contains_unsigned (types_in_aliases ++ types_in_structs ++ types_in_enum).

(* ---- target type expressions ----
   Layout of a type tree.  The Scala back end builds: XName (user, builtin and container names,
   written Name[A, B]), XOpt (Option[T]) and XRaw (a type_mappings result or a field type override,
   printed verbatim).  XSeq / XMap / XFixed are never built by [sc_texp]; they are printed the way
   this back end spells sequences and maps so that the function is total. *)
Fixpoint sc_show (x : texp) : str :=
  match x with
  | XName n [] => n
  | XName n args => n ++ lit "[" ++ join (lit ", ") (map sc_show args) ++ lit "]"
  | XOpt e => lit "Option[" ++ sc_show e ++ lit "]"
  | XRaw t => t
  | XSeq e => lit "Vector[" ++ sc_show e ++ lit "]"
  | XFixed es => lit "(" ++ join (lit ", ") (map sc_show es) ++ lit ")"
  | XMap k v => lit "Map[" ++ sc_show k ++ lit ", " ++ sc_show v ++ lit "]"
  end.

Section SC.
Variable uc : unicode.
Variable cfg : sc_config.

(* format_type / format_simple_type / format_generic_type (mod.rs:207-264 defaults, with
   scala.rs:70 format_generic_parameters) and scala.rs:74 format_special_type, building a tree;
   the text the Rust code builds is [sc_show] of it.
   generic_types is threaded through but never consulted by this back end.
   type_mappings is consulted for Simple and Generic ids only (never for special types); a mapped
   generic type drops its arguments. *)
Fixpoint sc_texp (generics : list str) (t : rtype) : outcome texp :=
  match t with
  | RSimple id => Ok (match tmap_get (sc_type_mappings cfg) id with Some m => XRaw m | None => XName id [] end)
  | RGeneric id ps =>
    match tmap_get (sc_type_mappings cfg) id with
    | Some m => Ok (XRaw m)
    | None =>
      do parts <- (fix go (l : list rtype) : outcome (list texp) :=
                     match l with
                     | [] => Ok []
                     | x :: r => do y <- sc_texp generics x; do ys <- go r; Ok (y :: ys)
                     end) ps;
      Ok (XName id parts)
    end
  | RVec x | RArray x _ | RSlice x =>
    do e <- sc_texp generics x; Ok (XName (lit "Vector") [e])
  | ROption x => do e <- sc_texp generics x; Ok (XOpt e)
  | RHashMap k v =>
    do ks <- sc_texp generics k;
    do vs <- sc_texp generics v;
    Ok (XName (lit "Map") [ks; vs])
  | RPrim p =>
    match p with
    | PUnit => Ok (XName (lit "Unit") [])
    | PString | PChar => Ok (XName (lit "String") [])
    | PI8 => Ok (XName (lit "Byte") [])
    | PI16 => Ok (XName (lit "Short") [])
    | PISize | PI32 => Ok (XName (lit "Int") [])
    | PI54 | PI64 => Ok (XName (lit "Long") [])
    | PU8 => Ok (XName (lit "UByte") [])
    | PU16 => Ok (XName (lit "UShort") [])
    | PUSize | PU32 => Ok (XName (lit "UInt") [])
    | PU53 | PU64 => Ok (XName (lit "ULong") [])
    | PBool => Ok (XName (lit "Boolean") [])
    | PF32 => Ok (XName (lit "Float") [])
    | PF64 => Ok (XName (lit "Double") [])
    | PDateTime => Err (EUnsupportedSpecialType (prim_id PDateTime))     (* scala.rs:117 *)
    end
  end.

Definition sc_format_type (generics : list str) (t : rtype) : outcome str :=
  do x <- sc_texp generics t; Ok (sc_show x).

(* ---- declarations (decisions) ---- *)
(* what follows the type of a case-class parameter (scala.rs:381-384) *)
Inductive sc_default :=
| SCDefAbsent                 (* nothing *)
| SCDefNone                   (* " = None": the Rust type is Option<_> *)
| SCDefUnderscore.            (* " = _": serde(default) on a type that is not Option<_> *)

Record sc_member := { scm_docs : list str;
                      scm_name : str;           (* parameter name as declared (dashes already replaced) *)
                      scm_type : texp;          (* the whole type as printed, Option[..] included *)
                      scm_default : sc_default }.

(* the parameter list of a variant's case class; `generics` are the type parameters written after
   the case-class name, `content` the parameter name (the serde content key) *)
Inductive sc_payload :=
| SCPayUnit                                                                      (* case object N *)
| SCPayTuple (generics : list str) (content : str) (ty : texp)                    (* case class N[gs](content: ty) *)
| SCPayInner (generics : list str) (content : str) (inner : str) (args : list str). (* case class N[gs](content: inner[args]) *)

Record sc_variant := { scv_docs : list str;
                       scv_name : str;                     (* case object / case class name declared *)
                       scv_payload : sc_payload;
                       scv_parent : str;                   (* name written after `extends` *)
                       scv_parent_generics : list str;     (* type arguments written after that name *)
                       scv_wire : str }.                   (* the string serialName is bound to (printed with {:?}) *)

Inductive sc_decl :=
| SCAlias (docs : list str) (name : str) (generics : list str) (ty : texp)                 (* type N[gs] = ty *)
| SCCaseClass (docs : list str) (name : str) (generics : list str) (ms : list sc_member)   (* case class N[gs] ( .. ) *)
| SCEmptyClass (docs : list str) (name : str)                                              (* class N extends Serializable *)
| SCEnum (docs : list str) (name : str) (generics : list str) (vs : list sc_variant)       (* sealed trait N[gs] + object N *)
| SCHelperAliases (l : list (str * texp)).                                                 (* the block of `type U.. = ..` lines *)

(* scala.rs:361 write_element: decisions *)
Definition sc_member_of (generics : list str) (f : rfield) : outcome sc_member :=
  do ty <- match type_override f Scala with
           | Some o => Ok (XRaw o)
           | None => sc_texp generics (fty f)
           end;
  Ok {| scm_docs := fcomments f;
        scm_name := replace_char ch_dash ch_us (renamed (fid f));      (* remove_dash_from_identifier *)
        scm_type := ty;
        scm_default := if has_default f && negb (is_optional (fty f)) then SCDefUnderscore
                       else if is_optional (fty f) then SCDefNone else SCDefAbsent |}.

(* scala.rs:164 write_struct: decisions. A struct without fields becomes a plain class and loses
   its generic parameters. *)
Definition sc_class_of (s : rstruct) : outcome sc_decl :=
  match sfields s with
  | [] => Ok (SCEmptyClass (scomments s) (renamed (sid s)))
  | _ =>
    do ms <- mapM (sc_member_of (sgenerics s)) (sfields s);
    Ok (SCCaseClass (scomments s) (renamed (sid s)) (sgenerics s) ms)
  end.

(* scala.rs:238 write_enum_variants: decisions.
   Unit enum (scala.rs:240-256): the case object is named id.original as is, and extends the enum's
   id.renamed without type arguments; the variant's kind is not looked at. *)
Definition sc_variant_of_unit_enum (e : eshared) (v : rvariant) : outcome sc_variant :=
  let sh := variant_shared v in
  Ok {| scv_docs := vcomments sh; scv_name := original (vid sh); scv_payload := SCPayUnit;
        scv_parent := renamed (eid e); scv_parent_generics := []; scv_wire := renamed (vid sh) |}.

(* Algebraic enum (scala.rs:257-355): the parent named after `extends` is the enum's id.ORIGINAL
   (the trait is declared under id.renamed), followed by all the enum's generic parameters. *)
Definition sc_variant_of_algebraic (content_key : str) (e : eshared) (v : rvariant) : outcome sc_variant :=
  let sh := variant_shared v in
  (* scala.rs:266-281: a leading ASCII digit gets an underscore in front *)
  let variant_name := match original (vid sh) with
                      | c :: _ => if is_adigit c then ch_us :: original (vid sh) else original (vid sh)
                      | [] => original (vid sh)
                      end in
  do payload <- match v with
                | VUnit _ => Ok SCPayUnit
                | VTuple t _ =>
                  do variant_type <- sc_texp (egenerics e) t;
                  Ok (SCPayTuple (egenerics e) content_key variant_type)
                | VAnon fields vsh =>
                  (* NB the class referred to is named from the enum's id.original, while write_enum
                     (scala.rs:195) declares it from id.renamed *)
                  Ok (SCPayInner (egenerics e) content_key
                                 (original (eid e) ++ original (vid vsh) ++ lit "Inner")
                                 (anon_struct_generics (egenerics e) fields))
                end;
  Ok {| scv_docs := vcomments sh; scv_name := variant_name; scv_payload := payload;
        scv_parent := original (eid e); scv_parent_generics := egenerics e; scv_wire := renamed (vid sh) |}.

Definition sc_variants_of (e : renum) : outcome (list sc_variant) :=
  match e with
  | EUnit sh => mapM (sc_variant_of_unit_enum sh) (evariants sh)
  | EAlgebraic _ content_key sh => mapM (sc_variant_of_algebraic content_key sh) (evariants sh)
  end.

(* mod.rs:366 write_types_for_anonymous_structs with the closure of scala.rs:194: one helper class
   per struct variant, DEFINED under <enum id.renamed><variant id.original>Inner *)
Definition sc_inner_decls_of (e : eshared) : outcome (list sc_decl) :=
  do dss <- mapM (fun v => match v with
                           | VAnon fields vsh =>
                             do d <- sc_class_of (anon_struct e (renamed (eid e) ++ original (vid vsh) ++ lit "Inner")
                                                              (original (vid vsh)) fields);
                             Ok [d]
                           | _ => Ok []
                           end) (evariants e);
  Ok (List.concat dss).

(* scala.rs:431 write_unsigned_aliases (ULong = Int is what the code says) *)
Definition sc_unsigned_aliases : sc_decl :=
  SCHelperAliases [(lit "UByte", XName (lit "Byte") []); (lit "UShort", XName (lit "Short") []);
                   (lit "UInt", XName (lit "Int") []); (lit "ULong", XName (lit "Int") [])].

(* write_type_alias (scala.rs:143: the name declared is id.original, not id.renamed), write_struct,
   write_enum (scala.rs:192: helper classes first, then the trait and its companion object; both
   arms of the match at scala.rs:204 print the same line), write_const (scala.rs:161 todo!(), never
   called by generate_types): the declarations an item gives rise to, in output order *)
Definition sc_decl_of (it : ritem) : outcome (list sc_decl) :=
  match it with
  | ItAlias a =>
    do ty <- sc_texp (agenerics a) (atype a);
    Ok [SCAlias (acomments a) (original (aid a)) (agenerics a) ty]
  | ItStruct s => do d <- sc_class_of s; Ok [d]
  | ItEnum e =>
    let sh := enum_shared e in
    do inner <- sc_inner_decls_of sh;
    do vs <- sc_variants_of e;
    Ok (inner ++ [SCEnum (ecomments sh) (renamed (eid sh)) (egenerics sh) vs])
  | ItConst _ => Panic "scala.rs:161"
  end.

(* ---- rendering (layout only) ---- *)
Definition sc_render_member (m : sc_member) : str :=
  sc_write_comments 1 (scm_docs m) ++
  [ch_tab] ++ scm_name m ++ lit ": " ++ sc_show (scm_type m) ++
  match scm_default m with
  | SCDefUnderscore => lit " = _"
  | SCDefNone => lit " = None"
  | SCDefAbsent => []
  end.

Definition sc_render_variant (v : sc_variant) : str :=
  sc_write_comments 1 (scv_docs v) ++
  [ch_tab] ++
  match scv_payload v with
  | SCPayUnit => lit "case object " ++ scv_name v
  | SCPayTuple gs content ty =>
    lit "case class " ++ scv_name v ++ sc_generic_parameters gs ++ lit "(" ++
    content ++ lit ": " ++ sc_show ty ++ lit ")"
  | SCPayInner gs content inner args =>
    lit "case class " ++ scv_name v ++ sc_generic_parameters gs ++ lit "(" ++
    content ++ lit ": " ++ inner ++ sc_generic_parameters args ++ lit ")"
  end ++
  lit " extends " ++ scv_parent v ++ sc_generic_parameters (scv_parent_generics v) ++ lit " {" ++ sc_nl ++
  [ch_tab; ch_tab] ++ lit "val serialName: String = " ++ debug_str (scv_wire v) ++ sc_nl ++
  [ch_tab] ++ lit "}" ++ sc_nl.

Definition sc_render_decl (d : sc_decl) : str :=
  match d with
  | SCAlias docs name gs ty =>
    sc_write_comments 0 docs ++
    lit "type " ++ name ++ sc_generic_parameters gs ++ lit " = " ++ sc_show ty ++ sc_nl ++ sc_nl
  | SCCaseClass docs name gs ms =>
    (* split_last: every element but the last is followed by ",\n", the last by "\n" *)
    sc_write_comments 0 docs ++
    lit "case class " ++ name ++ sc_generic_parameters gs ++ lit " (" ++ sc_nl ++
    join (lit "," ++ sc_nl) (map sc_render_member ms) ++ sc_nl ++
    lit ")" ++ sc_nl ++ sc_nl
  | SCEmptyClass docs name =>
    sc_write_comments 0 docs ++
    lit "class " ++ name ++ lit " extends Serializable" ++ sc_nl ++ sc_nl
  | SCEnum docs name gs vs =>
    sc_write_comments 0 docs ++
    lit "sealed trait " ++ name ++ sc_generic_parameters gs ++ lit " {" ++ sc_nl ++
    [ch_tab] ++ lit "def serialName: String" ++ sc_nl ++
    lit "}" ++ sc_nl ++
    lit "object " ++ name ++ lit " {" ++ sc_nl ++
    List.concat (map sc_render_variant vs) ++
    lit "}" ++ sc_nl ++ sc_nl
  | SCHelperAliases l =>
    List.concat (map (fun nt => lit "type " ++ fst nt ++ lit " = " ++ sc_show (snd nt) ++ sc_nl) l) ++ sc_nl
  end.

(* write_type_alias / write_struct / write_enum = render of the item's declarations *)
Definition sc_write_item (it : ritem) : outcome str :=
  do ds <- sc_decl_of it; Ok (List.concat (map sc_render_decl ds)).

(* ---- observation: the language-independent view of a declaration ---- *)
(* A Scala case-class parameter carries no key binding of its own: the JSON key is the parameter
   name AS DECLARED (BName), i.e. with dashes already replaced by underscores, which differs from
   the IR's renamed id when that contains a dash.
   mb_optional: the parameter carries the idiom `Option[T] = None`, observed as the text says it:
   the default ` = None` is present.  `T = _` (serde(default) on a non-Option type) is NOT that
   idiom: mb_optional = false and the ` = _` stays visible only in [scm_default].
   mb_type: the printed type; when mb_optional holds and the type is Option[T] (XOpt at the root,
   which is always so unless a type override replaced the type by raw text), that ONE outer
   Option[..] is stripped: `Option[String] = None` gives String, `Option[Option[A]] = None` gives
   Option[A], an overridden `o = None` keeps XRaw o, and Option-free or ` = _` members keep
   their whole type. *)
Definition sc_strip_opt (t : texp) : texp := match t with XOpt e => e | _ => t end.
Definition sc_obs_member (m : sc_member) : member :=
  let opt := match scm_default m with SCDefNone => true | _ => false end in
  {| mb_name := scm_name m; mb_escaped := false; mb_key := scm_name m; mb_binding := BName;
     mb_optional := opt; mb_type := if opt then sc_strip_opt (scm_type m) else scm_type m;
     mb_docs := scm_docs m |}.

(* vd_name: the case object / case class name (with the `_` put before a leading digit);
   vd_wire: the string serialName is bound to; vd_parent: the NAME written after `extends` (its
   type arguments are in scv_parent_generics only).
   A tuple variant's parameter `content: Option[T]` has no ` = None`; its optional marker is the
   Option[..] itself: PayNewtype T true; any other type: PayNewtype ty false.
   A struct variant refers to its helper class by the name written at the reference site. *)
Definition sc_obs_variant (v : sc_variant) : variantd :=
  {| vd_name := scv_name v; vd_wire := scv_wire v;
     vd_payload := match scv_payload v with
                   | SCPayUnit => PayUnit
                   | SCPayTuple _ _ ty => match ty with XOpt e => PayNewtype e true | _ => PayNewtype ty false end
                   | SCPayInner _ _ inner args => PayRef inner args
                   end;
     vd_parent := Some (scv_parent v); vd_docs := scv_docs v |}.

Definition sc_obs (d : sc_decl) : list decl :=
  match d with
  | SCAlias docs name gs ty =>
    [{| d_kind := DAlias; d_name := name; d_escaped := false; d_generics := gs; d_docs := docs; d_members := [];
        d_variants := []; d_tag_keys := []; d_content_keys := []; d_type := Some ty; d_value := None |}]
  | SCCaseClass docs name gs ms =>
    [{| d_kind := DStruct; d_name := name; d_escaped := false; d_generics := gs; d_docs := docs;
        d_members := map sc_obs_member ms;
        d_variants := []; d_tag_keys := []; d_content_keys := []; d_type := None; d_value := None |}]
  | SCEmptyClass docs name =>         (* no generic parameters are written for it *)
    [{| d_kind := DStruct; d_name := name; d_escaped := false; d_generics := []; d_docs := docs; d_members := [];
        d_variants := []; d_tag_keys := []; d_content_keys := []; d_type := None; d_value := None |}]
  | SCEnum docs name gs vs =>
    (* the tag key is never written; the content key is written once per tuple / struct variant,
       as the name of the case class's only parameter *)
    [{| d_kind := DEnum; d_name := name; d_escaped := false; d_generics := gs; d_docs := docs; d_members := [];
        d_variants := map sc_obs_variant vs;
        d_tag_keys := [];
        d_content_keys := flat_map (fun v => match scv_payload v with
                                             | SCPayUnit => []
                                             | SCPayTuple _ content _ | SCPayInner _ content _ _ => [content]
                                             end) vs;
        d_type := None; d_value := None |}]
  | SCHelperAliases l =>
    map (fun nt => {| d_kind := DHelper; d_name := fst nt; d_escaped := false; d_generics := []; d_docs := [];
                      d_members := []; d_variants := []; d_tag_keys := []; d_content_keys := [];
                      d_type := Some (snd nt); d_value := None |}) l
  end.

(* ---- the file ---- *)
(* scala.rs:124 begin_file. An empty package is Err(io::Error(InvalidInput, "a package name must be provided for
   Scala ..")) since the /repo fix of the panic! at scala.rs:131; the header was written before, but the CLI
   writes no file when generation fails. *)
Definition sc_begin_file : outcome str :=
  let header := if sc_no_version_header cfg then []
                else lit "/**" ++ sc_nl ++ lit " * Generated by typeshare " ++ sc_version cfg ++ sc_nl ++
                     lit " */" ++ sc_nl in
  match sc_package cfg with
  | [] => Err EPackageRequired
  | _ =>
    Ok (header ++
        match sc_rsplit_once sc_ch_dot (sc_package cfg) with
        | None => []
        | Some (parent, _) => lit "package " ++ parent ++ sc_nl ++ sc_nl
        end)
  end.

(* scala.rs:413 package_last_segment: the text after the last dot, or the whole name when there is no dot
   (/repo fix of C10-scala-toplevel-alias) *)
Definition sc_package_last_segment : str :=
  match sc_rsplit_once sc_ch_dot (sc_package cfg) with
  | None => sc_package cfg
  | Some (_, last) => last
  end.

(* scala.rs:419 begin_package_object, 425 begin_package: always open a block named by the last segment (before
   the /repo fix of C10-scala-toplevel-alias nothing was opened when the package name has no dot) *)
Definition sc_begin_package_object : str :=
  lit "package object " ++ sc_package_last_segment ++ lit " {" ++ sc_nl ++ sc_nl.
Definition sc_begin_package : str :=
  lit "package " ++ sc_package_last_segment ++ lit " {" ++ sc_nl ++ sc_nl.
(* scala.rs:440 end_package_object, 445 end_package always close the block (begin_package_object / begin_package
   always open one since the /repo fix of C10-scala-toplevel-alias; between the fix of C10-scala-package-brace and
   that one both sides were conditional on a dot in the package name). `cfg` (&mut self) is not read any more;
   it is kept as a parameter so that the four functions keep one signature. *)
Definition sc_end_package_object : str := let _ := cfg in lit "}" ++ sc_nl.
Definition sc_end_package : str := let _ := cfg in lit "}" ++ sc_nl.

Definition sc_is_empty {A} (l : list A) : bool := match l with [] => true | _ => false end.

(* scala.rs:29 generate_types (the override): begin_file; package object with the unsigned aliases
   and the type aliases; package with structs then enums, in ParsedData order (no topsort);
   data.consts is ignored, so write_const's todo!() (scala.rs:161) is unreachable; end_file is the
   empty trait default. `uc` is not needed by this back end (no Unicode-aware std call is made);
   it is kept as a parameter so that all back ends have the same signature. *)
Definition sc_generate (pd : parsed) : outcome str :=
  let _ := uc in
  do head <- sc_begin_file;
  let unsigned_used := sc_unsigned_integer_used pd in
  do package_object <-
    (if unsigned_used || negb (sc_is_empty (p_aliases pd)) then
       do aliases <- sc_concat sc_write_item (map ItAlias (p_aliases pd));
       Ok (sc_begin_package_object ++
           (if unsigned_used then sc_render_decl sc_unsigned_aliases else []) ++
           aliases ++ sc_end_package_object)
     else Ok []);
  do package <-
    (if negb (sc_is_empty (p_structs pd)) || negb (sc_is_empty (p_enums pd)) then
       do structs <- sc_concat sc_write_item (map ItStruct (p_structs pd));
       do enums <- sc_concat sc_write_item (map ItEnum (p_enums pd));
       Ok (sc_begin_package ++ structs ++ enums ++ sc_end_package)
     else Ok []);
  Ok (head ++ package_object ++ package).

(* the declarations of a whole file, in output order: (inside the package object, inside the
   package); same first failure as [sc_generate] (begin_file's error for the empty package, then aliases, structs, enums) *)
Definition sc_decls (pd : parsed) : outcome (list sc_decl * list sc_decl) :=
  let _ := uc in
  do _ <- sc_begin_file;
  let item_decls (its : list ritem) : outcome (list sc_decl) :=
    do dss <- mapM sc_decl_of its; Ok (List.concat dss) in
  do aliases <- item_decls (map ItAlias (p_aliases pd));
  do structs <- item_decls (map ItStruct (p_structs pd));
  do enums <- item_decls (map ItEnum (p_enums pd));
  Ok ((if sc_unsigned_integer_used pd then [sc_unsigned_aliases] else []) ++ aliases, structs ++ enums).

(* fd_header: the version line, `package <parent>` (when the package name has a dot) and, when they are
   written (the section is not empty), `package object <last>` and `package <last>`;
   fd_imports: the Scala back end imports nothing;
   fd_decls: helper aliases, aliases (these two inside the package object), then structs, then
   per enum its helper classes followed by the enum (inside the package);
   fd_helper_defs: UByte, UShort, UInt, ULong when the alias block is written. *)
Definition sc_file_decls (pd : parsed) : outcome file_decls :=
  do r <- sc_decls pd;
  let '(objs, pkgs) := r in
  Ok {| fd_header := (if sc_no_version_header cfg then [] else [lit "Generated by typeshare " ++ sc_version cfg]) ++
                     match sc_rsplit_once sc_ch_dot (sc_package cfg) with
                     | None => []
                     | Some (parent, _) => [lit "package " ++ parent]
                     end ++
                     (match objs with [] => [] | _ => [lit "package object " ++ sc_package_last_segment] end) ++
                     (match pkgs with [] => [] | _ => [lit "package " ++ sc_package_last_segment] end);
        fd_imports := [];
        fd_decls := flat_map sc_obs (objs ++ pkgs);
        fd_helper_defs := flat_map (fun d => match d with SCHelperAliases l => map fst l | _ => [] end) objs |}.
End SC.

