(* core/src/language/python.rs, function by function. Output is text (str). *)
From Coq Require Import String.
From TS Require Import Model.Str Model.Outcome Model.Unicode Model.Types Model.Parse Model.Rename
                       Model.TopsortAlgo Model.Topsort Model.Lang.Common Model.Lang.ConvertCase.

(* python.rs:82 struct Python: the pub fields the harness sets; py_version = env!("CARGO_PKG_VERSION") *)
Record py_config := { py_type_mappings : tmap; py_no_version_header : bool; py_version : str }.

(* python.rs:82 struct Python: the mutable part.
   imports: HashMap<String, HashSet<String>>  - only read by write_all_imports, which sorts the identifiers
            of every module and then sorts the formatted lines: kept as a key-sorted map of sorted sets;
   type_variables: HashSet<String>            - sorted by write_all_imports before printing: sorted set;
   types_for_custom_json_translation: HashSet<String> - iterated through .sorted(): sorted set.
   No hash order reaches the output. *)
Record py_state := { py_imports : list (str * list str); py_type_variables : list str;
                     py_custom_types : list str }.
Definition py_empty_state : py_state := {| py_imports := []; py_type_variables := []; py_custom_types := [] |}.

Fixpoint py_imports_insert (m : list (str * list str)) (k v : str) : list (str * list str) :=
  match m with
  | [] => [(k, [v])]
  | (a, s) :: r => if str_eqb a k then (a, sset_insert v s) :: r
                   else if str_ltb k a then (k, [v]) :: m else (a, s) :: py_imports_insert r k v
  end.

(* [T]::sort on Strings *)
Fixpoint py_sorted_insert (x : str) (l : list str) : list str :=
  match l with
  | [] => [x]
  | y :: r => if str_ltb x y then x :: l else y :: py_sorted_insert x r
  end.
Definition py_sort (l : list str) : list str := fold_right py_sorted_insert [] l.

Definition py_nl : str := [ch_nl].
Definition py_indent (n : nat) : str := repeat_str (lit "    ") n.

(* python.rs:73 CustomJsonTranslationFunctions *)
Record py_translation := { py_ser_name : str; py_ser_content : str; py_de_name : str; py_de_content : str }.

(* python.rs:758 json_translation_for_type (a HashMap that is only looked up by key) *)
Definition py_bytes_translation : py_translation :=
  {| py_ser_name := lit "serialize_binary_data";
     py_ser_content := lit "def serialize_binary_data(value: bytes) -> list[int]:" ++ py_nl ++
                       lit "        return list(value)";
     py_de_name := lit "deserialize_binary_data";
     py_de_content := lit "def deserialize_binary_data(value):" ++ py_nl ++
                      lit "     if isinstance(value, list):" ++ py_nl ++
                      lit "         if all(isinstance(x, int) and 0 <= x <= 255 for x in value):" ++ py_nl ++
                      lit "            return bytes(value)" ++ py_nl ++
                      lit "         raise ValueError(""All elements must be integers in the range 0-255 (u8)."")" ++ py_nl ++
                      lit "     elif isinstance(value, bytes):" ++ py_nl ++
                      lit "            return value" ++ py_nl ++
                      lit "     raise TypeError(""Content must be a list of integers (0-255) or bytes."")" |}.
Definition py_datetime_translation : py_translation :=
  {| py_ser_name := lit "serialize_datetime_data";
     py_ser_content := lit "def serialize_datetime_data(utc_time: datetime) -> str:" ++ py_nl ++
                       lit "        return utc_time.strftime(""%Y-%m-%dT%H:%M:%S.%fZ"")";
     py_de_name := lit "parse_rfc3339";
     py_de_content := lit "def parse_rfc3339(date_str: str) -> datetime:" ++ py_nl ++
                      lit "    date_formats = [" ++ py_nl ++
                      lit "        ""%Y-%m-%dT%H:%M:%SZ"",   " ++ py_nl ++
                      lit "        ""%Y-%m-%dT%H:%M:%S.%fZ""" ++ py_nl ++
                      lit "    ]" ++ py_nl ++
                      lit "    " ++ py_nl ++
                      lit "    for fmt in date_formats:" ++ py_nl ++
                      lit "        try:" ++ py_nl ++
                      lit "            return datetime.strptime(date_str, fmt)" ++ py_nl ++
                      lit "        except ValueError:" ++ py_nl ++
                      lit "            continue" ++ py_nl ++
                      lit "    " ++ py_nl ++
                      lit "    raise ValueError(f""Invalid RFC 3339 date format: {date_str}"")" |}.
Definition py_json_translation_for_type (python_type : str) : option py_translation :=
  if str_eqb python_type (lit "bytes") then Some py_bytes_translation
  else if str_eqb python_type (lit "datetime") then Some py_datetime_translation
  else None.
Definition py_is_some {A} (o : option A) : bool := match o with Some _ => true | None => false end.

(* python.rs:494 write_comments *)
Definition py_write_comments (is_docstring : bool) (comments : list str) (indent_level : nat) : str :=
  let indent := py_indent indent_level in
  match comments with
  | [] => []
  | _ =>
    (if is_docstring then
       indent ++ lit """""""" ++ py_nl ++
       join py_nl (map (fun v => indent ++ v) comments) ++ py_nl ++
       indent ++ lit """"""""
     else join py_nl (map (fun v => indent ++ lit "# " ++ v) comments)) ++ py_nl
  end.

(* python.rs:722 get_python_keywords *)
Definition py_keywords : list str :=
  [lit "False"; lit "None"; lit "True"; lit "and"; lit "as"; lit "assert"; lit "async"; lit "await";
   lit "break"; lit "class"; lit "continue"; lit "def"; lit "del"; lit "elif"; lit "else"; lit "except";
   lit "finally"; lit "for"; lit "from"; lit "global"; lit "if"; lit "import"; lit "in"; lit "is";
   lit "lambda"; lit "nonlocal"; lit "not"; lit "or"; lit "pass"; lit "raise"; lit "return"; lit "try";
   lit "while"; lit "with"; lit "yield"].

Section PY.
Variable uc : unicode.
Variable cfg : py_config.
Notation PM := (M py_state).

(* python.rs:737 python_property_aware_rename. NB a keyword keeps the ORIGINAL spelling plus "_" *)
Definition py_property_aware_rename (name : str) : str :=
  let snake_name := cc_to_snake uc name in
  if mem_str snake_name py_keywords then name ++ lit "_" else snake_name.

(* python.rs:529 add_import *)
Definition py_add_import (module identifier : str) : PM unit :=
  mdo st <- mget;
  mput {| py_imports := py_imports_insert (py_imports st) module identifier;
          py_type_variables := py_type_variables st; py_custom_types := py_custom_types st |}.

(* python.rs:533 add_type_var *)
Definition py_add_type_var (name : str) : PM unit :=
  mdo _ <- py_add_import (lit "typing") (lit "TypeVar");
  mdo st <- mget;
  mput {| py_imports := py_imports st; py_type_variables := sset_insert name (py_type_variables st);
          py_custom_types := py_custom_types st |}.
Fixpoint py_add_type_vars (names : list str) : PM unit :=
  match names with
  | [] => ret tt
  | n :: r => mdo _ <- py_add_type_var n; py_add_type_vars r
  end.

(* self.types_for_custom_json_translation.insert(..) *)
Definition py_add_custom_type (t : str) : PM unit :=
  mdo st <- mget;
  mput {| py_imports := py_imports st; py_type_variables := py_type_variables st;
          py_custom_types := sset_insert t (py_custom_types st) |}.

(* python.rs:407 add_imports *)
Definition py_add_imports (tp : str) : PM unit :=
  if str_eqb tp (lit "Url") then py_add_import (lit "pydantic.networks") (lit "AnyUrl")
  else if str_eqb tp (lit "DateTime") then py_add_import (lit "datetime") (lit "datetime")
  else ret tt.

(* python.rs:419 add_common_imports *)
Definition py_add_common_imports (is_opt requires_custom_translation is_aliased : bool) : PM unit :=
  mdo _ <- (if is_opt then py_add_import (lit "typing") (lit "Optional") else ret tt);
  mdo _ <- (if requires_custom_translation then
              mdo _ <- py_add_import (lit "pydantic") (lit "BeforeValidator");
              mdo _ <- py_add_import (lit "pydantic") (lit "PlainSerializer");
              py_add_import (lit "typing") (lit "Annotated")
            else ret tt);
  if is_aliased || is_opt then py_add_import (lit "pydantic") (lit "Field") else ret tt.

(* format_type (mod.rs:207), python.rs:188 format_simple_type, python.rs:163 format_generic_type,
   python.rs:201 format_special_type *)
Fixpoint py_format_type (generics : list str) (t : rtype) : PM str :=
  (* python.rs:206-212: the special type's Display is looked up in type_mappings first *)
  let special_mapped (k : PM str) : PM str :=
    match tmap_get (py_type_mappings cfg) (rtype_display t) with
    | Some mapped =>
      mdo _ <- (if py_is_some (py_json_translation_for_type mapped) then py_add_custom_type mapped else ret tt);
      ret mapped
    | None => k
    end in
  let list_of (x : rtype) : PM str :=
    mdo _ <- py_add_import (lit "typing") (lit "List");
    mdo s <- py_format_type generics x;
    ret (lit "List[" ++ s ++ lit "]") in
  match t with
  | RSimple id =>
    mdo _ <- py_add_imports id;
    ret (match tmap_get (py_type_mappings cfg) id with Some m => m | None => id end)
  | RGeneric id ps =>
    mdo _ <- py_add_imports id;
    match tmap_get (py_type_mappings cfg) id with
    | Some m => ret m
    | None =>
      mdo parts <- (fix go (l : list rtype) : PM (list str) :=
                      match l with
                      | [] => ret []
                      | x :: r => mdo y <- py_format_type generics x; mdo ys <- go r; ret (y :: ys)
                      end) ps;
      (* python.rs:180 format_simple_type(base): add_imports again (idempotent); base is unmapped here *)
      ret (id ++ match parts with [] => [] | _ => lit "[" ++ join (lit ", ") parts ++ lit "]" end)
    end
  | RArray x _ => special_mapped (list_of x)
  | RSlice x => special_mapped (list_of x)
  | RVec x => special_mapped (list_of x)
  | ROption x =>
    special_mapped
      (mdo _ <- py_add_import (lit "typing") (lit "Optional");
       mdo s <- py_format_type generics x;
       ret (lit "Optional[" ++ s ++ lit "]"))
  | RHashMap k v =>
    special_mapped
      (mdo _ <- py_add_import (lit "typing") (lit "Dict");
       mdo ks <- match k with
                 | RSimple id => if mem_str id generics then fail (EGenericKeyForbiddenInTS id)
                                 else py_format_type generics k
                 | _ => py_format_type generics k
                 end;
       mdo vs <- py_format_type generics v;
       ret (lit "Dict[" ++ ks ++ lit ", " ++ vs ++ lit "]"))
  | RPrim p =>
    special_mapped
      match p with
      | PDateTime => mdo _ <- py_add_import (lit "datetime") (lit "datetime"); ret (lit "datetime")
      | PUnit => ret (lit "None")
      | PString | PChar => ret (lit "str")
      | PI8 | PU8 | PI16 | PU16 | PI32 | PU32 | PI54 | PU53 | PU64 | PI64 | PISize | PUSize => ret (lit "int")
      | PF32 | PF64 => ret (lit "float")
      | PBool => ret (lit "bool")
      end
  end.

(* "[T, U]" or "" (python.rs:282, 322) *)
Definition py_generics_list (gs : list str) : str := lit "[" ++ join (lit ", ") gs ++ lit "]".

(* python.rs:273 write_type_alias *)
Definition py_write_type_alias (a : ralias) : PM str :=
  mdo ty <- py_format_type (agenerics a) (atype a);
  ret (renamed (aid a) ++ (match agenerics a with [] => [] | gs => py_generics_list gs end) ++
       lit " = " ++ ty ++ py_nl ++ py_nl ++
       py_write_comments true (acomments a) 0).

(* python.rs:293 write_const *)
Definition py_write_const (c : rconst) : PM str :=
  mdo const_type <- py_format_type [] (ctype c);
  ret (str_to_uppercase uc (to_snake_case uc (renamed (cid c))) ++ lit ": " ++ const_type ++ lit " = " ++
       dec_of_Z (cvalue c) ++ py_nl).

(* python.rs:438 write_field *)
Definition py_write_field (generics : list str) (f : rfield) : PM str :=
  let is_opt := is_optional (fty f) || has_default f in
  let not_optional_but_default := negb (is_optional (fty f)) && has_default f in
  mdo python_type <- py_format_type generics (fty f);
  let python_field_name := py_property_aware_rename (original (fid f)) in
  let is_aliased := negb (str_eqb python_field_name (renamed (fid f))) in
  let custom_translations := py_json_translation_for_type python_type in
  mdo _ <- py_add_common_imports is_opt (py_is_some custom_translations) is_aliased;
  let field_type := if not_optional_but_default then lit "Optional[" ++ python_type ++ lit "]" else python_type in
  mdo field_type <- match custom_translations with
                    | Some ct =>
                      (* python.rs:462: the (possibly Optional[..]-wrapped) text goes into the set *)
                      mdo _ <- py_add_custom_type field_type;
                      ret (lit "Annotated[" ++ field_type ++ lit ", BeforeValidator(" ++ py_de_name ct ++
                           lit "), PlainSerializer(" ++ py_ser_name ct ++ lit ")]")
                    | None => ret field_type
                    end;
  let decorators := (if is_aliased then [lit "alias=""" ++ renamed (fid f) ++ lit """"] else []) ++
                    (if is_opt || not_optional_but_default then [lit "default=None"] else []) in
  let python_return_value := match decorators with
                             | [] => []
                             | _ => lit " = Field(" ++ join (lit ", ") decorators ++ lit ")"
                             end in
  ret (lit "    " ++ python_field_name ++ lit ": " ++ field_type ++ python_return_value ++ py_nl ++
       py_write_comments true (fcomments f) 1).

(* python.rs:746 handle_model_config *)
Definition py_handle_model_config (fields : list rfield) : PM str :=
  if existsb (fun f => negb (str_eqb (py_property_aware_rename (original (fid f))) (renamed (fid f)))) fields then
    mdo _ <- py_add_import (lit "pydantic") (lit "ConfigDict");
    ret (lit "    model_config = ConfigDict(populate_by_name=True)" ++ py_nl ++ py_nl)
  else ret [].

(* python.rs:310 write_struct *)
Definition py_write_struct (s : rstruct) : PM str :=
  mdo _ <- py_add_import (lit "pydantic") (lit "BaseModel");
  mdo _ <- py_add_type_vars (sgenerics s);
  mdo bases <- match sgenerics s with
               | [] => ret (lit "BaseModel")
               | gs => mdo _ <- py_add_import (lit "typing") (lit "Generic");
                       ret (lit "BaseModel, Generic" ++ py_generics_list gs)
               end;
  mdo config <- py_handle_model_config (sfields s);
  mdo body <- mconcat (py_write_field (sgenerics s)) (sfields s);
  ret (lit "class " ++ renamed (sid s) ++ lit "(" ++ bases ++ lit "):" ++ py_nl ++
       py_write_comments true (scomments s) 1 ++
       config ++ body ++
       (match sfields s with [] => lit "    pass" | _ => [] end) ++ py_nl).

(* python.rs:343 make_anonymous_struct_name *)
Definition py_anonymous_struct_name (e : eshared) (variant_name : str) : str :=
  renamed (eid e) ++ variant_name ++ lit "Inner".

(* mod.rs:366 write_types_for_anonymous_structs *)
Definition py_write_types_for_anonymous_structs (e : eshared) : PM str :=
  mconcat (fun v => match v with
                    | VAnon fs sh =>
                      py_write_struct (anon_struct e (py_anonymous_struct_name e (original (vid sh))) (original (vid sh)) fs)
                    | _ => ret []
                    end) (evariants e).

(* python.rs:568 write_variant_class *)
Definition py_write_variant_class (class_name tag_key tag_value content_key : str)
           (content_type content_value : option str) (comments : list str) : PM str :=
  mdo _ <- py_add_import (lit "typing") (lit "Literal");
  ret (lit "class " ++ class_name ++ lit "(BaseModel):" ++ py_nl ++
       py_write_comments true comments 1 ++
       lit "    " ++ tag_key ++ lit ": Literal[" ++ tag_value ++ lit "] = " ++ tag_value ++ py_nl ++
       match content_type, content_value with
       | None, None => []
       | _, _ => lit "    " ++ content_key ++
                 (match content_type with Some ct => lit ": " ++ ct | None => [] end) ++
                 (match content_value with Some cv => lit " = " ++ cv | None => [] end) ++ py_nl
       end).

(* python.rs:620-629: (type_key_name, type_string) of a variant *)
Definition py_variant_type_key (v : rvariant) : str :=
  str_to_uppercase uc (cc_to_snake uc (renamed (vid (variant_shared v)))).

(* python.rs:649-707: one variant of an algebraic enum *)
Definition py_write_algebraic_variant (tag_key content_key enum_name enum_type_class_name : str)
           (sh : eshared) (v : rvariant) : PM str :=
  let variant_class_name := enum_name ++ original (vid (variant_shared v)) in
  let tag_value := enum_type_class_name ++ lit "." ++ py_variant_type_key v in
  match v with
  | VUnit vsh =>
    mdo c <- py_write_variant_class variant_class_name tag_key tag_value content_key None None (vcomments vsh);
    ret (c ++ py_nl)
  | VTuple ty vsh =>
    mdo tuple_name <- py_format_type (egenerics sh) ty;
    mdo c <- py_write_variant_class variant_class_name tag_key tag_value content_key (Some tuple_name) None (vcomments vsh);
    ret (c ++ py_nl)
  | VAnon _ vsh =>
    let variant_class_inner_name := py_anonymous_struct_name sh (original (vid vsh)) in
    mdo c <- py_write_variant_class variant_class_name tag_key tag_value content_key (Some variant_class_inner_name) None (vcomments vsh);
    ret (c ++ py_nl)
  end.

(* python.rs:603 write_algebraic_enum *)
Definition py_write_algebraic_enum (tag_key content_key enum_name : str) (sh : eshared) : PM str :=
  mdo _ <- py_add_type_vars (egenerics sh);
  mdo _ <- py_add_import (lit "pydantic") (lit "BaseModel");
  let enum_type_class_name := renamed (eid sh) ++ lit "Types" in
  mdo _ <- py_add_import (lit "enum") (lit "Enum");
  let types_class :=
    lit "class " ++ enum_type_class_name ++ lit "(str, Enum):" ++ py_nl ++
    join py_nl (map (fun v => lit "    " ++ py_variant_type_key v ++ lit " = """ ++
                              renamed (vid (variant_shared v)) ++ lit """") (evariants sh)) ++ py_nl ++
    py_nl in
  mdo classes <- mconcat (py_write_algebraic_variant tag_key content_key enum_name enum_type_class_name sh) (evariants sh);
  let union_members := map (fun v => enum_name ++ original (vid (variant_shared v))) (evariants sh) in
  mdo last <- match union_members with
              | [m] => ret (enum_name ++ lit " = " ++ m ++ py_nl)
              | _ => mdo _ <- py_add_import (lit "typing") (lit "Union");
                     ret (enum_name ++ lit " = Union[" ++ join (lit ", ") union_members ++ lit "]" ++ py_nl)
              end;
  ret (types_class ++ classes ++ py_write_comments false (ecomments sh) 0 ++ last).

(* python.rs:359-372: one variant of a unit enum *)
Definition py_write_unit_variant (v : rvariant) : PM str :=
  match v with
  | VUnit vsh =>
    ret (lit "    " ++ str_to_uppercase uc (original (vid vsh)) ++ lit " = """ ++
         replace_sub [ch_dq] [ch_bs; ch_dq] (renamed (vid vsh)) ++ lit """" ++ py_nl ++
         py_write_comments true (vcomments vsh) 1)
  | _ => mpanic "python.rs:368"
  end.

(* python.rs:341 write_enum *)
Definition py_write_enum (e : renum) : PM str :=
  mdo anon <- py_write_types_for_anonymous_structs (enum_shared e);
  match e with
  | EUnit sh =>
    mdo _ <- py_add_import (lit "enum") (lit "Enum");
    mdo vs <- match evariants sh with
              | [] => ret (lit "    pass" ++ py_nl)
              | l => mconcat py_write_unit_variant l
              end;
    ret (anon ++ lit "class " ++ renamed (eid sh) ++ lit "(str, Enum):" ++ py_nl ++
         py_write_comments true (ecomments sh) 1 ++ vs)
  | EAlgebraic tag_key content_key sh =>
    mdo body <- py_write_algebraic_enum tag_key content_key (renamed (eid sh)) sh;
    ret (anon ++ body)
  end.

Definition py_write_item (it : ritem) : PM str :=
  match it with
  | ItEnum e => py_write_enum e
  | ItStruct s => py_write_struct s
  | ItAlias a => py_write_type_alias a
  | ItConst c => py_write_const c
  end.

(* python.rs:264 begin_file *)
Definition py_begin_file : str :=
  if py_no_version_header cfg then []
  else lit """""""" ++ py_nl ++ lit " Generated by typeshare " ++ py_version cfg ++ py_nl ++ lit """""""" ++ py_nl.

(* python.rs:538 write_all_imports *)
Definition py_write_all_imports (st : py_state) : str :=
  let type_vars := map (fun name => name ++ lit " = TypeVar(""" ++ name ++ lit """)") (py_type_variables st) in
  let imports := py_sort (map (fun mi => lit "from " ++ fst mi ++ lit " import " ++ join (lit ", ") (snd mi))
                              (py_imports st)) in
  lit "from __future__ import annotations" ++ py_nl ++ py_nl ++
  join py_nl imports ++ py_nl ++ py_nl ++
  match type_vars with
  | [] => py_nl
  | _ => join py_nl type_vars ++ py_nl ++ py_nl ++ py_nl
  end.

(* python.rs:142-158: the helper functions for the collected types, in sorted order *)
Definition py_write_custom_translations (st : py_state) : str :=
  flat_map (fun py_type => match py_json_translation_for_type py_type with
                           | Some ct => py_ser_content ct ++ py_nl ++ py_nl ++ py_de_content ct ++ py_nl ++ py_nl
                           | None => []
                           end) (py_custom_types st).

(* python.rs:104 generate_types (overrides the trait default): header, then the body is written to a
   side buffer, then imports / TypeVars / helper functions (which depend on the state the body left
   behind), then the body. *)
Definition py_generate (pd : parsed) : outcome str :=
  do items <- topsort (items_of pd);
  match mconcat py_write_item items py_empty_state with
  | Ok (body, st) => Ok (py_begin_file ++ py_write_all_imports st ++ py_write_custom_translations st ++ body)
  | Err e => Err e
  | Panic p => Panic p
  end.
End PY.
