(* core/src/language/python.rs, function by function. Output is text (str). *)
From Coq Require Import String.
From TS Require Import Model.Str Model.Outcome Model.Unicode Model.Types Model.Parse Model.Rename
                       Model.TopsortAlgo Model.Topsort Model.Lang.Common Model.Lang.ConvertCase Model.Lang.Decl.

(* python.rs:82 struct Python: the pub fields the harness sets; py_version = env!("CARGO_PKG_VERSION") *)
Record py_config := { py_type_mappings : tmap; py_no_version_header : bool; py_version : str }.

(* python.rs:82 struct Python: the mutable part.
   imports: HashMap<String, HashSet<String>>  - only read by write_all_imports, which sorts the identifiers
            of every module and then sorts the formatted lines: kept as a key-sorted map of sorted sets;
   type_variables: HashSet<String>            - sorted by write_all_imports before printing: sorted set;
   types_for_custom_json_translation: HashSet<String> - iterated through .sorted(): sorted set.
   No hash order reaches the output. *)
Record py_state := { py_imports : list (str * list str); py_type_variables : list str;
                     py_custom_types : list str }.
Definition py_empty_state : py_state := {| py_imports := []; py_type_variables := []; py_custom_types := [] |}.

Fixpoint py_imports_insert (m : list (str * list str)) (k v : str) : list (str * list str) :=
  match m with
  | [] => [(k, [v])]
  | (a, s) :: r => if str_eqb a k then (a, sset_insert v s) :: r
                   else if str_ltb k a then (k, [v]) :: m else (a, s) :: py_imports_insert r k v
  end.

(* [T]::sort on Strings *)
Fixpoint py_sorted_insert (x : str) (l : list str) : list str :=
  match l with
  | [] => [x]
  | y :: r => if str_ltb x y then x :: l else y :: py_sorted_insert x r
  end.
Definition py_sort (l : list str) : list str := fold_right py_sorted_insert [] l.

Definition py_nl : str := [ch_nl].
Definition py_indent (n : nat) : str := repeat_str (lit "    ") n.

(* python.rs:73 CustomJsonTranslationFunctions *)
Record py_translation := { py_ser_name : str; py_ser_content : str; py_de_name : str; py_de_content : str }.

(* python.rs:758 json_translation_for_type (a HashMap that is only looked up by key) *)
Definition py_bytes_translation : py_translation :=
  {| py_ser_name := lit "serialize_binary_data";
     py_ser_content := lit "def serialize_binary_data(value: bytes) -> list[int]:" ++ py_nl ++
                       lit "        return list(value)";
     py_de_name := lit "deserialize_binary_data";
     py_de_content := lit "def deserialize_binary_data(value):" ++ py_nl ++
                      lit "     if isinstance(value, list):" ++ py_nl ++
                      lit "         if all(isinstance(x, int) and 0 <= x <= 255 for x in value):" ++ py_nl ++
                      lit "            return bytes(value)" ++ py_nl ++
                      lit "         raise ValueError(""All elements must be integers in the range 0-255 (u8)."")" ++ py_nl ++
                      lit "     elif isinstance(value, bytes):" ++ py_nl ++
                      lit "            return value" ++ py_nl ++
                      lit "     raise TypeError(""Content must be a list of integers (0-255) or bytes."")" |}.
Definition py_datetime_translation : py_translation :=
  {| py_ser_name := lit "serialize_datetime_data";
     py_ser_content := lit "def serialize_datetime_data(utc_time: datetime) -> str:" ++ py_nl ++
                       lit "        return utc_time.strftime(""%Y-%m-%dT%H:%M:%S.%fZ"")";
     py_de_name := lit "parse_rfc3339";
     py_de_content := lit "def parse_rfc3339(date_str: str) -> datetime:" ++ py_nl ++
                      lit "    date_formats = [" ++ py_nl ++
                      lit "        ""%Y-%m-%dT%H:%M:%SZ"",   " ++ py_nl ++
                      lit "        ""%Y-%m-%dT%H:%M:%S.%fZ""" ++ py_nl ++
                      lit "    ]" ++ py_nl ++
                      lit "    " ++ py_nl ++
                      lit "    for fmt in date_formats:" ++ py_nl ++
                      lit "        try:" ++ py_nl ++
                      lit "            return datetime.strptime(date_str, fmt)" ++ py_nl ++
                      lit "        except ValueError:" ++ py_nl ++
                      lit "            continue" ++ py_nl ++
                      lit "    " ++ py_nl ++
                      lit "    raise ValueError(f""Invalid RFC 3339 date format: {date_str}"")" |}.
Definition py_json_translation_for_type (python_type : str) : option py_translation :=
  if str_eqb python_type (lit "bytes") then Some py_bytes_translation
  else if str_eqb python_type (lit "datetime") then Some py_datetime_translation
  else None.
Definition py_is_some {A} (o : option A) : bool := match o with Some _ => true | None => false end.

(* python.rs:511 v.replace(DQ DQ DQ, BS DQ BS DQ BS DQ): three quotes inside the text would end the docstring early *)
Definition py_escape_docstring (v : str) : str :=
  replace_sub [ch_dq; ch_dq; ch_dq] [ch_bs; ch_dq; ch_bs; ch_dq; ch_bs; ch_dq] v.

(* python.rs:494 write_comments *)
Definition py_write_comments (is_docstring : bool) (comments : list str) (indent_level : nat) : str :=
  let indent := py_indent indent_level in
  match comments with
  | [] => []
  | _ =>
    (if is_docstring then
       indent ++ lit """""""" ++ py_nl ++
       join py_nl (map (fun v => indent ++ v) (map py_escape_docstring comments)) ++ py_nl ++
       indent ++ lit """"""""
     else join py_nl (map (fun v => indent ++ lit "# " ++ v) comments)) ++ py_nl
  end.

(* python.rs:722 get_python_keywords *)
Definition py_keywords : list str :=
  [lit "False"; lit "None"; lit "True"; lit "and"; lit "as"; lit "assert"; lit "async"; lit "await";
   lit "break"; lit "class"; lit "continue"; lit "def"; lit "del"; lit "elif"; lit "else"; lit "except";
   lit "finally"; lit "for"; lit "from"; lit "global"; lit "if"; lit "import"; lit "in"; lit "is";
   lit "lambda"; lit "nonlocal"; lit "not"; lit "or"; lit "pass"; lit "raise"; lit "return"; lit "try";
   lit "while"; lit "with"; lit "yield"].

Section PY.
Variable uc : unicode.
Variable cfg : py_config.
Notation PM := (M py_state).

(* python.rs:737 python_property_aware_rename. NB a keyword keeps the ORIGINAL spelling plus "_" *)
Definition py_name_is_keyword (name : str) : bool := mem_str (cc_to_snake uc name) py_keywords.
Definition py_property_aware_rename (name : str) : str :=
  if py_name_is_keyword name then name ++ lit "_" else cc_to_snake uc name.

(* python.rs:529 add_import *)
Definition py_add_import (module identifier : str) : PM unit :=
  mdo st <- mget;
  mput {| py_imports := py_imports_insert (py_imports st) module identifier;
          py_type_variables := py_type_variables st; py_custom_types := py_custom_types st |}.

(* python.rs:533 add_type_var *)
Definition py_add_type_var (name : str) : PM unit :=
  mdo _ <- py_add_import (lit "typing") (lit "TypeVar");
  mdo st <- mget;
  mput {| py_imports := py_imports st; py_type_variables := sset_insert name (py_type_variables st);
          py_custom_types := py_custom_types st |}.
Fixpoint py_add_type_vars (names : list str) : PM unit :=
  match names with
  | [] => ret tt
  | n :: r => mdo _ <- py_add_type_var n; py_add_type_vars r
  end.

(* self.types_for_custom_json_translation.insert(..) *)
Definition py_add_custom_type (t : str) : PM unit :=
  mdo st <- mget;
  mput {| py_imports := py_imports st; py_type_variables := py_type_variables st;
          py_custom_types := sset_insert t (py_custom_types st) |}.

(* python.rs:407 add_imports *)
Definition py_add_imports (tp : str) : PM unit :=
  if str_eqb tp (lit "Url") then py_add_import (lit "pydantic.networks") (lit "AnyUrl")
  else if str_eqb tp (lit "DateTime") then py_add_import (lit "datetime") (lit "datetime")
  else ret tt.

(* python.rs:419 add_common_imports *)
Definition py_add_common_imports (is_opt requires_custom_translation is_aliased : bool) : PM unit :=
  mdo _ <- (if is_opt then py_add_import (lit "typing") (lit "Optional") else ret tt);
  mdo _ <- (if requires_custom_translation then
              mdo _ <- py_add_import (lit "pydantic") (lit "BeforeValidator");
              mdo _ <- py_add_import (lit "pydantic") (lit "PlainSerializer");
              py_add_import (lit "typing") (lit "Annotated")
            else ret tt);
  if is_aliased || is_opt then py_add_import (lit "pydantic") (lit "Field") else ret tt.

(* ---- target type expressions: format_type (mod.rs:207), python.rs:188 format_simple_type,
   python.rs:163 format_generic_type, python.rs:201 format_special_type, building a tree;
   [py_show] prints it.  Constructors used: XName (user types, builtins, List[..], Dict[.., ..],
   Name[..]), XOpt (Optional[..]), XRaw (type_mappings results). XSeq / XFixed / XMap are never built. ---- *)
Fixpoint py_show (x : texp) : str :=
  match x with
  | XName n [] => n
  | XName n args => n ++ lit "[" ++ join (lit ", ") (map py_show args) ++ lit "]"
  | XOpt e => lit "Optional[" ++ py_show e ++ lit "]"
  | XRaw t => t
  (* not produced by py_texp; printed the way Python would spell them *)
  | XSeq e => lit "List[" ++ py_show e ++ lit "]"
  | XFixed es => lit "Tuple[" ++ join (lit ", ") (map py_show es) ++ lit "]"
  | XMap k v => lit "Dict[" ++ py_show k ++ lit ", " ++ py_show v ++ lit "]"
  end.

Fixpoint py_texp (generics : list str) (t : rtype) : PM texp :=
  (* python.rs:206-212: the special type's Display is looked up in type_mappings first *)
  let special_mapped (k : PM texp) : PM texp :=
    match tmap_get (py_type_mappings cfg) (rtype_display t) with
    | Some mapped =>
      mdo _ <- (if py_is_some (py_json_translation_for_type mapped) then py_add_custom_type mapped else ret tt);
      ret (XRaw mapped)
    | None => k
    end in
  let list_of (x : rtype) : PM texp :=
    mdo _ <- py_add_import (lit "typing") (lit "List");
    mdo e <- py_texp generics x;
    ret (XName (lit "List") [e]) in
  match t with
  | RSimple id =>
    mdo _ <- py_add_imports id;
    ret (match tmap_get (py_type_mappings cfg) id with Some m => XRaw m | None => XName id [] end)
  | RGeneric id ps =>
    mdo _ <- py_add_imports id;
    match tmap_get (py_type_mappings cfg) id with
    | Some m => ret (XRaw m)                       (* a mapped generic type drops its arguments *)
    | None =>
      mdo parts <- (fix go (l : list rtype) : PM (list texp) :=
                      match l with
                      | [] => ret []
                      | x :: r => mdo y <- py_texp generics x; mdo ys <- go r; ret (y :: ys)
                      end) ps;
      (* python.rs:180 format_simple_type(base): add_imports again (idempotent); base is unmapped here *)
      ret (XName id parts)
    end
  | RArray x _ => special_mapped (list_of x)
  | RSlice x => special_mapped (list_of x)
  | RVec x => special_mapped (list_of x)
  | ROption x =>
    special_mapped
      (mdo _ <- py_add_import (lit "typing") (lit "Optional");
       mdo e <- py_texp generics x;
       ret (XOpt e))
  | RHashMap k v =>
    special_mapped
      (mdo _ <- py_add_import (lit "typing") (lit "Dict");
       mdo ke <- match k with
                 | RSimple id => if mem_str id generics then fail (EGenericKeyForbiddenInTS id)
                                 else py_texp generics k
                 | _ => py_texp generics k
                 end;
       mdo ve <- py_texp generics v;
       ret (XName (lit "Dict") [ke; ve]))
  | RPrim p =>
    special_mapped
      match p with
      | PDateTime => mdo _ <- py_add_import (lit "datetime") (lit "datetime"); ret (XName (lit "datetime") [])
      | PUnit => ret (XName (lit "None") [])
      | PString | PChar => ret (XName (lit "str") [])
      | PI8 | PU8 | PI16 | PU16 | PI32 | PU32 | PI54 | PU53 | PU64 | PI64 | PISize | PUSize => ret (XName (lit "int") [])
      | PF32 | PF64 => ret (XName (lit "float") [])
      | PBool => ret (XName (lit "bool") [])
      end
  end.

(* the text format_type returns *)
Definition py_format_type (generics : list str) (t : rtype) : PM str :=
  mdo x <- py_texp generics t; ret (py_show x).

(* ---- declarations (decisions) ---- *)
(* one attribute of a pydantic class (python.rs:438 write_field) *)
Record py_member := {
  pym_docs : list str;
  pym_name : str;                     (* python_field_name *)
  pym_escaped : bool;                 (* the keyword branch of python_property_aware_rename was taken *)
  pym_alias : option str;             (* Some renamed: Field(alias="renamed") *)
  pym_type : texp;                    (* field_type BEFORE the Annotated wrapper: the translated type, inside XOpt
                                         when a non-Option field has a serde default (python.rs:458) *)
  pym_annotated : option (str * str); (* Some (deserialization_name, serialization_name): Annotated[.., BeforeValidator(..), PlainSerializer(..)] *)
  pym_default_none : bool             (* Field(default=None) *)
}.

(* what a variant class of an algebraic enum holds under the content key *)
Inductive py_content :=
| PYCNone                             (* unit variant: no content attribute *)
| PYCType (ty : texp)                 (* tuple variant: content: <type> *)
| PYCInner (inner : str).             (* struct variant: content: <Enum><Variant>Inner, the name as USED here (no type arguments) *)

Record py_variant := {
  pyv_docs : list str;
  pyv_class : str;                    (* variant_class_name = enum_name ++ original; also the member of the final Union *)
  pyv_types : str;                    (* enum_type_class_name, as spelled in the tag value *)
  pyv_type_key : str;                 (* type_key_name: the member of the Types enum the tag value refers to *)
  pyv_content : py_content
}.

Inductive py_decl :=
| PYAlias (docs : list str) (name : str) (generics : list str) (ty : texp)
| PYConst (name : str) (ty : texp) (value : str)
(* a pydantic class: a source struct, or the <Enum><Variant>Inner helper of a struct variant;
   populate_by_name = the model_config line is required (python.rs:746 handle_model_config) *)
| PYClass (docs : list str) (name : str) (generics : list str) (populate_by_name : bool) (ms : list py_member)
| PYUnitEnum (docs : list str) (name : str) (vs : list (list str * str * str))   (* docs, member name, wire value *)
(* the <Enum>Types (str, Enum) class with its (member name, wire value) entries, one class per variant,
   and the final  name = Union[..]  *)
| PYAlgebraic (docs : list str) (name : str) (types_name : str) (entries : list (str * str))
              (tag content : str) (vs : list py_variant).

(* python.rs:438 write_field: decisions *)
Definition py_member_of (generics : list str) (f : rfield) : PM py_member :=
  let is_opt := is_optional (fty f) || has_default f in
  let not_optional_but_default := negb (is_optional (fty f)) && has_default f in
  mdo ty <- py_texp generics (fty f);
  let python_type := py_show ty in
  let python_field_name := py_property_aware_rename (original (fid f)) in
  let is_aliased := negb (str_eqb python_field_name (renamed (fid f))) in
  let custom_translations := py_json_translation_for_type python_type in
  mdo _ <- py_add_common_imports is_opt (py_is_some custom_translations) is_aliased;
  let field_type := if not_optional_but_default then XOpt ty else ty in
  mdo ann <- match custom_translations with
             | Some ct =>
               (* python.rs:464: the type the translation was found for goes into the set (not the
                  Optional[..]-wrapped text of a defaulted field) *)
               mdo _ <- py_add_custom_type python_type;
               ret (Some (py_de_name ct, py_ser_name ct))
             | None => ret None
             end;
  ret {| pym_docs := fcomments f; pym_name := python_field_name;
         pym_escaped := py_name_is_keyword (original (fid f));
         pym_alias := if is_aliased then Some (renamed (fid f)) else None;
         pym_type := field_type; pym_annotated := ann;
         pym_default_none := is_opt || not_optional_but_default |}.

(* python.rs:746 handle_model_config: decision *)
Definition py_populate_by_name (fields : list rfield) : PM bool :=
  if existsb (fun f => negb (str_eqb (py_property_aware_rename (original (fid f))) (renamed (fid f)))) fields then
    mdo _ <- py_add_import (lit "pydantic") (lit "ConfigDict"); ret true
  else ret false.

(* python.rs:310 write_struct: decisions *)
Definition py_class_of (s : rstruct) : PM py_decl :=
  mdo _ <- py_add_import (lit "pydantic") (lit "BaseModel");
  mdo _ <- py_add_type_vars (sgenerics s);
  mdo _ <- match sgenerics s with
           | [] => ret tt
           | _ => py_add_import (lit "typing") (lit "Generic")
           end;
  mdo config <- py_populate_by_name (sfields s);
  mdo ms <- mmapM (py_member_of (sgenerics s)) (sfields s);
  ret (PYClass (scomments s) (renamed (sid s)) (sgenerics s) config ms).

(* python.rs:343 make_anonymous_struct_name: the ONE closure that names the helper both where it is
   defined (mod.rs:377) and where it is referenced (python.rs:692) *)
Definition py_anonymous_struct_name (e : eshared) (variant_name : str) : str :=
  renamed (eid e) ++ variant_name ++ lit "Inner".

(* mod.rs:366 write_types_for_anonymous_structs: one helper class per struct variant *)
Fixpoint py_inner_classes_of (e : eshared) (vs : list rvariant) : PM (list py_decl) :=
  match vs with
  | [] => ret []
  | VAnon fs sh :: r =>
    mdo c <- py_class_of (anon_struct e (py_anonymous_struct_name e (original (vid sh))) (original (vid sh)) fs);
    mdo cs <- py_inner_classes_of e r;
    ret (c :: cs)
  | _ :: r => py_inner_classes_of e r
  end.

(* python.rs:620-629: (type_key_name, type_string) of a variant *)
Definition py_variant_type_key (v : rvariant) : str :=
  str_to_uppercase uc (cc_to_snake uc (renamed (vid (variant_shared v)))).

(* python.rs:649-707 and python.rs:568 write_variant_class: one variant of an algebraic enum *)
Definition py_variant_of (enum_name enum_type_class_name : str) (sh : eshared) (v : rvariant) : PM py_variant :=
  let mk (docs : list str) (c : py_content) : py_variant :=
    {| pyv_docs := docs; pyv_class := enum_name ++ original (vid (variant_shared v));
       pyv_types := enum_type_class_name; pyv_type_key := py_variant_type_key v; pyv_content := c |} in
  match v with
  | VUnit vsh =>
    mdo _ <- py_add_import (lit "typing") (lit "Literal");
    ret (mk (vcomments vsh) PYCNone)
  | VTuple ty vsh =>
    mdo tuple_name <- py_texp (egenerics sh) ty;
    mdo _ <- py_add_import (lit "typing") (lit "Literal");
    ret (mk (vcomments vsh) (PYCType tuple_name))
  | VAnon _ vsh =>
    mdo _ <- py_add_import (lit "typing") (lit "Literal");
    ret (mk (vcomments vsh) (PYCInner (py_anonymous_struct_name sh (original (vid vsh)))))
  end.

(* python.rs:603 write_algebraic_enum: decisions *)
Definition py_algebraic_of (tag_key content_key enum_name : str) (sh : eshared) : PM py_decl :=
  mdo _ <- py_add_type_vars (egenerics sh);
  mdo _ <- py_add_import (lit "pydantic") (lit "BaseModel");
  let enum_type_class_name := renamed (eid sh) ++ lit "Types" in
  mdo _ <- py_add_import (lit "enum") (lit "Enum");
  let entries := map (fun v => (py_variant_type_key v, renamed (vid (variant_shared v)))) (evariants sh) in
  mdo vs <- mmapM (py_variant_of enum_name enum_type_class_name sh) (evariants sh);
  mdo _ <- match vs with
           | [_] => ret tt
           | _ => py_add_import (lit "typing") (lit "Union")
           end;
  ret (PYAlgebraic (ecomments sh) enum_name enum_type_class_name entries tag_key content_key vs).

(* python.rs:359-372: one variant of a unit enum *)
Definition py_unit_variant_of (v : rvariant) : PM (list str * str * str) :=
  match v with
  | VUnit vsh => ret (vcomments vsh, str_to_uppercase uc (original (vid vsh)), renamed (vid vsh))
  | _ => mpanic "python.rs:368"
  end.

(* python.rs:341 write_enum, python.rs:273 write_type_alias, python.rs:293 write_const: decisions.
   The helper classes of an enum's struct variants come first, in variant order. *)
Definition py_decl_of (it : ritem) : PM (list py_decl) :=
  match it with
  | ItEnum e =>
    mdo inners <- py_inner_classes_of (enum_shared e) (evariants (enum_shared e));
    match e with
    | EUnit sh =>
      mdo _ <- py_add_import (lit "enum") (lit "Enum");
      mdo vs <- mmapM py_unit_variant_of (evariants sh);
      ret (inners ++ [PYUnitEnum (ecomments sh) (renamed (eid sh)) vs])
    | EAlgebraic tag_key content_key sh =>
      mdo d <- py_algebraic_of tag_key content_key (renamed (eid sh)) sh;
      ret (inners ++ [d])
    end
  | ItStruct s => mdo d <- py_class_of s; ret [d]
  | ItAlias a =>
    mdo ty <- py_texp (agenerics a) (atype a);
    (* python.rs:280: every generic parameter of the alias is declared as a TypeVar *)
    mdo _ <- py_add_type_vars (agenerics a);
    ret [PYAlias (acomments a) (renamed (aid a)) (agenerics a) ty]
  | ItConst c =>
    mdo const_type <- py_texp [] (ctype c);
    ret [PYConst (str_to_uppercase uc (to_snake_case uc (renamed (cid c)))) const_type (dec_of_Z (cvalue c))]
  end.

(* ---- rendering (layout only) ---- *)
(* "[T, U]" (python.rs:319) *)
Definition py_generics_list (gs : list str) : str := lit "[" ++ join (lit ", ") gs ++ lit "]".

(* python.rs:456-488 *)
Definition py_render_member (m : py_member) : str :=
  let shown := py_show (pym_type m) in
  let field_type := match pym_annotated m with
                    | Some (de, ser) => lit "Annotated[" ++ shown ++ lit ", BeforeValidator(" ++ de ++
                                        lit "), PlainSerializer(" ++ ser ++ lit ")]"
                    | None => shown
                    end in
  let decorators := (match pym_alias m with Some k => [lit "alias=""" ++ k ++ lit """"] | None => [] end) ++
                    (if pym_default_none m then [lit "default=None"] else []) in
  let python_return_value := match decorators with
                             | [] => []
                             | _ => lit " = Field(" ++ join (lit ", ") decorators ++ lit ")"
                             end in
  lit "    " ++ pym_name m ++ lit ": " ++ field_type ++ python_return_value ++ py_nl ++
  py_write_comments true (pym_docs m) 1.

(* python.rs:568 write_variant_class, then the blank line of python.rs:666/685/704 *)
Definition py_render_variant (tag_key content_key : str) (v : py_variant) : str :=
  let tag_value := pyv_types v ++ lit "." ++ pyv_type_key v in
  lit "class " ++ pyv_class v ++ lit "(BaseModel):" ++ py_nl ++
  py_write_comments true (pyv_docs v) 1 ++
  lit "    " ++ tag_key ++ lit ": Literal[" ++ tag_value ++ lit "] = " ++ tag_value ++ py_nl ++
  match pyv_content v with
  | PYCNone => []
  | PYCType ty => lit "    " ++ content_key ++ lit ": " ++ py_show ty ++ py_nl
  | PYCInner inner => lit "    " ++ content_key ++ lit ": " ++ inner ++ py_nl
  end ++ py_nl.

Definition py_render_decl (d : py_decl) : str :=
  match d with
  | PYAlias docs name gs ty =>
    (* python.rs:283: a plain assignment; the generic parameters [gs] (kept in the declaration: they are
       what write_type_alias registered as TypeVars) are not spelled after the name *)
    name ++ lit " = " ++ py_show ty ++ py_nl ++ py_nl ++
    py_write_comments true docs 0
  | PYConst name ty value =>
    name ++ lit ": " ++ py_show ty ++ lit " = " ++ value ++ py_nl
  | PYClass docs name gs config ms =>
    lit "class " ++ name ++ lit "(" ++
    (match gs with [] => lit "BaseModel" | _ => lit "BaseModel, Generic" ++ py_generics_list gs end) ++
    lit "):" ++ py_nl ++
    py_write_comments true docs 1 ++
    (if config then lit "    model_config = ConfigDict(populate_by_name=True)" ++ py_nl ++ py_nl else []) ++
    List.concat (map py_render_member ms) ++
    (match ms with [] => lit "    pass" | _ => [] end) ++ py_nl
  | PYUnitEnum docs name vs =>
    lit "class " ++ name ++ lit "(str, Enum):" ++ py_nl ++
    py_write_comments true docs 1 ++
    match vs with
    | [] => lit "    pass" ++ py_nl
    | _ => List.concat (map (fun v => let '(vdocs, case, wire) := v in
                                      lit "    " ++ case ++ lit " = """ ++
                                      replace_sub [ch_dq] [ch_bs; ch_dq] wire ++ lit """" ++ py_nl ++
                                      py_write_comments true vdocs 1) vs)
    end
  | PYAlgebraic docs name types_name entries tag_key content_key vs =>
    lit "class " ++ types_name ++ lit "(str, Enum):" ++ py_nl ++
    join py_nl (map (fun kw => lit "    " ++ fst kw ++ lit " = """ ++ snd kw ++ lit """") entries) ++ py_nl ++
    py_nl ++
    List.concat (map (py_render_variant tag_key content_key) vs) ++
    py_write_comments false docs 0 ++
    match map pyv_class vs with
    | [m] => name ++ lit " = " ++ m ++ py_nl
    | union_members => name ++ lit " = Union[" ++ join (lit ", ") union_members ++ lit "]" ++ py_nl
    end
  end.

(* write_struct / write_enum / write_type_alias / write_const = render of the declarations *)
Definition py_write_item (it : ritem) : PM str :=
  mdo ds <- py_decl_of it; ret (List.concat (map py_render_decl ds)).

(* ---- observation: the language-independent view of a declaration ---- *)
(* The optional idiom of a pydantic attribute is an  Optional[T]  annotation TOGETHER WITH a None default
   (Field(default=None ..)).  mb_optional says both are present; mb_type is then T: exactly ONE outer
   XOpt of pym_type is stripped (Option<Option<T>> keeps the inner Optional[..]; an  Option<T>  whose
   Display is in type_mappings is XRaw: default None but no Optional annotation, so not optional here and
   nothing is stripped).  The Annotated[.., BeforeValidator, PlainSerializer] wrapper is not part of mb_type. *)
Definition py_obs_member (m : py_member) : member :=
  let opt := match pym_type m with XOpt _ => pym_default_none m | _ => false end in
  {| mb_name := pym_name m; mb_escaped := pym_escaped m;
     mb_key := match pym_alias m with Some k => k | None => pym_name m end;
     mb_binding := match pym_alias m with Some _ => BAlias | None => BName end;
     mb_optional := opt;
     mb_type := match pym_type m with XOpt t => if opt then t else pym_type m | t => t end;
     mb_docs := pym_docs m |}.

(* the wire string a tag value  Types.KEY  stands for: the value of the member KEY of the Types class
   (looked up BY NAME, first entry; a Python Enum rejects a repeated member name) *)
Fixpoint py_types_lookup (entries : list (str * str)) (key : str) : str :=
  match entries with
  | [] => []
  | (k, w) :: r => if str_eqb k key then w else py_types_lookup r key
  end.

(* a tuple variant's content attribute has no default, so it never carries the optional idiom:
   PayNewtype ty false with ty unstripped.  A struct variant refers to its helper by the bare name. *)
Definition py_obs_variant (entries : list (str * str)) (v : py_variant) : variantd :=
  {| vd_name := pyv_class v; vd_wire := py_types_lookup entries (pyv_type_key v);
     vd_payload := match pyv_content v with
                   | PYCNone => PayUnit
                   | PYCType ty => PayNewtype ty false
                   | PYCInner inner => PayRef inner []
                   end;
     vd_parent := None; vd_docs := pyv_docs v |}.

Definition py_obs (d : py_decl) : list decl :=
  match d with
  | PYAlias docs name gs ty =>
    [{| d_kind := DAlias; d_name := name; d_escaped := false; d_generics := gs; d_docs := docs; d_members := [];
        d_variants := []; d_tag_keys := []; d_content_keys := []; d_type := Some ty; d_value := None |}]
  | PYConst name ty value =>
    [{| d_kind := DConst; d_name := name; d_escaped := false; d_generics := []; d_docs := []; d_members := [];
        d_variants := []; d_tag_keys := []; d_content_keys := []; d_type := Some ty; d_value := Some value |}]
  | PYClass docs name gs _ ms =>
    [{| d_kind := DStruct; d_name := name; d_escaped := false; d_generics := gs; d_docs := docs;
        d_members := map py_obs_member ms;
        d_variants := []; d_tag_keys := []; d_content_keys := []; d_type := None; d_value := None |}]
  | PYUnitEnum docs name vs =>
    [{| d_kind := DEnum; d_name := name; d_escaped := false; d_generics := []; d_docs := docs; d_members := [];
        d_variants := map (fun v => let '(vdocs, case, wire) := v in
                                    {| vd_name := case; vd_wire := wire; vd_payload := PayUnit; vd_parent := None; vd_docs := vdocs |}) vs;
        d_tag_keys := []; d_content_keys := []; d_type := None; d_value := None |}]
  | PYAlgebraic docs name types_name entries tag_key content_key vs =>
    (* the Types class is a definition typeshare adds itself; then the enum: its variant classes and the
       Union.  The text declares no type parameters for either.  The tag key is spelled once in every
       variant class, the content key once in every variant class that has content. *)
    [{| d_kind := DHelper; d_name := types_name; d_escaped := false; d_generics := []; d_docs := []; d_members := [];
        d_variants := map (fun kw => {| vd_name := fst kw; vd_wire := snd kw; vd_payload := PayUnit; vd_parent := None; vd_docs := [] |}) entries;
        d_tag_keys := []; d_content_keys := []; d_type := None; d_value := None |};
     {| d_kind := DEnum; d_name := name; d_escaped := false; d_generics := []; d_docs := docs; d_members := [];
        d_variants := map (py_obs_variant entries) vs;
        d_tag_keys := map (fun _ => tag_key) vs;
        d_content_keys := flat_map (fun v => match pyv_content v with PYCNone => [] | _ => [content_key] end) vs;
        d_type := None; d_value := None |}]
  end.

(* python.rs:264 begin_file *)
Definition py_begin_file : str :=
  if py_no_version_header cfg then []
  else lit """""""" ++ py_nl ++ lit " Generated by typeshare " ++ py_version cfg ++ py_nl ++ lit """""""" ++ py_nl.

(* python.rs:538 write_all_imports *)
Definition py_write_all_imports (st : py_state) : str :=
  let type_vars := map (fun name => name ++ lit " = TypeVar(""" ++ name ++ lit """)") (py_type_variables st) in
  let imports := py_sort (map (fun mi => lit "from " ++ fst mi ++ lit " import " ++ join (lit ", ") (snd mi))
                              (py_imports st)) in
  lit "from __future__ import annotations" ++ py_nl ++ py_nl ++
  join py_nl imports ++ py_nl ++ py_nl ++
  match type_vars with
  | [] => py_nl
  | _ => join py_nl type_vars ++ py_nl ++ py_nl ++ py_nl
  end.

(* python.rs:142-158: the helper functions for the collected types, in sorted order *)
Definition py_write_custom_translations (st : py_state) : str :=
  flat_map (fun py_type => match py_json_translation_for_type py_type with
                           | Some ct => py_ser_content ct ++ py_nl ++ py_nl ++ py_de_content ct ++ py_nl ++ py_nl
                           | None => []
                           end) (py_custom_types st).

(* python.rs:104 generate_types (overrides the trait default): header, then the body is written to a
   side buffer, then imports / TypeVars / helper functions (which depend on the state the body left
   behind), then the body. *)
Definition py_generate (pd : parsed) : outcome str :=
  do items <- topsort (items_of pd);
  match mconcat py_write_item items py_empty_state with
  | Ok (body, st) => Ok (py_begin_file ++ py_write_all_imports st ++ py_write_custom_translations st ++ body)
  | Err e => Err e
  | Panic p => Panic p
  end.

(* ---- the declarations of a whole file (what the file DECLARES), and the helpers it defines ---- *)
Definition py_decls (pd : parsed) : outcome (list py_decl * py_state) :=
  do items <- topsort (items_of pd);
  match mmapM py_decl_of items py_empty_state with
  | Ok (dss, st) => Ok (List.concat dss, st)
  | Err e => Err e
  | Panic p => Panic p
  end.

(* the (module, identifiers) entries in the order write_all_imports prints their lines (sorted as lines) *)
Definition py_import_line (mi : str * list str) : str :=
  lit "from " ++ fst mi ++ lit " import " ++ join (lit ", ") (snd mi).
Fixpoint py_insert_by_line (x : str * list str) (l : list (str * list str)) : list (str * list str) :=
  match l with
  | [] => [x]
  | y :: r => if str_ltb (py_import_line x) (py_import_line y) then x :: l else y :: py_insert_by_line x r
  end.
Definition py_imports_in_output_order (st : py_state) : list (str * list str) :=
  fold_right py_insert_by_line [] (py_imports st).

(* the translations write_custom_translations prints, in its order *)
Definition py_translations_defined (st : py_state) : list py_translation :=
  flat_map (fun py_type => match py_json_translation_for_type py_type with Some ct => [ct] | None => [] end)
           (py_custom_types st).

Definition py_helper_decl (name : str) : decl :=
  {| d_kind := DHelper; d_name := name; d_escaped := false; d_generics := []; d_docs := []; d_members := [];
     d_variants := []; d_tag_keys := []; d_content_keys := []; d_type := None; d_value := None |}.

(* fd_header: the version line (if any) and the fixed  from __future__ import annotations;
   fd_imports: module.identifier for every imported identifier, in output order;
   fd_decls, in output order: one DHelper per  T = TypeVar("T"), one per helper function (serializer, then
   deserializer, per collected type), then the observations of the body's declarations;
   fd_helper_defs: the bare names this file defines or imports besides the declarations of the body:
   TypeVars, helper functions, imported identifiers. *)
Definition py_file_decls (pd : parsed) : outcome file_decls :=
  do r <- py_decls pd;
  let '(ds, st) := r in
  let imported := py_imports_in_output_order st in
  let fns := flat_map (fun ct => [py_ser_name ct; py_de_name ct]) (py_translations_defined st) in
  Ok {| fd_header := (if py_no_version_header cfg then [] else [lit "Generated by typeshare " ++ py_version cfg]) ++
                     [lit "from __future__ import annotations"];
        fd_imports := flat_map (fun mi => map (fun i => fst mi ++ lit "." ++ i) (snd mi)) imported;
        fd_decls := map py_helper_decl (py_type_variables st) ++ map py_helper_decl fns ++ flat_map py_obs ds;
        fd_helper_defs := py_type_variables st ++ fns ++ flat_map snd imported |}.
End PY.
