(* core/src/language/swift.rs, function by function, in the shape  emit = render ∘ decls :
   [sw_texp] / [sw_struct_of] / [sw_variant_of] / [sw_enum_of] / [sw_decl_of] take every decision
   (names, prefix, keyword escapes, CodingKeys raw values, optional markers, decorators, generic
   constraints, helper structs) and build abstract declarations; [sw_show] / [sw_render_*] print them
   (fixed template text only); [sw_obs*] project them to the language-independent Model.Lang.Decl
   view.  The text [sw_generate] produces is byte for byte what the Rust code writes. *)
From Coq Require Import String.
From TS Require Import Model.Str Model.Outcome Model.Unicode Model.Types Model.Parse Model.Rename
                       Model.TopsortAlgo Model.Topsort Model.Lang.Common Model.Lang.Decl.

(* swift.rs:137 the pub fields of `Swift` the CLI / harness set. `sw_default_generic_constraints` is
   the Vec<String> handed to GenericConstraints::from_config; `multi_file` is false here;
   `sw_version` is env!("CARGO_PKG_VERSION"). *)
Record sw_config := {
  sw_prefix : str;
  sw_type_mappings : tmap;
  sw_default_decorators : list str;
  sw_default_generic_constraints : list str;
  sw_codablevoid_constraints : list str;
  sw_no_version_header : bool;
  sw_version : str
}.

(* the only state kept while printing: should_emit_codable_void (AtomicBool) *)
Definition sw_state := bool.

(* swift.rs:24 *)
Definition SWIFT_KEYWORDS : list str :=
  [lit "associatedtype"; lit "class"; lit "deinit"; lit "enum"; lit "extension"; lit "fileprivate";
   lit "func"; lit "import"; lit "init"; lit "inout"; lit "internal"; lit "let"; lit "operator";
   lit "private"; lit "protocol"; lit "public"; lit "rethrows"; lit "static"; lit "struct";
   lit "subscript"; lit "typealias"; lit "var"; lit "break"; lit "case"; lit "continue";
   lit "default"; lit "defer"; lit "do"; lit "else"; lit "fallthrough"; lit "for"; lit "guard";
   lit "if"; lit "in"; lit "repeat"; lit "return"; lit "switch"; lit "where"; lit "while"; lit "as";
   lit "Any"; lit "catch"; lit "false"; lit "is"; lit "nil"; lit "super"; lit "self"; lit "Self";
   lit "throw"; lit "throws"; lit "true"; lit "try"; lit "Protocol"; lit "Type"].

(* swift.rs:849 swift_keyword_aware_rename, the decision: escape or not ([sw_show_name] prints) *)
Definition sw_is_keyword (name : str) : bool := mem_str name SWIFT_KEYWORDS.

(* swift.rs:81 *)
Definition sw_CODABLE : str := lit "Codable".
(* the helper type standing for () (swift.rs:201, :793) and its doc line *)
Definition sw_CODABLE_VOID : str := lit "CodableVoid".
Definition sw_CODABLE_VOID_DOC : str := lit "() isn't codable, so we use this instead to represent Rust's unit type".

Definition sw_nl : str := [ch_nl].
Definition sw_tabs (n : nat) : str := repeat_str [ch_tab] n.
(* "\n" + n tabs + s : one line of the multi-line format strings, which all START with a newline *)
Definition sw_line (n : nat) (s : str) : str := sw_nl ++ sw_tabs n ++ s.

(* parser.rs:855 remove_dash_from_identifier *)
Definition sw_remove_dash_from_identifier (name : str) : str := replace_char ch_dash ch_us name.

(* DecoratorMap::get *)
Fixpoint sw_decs_get (k : deckind) (m : decmap) : option (list str) :=
  match m with [] => None | (a, v) :: r => if deckind_eqb a k then Some v else sw_decs_get k r end.

(* collect::<BTreeSet<_>>() / extend *)
Definition sw_sset_of (l : list str) : list str := fold_left (fun acc x => sset_insert x acc) l [].

(* HashMap::get on a map built by collect::<HashMap<_,_>>() from a sequence of pairs: a later pair
   with the same key replaces the earlier one; only ever looked up by key *)
Fixpoint sw_assoc_last (k : str) (m : list (str * list str)) : option (list str) :=
  match m with
  | [] => None
  | (a, v) :: r => match sw_assoc_last k r with
                   | Some w => Some w
                   | None => if str_eqb a k then Some v else None
                   end
  end.

(* outcome -> M *)
Definition sw_lift {A} (o : outcome A) : M sw_state A :=
  fun s => match o with Ok a => Ok (a, s) | Err e => Err e | Panic p => Panic p end.

(* ================= abstract declarations (what the decision layer produces) ================= *)

(* a stored property of a struct *)
Record sw_member := {
  swm_docs : list str;           (* doc comment lines as printed (trailing white space removed) *)
  swm_name : str;                (* the property identifier: renamed name with '-' replaced by '_', no backticks *)
  swm_escaped : bool;            (* written in backticks where swift.rs escapes it (the renamed name is a keyword) *)
  swm_coding_key : option str;   (* Some k: the CodingKeys case of this property needs the raw value k *)
  swm_type : texp;               (* type of the stored property (first formatting, swift.rs:334) *)
  swm_init_type : texp;          (* type of the init parameter (second formatting, swift.rs:369) *)
  swm_default_opt : bool         (* "?" appended to both: #[serde(default)] on a type that is not Option *)
}.

(* `public struct`: a source struct, or the generated <Enum><Variant>Inner struct of a struct variant *)
Record sw_struct := {
  sws_docs : list str;
  sws_name : str;                          (* prefix ++ renamed, no backticks *)
  sws_escaped : bool;
  sws_generics : list (str * list str);    (* generic parameter, its constraints *)
  sws_decs : list str;                     (* the conformance list after ':' *)
  sws_members : list sw_member;
  sws_coding_keys : bool                   (* an explicit CodingKeys enum is required *)
}.

Inductive sw_payload :=
| SWPUnit
| SWPTuple (ty : texp) (ty_escaped : bool) (optional : bool)  (* optional: the decodeNil branch is generated *)
| SWPInner (name : str) (generics : list str).                (* the helper struct as named AT THE REFERENCE *)

Record sw_variant := {
  swv_docs : list str;
  swv_name : str;                (* case name, no backticks *)
  swv_escaped : bool;
  swv_raw : option str;          (* Some w: the raw value w is written out (it differs from the case name) *)
  swv_payload : sw_payload       (* always SWPUnit in a String-backed (unit) enum *)
}.

Record sw_enum := {
  swe_inner : list sw_struct;              (* helper structs written in front of the enum *)
  swe_docs : list str;
  swe_name : str;                          (* prefix ++ renamed, no backticks *)
  swe_escaped : bool;
  swe_indirect : bool;
  swe_generics : list (str * list str);
  swe_decs : list str;
  swe_tagged : option (str * str);         (* None: String-backed enum; Some (tag, content): algebraic enum *)
  swe_variants : list sw_variant
}.

Inductive sw_decl :=
| SWStruct (s : sw_struct)
| SWAlias (docs : list str) (name : str) (escaped : bool) (generics : list str) (ty : texp)
| SWEnum (e : sw_enum)
| SWCodableVoid (decs : list str).        (* the helper typeshare appends when () was translated *)

(* ================= layout: printing of already decided pieces ================= *)

(* target type expressions ([sw_texp] never builds XFixed; it would print as a tuple type) *)
Fixpoint sw_show (x : texp) : str :=
  match x with
  | XName n [] => n
  | XName n args => n ++ lit "<" ++ join (lit ", ") (map sw_show args) ++ lit ">"
  | XSeq e => lit "[" ++ sw_show e ++ lit "]"
  | XFixed es => lit "(" ++ join (lit ", ") (map sw_show es) ++ lit ")"
  | XMap k v => lit "[" ++ sw_show k ++ lit ": " ++ sw_show v ++ lit "]"
  | XOpt e => sw_show e ++ lit "?"
  | XRaw t => t
  end.

(* an identifier with the escape decision taken (swift.rs:855 writes the backticks) *)
Definition sw_show_name (name : str) (escaped : bool) : str :=
  if escaped then lit "`" ++ name ++ lit "`" else name.
(* swift.rs:849 swift_keyword_aware_rename = decision + printing *)
Definition swift_keyword_aware_rename (name : str) : str := sw_show_name name (sw_is_keyword name).

(* swift.rs:742 write_comment, :747 write_comments (the lines are already trimmed) *)
Definition sw_render_comments (indent : nat) (docs : list str) : str :=
  flat_map (fun c => sw_tabs indent ++ lit "/// " ++ c ++ sw_nl) docs.

(* the `<T: Codable, ..>` part of a struct / enum header (swift.rs:305, :457) *)
Definition sw_render_generic_header (gs : list (str * list str)) : str :=
  match gs with
  | [] => []
  | _ => lit "<" ++ join (lit ", ") (map (fun g => fst g ++ lit ": " ++ join (lit " & ") (snd g)) gs) ++ lit ">"
  end.

(* swift.rs:356 / :469 the CodingKeys block *)
Definition sw_render_coding_keys_block (coding_keys : list str) : str :=
  sw_line 1 (lit "enum CodingKeys: String, CodingKey, Codable {") ++
  sw_line 2 (lit "case " ++ join (lit "," ++ sw_nl ++ sw_tabs 3) coding_keys) ++
  sw_line 1 (lit "}") ++ sw_nl.

Definition sw_member_ident (m : sw_member) : str := sw_show_name (swm_name m) (swm_escaped m).
Definition sw_member_opt (m : sw_member) : str := if swm_default_opt m then lit "?" else [].

(* swift.rs:341 the stored property *)
Definition sw_render_member (m : sw_member) : str :=
  sw_render_comments 1 (swm_docs m) ++
  sw_tabs 1 ++ lit "public let " ++ sw_member_ident m ++ lit ": " ++ sw_show (swm_type m) ++ sw_member_opt m ++ sw_nl.
(* swift.rs:318-332 its CodingKeys case *)
Definition sw_render_member_coding_key (m : sw_member) : str :=
  match swm_coding_key m with
  | Some k => sw_member_ident m ++ lit " = """ ++ k ++ lit """"
  | None => sw_member_ident m
  end.
(* swift.rs:376 its init parameter *)
Definition sw_render_init_param (m : sw_member) : str :=
  swm_name m ++ lit ": " ++ sw_show (swm_init_type m) ++ sw_member_opt m.

(* swift.rs:271 write_struct *)
Definition sw_render_struct (s : sw_struct) : str :=
  let nonempty := match sws_members s with [] => false | _ => true end in
  sw_nl ++ sw_render_comments 0 (sws_docs s) ++
  lit "public struct " ++ sw_show_name (sws_name s) (sws_escaped s) ++ sw_render_generic_header (sws_generics s) ++
  lit ": " ++ join (lit ", ") (sws_decs s) ++ lit " {" ++ sw_nl ++
  flat_map sw_render_member (sws_members s) ++
  (if sws_coding_keys s then sw_render_coding_keys_block (map sw_render_member_coding_key (sws_members s)) else []) ++
  (if nonempty then sw_nl else []) ++
  sw_tabs 1 ++ lit "public init(" ++ join (lit ", ") (map sw_render_init_param (sws_members s)) ++ lit ") {" ++
  flat_map (fun m => sw_line 2 (lit "self." ++ swm_name m ++ lit " = " ++ sw_member_ident m)) (sws_members s) ++
  (if nonempty then sw_line 1 [] else []) ++
  lit "}" ++ sw_nl ++
  lit "}" ++ sw_nl.

Definition sw_variant_ident (v : sw_variant) : str := sw_show_name (swv_name v) (swv_escaped v).

(* swift.rs:557-574 one case of a String-backed enum *)
Definition sw_render_unit_case (v : sw_variant) : str :=
  sw_render_comments 1 (swv_docs v) ++
  sw_tabs 1 ++ lit "case " ++ sw_variant_ident v ++
  match swv_raw v with Some w => lit " = " ++ debug_str w | None => [] end ++ sw_nl.

(* swift.rs:582-731 one variant of an algebraic enum: its case, *)
Definition sw_render_case (v : sw_variant) : str :=
  sw_render_comments 1 (swv_docs v) ++ sw_tabs 1 ++ lit "case " ++ sw_variant_ident v ++
  match swv_payload v with
  | SWPUnit => []
  | SWPTuple ty esc _ => lit "(" ++ sw_show_name (sw_show ty) esc ++ lit ")"
  | SWPInner name gs => lit "(" ++ name ++ generics_suffix gs ++ lit ")"
  end ++ sw_nl.
(* its CodingKeys case (swift.rs:602), *)
Definition sw_render_coding_key (v : sw_variant) : str :=
  match swv_raw v with
  | Some w => sw_variant_ident v ++ lit " = """ ++ w ++ lit """"
  | None => sw_variant_ident v
  end.
(* its branch of `switch type` in init(from:), which spells the content key 0 / 1 / 2 times, *)
Definition sw_render_decoding (content_key : str) (v : sw_variant) : str :=
  let name := swv_name v in
  let content_decoding (case_type : str) : str :=
    sw_line 4 (lit "if let content = try? container.decode(" ++ case_type ++ lit ".self, forKey: ." ++ content_key ++ lit ") {") ++
    sw_line 5 (lit "self = ." ++ name ++ lit "(content)") ++
    sw_line 5 (lit "return") ++
    sw_line 4 (lit "}") in
  match swv_payload v with
  | SWPUnit =>
    sw_line 3 (lit "case ." ++ name ++ lit ":") ++
    sw_line 4 (lit "self = ." ++ name) ++
    sw_line 4 (lit "return")
  | SWPTuple ty esc optional =>
    let case_type := sw_show_name (sw_show ty) esc in
    if optional then
      (* :642 this one line is indented with 12 spaces in the source *)
      sw_nl ++ lit "            case ." ++ name ++ lit ":" ++
      content_decoding case_type ++
      sw_line 4 (lit "else if let isNil = try? container.decodeNil(forKey: ." ++ content_key ++ lit "), isNil {") ++
      sw_line 5 (lit "self = ." ++ name ++ lit "(nil)") ++
      sw_line 5 (lit "return") ++
      sw_line 4 (lit "}")
    else
      sw_line 3 (lit "case ." ++ name ++ lit ":") ++ content_decoding case_type
  | SWPInner inner gs =>
    sw_line 3 (lit "case ." ++ name ++ lit ":") ++ content_decoding (inner ++ generics_suffix gs)
  end.
(* and its branch of `switch self` in encode(to:): the tag key once, the content key 0 / 1 times *)
Definition sw_render_encoding (tag_key content_key : str) (v : sw_variant) : str :=
  match swv_payload v with
  | SWPUnit =>
    sw_line 2 (lit "case ." ++ sw_variant_ident v ++ lit ":") ++
    sw_line 3 (lit "try container.encode(CodingKeys." ++ sw_variant_ident v ++ lit ", forKey: ." ++ tag_key ++ lit ")")
  | _ =>
    sw_line 2 (lit "case ." ++ swv_name v ++ lit "(let content):") ++
    sw_line 3 (lit "try container.encode(CodingKeys." ++ swv_name v ++ lit ", forKey: ." ++ tag_key ++ lit ")") ++
    sw_line 3 (lit "try container.encode(content, forKey: ." ++ content_key ++ lit ")")
  end.

(* swift.rs:404 write_enum *)
Definition sw_render_enum (e : sw_enum) : str :=
  let enum_name := sw_show_name (swe_name e) (swe_escaped e) in
  let vs := swe_variants e in
  sw_nl ++ flat_map sw_render_struct (swe_inner e) ++ sw_render_comments 0 (swe_docs e) ++
  lit "public " ++ (if swe_indirect e then lit "indirect " else []) ++ lit "enum " ++ enum_name ++
  sw_render_generic_header (swe_generics e) ++ lit ": " ++ join (lit ", ") (swe_decs e) ++ lit " {" ++ sw_nl ++
  match swe_tagged e with
  | None => flat_map sw_render_unit_case vs
  | Some (tag_key, content_key) =>
    (* swift.rs:490 / :591 (write_enum and write_enum_variants both shadow the keys): they are written as
       enum cases and member accesses, a Swift keyword gets backticks; the raw value of the case, i.e. the
       wire key, stays the bare key ([swe_tagged], read by [sw_obs_enum]) *)
    let tag_key := swift_keyword_aware_rename tag_key in
    let content_key := swift_keyword_aware_rename content_key in
    flat_map sw_render_case vs ++
    (match vs with [] => [] | _ => sw_render_coding_keys_block (map sw_render_coding_key vs) end) ++
    sw_line 1 (lit "private enum ContainerCodingKeys: String, CodingKey {") ++
    sw_line 2 (lit "case " ++ tag_key ++ lit ", " ++ content_key) ++
    sw_line 1 (lit "}") ++
    sw_nl ++
    sw_line 1 (lit "public init(from decoder: Decoder) throws {") ++
    sw_line 2 (lit "let container = try decoder.container(keyedBy: ContainerCodingKeys.self)") ++
    sw_line 2 (lit "if let type = try? container.decode(CodingKeys.self, forKey: ." ++ tag_key ++ lit ") {") ++
    sw_line 3 (lit "switch type {" ++ flat_map (sw_render_decoding content_key) vs) ++
    sw_line 3 (lit "}") ++
    sw_line 2 (lit "}") ++
    sw_line 2 (lit "throw DecodingError.typeMismatch(" ++ enum_name ++
               lit ".self, DecodingError.Context(codingPath: decoder.codingPath, debugDescription: ""Wrong type for " ++
               enum_name ++ lit """))") ++
    sw_line 1 (lit "}") ++
    sw_nl ++
    sw_line 1 (lit "public func encode(to encoder: Encoder) throws {") ++
    sw_line 2 (lit "var container = encoder.container(keyedBy: ContainerCodingKeys.self)") ++
    sw_line 2 (lit "switch self {" ++ flat_map (sw_render_encoding tag_key content_key) vs) ++
    sw_line 2 (lit "}") ++
    sw_line 1 (lit "}") ++ sw_nl
  end ++
  lit "}" ++ sw_nl.

Definition sw_render_decl (d : sw_decl) : str :=
  match d with
  | SWStruct s => sw_render_struct s
  | SWAlias docs name escaped gs ty =>           (* swift.rs:246 write_type_alias *)
    sw_nl ++ sw_render_comments 0 docs ++
    lit "public typealias " ++ sw_show_name name escaped ++ generics_suffix gs ++ lit " = " ++ sw_show ty ++ sw_nl
  | SWEnum e => sw_render_enum e
  | SWCodableVoid decs =>                        (* swift.rs:782 get_codable_contents, :797 write_codable *)
    sw_nl ++ sw_render_comments 0 [sw_CODABLE_VOID_DOC] ++
    lit "public struct " ++ sw_CODABLE_VOID ++ lit ": " ++ join (lit ", ") decs ++ lit " {}" ++ sw_nl
  end.

(* ================= observation: the language-independent view ================= *)

(* the optional idiom of Swift is a trailing `?` on the type *)
Definition sw_is_opt (x : texp) : bool := match x with XOpt _ => true | _ => false end.
Definition sw_strip_opt (x : texp) : texp := match x with XOpt e => e | _ => x end.

(* A property `name: T?` is optional; its `?` is the one appended for #[serde(default)], or else the
   outermost XOpt of the translated type (Rust Option<T>); the two never occur together.  mb_type is
   the declared type with exactly that ONE outermost `?` removed (Option<Option<T>> -> `T??` is
   reported as optional `T?`; a `?` inside a verbatim type override is not seen).  The JSON key is
   the raw value of the property's CodingKeys case when one is written out, else the property name
   (the implicit raw value of a CodingKeys case, or no CodingKeys enum at all). *)
Definition sw_obs_member (m : sw_member) : member :=
  {| mb_name := swm_name m; mb_escaped := swm_escaped m;
     mb_key := match swm_coding_key m with Some k => k | None => swm_name m end;
     mb_binding := match swm_coding_key m with Some _ => BCodingKey | None => BName end;
     mb_optional := swm_default_opt m || sw_is_opt (swm_type m);
     mb_type := if swm_default_opt m then swm_type m else sw_strip_opt (swm_type m);
     mb_docs := swm_docs m |}.

Definition sw_obs_struct (s : sw_struct) : decl :=
  {| d_kind := DStruct; d_name := sws_name s; d_escaped := sws_escaped s; d_generics := map fst (sws_generics s);
     d_docs := sws_docs s; d_members := map sw_obs_member (sws_members s); d_variants := [];
     d_tag_keys := []; d_content_keys := []; d_type := None; d_value := None |}.

(* the wire string of a case is its raw value: written out, or (Swift's rule for String raw values,
   in a String-backed enum and in CodingKeys alike) the case name; a newtype payload `T?` is
   reported as optional T; a struct payload refers to the helper by the name used in the case *)
Definition sw_obs_variant (v : sw_variant) : variantd :=
  {| vd_name := swv_name v;
     vd_wire := match swv_raw v with Some w => w | None => swv_name v end;
     vd_payload := match swv_payload v with
                   | SWPUnit => PayUnit
                   | SWPTuple ty _ _ => PayNewtype (sw_strip_opt ty) (sw_is_opt ty)
                   | SWPInner name gs => PayRef name gs
                   end;
     vd_parent := None; vd_docs := swv_docs v |}.

(* how often [sw_render_decoding] + [sw_render_encoding] spell the content key for one variant *)
Definition sw_content_uses (v : sw_variant) : nat :=
  match swv_payload v with
  | SWPUnit => 0
  | SWPTuple _ _ true => 3       (* decode, decodeNil, encode *)
  | SWPTuple _ _ false => 2      (* decode, encode *)
  | SWPInner _ _ => 2            (* decode, encode *)
  end.

Definition sw_obs_enum (e : sw_enum) : decl :=
  {| d_kind := DEnum; d_name := swe_name e; d_escaped := swe_escaped e; d_generics := map fst (swe_generics e);
     d_docs := swe_docs e; d_members := []; d_variants := map sw_obs_variant (swe_variants e);
     (* ContainerCodingKeys, `forKey:` in init(from:), then one `forKey:` per variant in encode(to:) *)
     d_tag_keys := match swe_tagged e with
                   | None => []
                   | Some (tag, _) => tag :: tag :: map (fun _ => tag) (swe_variants e)
                   end;
     (* ContainerCodingKeys, then per variant *)
     d_content_keys := match swe_tagged e with
                       | None => []
                       | Some (_, content) =>
                         content :: flat_map (fun v => repeat content (sw_content_uses v)) (swe_variants e)
                       end;
     d_type := None; d_value := None |}.

(* the helper structs of an enum come out in front of it, as in the text *)
Definition sw_obs (d : sw_decl) : list decl :=
  match d with
  | SWStruct s => [sw_obs_struct s]
  | SWAlias docs name escaped gs ty =>
    [{| d_kind := DAlias; d_name := name; d_escaped := escaped; d_generics := gs; d_docs := docs; d_members := [];
        d_variants := []; d_tag_keys := []; d_content_keys := []; d_type := Some ty; d_value := None |}]
  | SWEnum e => map sw_obs_struct (swe_inner e) ++ [sw_obs_enum e]
  | SWCodableVoid _ =>
    [{| d_kind := DHelper; d_name := sw_CODABLE_VOID; d_escaped := false; d_generics := []; d_docs := [sw_CODABLE_VOID_DOC];
        d_members := []; d_variants := []; d_tag_keys := []; d_content_keys := []; d_type := None; d_value := None |}]
  end.

(* ================= decisions ================= *)
Section SW.
Variable uc : unicode.
Variable cfg : sw_config.
Notation SM := (M sw_state).

(* str::trim_end *)
Definition sw_trim_end (s : str) : str := rev (trim_start uc (rev s)).

(* the doc lines as write_comment prints them (swift.rs:743 comment.trim_end()) *)
Definition sw_docs (comments : list str) : list str := map sw_trim_end comments.

(* swift.rs:121 GenericConstraints::split_constraints *)
Definition sw_split_constraints (constraints : str) : list str :=
  map (trim uc) (split_on 38 (* & *) constraints []).

(* swift.rs:102 GenericConstraints::from_config (a BTreeSet) and :117 get_constraints *)
Definition sw_from_config (constraints : list str) : list str :=
  sw_sset_of (sw_CODABLE :: flat_map sw_split_constraints constraints).
Definition sw_get_constraints : list str := sw_from_config (sw_default_generic_constraints cfg).

(* swift.rs:760 get_default_decorators *)
Definition sw_get_default_decorators : list str := sw_CODABLE :: sw_default_decorators cfg.

(* swift.rs:804 generic_constraints: every generic parameter with its constraints *)
Definition sw_generic_constraints (decorator_map : decmap) (generic_types : list str) : list (str * list str) :=
  let annotated : list (str * list str) :=
    match sw_decs_get DKSwiftGenericConstraints decorator_map with
    | None => []
    | Some generic_constraints =>
      (* filter_map over the BTreeSet (ascending), `?` on the second piece of split(':') *)
      flat_map (fun gc =>
                  match split_on 58 (* : *) gc [] with
                  | generic_name :: cs :: _ =>
                    [(generic_name, sw_sset_of (map (trim uc) (split_on 38 cs []) ++ sw_get_constraints))]
                  | _ => []
                  end) generic_constraints
    end in
  map (fun type_name =>
         (type_name, match sw_assoc_last type_name annotated with
                     | Some constraints => constraints
                     | None => sw_get_constraints
                     end))
      generic_types.

(* swift.rs:164 format_simple_type: mapped text, generic parameter, or PREFIXED user type
   (mod.rs:242 format_generic_type appends the arguments to whatever this returns) *)
Definition sw_simple_texp (base : str) (generic_types : list str) (args : list texp) : texp :=
  match tmap_get (sw_type_mappings cfg) base with
  | Some mapped => XRaw mapped
  | None => XName (if mem_str base generic_types then base else sw_prefix cfg ++ base) args
  end.

(* mod.rs:207 format_type, mod.rs:242 format_generic_type, swift.rs:178 format_special_type,
   building the type as a tree; the text the Rust code builds is [sw_show] of it *)
Fixpoint sw_texp (generic_types : list str) (t : rtype) : SM texp :=
  match t with
  | RSimple id => ret (sw_simple_texp id generic_types [])
  | RGeneric id ps =>
    match tmap_get (sw_type_mappings cfg) id with
    | Some mapped => ret (XRaw mapped)               (* a mapped generic type drops its arguments *)
    | None =>
      mdo parameters <- (fix go (l : list rtype) : SM (list texp) :=
                           match l with
                           | [] => ret []
                           | x :: r => mdo y <- sw_texp generic_types x; mdo ys <- go r; ret (y :: ys)
                           end) ps;
      ret (sw_simple_texp id generic_types parameters)
    end
  | RVec x | RArray x _ | RSlice x => mdo e <- sw_texp generic_types x; ret (XSeq e)
  | ROption x => mdo e <- sw_texp generic_types x; ret (XOpt e)
  | RHashMap k v =>
    mdo ke <- sw_texp generic_types k;
    mdo ve <- sw_texp generic_types v;
    ret (XMap ke ve)
  | RPrim p =>
    match p with
    | PUnit => mdo _ <- mput true; ret (XName sw_CODABLE_VOID [])
    | PString => ret (XName (lit "String") [])
    | PChar => ret (XName (lit "Unicode.Scalar") [])
    | PI8 => ret (XName (lit "Int8") [])
    | PU8 => ret (XName (lit "UInt8") [])
    | PI16 => ret (XName (lit "Int16") [])
    | PU16 => ret (XName (lit "UInt16") [])
    | PUSize => ret (XName (lit "UInt") [])
    | PISize => ret (XName (lit "Int") [])
    | PI32 => ret (XName (lit "Int32") [])
    | PU32 => ret (XName (lit "UInt32") [])
    | PI54 | PI64 => ret (XName (lit "Int64") [])
    | PU53 | PU64 => ret (XName (lit "UInt64") [])
    | PBool => ret (XName (lit "Bool") [])
    | PF32 => ret (XName (lit "Float") [])
    | PF64 => ret (XName (lit "Double") [])
    | PDateTime => fail (EUnsupportedSpecialType (rtype_display t))      (* swift.rs:220 *)
    end
  end.

Definition sw_format_type (generic_types : list str) (t : rtype) : SM str :=
  mdo x <- sw_texp generic_types t; ret (sw_show x).

(* swift.rs:334 / :369 the type of a field: override or format_type *)
Definition sw_field_texp (generic_types : list str) (f : rfield) : SM texp :=
  match type_override f Swift with
  | Some type_override => ret (XRaw type_override)
  | None => sw_texp generic_types (fty f)
  end.

(* swift.rs:311-350 / :368-394 what is decided about one field, given its two formatted types.
   remove_dash_from_identifier(swift_keyword_aware_rename(renamed)) = the name below in backticks
   when the renamed name is a keyword (no keyword contains '-'), else the name below *)
Definition sw_member_of (f : rfield) (ty init_ty : texp) : sw_member :=
  let key := renamed (fid f) in
  {| swm_docs := sw_docs (fcomments f);
     swm_name := sw_remove_dash_from_identifier key;
     swm_escaped := sw_is_keyword key;
     swm_coding_key := if contains_char ch_dash key then Some key else None;
     swm_type := ty;
     swm_init_type := init_ty;
     swm_default_opt := has_default f && negb (is_optional (fty f)) |}.

(* swift.rs:271 write_struct *)
Definition sw_struct_of (rs : rstruct) : SM sw_struct :=
  let type_name := sw_prefix cfg ++ renamed (sid rs) in
  (* :311 first loop over the fields *)
  mdo tys <- mmapM (sw_field_texp (sgenerics rs)) (sfields rs);
  (* :368 second loop: the types are formatted a second time *)
  mdo init_tys <- mmapM (sw_field_texp (sgenerics rs)) (sfields rs);
  ret {| sws_docs := sw_docs (scomments rs);
         sws_name := type_name;
         sws_escaped := sw_is_keyword type_name;
         sws_generics := sw_generic_constraints (sdecs rs) (sgenerics rs);
         sws_decs := match sw_decs_get DKSwift (sdecs rs) with
                     | Some swift_decs =>
                       sw_get_default_decorators ++ filter (fun d => negb (str_eqb d sw_CODABLE)) swift_decs
                     | None => sw_get_default_decorators
                     end;
         sws_members := map (fun x => sw_member_of (fst x) (fst (snd x)) (snd (snd x)))
                            (combine (sfields rs) (combine tys init_tys));
         sws_coding_keys := existsb (fun f => contains_char ch_dash (renamed (fid f))) (sfields rs) |}.

(* swift.rs:440 make_anonymous_struct_name *)
Definition sw_make_anonymous_struct_name (shared : eshared) (variant_name : str) : str :=
  renamed (eid shared) ++ variant_name ++ lit "Inner".

(* mod.rs:366 write_types_for_anonymous_structs: the helper struct of every struct variant, DEFINED
   through write_struct under  keyword_aware(prefix ++ make_anonymous_struct_name(original)) *)
Fixpoint sw_inner_structs_of (shared : eshared) (vs : list rvariant) : SM (list sw_struct) :=
  match vs with
  | [] => ret []
  | VAnon fields vsh :: r =>
    mdo s <- sw_struct_of (anon_struct shared (sw_make_anonymous_struct_name shared (original (vid vsh)))
                                       (original (vid vsh)) fields);
    mdo ss <- sw_inner_structs_of shared r;
    ret (s :: ss)
  | _ :: r => sw_inner_structs_of shared r
  end.

(* swift.rs:557-589 one variant of a unit enum (fix 31: :565-580 a camelCased name that starts with a digit
   gets `_` in front, as in the algebraic arm below) *)
Definition sw_unit_variant_of (v : rvariant) : SM sw_variant :=
  let vsh := variant_shared v in
  mdo camel <- sw_lift (to_camel_case (original (vid vsh)));
  let variant_name := match camel with
                      | c :: _ => if is_adigit c then lit "_" ++ camel else camel
                      | [] => camel
                      end in
  ret {| swv_docs := sw_docs (vcomments vsh);
         swv_name := variant_name;
         swv_escaped := sw_is_keyword variant_name;
         swv_raw := if str_eqb (renamed (vid vsh)) variant_name then None else Some (renamed (vid vsh));
         swv_payload := SWPUnit |}.

(* swift.rs:597-746 one variant of an algebraic enum *)
Definition sw_variant_of (shared : eshared) (v : rvariant) : SM sw_variant :=
  let vsh := variant_shared v in
  let generics := egenerics shared in
  mdo camel <- sw_lift (to_camel_case (original (vid vsh)));
  let variant_name := match camel with
                      | c :: _ => if is_adigit c then lit "_" ++ camel else camel
                      | [] => camel
                      end in
  mdo payload <- match v with
                 | VUnit _ => ret SWPUnit
                 | VTuple ty _ =>
                   mdo case_type <- sw_texp generics ty;
                   (* :637 swift_keyword_aware_rename(&case_type) looks at the printed type *)
                   ret (SWPTuple case_type (sw_is_keyword (sw_show case_type)) (is_optional ty))
                 | VAnon fields vsh' =>
                   (* :680 the helper struct as REFERRED to:  prefix ++ make_anonymous_struct_name(original)
                      without keyword escape; :689 its generic arguments *)
                   ret (SWPInner (sw_prefix cfg ++ sw_make_anonymous_struct_name shared (original (vid vsh')))
                                 (anon_struct_generics generics fields))
                 end;
  ret {| swv_docs := sw_docs (vcomments vsh);
         swv_name := variant_name;
         swv_escaped := sw_is_keyword variant_name;
         swv_raw := if str_eqb variant_name (renamed (vid vsh)) then None else Some (renamed (vid vsh));
         swv_payload := payload |}.

(* swift.rs:407 determine_decorators *)
Definition sw_determine_decorators (always_present : list str) (e : renum) : list str :=
  always_present ++
  match sw_decs_get DKSwift (edecs (enum_shared e)) with
  | Some swift_decs => filter (fun d => negb (mem_str d always_present)) swift_decs
  | None => []
  end.

(* swift.rs:404 write_enum, :546 write_enum_variants *)
Definition sw_enum_of (e : renum) : SM sw_enum :=
  let shared := enum_shared e in
  let enum_name := sw_prefix cfg ++ renamed (eid shared) in
  let always_present := match e with
                        | EUnit _ => lit "String" :: sw_get_default_decorators
                        | EAlgebraic _ _ _ => sw_get_default_decorators
                        end in
  mdo inner <- sw_inner_structs_of shared (evariants shared);
  mdo vs <- match e with
            | EUnit sh => mmapM sw_unit_variant_of (evariants sh)
            | EAlgebraic _ _ sh => mmapM (sw_variant_of sh) (evariants sh)
            end;
  ret {| swe_inner := inner;
         swe_docs := sw_docs (ecomments shared);
         swe_name := enum_name;
         swe_escaped := sw_is_keyword enum_name;
         swe_indirect := erecursive shared;
         swe_generics := sw_generic_constraints (edecs shared) (egenerics shared);
         swe_decs := sw_determine_decorators always_present e;
         swe_tagged := match e with
                       | EUnit _ => None
                       | EAlgebraic tag_key content_key _ => Some (tag_key, content_key)
                       end;
         swe_variants := vs |}.

Definition sw_decl_of (it : ritem) : SM sw_decl :=
  match it with
  | ItEnum e => mdo d <- sw_enum_of e; ret (SWEnum d)
  | ItStruct s => mdo d <- sw_struct_of s; ret (SWStruct d)
  | ItAlias ty =>                                                  (* swift.rs:246 write_type_alias *)
    let type_name := sw_prefix cfg ++ renamed (aid ty) in
    mdo t <- sw_texp (agenerics ty) (atype ty);
    ret (SWAlias (sw_docs (acomments ty)) type_name (sw_is_keyword type_name) (agenerics ty) t)
  | ItConst c => fail (EConstUnsupported (original (cid c)))       (* swift.rs:267 write_const: Err(Unsupported) since the /repo fix of the todo!() at :268 *)
  end.

(* swift.rs:782 get_codable_contents (decs always contains CODABLE, so the push never happens) *)
Definition sw_codable_void : sw_decl :=
  let decs := sw_get_default_decorators ++ sw_codablevoid_constraints cfg in
  SWCodableVoid (if mem_str sw_CODABLE decs then decs else decs ++ [sw_CODABLE]).

(* the helper declarations end_file appends (swift.rs:238, multi_file = false) *)
Definition sw_trailing_decls (st : sw_state) : list sw_decl := if st then [sw_codable_void] else [].

(* ================= the writers = render of the declaration ================= *)

(* write_struct / write_enum / write_type_alias / write_const *)
Definition sw_write_item (it : ritem) : SM str :=
  mdo d <- sw_decl_of it; ret (sw_render_decl d).

(* swift.rs:227 begin_file *)
Definition sw_begin_file : str :=
  (if sw_no_version_header cfg then []
   else lit "/*" ++ sw_nl ++ lit " Generated by typeshare " ++ sw_version cfg ++ sw_nl ++ lit " */" ++ sw_nl ++ sw_nl) ++
  lit "import Foundation" ++ sw_nl.

(* swift.rs:238 end_file (multi_file = false), :797 write_codable *)
Definition sw_end_file (st : sw_state) : str := flat_map sw_render_decl (sw_trailing_decls st).

(* Language::generate_types (mod.rs:160), single-file (no imports) *)
Definition sw_generate (pd : parsed) : outcome str :=
  do items <- topsort (items_of pd);
  match mconcat sw_write_item items false with
  | Ok (body, st) => Ok (sw_begin_file ++ body ++ sw_end_file st)
  | Err e => Err e
  | Panic p => Panic p
  end.

(* the declarations of a whole file in output order, and the final state *)
Definition sw_decls (pd : parsed) : outcome (list sw_decl * sw_state) :=
  do items <- topsort (items_of pd);
  mmapM sw_decl_of items false.

Definition sw_file_decls (pd : parsed) : outcome file_decls :=
  do r <- sw_decls pd;
  let '(ds, st) := r in
  Ok {| fd_header := (if sw_no_version_header cfg then [] else [lit "Generated by typeshare " ++ sw_version cfg]) ++
                     [lit "import Foundation"];
        fd_imports := [lit "Foundation"];
        fd_decls := flat_map sw_obs (ds ++ sw_trailing_decls st);
        fd_helper_defs := if st then [sw_CODABLE_VOID] else [] |}.
End SW.
