(* core/src/language/swift.rs, function by function. Output is text (str). *)
From Coq Require Import String.
From TS Require Import Model.Str Model.Outcome Model.Unicode Model.Types Model.Parse Model.Rename
                       Model.TopsortAlgo Model.Topsort Model.Lang.Common.

(* swift.rs:137 the pub fields of `Swift` the CLI / harness set. `sw_default_generic_constraints` is
   the Vec<String> handed to GenericConstraints::from_config; `multi_file` is false here;
   `sw_version` is env!("CARGO_PKG_VERSION"). *)
Record sw_config := {
  sw_prefix : str;
  sw_type_mappings : tmap;
  sw_default_decorators : list str;
  sw_default_generic_constraints : list str;
  sw_codablevoid_constraints : list str;
  sw_no_version_header : bool;
  sw_version : str
}.

(* the only state kept while printing: should_emit_codable_void (AtomicBool) *)
Definition sw_state := bool.

(* swift.rs:24 *)
Definition SWIFT_KEYWORDS : list str :=
  [lit "associatedtype"; lit "class"; lit "deinit"; lit "enum"; lit "extension"; lit "fileprivate";
   lit "func"; lit "import"; lit "init"; lit "inout"; lit "internal"; lit "let"; lit "operator";
   lit "private"; lit "protocol"; lit "public"; lit "rethrows"; lit "static"; lit "struct";
   lit "subscript"; lit "typealias"; lit "var"; lit "break"; lit "case"; lit "continue";
   lit "default"; lit "defer"; lit "do"; lit "else"; lit "fallthrough"; lit "for"; lit "guard";
   lit "if"; lit "in"; lit "repeat"; lit "return"; lit "switch"; lit "where"; lit "while"; lit "as";
   lit "Any"; lit "catch"; lit "false"; lit "is"; lit "nil"; lit "super"; lit "self"; lit "Self";
   lit "throw"; lit "throws"; lit "true"; lit "try"; lit "Protocol"; lit "Type"].

(* swift.rs:81 *)
Definition sw_CODABLE : str := lit "Codable".

Definition sw_nl : str := [ch_nl].
Definition sw_tabs (n : nat) : str := repeat_str [ch_tab] n.
(* "\n" + n tabs + s : one line of the multi-line format strings, which all START with a newline *)
Definition sw_line (n : nat) (s : str) : str := sw_nl ++ sw_tabs n ++ s.

(* swift.rs:849 swift_keyword_aware_rename *)
Definition swift_keyword_aware_rename (name : str) : str :=
  if mem_str name SWIFT_KEYWORDS then lit "`" ++ name ++ lit "`" else name.

(* parser.rs:855 remove_dash_from_identifier *)
Definition sw_remove_dash_from_identifier (name : str) : str := replace_char ch_dash ch_us name.

(* DecoratorMap::get *)
Fixpoint sw_decs_get (k : deckind) (m : decmap) : option (list str) :=
  match m with [] => None | (a, v) :: r => if deckind_eqb a k then Some v else sw_decs_get k r end.

(* collect::<BTreeSet<_>>() / extend *)
Definition sw_sset_of (l : list str) : list str := fold_left (fun acc x => sset_insert x acc) l [].

(* HashMap::get on a map built by collect::<HashMap<_,_>>() from a sequence of pairs: a later pair
   with the same key replaces the earlier one; only ever looked up by key *)
Fixpoint sw_assoc_last (k : str) (m : list (str * list str)) : option (list str) :=
  match m with
  | [] => None
  | (a, v) :: r => match sw_assoc_last k r with
                   | Some w => Some w
                   | None => if str_eqb a k then Some v else None
                   end
  end.

(* outcome -> M *)
Definition sw_lift {A} (o : outcome A) : M sw_state A :=
  fun s => match o with Ok a => Ok (a, s) | Err e => Err e | Panic p => Panic p end.

(* swift.rs:86 CodingKeysInfo *)
Record sw_coding_keys_info := {
  sw_decoding_cases : list str;
  sw_encoding_cases : list str;
  sw_coding_keys : list str
}.

Section SW.
Variable uc : unicode.
Variable cfg : sw_config.
Notation SM := (M sw_state).

(* str::trim_end *)
Definition sw_trim_end (s : str) : str := rev (trim_start uc (rev s)).

(* swift.rs:121 GenericConstraints::split_constraints *)
Definition sw_split_constraints (constraints : str) : list str :=
  map (trim uc) (split_on 38 (* & *) constraints []).

(* swift.rs:102 GenericConstraints::from_config (a BTreeSet) and :117 get_constraints *)
Definition sw_from_config (constraints : list str) : list str :=
  sw_sset_of (sw_CODABLE :: flat_map sw_split_constraints constraints).
Definition sw_get_constraints : list str := sw_from_config (sw_default_generic_constraints cfg).

(* swift.rs:760 get_default_decorators *)
Definition sw_get_default_decorators : list str := sw_CODABLE :: sw_default_decorators cfg.

(* swift.rs:804 generic_constraints *)
Definition sw_generic_constraints (decorator_map : decmap) (generic_types : list str) : str :=
  let annotated : list (str * list str) :=
    match sw_decs_get DKSwiftGenericConstraints decorator_map with
    | None => []
    | Some generic_constraints =>
      (* filter_map over the BTreeSet (ascending), `?` on the second piece of split(':') *)
      flat_map (fun gc =>
                  match split_on 58 (* : *) gc [] with
                  | generic_name :: cs :: _ =>
                    [(generic_name, sw_sset_of (map (trim uc) (split_on 38 cs []) ++ sw_get_constraints))]
                  | _ => []
                  end) generic_constraints
    end in
  join (lit ", ")
       (map (fun type_name =>
               type_name ++ lit ": " ++
               join (lit " & ") (match sw_assoc_last type_name annotated with
                                 | Some constraints => constraints
                                 | None => sw_get_constraints
                                 end))
            generic_types).

(* the `<T: Codable, ..>` part of a struct / enum header (swift.rs:305, :457) *)
Definition sw_generic_header (decorator_map : decmap) (generic_types : list str) : str :=
  match generic_types with
  | [] => []
  | _ => lit "<" ++ sw_generic_constraints decorator_map generic_types ++ lit ">"
  end.

(* swift.rs:742 write_comment, :747 write_comments *)
Definition sw_write_comment (indent : nat) (comment : str) : str :=
  sw_tabs indent ++ lit "/// " ++ sw_trim_end comment ++ sw_nl.
Definition sw_write_comments (indent : nat) (comments : list str) : str :=
  flat_map (sw_write_comment indent) comments.

(* swift.rs:164 format_simple_type *)
Definition sw_format_simple_type (base : str) (generic_types : list str) : str :=
  match tmap_get (sw_type_mappings cfg) base with
  | Some mapped => mapped
  | None => if mem_str base generic_types then base else sw_prefix cfg ++ base
  end.

(* mod.rs:207 format_type, mod.rs:242 format_generic_type, swift.rs:178 format_special_type *)
Fixpoint sw_format_type (generic_types : list str) (t : rtype) : SM str :=
  match t with
  | RSimple id => ret (sw_format_simple_type id generic_types)
  | RGeneric id ps =>
    match tmap_get (sw_type_mappings cfg) id with
    | Some mapped => ret mapped
    | None =>
      mdo parameters <- (fix go (l : list rtype) : SM (list str) :=
                           match l with
                           | [] => ret []
                           | x :: r => mdo y <- sw_format_type generic_types x; mdo ys <- go r; ret (y :: ys)
                           end) ps;
      ret (sw_format_simple_type id generic_types ++
           match parameters with [] => [] | _ => lit "<" ++ join (lit ", ") parameters ++ lit ">" end)
    end
  | RVec x | RArray x _ | RSlice x =>
    mdo s <- sw_format_type generic_types x; ret (lit "[" ++ s ++ lit "]")
  | ROption x => mdo s <- sw_format_type generic_types x; ret (s ++ lit "?")
  | RHashMap k v =>
    mdo ks <- sw_format_type generic_types k;
    mdo vs <- sw_format_type generic_types v;
    ret (lit "[" ++ ks ++ lit ": " ++ vs ++ lit "]")
  | RPrim p =>
    match p with
    | PUnit => mdo _ <- mput true; ret (lit "CodableVoid")
    | PString => ret (lit "String")
    | PChar => ret (lit "Unicode.Scalar")
    | PI8 => ret (lit "Int8")
    | PU8 => ret (lit "UInt8")
    | PI16 => ret (lit "Int16")
    | PU16 => ret (lit "UInt16")
    | PUSize => ret (lit "UInt")
    | PISize => ret (lit "Int")
    | PI32 => ret (lit "Int32")
    | PU32 => ret (lit "UInt32")
    | PI54 | PI64 => ret (lit "Int64")
    | PU53 | PU64 => ret (lit "UInt64")
    | PBool => ret (lit "Bool")
    | PF32 => ret (lit "Float")
    | PF64 => ret (lit "Double")
    | PDateTime => fail (EUnsupportedSpecialType (rtype_display t))      (* swift.rs:220 *)
    end
  end.

(* swift.rs:227 begin_file *)
Definition sw_begin_file : str :=
  (if sw_no_version_header cfg then []
   else lit "/*" ++ sw_nl ++ lit " Generated by typeshare " ++ sw_version cfg ++ sw_nl ++ lit " */" ++ sw_nl ++ sw_nl) ++
  lit "import Foundation" ++ sw_nl.

(* swift.rs:782 get_codable_contents (decs always contains CODABLE, so the push never happens) *)
Definition sw_get_codable_contents : str :=
  let decs := sw_get_default_decorators ++ sw_codablevoid_constraints cfg in
  let decs := if mem_str sw_CODABLE decs then decs else decs ++ [sw_CODABLE] in
  sw_nl ++ lit "/// () isn't codable, so we use this instead to represent Rust's unit type" ++ sw_nl ++
  lit "public struct CodableVoid: " ++ join (lit ", ") decs ++ lit " {}".

(* swift.rs:238 end_file (multi_file = false), :797 write_codable *)
Definition sw_end_file (st : sw_state) : str :=
  if st then sw_get_codable_contents ++ sw_nl else [].

(* swift.rs:246 write_type_alias *)
Definition sw_write_type_alias (ty : ralias) : SM str :=
  let type_name := swift_keyword_aware_rename (sw_prefix cfg ++ renamed (aid ty)) in
  mdo t <- sw_format_type (agenerics ty) (atype ty);
  ret (sw_nl ++ sw_write_comments 0 (acomments ty) ++
       lit "public typealias " ++ type_name ++ generics_suffix (agenerics ty) ++ lit " = " ++ t ++ sw_nl).

(* swift.rs:267 write_const *)
Definition sw_write_const (c : rconst) : SM str := mpanic "swift.rs:268".

(* swift.rs:334 / :369 the type of a field: override or format_type *)
Definition sw_field_type (generic_types : list str) (f : rfield) : SM str :=
  match type_override f Swift with
  | Some type_override => ret type_override
  | None => sw_format_type generic_types (fty f)
  end.

(* swift.rs:356 / :469 the CodingKeys block (written when there is something to write) *)
Definition sw_coding_keys_block (coding_keys : list str) : str :=
  sw_line 1 (lit "enum CodingKeys: String, CodingKey, Codable {") ++
  sw_line 2 (lit "case " ++ join (lit "," ++ sw_nl ++ sw_tabs 3) coding_keys) ++
  sw_line 1 (lit "}") ++ sw_nl.

(* swift.rs:271 write_struct *)
Definition sw_write_struct (rs : rstruct) : SM str :=
  let type_name := swift_keyword_aware_rename (sw_prefix cfg ++ renamed (sid rs)) in
  let decs := join (lit ", ")
                   match sw_decs_get DKSwift (sdecs rs) with
                   | Some swift_decs =>
                     sw_get_default_decorators ++ filter (fun d => negb (str_eqb d sw_CODABLE)) swift_decs
                   | None => sw_get_default_decorators
                   end in
  let has_dash (f : rfield) := contains_char ch_dash (renamed (fid f)) in
  let ident (f : rfield) := sw_remove_dash_from_identifier (swift_keyword_aware_rename (renamed (fid f))) in
  let plain (f : rfield) := sw_remove_dash_from_identifier (renamed (fid f)) in
  let opt (f : rfield) := if has_default f && negb (is_optional (fty f)) then lit "?" else [] in
  (* :311 first loop over the fields *)
  mdo fields <- mconcat (fun f =>
                           mdo case_type <- sw_field_type (sgenerics rs) f;
                           ret (sw_write_comments 1 (fcomments f) ++
                                sw_tabs 1 ++ lit "public let " ++ ident f ++ lit ": " ++ case_type ++ opt f ++ sw_nl))
                        (sfields rs);
  let coding_keys := map (fun f => if has_dash f then ident f ++ lit " = """ ++ renamed (fid f) ++ lit """"
                                   else ident f) (sfields rs) in
  let should_write_coding_keys := existsb has_dash (sfields rs) in
  (* :368 second loop: the types are formatted a second time *)
  mdo init_params <- mmapM (fun f =>
                              mdo swift_ty <- sw_field_type (sgenerics rs) f;
                              ret (plain f ++ lit ": " ++ swift_ty ++ opt f))
                           (sfields rs);
  let nonempty := match sfields rs with [] => false | _ => true end in
  ret (sw_nl ++ sw_write_comments 0 (scomments rs) ++
       lit "public struct " ++ type_name ++ sw_generic_header (sdecs rs) (sgenerics rs) ++ lit ": " ++ decs ++
       lit " {" ++ sw_nl ++
       fields ++
       (if should_write_coding_keys then sw_coding_keys_block coding_keys else []) ++
       (if nonempty then sw_nl else []) ++
       sw_tabs 1 ++ lit "public init(" ++ join (lit ", ") init_params ++ lit ") {" ++
       flat_map (fun f => sw_line 2 (lit "self." ++ plain f ++ lit " = " ++ ident f)) (sfields rs) ++
       (if nonempty then sw_line 1 [] else []) ++
       lit "}" ++ sw_nl ++
       lit "}" ++ sw_nl).

(* swift.rs:440 make_anonymous_struct_name *)
Definition sw_make_anonymous_struct_name (shared : eshared) (variant_name : str) : str :=
  renamed (eid shared) ++ variant_name ++ lit "Inner".

(* mod.rs:366 write_types_for_anonymous_structs *)
Definition sw_write_types_for_anonymous_structs (shared : eshared) : SM str :=
  mconcat (fun v =>
             match v with
             | VAnon fields vsh =>
               sw_write_struct (anon_struct shared (sw_make_anonymous_struct_name shared (original (vid vsh)))
                                            (original (vid vsh)) fields)
             | _ => ret []
             end) (evariants shared).

(* swift.rs:557-574 one variant of a unit enum *)
Definition sw_write_unit_variant (v : rvariant) : SM str :=
  let vsh := variant_shared v in
  mdo variant_name <- sw_lift (to_camel_case (original (vid vsh)));
  ret (sw_write_comments 1 (vcomments vsh) ++
       if str_eqb (renamed (vid vsh)) variant_name
       then sw_tabs 1 ++ lit "case " ++ swift_keyword_aware_rename variant_name ++ sw_nl
       else sw_tabs 1 ++ lit "case " ++ swift_keyword_aware_rename variant_name ++ lit " = " ++
            debug_str (renamed (vid vsh)) ++ sw_nl).

(* swift.rs:582-731 one variant of an algebraic enum:
   (text written, decoding case, encoding case, coding key) *)
Definition sw_write_algebraic_variant (tag_key content_key : str) (shared : eshared) (v : rvariant)
  : SM (str * (str * str * str)) :=
  let vsh := variant_shared v in
  let generics := egenerics shared in
  mdo camel <- sw_lift (to_camel_case (original (vid vsh)));
  let variant_name := match camel with
                      | c :: _ => if is_adigit c then lit "_" ++ camel else camel
                      | [] => camel
                      end in
  let kw_name := swift_keyword_aware_rename variant_name in
  let coding_key := if str_eqb variant_name (renamed (vid vsh)) then kw_name
                    else kw_name ++ lit " = """ ++ renamed (vid vsh) ++ lit """" in
  let head := sw_write_comments 1 (vcomments vsh) ++ sw_tabs 1 ++ lit "case " ++ kw_name in
  let content_decoding (case_type : str) : str :=
    sw_line 4 (lit "if let content = try? container.decode(" ++ case_type ++ lit ".self, forKey: ." ++ content_key ++ lit ") {") ++
    sw_line 5 (lit "self = ." ++ variant_name ++ lit "(content)") ++
    sw_line 5 (lit "return") ++
    sw_line 4 (lit "}") in
  let content_encoding : str :=
    sw_line 2 (lit "case ." ++ variant_name ++ lit "(let content):") ++
    sw_line 3 (lit "try container.encode(CodingKeys." ++ variant_name ++ lit ", forKey: ." ++ tag_key ++ lit ")") ++
    sw_line 3 (lit "try container.encode(content, forKey: ." ++ content_key ++ lit ")") in
  match v with
  | VUnit _ =>
    ret (head ++ sw_nl,
         (sw_line 3 (lit "case ." ++ variant_name ++ lit ":") ++
          sw_line 4 (lit "self = ." ++ variant_name) ++
          sw_line 4 (lit "return"),
          sw_line 2 (lit "case ." ++ kw_name ++ lit ":") ++
          sw_line 3 (lit "try container.encode(CodingKeys." ++ kw_name ++ lit ", forKey: ." ++ tag_key ++ lit ")"),
          coding_key))
  | VTuple ty _ =>
    mdo case_type <- sw_format_type generics ty;
    let case_type := swift_keyword_aware_rename case_type in
    let decoding :=
      if is_optional ty then
        (* :642 this one line is indented with 12 spaces in the source *)
        sw_nl ++ lit "            case ." ++ variant_name ++ lit ":" ++
        content_decoding case_type ++
        sw_line 4 (lit "else if let isNil = try? container.decodeNil(forKey: ." ++ content_key ++ lit "), isNil {") ++
        sw_line 5 (lit "self = ." ++ variant_name ++ lit "(nil)") ++
        sw_line 5 (lit "return") ++
        sw_line 4 (lit "}")
      else
        sw_line 3 (lit "case ." ++ variant_name ++ lit ":") ++ content_decoding case_type in
    ret (head ++ lit "(" ++ case_type ++ lit ")" ++ sw_nl, (decoding, content_encoding, coding_key))
  | VAnon fields vsh' =>
    let anonymous_struct_name := sw_prefix cfg ++ sw_make_anonymous_struct_name shared (original (vid vsh')) in
    let generic_types := generics_suffix (anon_struct_generics generics fields) in
    ret (head ++ lit "(" ++ anonymous_struct_name ++ generic_types ++ lit ")" ++ sw_nl,
         (sw_line 3 (lit "case ." ++ variant_name ++ lit ":") ++
          content_decoding (anonymous_struct_name ++ generic_types),
          content_encoding, coding_key))
  end.

(* swift.rs:546 write_enum_variants *)
Definition sw_write_enum_variants (e : renum) : SM (str * sw_coding_keys_info) :=
  match e with
  | EUnit shared =>
    mdo text <- mconcat sw_write_unit_variant (evariants shared);
    ret (text, {| sw_decoding_cases := []; sw_encoding_cases := []; sw_coding_keys := [] |})
  | EAlgebraic tag_key content_key shared =>
    mdo rs <- mmapM (sw_write_algebraic_variant tag_key content_key shared) (evariants shared);
    ret (flat_map fst rs,
         {| sw_decoding_cases := map (fun r => fst (fst (snd r))) rs;
            sw_encoding_cases := map (fun r => snd (fst (snd r))) rs;
            sw_coding_keys := map (fun r => snd (snd r)) rs |})
  end.

(* swift.rs:407 determine_decorators *)
Definition sw_determine_decorators (always_present : list str) (e : renum) : list str :=
  always_present ++
  match sw_decs_get DKSwift (edecs (enum_shared e)) with
  | Some swift_decs => filter (fun d => negb (mem_str d always_present)) swift_decs
  | None => []
  end.

(* swift.rs:404 write_enum *)
Definition sw_write_enum (e : renum) : SM str :=
  let shared := enum_shared e in
  let enum_name := swift_keyword_aware_rename (sw_prefix cfg ++ renamed (eid shared)) in
  let always_present := match e with
                        | EUnit _ => lit "String" :: sw_get_default_decorators
                        | EAlgebraic _ _ _ => sw_get_default_decorators
                        end in
  let decs := join (lit ", ") (sw_determine_decorators always_present e) in
  mdo anon <- sw_write_types_for_anonymous_structs shared;
  let indirect := if erecursive shared then lit "indirect " else [] in
  mdo vi <- sw_write_enum_variants e;
  let '(variants, info) := vi in
  ret (sw_nl ++ anon ++ sw_write_comments 0 (ecomments shared) ++
       lit "public " ++ indirect ++ lit "enum " ++ enum_name ++
       sw_generic_header (edecs shared) (egenerics shared) ++ lit ": " ++ decs ++ lit " {" ++ sw_nl ++
       variants ++
       (match sw_coding_keys info with [] => [] | ks => sw_coding_keys_block ks end) ++
       (match e with
        | EUnit _ => []
        | EAlgebraic tag_key content_key _ =>
          sw_line 1 (lit "private enum ContainerCodingKeys: String, CodingKey {") ++
          sw_line 2 (lit "case " ++ tag_key ++ lit ", " ++ content_key) ++
          sw_line 1 (lit "}") ++
          sw_nl ++
          sw_line 1 (lit "public init(from decoder: Decoder) throws {") ++
          sw_line 2 (lit "let container = try decoder.container(keyedBy: ContainerCodingKeys.self)") ++
          sw_line 2 (lit "if let type = try? container.decode(CodingKeys.self, forKey: ." ++ tag_key ++ lit ") {") ++
          sw_line 3 (lit "switch type {" ++ List.concat (sw_decoding_cases info)) ++
          sw_line 3 (lit "}") ++
          sw_line 2 (lit "}") ++
          sw_line 2 (lit "throw DecodingError.typeMismatch(" ++ enum_name ++
                     lit ".self, DecodingError.Context(codingPath: decoder.codingPath, debugDescription: ""Wrong type for " ++
                     enum_name ++ lit """))") ++
          sw_line 1 (lit "}") ++
          sw_nl ++
          sw_line 1 (lit "public func encode(to encoder: Encoder) throws {") ++
          sw_line 2 (lit "var container = encoder.container(keyedBy: ContainerCodingKeys.self)") ++
          sw_line 2 (lit "switch self {" ++ List.concat (sw_encoding_cases info)) ++
          sw_line 2 (lit "}") ++
          sw_line 1 (lit "}") ++ sw_nl
        end) ++
       lit "}" ++ sw_nl).

Definition sw_write_item (it : ritem) : SM str :=
  match it with
  | ItEnum e => sw_write_enum e
  | ItStruct s => sw_write_struct s
  | ItAlias a => sw_write_type_alias a
  | ItConst c => sw_write_const c
  end.

(* Language::generate_types (mod.rs:160), single-file (no imports) *)
Definition sw_generate (pd : parsed) : outcome str :=
  do items <- topsort (items_of pd);
  match mconcat sw_write_item items false with
  | Ok (body, st) => Ok (sw_begin_file ++ body ++ sw_end_file st)
  | Err e => Err e
  | Panic p => Panic p
  end.
End SW.
