(* core/src/language/typescript.rs, function by function. Output is text (str). *)
From Coq Require Import String.
From TS Require Import Model.Str Model.Outcome Model.Unicode Model.Types Model.Parse Model.Rename
                       Model.TopsortAlgo Model.Topsort Model.Lang.Common Model.Lang.Decl.

Record ts_config := { ts_type_mappings : tmap; ts_no_version_header : bool; ts_version : str }.

(* types_for_custom_json_translation: BTreeMap<String, BTreeSet<String>> *)
Definition ts_state := list (str * list str).
Fixpoint tsmap_get (m : ts_state) (k : str) : option (list str) :=
  match m with [] => None | (a, v) :: r => if str_eqb a k then Some v else tsmap_get r k end.
(* BTreeMap::insert (overwrites) keeping key order *)
Fixpoint tsmap_set (m : ts_state) (k : str) (v : list str) : ts_state :=
  match m with
  | [] => [(k, v)]
  | (a, w) :: r => if str_eqb a k then (a, v) :: r
                   else if str_ltb k a then (k, v) :: m else (a, w) :: tsmap_set r k v
  end.

Definition UINT8ARRAY := lit "Uint8Array".
Definition DATE := lit "Date".
Definition nl : str := [ch_nl].

(* custom_translations(ts_type).is_some() *)
Definition has_custom_translation (t : str) : bool := str_eqb t UINT8ARRAY || str_eqb t DATE.

Definition uint8_reviver : str :=
  lit "if (Array.isArray(value) && value.every(v => Number.isInteger(v) && v >= 0 && v <= 255) && value.length > 0)  {" ++ nl ++
  lit "        return new Uint8Array(value);" ++ nl ++ lit "    }".
Definition uint8_replacer : str :=
  lit "if (value instanceof Uint8Array) {" ++ nl ++ lit "        return Array.from(value);" ++ nl ++ lit "    }".
Definition date_replacer : str :=
  lit "if (value instanceof Date) {" ++ nl ++ lit "        return value.toISOString();" ++ nl ++ lit "    }".
Definition date_reviver (st : ts_state) : str :=
  let idpart := match tsmap_get st DATE with
                | Some [] | None => []
                | Some ids =>
                  lit " && (" ++ join (lit " || ") (map (fun i => lit "key === """ ++ i ++ lit """") ids) ++ lit ")"
                end in
  lit "if (typeof value === ""string"" && /^\d{4}-\d{2}-\d{2}T\d{2}:\d{2}:\d{2}(\.\d+)?Z$/.test(value)" ++ idpart ++ lit ") {" ++ nl ++
  lit "        return new Date(value);" ++ nl ++ lit "    }".

(* (reviver, replacer) *)
Definition custom_translations (st : ts_state) (t : str) : option (str * str) :=
  if str_eqb t UINT8ARRAY then Some (uint8_reviver, uint8_replacer)
  else if str_eqb t DATE then Some (date_reviver st, date_replacer)
  else None.

Definition tabs (n : nat) : str := repeat_str [ch_tab] n.

(* typescript.rs:369 write_comments, the part after `let comments = comments.iter().map(|c| c.replace(..))` *)
Definition ts_comments_raw (indent : nat) (comments : list str) : str :=
  match comments with
  | [] => []
  | [c] => tabs indent ++ lit "/** " ++ c ++ lit " */" ++ nl
  | _ => tabs indent ++ lit "/**" ++ nl ++
         tabs indent ++ lit " * " ++ join (nl ++ tabs indent ++ lit " * ") comments ++ nl ++
         tabs indent ++ lit " */" ++ nl
  end.
(* typescript.rs:378 c.replace(STAR SLASH, STAR BACKSLASH SLASH): a comment terminator inside the text would end the comment early *)
Definition ts_escape_comment (c : str) : str := replace_sub (lit "*/") (lit "*\/") c.
(* typescript.rs:369 write_comments *)
Definition ts_comments (indent : nat) (comments : list str) : str :=
  ts_comments_raw indent (map ts_escape_comment comments).

Section TS.
Variable uc : unicode.
Variable cfg : ts_config.
Notation TM := (M ts_state).

(* ---- target type expressions: format_type / format_simple_type / format_generic_type (mod.rs
   defaults) and typescript.rs:78 format_special_type, building a tree; [ts_show] prints it ---- *)
Fixpoint ts_show (x : texp) : str :=
  match x with
  | XName n [] => n
  | XName n args => n ++ lit "<" ++ join (lit ", ") (map ts_show args) ++ lit ">"
  | XSeq e => ts_show e ++ lit "[]"
  | XFixed es => lit "[" ++ join (lit ", ") (map ts_show es) ++ lit "]"
  | XMap k v => lit "Record<" ++ ts_show k ++ lit ", " ++ ts_show v ++ lit ">"
  | XOpt e => ts_show e
  | XRaw t => t
  end.

Fixpoint ts_texp (generics : list str) (t : rtype) : TM texp :=
  let special_mapped (k : TM texp) : TM texp :=
    match tmap_get (ts_type_mappings cfg) (rtype_display t) with
    | Some mapped =>
      mdo st <- mget;
      mdo _ <- (if has_custom_translation mapped then mput (tsmap_set st mapped []) else ret tt);
      ret (XRaw mapped)
    | None => k
    end in
  match t with
  | RSimple id => ret (match tmap_get (ts_type_mappings cfg) id with Some m => XRaw m | None => XName id [] end)
  | RGeneric id ps =>
    match tmap_get (ts_type_mappings cfg) id with
    | Some m => ret (XRaw m)                       (* a mapped generic type drops its arguments *)
    | None =>
      mdo parts <- (fix go (l : list rtype) : TM (list texp) :=
                      match l with
                      | [] => ret []
                      | x :: r => mdo y <- ts_texp generics x; mdo ys <- go r; ret (y :: ys)
                      end) ps;
      ret (XName id parts)
    end
  | RVec x => special_mapped (mdo e <- ts_texp generics x; ret (XSeq e))
  | RArray x n => special_mapped (mdo e <- ts_texp generics x; ret (XFixed (repeat e (N.to_nat n))))
  | RSlice x => special_mapped (mdo e <- ts_texp generics x; ret (XSeq e))
  (* "We add optionality above the type formatting level": Option<T> formats as T *)
  | ROption x => special_mapped (ts_texp generics x)
  | RHashMap k v =>
    special_mapped
      (mdo ks <- match k with
                 | RSimple id => if mem_str id generics then fail (EGenericKeyForbiddenInTS id)
                                 else ts_texp generics k
                 | _ => ts_texp generics k
                 end;
       mdo vs <- ts_texp generics v;
       ret (XMap ks vs))
  | RPrim p =>
    special_mapped
      match p with
      | PUnit => ret (XName (lit "undefined") [])
      | PDateTime => ret (XName (lit "Date") [])
      | PString | PChar => ret (XName (lit "string") [])
      | PI8 | PU8 | PI16 | PU16 | PI32 | PU32 | PI54 | PU53 | PF32 | PF64 => ret (XName (lit "number") [])
      | PBool => ret (XName (lit "boolean") [])
      | PU64 | PI64 | PISize | PUSize => mpanic "typescript.rs:137"
      end
  end.

Definition ts_format_type (generics : list str) (t : rtype) : TM str :=
  mdo x <- ts_texp generics t; ret (ts_show x).

(* ---- declarations (decisions) ---- *)
Record ts_member := { tm_docs : list str; tm_readonly : bool; tm_key : str; tm_optional : bool;
                      tm_type : texp; tm_null_union : bool }.
Inductive ts_variant :=
| TVUnit (docs : list str) (wire : str)
| TVTuple (docs : list str) (wire : str) (ty : texp) (optional : bool) (null_union : bool)
| TVStruct (docs : list str) (wire : str) (ms : list ts_member).
Inductive ts_decl :=
| TSInterface (docs : list str) (name : str) (generics : list str) (ms : list ts_member)
| TSAlias (docs : list str) (name : str) (generics : list str) (ty : texp) (or_undefined : bool) (null_union : bool)
| TSConst (name : str) (ty : texp) (value : str)
| TSUnitEnum (docs : list str) (name : str) (generics : list str) (vs : list (list str * str * str))  (* docs, case name, wire value *)
| TSUnion (docs : list str) (name : str) (generics : list str) (tag content : str) (vs : list ts_variant).

Definition ts_is_readonly (f : rfield) : bool :=
  match lookup_lang TypeScript (fdecs f) with
  | Some ds => existsb (fun d => match d with DWord n | DNameValue n _ => str_eqb n (lit "readonly") end) ds
  | None => false
  end.

(* typescript.rs:327 write_field: decisions *)
Definition ts_member_of (generics : list str) (f : rfield) : TM ts_member :=
  mdo ty <- match type_override f TypeScript with
            | Some o => ret (XRaw o)
            | None => ts_texp generics (fty f)
            end;
  let ts_ty := ts_show ty in
  mdo st <- mget;
  mdo _ <- (if has_custom_translation ts_ty then
              let cur := match tsmap_get st ts_ty with Some ids => ids | None => [] end in
              mput (tsmap_set st ts_ty (sset_insert (renamed (fid f)) cur))
            else ret tt);
  ret {| tm_docs := fcomments f; tm_readonly := ts_is_readonly f; tm_key := renamed (fid f);
         tm_optional := is_optional (fty f) || has_default f; tm_type := ty;
         tm_null_union := is_double_optional (fty f) |}.

Definition ts_variant_of (generics : list str) (unit_enum : bool) (v : rvariant) : TM ts_variant :=
  match v with
  | VUnit sh => ret (TVUnit (vcomments sh) (renamed (vid sh)))
  (* typescript.rs:312 (write_enum_variants, tuple arm): `content?: T | null` for Option<Option<T>>, as in write_field *)
  | VTuple t sh => mdo ty <- ts_texp generics t; ret (TVTuple (vcomments sh) (renamed (vid sh)) ty (is_optional t) (is_double_optional t))
  | VAnon fs sh => mdo ms <- mmapM (ts_member_of generics) fs; ret (TVStruct (vcomments sh) (renamed (vid sh)) ms)
  end.

Definition ts_decl_of (it : ritem) : TM ts_decl :=
  match it with
  | ItStruct s =>
    mdo ms <- mmapM (ts_member_of (sgenerics s)) (sfields s);
    ret (TSInterface (scomments s) (renamed (sid s)) (sgenerics s) ms)
  | ItAlias a =>
    mdo ty <- ts_texp (agenerics a) (atype a);
    (* typescript.rs:169 write_type_alias: `T | null | undefined` for Option<Option<T>>, as in write_field *)
    ret (TSAlias (acomments a) (renamed (aid a)) (agenerics a) ty (is_optional (atype a)) (is_double_optional (atype a)))
  | ItConst c =>
    mdo ty <- ts_texp [] (ctype c);
    ret (TSConst (str_to_uppercase uc (to_snake_case uc (renamed (cid c)))) ty (dec_of_Z (cvalue c)))
  | ItEnum (EUnit sh) =>
    mdo vs <- mmapM (fun v => match v with
                              | VUnit vsh => ret (vcomments vsh, original (vid vsh), renamed (vid vsh))
                              | _ => mpanic "typescript.rs:276"
                              end) (evariants sh);
    ret (TSUnitEnum (ecomments sh) (renamed (eid sh)) (egenerics sh) vs)
  | ItEnum (EAlgebraic tag content sh) =>
    mdo vs <- mmapM (ts_variant_of (egenerics sh) false) (evariants sh);
    ret (TSUnion (ecomments sh) (renamed (eid sh)) (egenerics sh) tag content vs)
  end.

(* ---- rendering (layout only) ---- *)
(* typescript.rs:440 typescript_property_aware_rename *)
Definition typescript_property_aware_rename (name : str) : str :=
  if contains_char ch_dash name then debug_str name else name.

Definition ts_render_member (m : ts_member) : str :=
  ts_comments 1 (tm_docs m) ++
  [ch_tab] ++ (if tm_readonly m then lit "readonly " else []) ++
  typescript_property_aware_rename (tm_key m) ++
  (if tm_optional m then lit "?" else []) ++ lit ": " ++ ts_show (tm_type m) ++
  (if tm_null_union m then lit " | null" else []) ++ lit ";" ++ nl.

Definition ts_render_variant (tag content : str) (v : ts_variant) : str :=
  match v with
  | TVUnit docs wire =>
    nl ++ ts_comments 1 docs ++ [ch_tab] ++ lit "| { " ++ tag ++ lit ": " ++ debug_str wire ++ lit ", " ++
    content ++ lit "?: undefined }"
  | TVTuple docs wire ty opt nullu =>
    nl ++ ts_comments 1 docs ++ [ch_tab] ++ lit "| { " ++ tag ++ lit ": " ++ debug_str wire ++ lit ", " ++
    content ++ (if opt then lit "?" else []) ++ lit ": " ++ ts_show ty ++
    (if nullu then lit " | null" else []) ++ lit " }"
  | TVStruct docs wire ms =>
    nl ++ ts_comments 1 docs ++ [ch_tab] ++ lit "| { " ++ tag ++ lit ": " ++ debug_str wire ++ lit ", " ++
    content ++ lit ": {" ++ nl ++ List.concat (map ts_render_member ms) ++ lit "}" ++ lit "}"
  end.

Definition ts_render_decl (d : ts_decl) : str :=
  match d with
  | TSInterface docs name gs ms =>
    ts_comments 0 docs ++ lit "export interface " ++ name ++ generics_suffix gs ++ lit " {" ++ nl ++
    List.concat (map ts_render_member ms) ++ lit "}" ++ nl ++ nl
  | TSAlias docs name gs ty undef nullu =>
    ts_comments 0 docs ++ lit "export type " ++ name ++ generics_suffix gs ++ lit " = " ++ ts_show ty ++
    (if nullu then lit " | null" else []) ++
    (if undef then lit " | undefined" else []) ++ lit ";" ++ nl ++ nl
  | TSConst name ty value =>
    lit "export const " ++ name ++ lit ": " ++ ts_show ty ++ lit " = " ++ value ++ lit ";" ++ nl
  | TSUnitEnum docs name gs vs =>
    ts_comments 0 docs ++ lit "export enum " ++ name ++ generics_suffix gs ++ lit " {" ++
    List.concat (map (fun v => let '(vdocs, case, wire) := v in
                               nl ++ ts_comments 1 vdocs ++ [ch_tab] ++ case ++ lit " = " ++ debug_str wire ++ lit ",") vs) ++
    nl ++ lit "}" ++ nl ++ nl
  | TSUnion docs name gs tag content vs =>
    ts_comments 0 docs ++ lit "export type " ++ name ++ generics_suffix gs ++ lit " = " ++
    List.concat (map (ts_render_variant tag content) vs) ++ lit ";" ++ nl ++ nl
  end.

(* write_struct / write_enum / write_type_alias / write_const = render of the declaration *)
Definition ts_write_item (it : ritem) : TM str :=
  mdo d <- ts_decl_of it; ret (ts_render_decl d).

(* ---- observation: the language-independent view of a declaration ---- *)
Definition ts_obs_member (m : ts_member) : member :=
  {| mb_name := tm_key m; mb_escaped := false; mb_key := tm_key m;
     mb_binding := if contains_char ch_dash (tm_key m) then BQuoted else BName;
     mb_optional := tm_optional m; mb_type := tm_type m; mb_docs := tm_docs m |}.
Definition ts_obs_variant (v : ts_variant) : variantd :=
  match v with
  | TVUnit docs wire => {| vd_name := wire; vd_wire := wire; vd_payload := PayUnit; vd_parent := None; vd_docs := docs |}
  | TVTuple docs wire ty opt _ => {| vd_name := wire; vd_wire := wire; vd_payload := PayNewtype ty opt; vd_parent := None; vd_docs := docs |}
  | TVStruct docs wire ms => {| vd_name := wire; vd_wire := wire; vd_payload := PayInline (map ts_obs_member ms); vd_parent := None; vd_docs := docs |}
  end.
Definition ts_obs (d : ts_decl) : decl :=
  let base k name gs docs := {| d_kind := k; d_name := name; d_escaped := false; d_generics := gs; d_docs := docs; d_members := [];
                                d_variants := []; d_tag_keys := []; d_content_keys := []; d_type := None; d_value := None |} in
  match d with
  | TSInterface docs name gs ms =>
    {| d_kind := DStruct; d_name := name; d_escaped := false; d_generics := gs; d_docs := docs; d_members := map ts_obs_member ms;
       d_variants := []; d_tag_keys := []; d_content_keys := []; d_type := None; d_value := None |}
  | TSAlias docs name gs ty undef _ =>
    {| d_kind := DAlias; d_name := name; d_escaped := false; d_generics := gs; d_docs := docs; d_members := [];
       d_variants := []; d_tag_keys := []; d_content_keys := []; d_type := Some ty; d_value := None |}
  | TSConst name ty value =>
    {| d_kind := DConst; d_name := name; d_escaped := false; d_generics := []; d_docs := []; d_members := [];
       d_variants := []; d_tag_keys := []; d_content_keys := []; d_type := Some ty; d_value := Some value |}
  | TSUnitEnum docs name gs vs =>
    {| d_kind := DEnum; d_name := name; d_escaped := false; d_generics := gs; d_docs := docs; d_members := [];
       d_variants := map (fun v => let '(vdocs, case, wire) := v in
                                   {| vd_name := case; vd_wire := wire; vd_payload := PayUnit; vd_parent := None; vd_docs := vdocs |}) vs;
       d_tag_keys := []; d_content_keys := []; d_type := None; d_value := None |}
  | TSUnion docs name gs tag content vs =>
    {| d_kind := DEnum; d_name := name; d_escaped := false; d_generics := gs; d_docs := docs; d_members := [];
       d_variants := map ts_obs_variant vs;
       d_tag_keys := map (fun _ => tag) vs; d_content_keys := map (fun _ => content) vs;   (* spelled once per variant *)
       d_type := None; d_value := None |}
  end.

(* typescript.rs:142 begin_file *)
Definition ts_begin_file : str :=
  if ts_no_version_header cfg then []
  else lit "/*" ++ nl ++ lit " Generated by typeshare " ++ ts_version cfg ++ nl ++ lit "*/" ++ nl ++ nl.

(* typescript.rs:43 end_file *)
Definition ts_end_file (st : ts_state) : str :=
  match st with
  | [] => []
  | _ =>
    let contents := flat_map (fun kv => match custom_translations st (fst kv) with Some c => [c] | None => [] end) st in
    ts_comments 0 [lit "Custom JSON reviver and replacer functions for dynamic data transformation";
                   lit "ReviverFunc is used during JSON parsing to detect and transform specific data structures";
                   lit "ReplacerFunc is used during JSON serialization to modify certain values before stringifying.";
                   lit "These functions allow for flexible encoding and decoding of data, ensuring that complex types are properly handled when converting between TS objects and JSON"] ++
    lit "export const ReviverFunc = (key: string, value: unknown): unknown => {" ++ nl ++
    lit "    " ++ join (nl ++ lit "    ") (map fst contents) ++ nl ++
    lit "    return value;" ++ nl ++ lit "};" ++ nl ++ nl ++
    lit "export const ReplacerFunc = (key: string, value: unknown): unknown => {" ++ nl ++
    lit "    " ++ join (nl ++ lit "    ") (map snd contents) ++ nl ++
    lit "    return value;" ++ nl ++ lit "};" ++ nl
  end.

(* Language::generate_types, single-file (no imports) *)
Definition ts_generate (pd : parsed) : outcome str :=
  do items <- topsort (items_of pd);
  match mconcat ts_write_item items [] with
  | Ok (body, st) => Ok (ts_begin_file ++ body ++ ts_end_file st)
  | Err e => Err e
  | Panic p => Panic p
  end.

(* the declarations of a whole file (what the file DECLARES), and the helpers it defines *)
Definition ts_decls (pd : parsed) : outcome (list ts_decl * ts_state) :=
  do items <- topsort (items_of pd);
  mmapM ts_decl_of items [].

Definition ts_file_decls (pd : parsed) : outcome file_decls :=
  do r <- ts_decls pd;
  let '(ds, st) := r in
  Ok {| fd_header := if ts_no_version_header cfg then [] else [lit "Generated by typeshare " ++ ts_version cfg];
        fd_imports := [];
        fd_decls := map ts_obs ds;
        fd_helper_defs := match st with [] => [] | _ => [lit "ReviverFunc"; lit "ReplacerFunc"] end |}.
End TS.
