(* core/src/language/typescript.rs, function by function. Output is text (str). *)
From Coq Require Import String.
From TS Require Import Model.Str Model.Outcome Model.Unicode Model.Types Model.Parse Model.Rename
                       Model.TopsortAlgo Model.Topsort Model.Lang.Common.

Record ts_config := { ts_type_mappings : tmap; ts_no_version_header : bool; ts_version : str }.

(* types_for_custom_json_translation: BTreeMap<String, BTreeSet<String>> *)
Definition ts_state := list (str * list str).
Fixpoint tsmap_get (m : ts_state) (k : str) : option (list str) :=
  match m with [] => None | (a, v) :: r => if str_eqb a k then Some v else tsmap_get r k end.
(* BTreeMap::insert (overwrites) keeping key order *)
Fixpoint tsmap_set (m : ts_state) (k : str) (v : list str) : ts_state :=
  match m with
  | [] => [(k, v)]
  | (a, w) :: r => if str_eqb a k then (a, v) :: r
                   else if str_ltb k a then (k, v) :: m else (a, w) :: tsmap_set r k v
  end.

Definition UINT8ARRAY := lit "Uint8Array".
Definition DATE := lit "Date".
Definition nl : str := [ch_nl].

(* custom_translations(ts_type).is_some() *)
Definition has_custom_translation (t : str) : bool := str_eqb t UINT8ARRAY || str_eqb t DATE.

Definition uint8_reviver : str :=
  lit "if (Array.isArray(value) && value.every(v => Number.isInteger(v) && v >= 0 && v <= 255) && value.length > 0)  {" ++ nl ++
  lit "        return new Uint8Array(value);" ++ nl ++ lit "    }".
Definition uint8_replacer : str :=
  lit "if (value instanceof Uint8Array) {" ++ nl ++ lit "        return Array.from(value);" ++ nl ++ lit "    }".
Definition date_replacer : str :=
  lit "if (value instanceof Date) {" ++ nl ++ lit "        return value.toISOString();" ++ nl ++ lit "    }".
Definition date_reviver (st : ts_state) : str :=
  let idpart := match tsmap_get st DATE with
                | Some [] | None => []
                | Some ids =>
                  lit " && (" ++ join (lit " || ") (map (fun i => lit "key === """ ++ i ++ lit """") ids) ++ lit ")"
                end in
  lit "if (typeof value === ""string"" && /^\d{4}-\d{2}-\d{2}T\d{2}:\d{2}:\d{2}(\.\d+)?Z$/.test(value)" ++ idpart ++ lit ") {" ++ nl ++
  lit "        return new Date(value);" ++ nl ++ lit "    }".

(* (reviver, replacer) *)
Definition custom_translations (st : ts_state) (t : str) : option (str * str) :=
  if str_eqb t UINT8ARRAY then Some (uint8_reviver, uint8_replacer)
  else if str_eqb t DATE then Some (date_reviver st, date_replacer)
  else None.

Definition tabs (n : nat) : str := repeat_str [ch_tab] n.

(* typescript.rs:369 write_comments *)
Definition ts_comments (indent : nat) (comments : list str) : str :=
  match comments with
  | [] => []
  | [c] => tabs indent ++ lit "/** " ++ c ++ lit " */" ++ nl
  | _ => tabs indent ++ lit "/**" ++ nl ++
         tabs indent ++ lit " * " ++ join (nl ++ tabs indent ++ lit " * ") comments ++ nl ++
         tabs indent ++ lit " */" ++ nl
  end.

Section TS.
Variable uc : unicode.
Variable cfg : ts_config.
Notation TM := (M ts_state).

(* format_type / format_simple_type / format_generic_type (mod.rs defaults) and
   typescript.rs:78 format_special_type *)
Fixpoint ts_format_type (generics : list str) (t : rtype) : TM str :=
  let special_mapped (k : TM str) : TM str :=
    match tmap_get (ts_type_mappings cfg) (rtype_display t) with
    | Some mapped =>
      mdo st <- mget;
      mdo _ <- (if has_custom_translation mapped then mput (tsmap_set st mapped []) else ret tt);
      ret mapped
    | None => k
    end in
  match t with
  | RSimple id => ret (match tmap_get (ts_type_mappings cfg) id with Some m => m | None => id end)
  | RGeneric id ps =>
    match tmap_get (ts_type_mappings cfg) id with
    | Some m => ret m
    | None =>
      mdo parts <- (fix go (l : list rtype) : TM (list str) :=
                      match l with
                      | [] => ret []
                      | x :: r => mdo y <- ts_format_type generics x; mdo ys <- go r; ret (y :: ys)
                      end) ps;
      ret (id ++ match parts with [] => [] | _ => lit "<" ++ join (lit ", ") parts ++ lit ">" end)
    end
  | RVec x => special_mapped (mdo s <- ts_format_type generics x; ret (s ++ lit "[]"))
  | RArray x n => special_mapped (mdo s <- ts_format_type generics x;
                                  ret (lit "[" ++ join (lit ", ") (repeat s (N.to_nat n)) ++ lit "]"))
  | RSlice x => special_mapped (mdo s <- ts_format_type generics x; ret (s ++ lit "[]"))
  | ROption x => special_mapped (ts_format_type generics x)
  | RHashMap k v =>
    special_mapped
      (mdo ks <- match k with
                 | RSimple id => if mem_str id generics then fail (EGenericKeyForbiddenInTS id)
                                 else ts_format_type generics k
                 | _ => ts_format_type generics k
                 end;
       mdo vs <- ts_format_type generics v;
       ret (lit "Record<" ++ ks ++ lit ", " ++ vs ++ lit ">"))
  | RPrim p =>
    special_mapped
      match p with
      | PUnit => ret (lit "undefined")
      | PDateTime => ret (lit "Date")
      | PString | PChar => ret (lit "string")
      | PI8 | PU8 | PI16 | PU16 | PI32 | PU32 | PI54 | PU53 | PF32 | PF64 => ret (lit "number")
      | PBool => ret (lit "boolean")
      | PU64 | PI64 | PISize | PUSize => mpanic "typescript.rs:137"
      end
  end.

(* typescript.rs:440 *)
Definition typescript_property_aware_rename (name : str) : str :=
  if contains_char ch_dash name then debug_str name else name.

Definition ts_is_readonly (f : rfield) : bool :=
  match lookup_lang TypeScript (fdecs f) with
  | Some ds => existsb (fun d => match d with DWord n | DNameValue n _ => str_eqb n (lit "readonly") end) ds
  | None => false
  end.

(* typescript.rs:327 write_field *)
Definition ts_write_field (generics : list str) (f : rfield) : TM str :=
  mdo ts_ty <- match type_override f TypeScript with
               | Some o => ret o
               | None => ts_format_type generics (fty f)
               end;
  mdo st <- mget;
  mdo _ <- (if has_custom_translation ts_ty then
              let cur := match tsmap_get st ts_ty with Some ids => ids | None => [] end in
              mput (tsmap_set st ts_ty (sset_insert (renamed (fid f)) cur))
            else ret tt);
  let optional := is_optional (fty f) || has_default f in
  ret (ts_comments 1 (fcomments f) ++
       [ch_tab] ++ (if ts_is_readonly f then lit "readonly " else []) ++
       typescript_property_aware_rename (renamed (fid f)) ++
       (if optional then lit "?" else []) ++ lit ": " ++ ts_ty ++
       (if is_double_optional (fty f) then lit " | null" else []) ++ lit ";" ++ nl).

(* typescript.rs:152 write_type_alias *)
Definition ts_write_type_alias (a : ralias) : TM str :=
  mdo ty <- ts_format_type (agenerics a) (atype a);
  ret (ts_comments 0 (acomments a) ++
       lit "export type " ++ renamed (aid a) ++ generics_suffix (agenerics a) ++ lit " = " ++ ty ++
       (if is_optional (atype a) then lit " | undefined" else []) ++ lit ";" ++ nl ++ nl).

(* typescript.rs:176 write_const *)
Definition ts_write_const (c : rconst) : TM str :=
  mdo ty <- ts_format_type [] (ctype c);
  ret (lit "export const " ++ str_to_uppercase uc (to_snake_case uc (renamed (cid c))) ++ lit ": " ++ ty ++
       lit " = " ++ dec_of_Z (cvalue c) ++ lit ";" ++ nl).

(* typescript.rs:193 write_struct *)
Definition ts_write_struct (s : rstruct) : TM str :=
  mdo body <- mconcat (ts_write_field (sgenerics s)) (sfields s);
  ret (ts_comments 0 (scomments s) ++
       lit "export interface " ++ renamed (sid s) ++ generics_suffix (sgenerics s) ++ lit " {" ++ nl ++
       body ++ lit "}" ++ nl ++ nl).

(* typescript.rs:266 write_enum_variants *)
Definition ts_write_variant_unit_enum (v : rvariant) : TM str :=
  match v with
  | VUnit sh => ret (nl ++ ts_comments 1 (vcomments sh) ++ [ch_tab] ++ original (vid sh) ++ lit " = " ++
                     debug_str (renamed (vid sh)) ++ lit ",")
  | _ => mpanic "typescript.rs:276"
  end.
Definition ts_write_variant_algebraic (tag content : str) (generics : list str) (v : rvariant) : TM str :=
  let head := nl ++ ts_comments 1 (vcomments (variant_shared v)) in
  match v with
  | VUnit sh =>
    ret (head ++ [ch_tab] ++ lit "| { " ++ tag ++ lit ": " ++ debug_str (renamed (vid sh)) ++ lit ", " ++
         content ++ lit "?: undefined }")
  | VTuple t sh =>
    mdo ty <- ts_format_type generics t;
    ret (head ++ [ch_tab] ++ lit "| { " ++ tag ++ lit ": " ++ debug_str (renamed (vid sh)) ++ lit ", " ++
         content ++ (if is_optional t then lit "?" else []) ++ lit ": " ++ ty ++ lit " }")
  | VAnon fs sh =>
    mdo body <- mconcat (ts_write_field generics) fs;
    ret (head ++ [ch_tab] ++ lit "| { " ++ tag ++ lit ": " ++ debug_str (renamed (vid sh)) ++ lit ", " ++
         content ++ lit ": {" ++ nl ++ body ++ lit "}" ++ lit "}")
  end.

(* typescript.rs:211 write_enum *)
Definition ts_write_enum (e : renum) : TM str :=
  let sh := enum_shared e in
  let gp := generics_suffix (egenerics sh) in
  match e with
  | EUnit _ =>
    mdo vs <- mconcat ts_write_variant_unit_enum (evariants sh);
    ret (ts_comments 0 (ecomments sh) ++ lit "export enum " ++ renamed (eid sh) ++ gp ++ lit " {" ++ vs ++
         nl ++ lit "}" ++ nl ++ nl)
  | EAlgebraic tag content _ =>
    mdo vs <- mconcat (ts_write_variant_algebraic tag content (egenerics sh)) (evariants sh);
    ret (ts_comments 0 (ecomments sh) ++ lit "export type " ++ renamed (eid sh) ++ gp ++ lit " = " ++ vs ++
         lit ";" ++ nl ++ nl)
  end.

Definition ts_write_item (it : ritem) : TM str :=
  match it with
  | ItEnum e => ts_write_enum e
  | ItStruct s => ts_write_struct s
  | ItAlias a => ts_write_type_alias a
  | ItConst c => ts_write_const c
  end.

(* typescript.rs:142 begin_file *)
Definition ts_begin_file : str :=
  if ts_no_version_header cfg then []
  else lit "/*" ++ nl ++ lit " Generated by typeshare " ++ ts_version cfg ++ nl ++ lit "*/" ++ nl ++ nl.

(* typescript.rs:43 end_file *)
Definition ts_end_file (st : ts_state) : str :=
  match st with
  | [] => []
  | _ =>
    let contents := flat_map (fun kv => match custom_translations st (fst kv) with Some c => [c] | None => [] end) st in
    ts_comments 0 [lit "Custom JSON reviver and replacer functions for dynamic data transformation";
                   lit "ReviverFunc is used during JSON parsing to detect and transform specific data structures";
                   lit "ReplacerFunc is used during JSON serialization to modify certain values before stringifying.";
                   lit "These functions allow for flexible encoding and decoding of data, ensuring that complex types are properly handled when converting between TS objects and JSON"] ++
    lit "export const ReviverFunc = (key: string, value: unknown): unknown => {" ++ nl ++
    lit "    " ++ join (nl ++ lit "    ") (map fst contents) ++ nl ++
    lit "    return value;" ++ nl ++ lit "};" ++ nl ++ nl ++
    lit "export const ReplacerFunc = (key: string, value: unknown): unknown => {" ++ nl ++
    lit "    " ++ join (nl ++ lit "    ") (map snd contents) ++ nl ++
    lit "    return value;" ++ nl ++ lit "};" ++ nl
  end.

(* Language::generate_types, single-file (no imports) *)
Definition ts_generate (pd : parsed) : outcome str :=
  do items <- topsort (items_of pd);
  match mconcat ts_write_item items [] with
  | Ok (body, st) => Ok (ts_begin_file ++ body ++ ts_end_file st)
  | Err e => Err e
  | Panic p => Panic p
  end.
End TS.
