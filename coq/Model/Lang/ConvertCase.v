(* convert_case 0.6.0: `s.to_case(Case::Snake)` = Converter::new().to_case(Snake).convert(s)
   (lib.rs:270, converter.rs:102, segmentation.rs:333 split, pattern.rs Lowercase, case.rs delim "_").

   The crate walks the string by grapheme clusters (unicode-segmentation). The model walks it by code
   points: exact for ASCII (the only multi-char ASCII cluster, CR LF, never takes part in a boundary
   either way) and for the code points tabulated in Unicode.uc_table (none of them extends a cluster). *)
From Coq Require Import String.
From TS Require Import Model.Str Model.Unicode.

Section CC.
Variable uc : unicode.

(* segmentation.rs:321-331 on a one-code-point grapheme *)
Definition cc_is_digit (c : char) : bool := is_adigit c.
Definition cc_is_upper (c : char) : bool :=
  negb (str_eqb (u_upper uc c) (u_lower uc c)) && str_eqb [c] (u_upper uc c).
Definition cc_is_lower (c : char) : bool :=
  negb (str_eqb (u_upper uc c) (u_lower uc c)) && str_eqb [c] (u_lower uc c).

(* segmentation.rs:286 detect_one over Boundary::defaults(): Underscore, Hyphen, Space *)
Definition cc_detect_one (c : char) : bool := (c =? ch_us) || (c =? ch_dash) || (c =? ch_sp).

(* segmentation.rs:296 detect_two over Boundary::defaults(): LowerUpper, UpperDigit, DigitUpper,
   DigitLower, LowerDigit (UpperLower is not a default boundary) *)
Definition cc_detect_two (c d : char) : bool :=
  (cc_is_lower c && cc_is_upper d) || (cc_is_upper c && cc_is_digit d) || (cc_is_digit c && cc_is_upper d) ||
  (cc_is_digit c && cc_is_lower d) || (cc_is_lower c && cc_is_digit d).

(* segmentation.rs:309 detect_three: Acronym *)
Definition cc_detect_three (c d e : char) : bool := cc_is_upper c && cc_is_upper d && cc_is_lower e.

(* segmentation.rs:365-385: the split point at grapheme i is
     singles[i] (consume)  or  doubles[i-1] (split before i)  or  triples[i-1] (split before i);
   [prev] is grapheme i-1, the head of [s] grapheme i, the next one grapheme i+1. *)
Fixpoint cc_split_go (prev : option char) (s : str) (word : str) : list str :=
  match s with
  | [] => [word]
  | c :: r =>
    if cc_detect_one c then word :: cc_split_go (Some c) r []
    else if match prev with Some p => cc_detect_two p c | None => false end
            || match prev, r with Some p, n :: _ => cc_detect_three p c n | _, _ => false end
         then word :: cc_split_go (Some c) r [c]
         else cc_split_go (Some c) r (word ++ [c])
  end.

(* segmentation.rs:415: empty words are dropped *)
Definition cc_split (s : str) : list str :=
  filter (fun w => match w with [] => false | _ => true end) (cc_split_go None s []).

(* Case::Snake: every word through str::to_lowercase, joined with "_" *)
Definition cc_to_snake (s : str) : str := join [ch_us] (map (str_to_lowercase uc) (cc_split s)).
End CC.
