(* Abstract target-language declarations: what a generated file DECLARES, independent of layout.
   Every back end model is  emit = render ∘ decls :  [L_decls] computes these values from the IR
   (this is where all the decisions live), [L_render] prints them (layout only).  The property
   theorems about wire keys, variant names, optionality, type structure, names and helpers are
   statements about [L_decls]; the lexical properties are statements about [L_render].  The Python
   extractor (lib/extract.py) recovers the same structure from the real tool's text. *)
From TS Require Import Model.Str.

(* target type expressions *)
Inductive texp :=
| XName (name : str) (args : list texp)     (* user / builtin / helper type name with type arguments, e.g. List<T>, Record<K, V>, HashMap<K, V> *)
| XSeq (elem : texp)                         (* the language's postfix/prefix sequence form: T[] , [T], []T *)
| XFixed (elems : list texp)                 (* TypeScript tuple form [T, T, T] of a fixed-length array *)
| XMap (k v : texp)                          (* the language's map form when it is not a plain XName: [K: V], map[K]V *)
| XOpt (inner : texp)                        (* optional marker INSIDE a type expression: T?, *T, Optional[T], Option[T] *)
| XRaw (text : str).                         (* text taken verbatim from the user: type overrides, mapped names with punctuation *)

(* how the JSON key of a member is carried *)
Inductive binding := BName | BQuoted | BSerialName | BCodingKey | BJsonTag | BAlias.

Record member := {
  mb_name : str;             (* identifier declared in the target language *)
  mb_escaped : bool;         (* the back end escaped it (Swift backticks, Python trailing _) *)
  mb_key : str;              (* the JSON key the declaration binds *)
  mb_binding : binding;
  mb_optional : bool;        (* carries the language's optional idiom *)
  mb_type : texp;            (* the translated type, optional marker removed *)
  mb_docs : list str
}.

Inductive payload :=
| PayUnit
| PayNewtype (t : texp) (optional : bool)
| PayInline (ms : list member)        (* TypeScript inlines struct variants *)
| PayRef (inner : str) (args : list str).   (* the other five refer to a generated <Enum><Variant>Inner struct *)

Record variantd := {
  vd_name : str;             (* case / class / const name declared *)
  vd_wire : str;             (* the string identifying the variant on the wire *)
  vd_payload : payload;
  vd_parent : option str;    (* Kotlin/Scala: the sealed parent the case class extends *)
  vd_docs : list str
}.

Inductive defkind := DStruct | DEnum | DAlias | DConst | DHelper.

Record decl := {
  d_kind : defkind;
  d_name : str;              (* name the definition is declared under *)
  d_escaped : bool;
  d_generics : list str;
  d_docs : list str;
  d_members : list member;
  d_variants : list variantd;
  d_tag_keys : list str;     (* EVERY place the tag key is spelled out for this enum *)
  d_content_keys : list str; (* EVERY place the content key is spelled out *)
  d_type : option texp;      (* alias target / const type *)
  d_value : option str       (* const value text *)
}.

(* a generated file *)
Record file_decls := {
  fd_header : list str;      (* header lines: version comment, package, fixed imports *)
  fd_imports : list str;     (* names / packages imported *)
  fd_decls : list decl;      (* in output order *)
  fd_helper_defs : list str  (* helper names typeshare defines or imports in this file (CodableVoid, UByte.., TypeVars, ...) *)
}.

(* names occurring in a type expression (XRaw contributes nothing) *)
Fixpoint texp_names (t : texp) : list str :=
  match t with
  | XName n args => n :: flat_map texp_names args
  | XSeq e | XOpt e => texp_names e
  | XFixed es => flat_map texp_names es
  | XMap k v => texp_names k ++ texp_names v
  | XRaw _ => []
  end.
