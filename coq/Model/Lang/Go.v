(* core/src/language/go.rs, function by function (plus the trait defaults of language/mod.rs that
   Go does not override: format_type, format_simple_type, format_generic_type,
   write_types_for_anonymous_structs). Output is text (str).
   Shape: go_generate = layout (go_show, go_render_member/variant/decl) after decisions (go_texp,
   go_member_of, go_variant_of, go_decl_of); go_obs_ty/member/variant and go_obs project the decided
   declarations to the language-independent observation types of Model/Lang/Decl.v. *)
From Coq Require Import String.
From TS Require Import Model.Str Model.Outcome Model.Unicode Model.Types Model.Parse Model.Rename
                       Model.TopsortAlgo Model.Topsort Model.Lang.Common Model.Lang.Decl.

(* go.rs:18 struct Go: the pub fields a caller sets (imports starts empty: it is the printing state),
   plus the text of env!("CARGO_PKG_VERSION") *)
Record go_config := { go_package : str; go_type_mappings : tmap; go_uppercase_acronyms : list str;
                      go_no_version_header : bool; go_no_pointer_slice : bool; go_version : str }.

(* the only state kept while printing: `imports: BTreeSet<String>` (sorted, no duplicates) *)
Definition go_state := list str.

Definition go_nl : str := [ch_nl].
Definition go_tabs (n : nat) : str := repeat_str [ch_tab] n.

(* lift a pure fallible computation into the printing monad *)
Definition go_lift {St A} (o : outcome A) : M St A :=
  fun s => match o with Ok a => Ok (a, s) | Err e => Err e | Panic p => Panic p end.

(* ---- byte offsets: go.rs:579 mixes byte indices (match_indices, replace_range) with char counts ---- *)
(* char::len_utf8 *)
Definition go_utf8_len (c : char) : N :=
  if c <? 128 then 1 else if c <? 2048 then 2 else if c <? 65536 then 3 else 4.
Definition go_byte_len (s : str) : N := fold_left (fun n c => n + go_utf8_len c) s 0.

(* split at byte offset n; None when n is past the end or not on a char boundary
   (= !s.is_char_boundary(n), the condition under which String::replace_range panics) *)
Fixpoint go_split_at_byte (s : str) (n : N) : option (str * str) :=
  match s with
  | [] => if n =? 0 then Some ([], []) else None
  | c :: r => if n =? 0 then Some ([], s)
              else if n <? go_utf8_len c then None
              else match go_split_at_byte r (n - go_utf8_len c) with
                   | Some (a, b) => Some (c :: a, b)
                   | None => None
                   end
  end.

(* String::replace_range(i..j, w) with i <= j *)
Definition go_replace_range (s : str) (i j : N) (w : str) : option str :=
  match go_split_at_byte s i with
  | None => None
  | Some (a, rest) =>
    match go_split_at_byte rest (j - i) with
    | None => None
    | Some (_, b) => Some (a ++ w ++ b)
    end
  end.

(* str::match_indices(pat): byte offsets of the leftmost non-overlapping matches. UTF-8 is
   self-synchronising, so matching code points = matching bytes. An empty pattern matches at every
   char boundary, 0 and len included. *)
Fixpoint go_match_indices_fuel (fuel : nat) (p s : str) (off : N) : list N :=
  match fuel with
  | O => []
  | S f =>
    match s with
    | [] => []
    | c :: r => if starts_with p s
                then off :: go_match_indices_fuel f p (skipn (List.length p) s) (off + go_byte_len p)
                else go_match_indices_fuel f p r (off + go_utf8_len c)
    end
  end.
Fixpoint go_char_boundaries (s : str) (off : N) : list N :=
  off :: match s with [] => [] | c :: r => go_char_boundaries r (off + go_utf8_len c) end.
Definition go_match_indices (p s : str) : list N :=
  match p with
  | [] => go_char_boundaries s 0
  | _ => go_match_indices_fuel (S (List.length s)) p s 0
  end.

(* go.rs:568 write_comment, go.rs:573 write_comments *)
Definition go_write_comment (indent : nat) (comment : str) : str :=
  go_tabs indent ++ lit "// " ++ comment ++ go_nl.
Definition go_write_comments (indent : nat) (comments : list str) : str :=
  flat_map (go_write_comment indent) comments.

Section GO.
Variable uc : unicode.
Variable cfg : go_config.
Notation TM := (M go_state).

(* go.rs:579 convert_acronyms_to_uppercase. The matches are searched in [name] (never in [res]),
   [i] is a BYTE offset but is used as a CHAR index in name.chars().nth(i + acronym_len), and
   acronym_len (a char count) is used as a byte length in replace_range: all three coincide for
   ASCII. replace_range panics off a char boundary of [res]. *)
Definition go_convert_acronyms_to_uppercase (uppercase_acronyms : list str) (name : str) : outcome str :=
  fold_left
    (fun (acc : outcome str) (a : str) =>
       let pat := to_pascal_case a in                        (* go.rs:582 *)
       let acronym_len := N.of_nat (List.length pat) in      (* go.rs:583 *)
       fold_left
         (fun (acc : outcome str) (i : N) =>
            do res <- acc;
            if match nth_error name (N.to_nat (i + acronym_len)) with   (* go.rs:588-592 *)
               | Some c => negb (u_is_lower uc c)
               | None => true
               end
            then match go_replace_range res i (i + acronym_len) (str_to_uppercase uc pat) with
                 | Some res' => Ok res'
                 | None => Panic "go.rs:594"
                 end
            else Ok res)
         (go_match_indices pat name) acc)
    uppercase_acronyms (Ok name).

(* go.rs:533 acronyms_to_uppercase *)
Definition go_acronyms_to_uppercase (name : str) : TM str :=
  go_lift (go_convert_acronyms_to_uppercase (go_uppercase_acronyms cfg) name).

(* go.rs:537 format_field_name *)
Definition go_format_field_name (name : str) (exported : bool) : TM str :=
  go_acronyms_to_uppercase (if exported then to_pascal_case name else name).

(* go.rs:546 add_import *)
Definition go_add_import (name : str) : TM unit :=
  mdo st <- mget; mput (sset_insert name st).

(* ---- target type expressions ----
   [texp] cannot carry Go's fixed-length array form `[n]T` (XFixed is n copies of the element and
   loses the element type at n = 0), so Go keeps its own tree; [go_obs_ty] projects it to [texp]. *)
Inductive go_ty :=
| GName (name : str) (args : list go_ty)   (* user / builtin name, with `[A, B]` type arguments *)
| GSlice (elem : go_ty)                    (* []T *)
| GArray (n : N) (elem : go_ty)            (* [n]T *)
| GMap (k v : go_ty)                       (* map[K]V *)
| GPtr (inner : go_ty)                     (* *T *)
| GRaw (text : str).                       (* verbatim: type_mappings results, #[typeshare(go(type = ".."))] overrides *)

(* layout of a type expression *)
Fixpoint go_show (t : go_ty) : str :=
  match t with
  | GName n [] => n
  | GName n args => n ++ lit "[" ++ join (lit ", ") (map go_show args) ++ lit "]"   (* go.rs:115 *)
  | GSlice e => lit "[]" ++ go_show e
  | GArray n e => lit "[" ++ dec_of_N n ++ lit "]" ++ go_show e
  | GMap k v => lit "map[" ++ go_show k ++ lit "]" ++ go_show v
  | GPtr e => lit "*" ++ go_show e
  | GRaw t => t
  end.

(* observation: the array length is dropped ([n]T is seen as a sequence of T) *)
Fixpoint go_obs_ty (t : go_ty) : texp :=
  match t with
  | GName n args => XName n (map go_obs_ty args)
  | GSlice e => XSeq (go_obs_ty e)
  | GArray _ e => XSeq (go_obs_ty e)
  | GMap k v => XMap (go_obs_ty k) (go_obs_ty v)
  | GPtr e => XOpt (go_obs_ty e)
  | GRaw t => XRaw t
  end.

(* format_type / format_simple_type / format_generic_type (mod.rs:207-264 defaults),
   go.rs:119 format_special_type, building a tree; [go_show] prints it.
   No arm returns Err: Go's format_type is total. *)
Fixpoint go_texp (generics : list str) (t : rtype) : TM go_ty :=
  let special_mapped (k : TM go_ty) : TM go_ty :=         (* go.rs:124 *)
    match tmap_get (go_type_mappings cfg) (rtype_display t) with
    | Some mapped => ret (GRaw mapped)
    | None => k
    end in
  match t with
  | RSimple id => ret (match tmap_get (go_type_mappings cfg) id with Some m => GRaw m | None => GName id [] end)
  | RGeneric id ps =>
    match tmap_get (go_type_mappings cfg) id with
    | Some m => ret (GRaw m)                       (* a mapped generic type drops its arguments *)
    | None =>
      mdo parts <- (fix go (l : list rtype) : TM (list go_ty) :=
                      match l with
                      | [] => ret []
                      | x :: r => mdo y <- go_texp generics x; mdo ys <- go r; ret (y :: ys)
                      end) ps;
      ret (GName id parts)
    end
  | RVec x => special_mapped (mdo e <- go_texp generics x; ret (GSlice e))
  | RArray x n => special_mapped (mdo e <- go_texp generics x; ret (GArray n e))
  | RSlice x => special_mapped (mdo e <- go_texp generics x; ret (GSlice e))
  | ROption x =>
    special_mapped (mdo e <- go_texp generics x;
                    ret (if is_vec x && go_no_pointer_slice cfg then e else GPtr e))
  | RHashMap k v =>
    special_mapped (mdo ks <- go_texp generics k;
                    mdo vs <- go_texp generics v;
                    ret (GMap ks vs))
  | RPrim p =>
    special_mapped
      match p with
      | PUnit => ret (GName (lit "struct{}") [])
      | PString => ret (GName (lit "string") [])
      | PChar => ret (GName (lit "rune") [])
      | PI8 | PU8 | PU16 | PI32 | PI16 | PISize | PUSize => ret (GName (lit "int") [])
      | PU32 => ret (GName (lit "uint32") [])
      | PI54 | PI64 => ret (GName (lit "int64") [])
      | PU53 | PU64 => ret (GName (lit "uint64") [])
      | PBool => ret (GName (lit "bool") [])
      | PF32 => ret (GName (lit "float32") [])
      | PF64 => ret (GName (lit "float64") [])
      | PDateTime => mdo _ <- go_add_import (lit "time"); ret (GName (lit "time.Time") [])
      end
  end.

Definition go_format_type (generics : list str) (t : rtype) : TM str :=
  mdo x <- go_texp generics t; ret (go_show x).

(* acronyms_to_uppercase applied name by name (and to verbatim text) *)
Fixpoint go_ty_acronyms (t : go_ty) : outcome go_ty :=
  let A := go_convert_acronyms_to_uppercase (go_uppercase_acronyms cfg) in
  match t with
  | GName n args =>
    do n' <- A n;
    do args' <- (fix go (l : list go_ty) : outcome (list go_ty) :=
                   match l with
                   | [] => Ok []
                   | x :: r => do y <- go_ty_acronyms x; do ys <- go r; Ok (y :: ys)
                   end) args;
    Ok (GName n' args')
  | GSlice e => do e' <- go_ty_acronyms e; Ok (GSlice e')
  | GArray n e => do e' <- go_ty_acronyms e; Ok (GArray n e')
  | GMap k v => do k' <- go_ty_acronyms k; do v' <- go_ty_acronyms v; Ok (GMap k' v')
  | GPtr e => do e' <- go_ty_acronyms e; Ok (GPtr e')
  | GRaw x => do x' <- A x; Ok (GRaw x')
  end.

(* go.rs:512, go.rs:360: acronyms_to_uppercase runs on the formatted TEXT of a type (a match can
   straddle `[`, `]`, `, `, and the byte/char arithmetic of go.rs:579 depends on everything to the
   left of it). The decided type is the name-by-name converted tree whenever that tree prints to
   exactly the real text (always, for ASCII names and alphanumeric acronyms), and the real text
   kept verbatim otherwise. Either way
       go_show (result) = acronyms_to_uppercase (go_show t)
   and the outcome (panic site included) is the one of the real, textual, computation. *)
Definition go_acronyms_ty (t : go_ty) : TM go_ty :=
  mdo text <- go_acronyms_to_uppercase (go_show t);
  ret (match go_ty_acronyms t with
       | Ok t' => if str_eqb (go_show t') text then t' else GRaw text
       | _ => GRaw text
       end).

(* ---- declarations (decisions) ---- *)
Record go_member := { gm_docs : list str;
                      gm_name : str;        (* exported field identifier *)
                      gm_star : bool;       (* write_field's own `*` (has_default on a non-Option type) *)
                      gm_type : go_ty;      (* after acronyms_to_uppercase *)
                      gm_key : str;         (* JSON key of the struct tag, unescaped *)
                      gm_omitempty : bool }.

(* what an algebraic variant carries *)
Inductive go_content :=
| GCNone                                    (* unit variant *)
| GCType (ty : go_ty) (is_ptr : bool)       (* tuple variant: content type; whether accessors/constructors use *T *)
| GCInner (ref : str).                      (* struct variant: the <Enum><Variant>Inner name AS REFERRED TO (always *T) *)
Record go_variant := { gv_docs : list str;
                       gv_const : str;      (* variant_type_const: the constant declared for the variant *)
                       gv_wire : str;       (* its string value *)
                       gv_method : str;     (* variant_name: the accessor method *)
                       gv_content : go_content }.

Record go_tagged := { gt_docs : list str;
                      gt_name : str;            (* struct_name *)
                      gt_key_type : str;        (* variant_key_type *)
                      gt_tag_key : str;
                      gt_content_key : str;
                      gt_tag_field : str;       (* go.rs:314 and go.rs:432: the same expression *)
                      gt_content_field : str;
                      gt_short : str;           (* receiver name *)
                      gt_variants : list go_variant }.

Inductive go_decl :=
| GOStruct (docs : list str) (name : str) (generics : list str) (ms : list go_member)
| GOAlias (docs : list str) (name : str) (ty : go_ty)
| GOConst (name : str) (ty : go_ty) (value : str)
| GOUnitEnum (docs : list str) (name : str) (vs : list (list str * str * str))   (* docs, const name, wire value *)
| GOTagged (e : go_tagged).

(* go.rs:489 write_field: decisions *)
Definition go_member_of (generics : list str) (f : rfield) : TM go_member :=
  mdo type_name <- match type_override f Go with
                   | Some o => ret (GRaw o)
                   | None => go_texp generics (fty f)
                   end;
  mdo go_type <- go_acronyms_ty type_name;
  mdo fname <- go_format_field_name (original (fid f)) true;
  ret {| gm_docs := fcomments f; gm_name := fname;
         gm_star := has_default f && negb (is_optional (fty f));
         gm_type := go_type; gm_key := renamed (fid f);
         gm_omitempty := is_optional (fty f) || has_default f |}.

(* go.rs:222 write_struct: decisions *)
Definition go_struct_decl_of (rs : rstruct) : TM go_decl :=
  mdo name <- go_acronyms_to_uppercase (renamed (sid rs));
  mdo ms <- mmapM (go_member_of (sgenerics rs)) (sfields rs);
  ret (GOStruct (scomments rs) name (sgenerics rs) ms).

(* go.rs:266 make_anonymous_struct_name *)
Definition go_make_anonymous_struct_name (sh : eshared) (variant_name : str) : TM str :=
  go_acronyms_to_uppercase (original (eid sh) ++ variant_name ++ lit "Inner").

(* mod.rs:366 write_types_for_anonymous_structs, with Go's make_struct_name and write_struct:
   the helper struct is DEFINED under acronyms(acronyms(Enum ++ Variant ++ "Inner")) *)
Definition go_anonymous_struct_decls (sh : eshared) : TM (list go_decl) :=
  mdo ds <- mmapM (fun v => match v with
                            | VAnon fs vsh =>
                              mdo struct_name <- go_make_anonymous_struct_name sh (original (vid vsh));
                              mdo d <- go_struct_decl_of (anon_struct sh struct_name (original (vid vsh)) fs);
                              ret [d]
                            | _ => ret []
                            end) (evariants sh);
  ret (List.concat ds).

(* go.rs:288-302: one variant of a unit enum *)
Definition go_unit_variant_of (sh : eshared) (v : rvariant) : TM (list str * str * str) :=
  match v with
  | VUnit vsh =>
    mdo en <- go_acronyms_to_uppercase (original (eid sh));
    mdo vn <- go_acronyms_to_uppercase (original (vid vsh));
    ret (vcomments vsh, en ++ vn, renamed (vid vsh))
  | _ => mpanic "go.rs:301"
  end.

(* go.rs:329-424: body of `for v in &shared.variants` of an algebraic enum: decisions.
   A struct variant is REFERRED TO as acronyms(acronyms(Enum ++ acronyms(Variant) ++ "Inner")). *)
Definition go_variant_of (sh : eshared) (custom_structs : list str) (struct_name tag_key : str)
    (v : rvariant) : TM go_variant :=
  let vsh := variant_shared v in
  mdo variant_name <- go_acronyms_to_uppercase (original (vid vsh));
  mdo variant_type <- match v with
                      | VTuple ty _ => mdo x <- go_texp [] ty; ret (Some (inl x))   (* .unwrap(): never Err *)
                      | VAnon _ _ => mdo s <- go_make_anonymous_struct_name sh variant_name; ret (Some (inr s))
                      | VUnit _ => ret None
                      end;
  mdo tag_part <- go_acronyms_to_uppercase (to_pascal_case tag_key);
  let variant_type_const := struct_name ++ tag_part ++ lit "Variant" ++ variant_name in
  mdo content <- match variant_type with
                 | Some (inl x) =>                                (* go.rs:353 looks the unconverted text up *)
                   mdo fvt <- go_acronyms_ty x; ret (GCType fvt (mem_str (go_show x) custom_structs))
                 | Some (inr s) => mdo fvt <- go_acronyms_to_uppercase s; ret (GCInner fvt)
                 | None => ret GCNone
                 end;
  ret {| gv_docs := vcomments vsh; gv_const := variant_type_const; gv_wire := renamed (vid vsh);
         gv_method := variant_name; gv_content := content |}.

(* go.rs:258 write_enum: decisions. The helper structs come first, as declarations of their own. *)
Definition go_enum_decls_of (custom_structs : list str) (e : renum) : TM (list go_decl) :=
  let sh := enum_shared e in
  mdo anon <- go_anonymous_struct_decls sh;                           (* go.rs:274 *)
  match e with
  | EUnit _ =>
    mdo en <- go_acronyms_to_uppercase (original (eid sh));
    mdo vs <- mmapM (go_unit_variant_of sh) (evariants sh);
    ret (anon ++ [GOUnitEnum (ecomments sh) en vs])
  | EAlgebraic tag_key content_key _ =>
    mdo struct_name <- go_acronyms_to_uppercase (original (eid sh));  (* go.rs:312 *)
    mdo content_field <- go_lift (to_camel_case content_key);         (* go.rs:313 (total since the /repo fix of to_camel_case) *)
    mdo tag_field <- go_format_field_name tag_key true;               (* go.rs:314 *)
    (* go.rs:315: the first CHARACTER, lower-cased with char::to_lowercase (the /repo fix of the byte slice
       original[..1], which panicked on a multi-byte first character); "" for an empty name *)
    mdo struct_short_name <- ret (match original (eid sh) with
                                  | [] => []
                                  | c :: _ => u_lower uc c
                                  end);
    mdo tag_acr <- go_acronyms_to_uppercase tag_key;                  (* go.rs:319 *)
    let variant_key_type := struct_name ++ to_pascal_case tag_acr ++ lit "s" in
    mdo vs <- mmapM (go_variant_of sh custom_structs struct_name tag_key) (evariants sh);
    (* go.rs:432 evaluates format_field_name(tag_key) once more: same value, cannot fail here *)
    ret (anon ++ [GOTagged {| gt_docs := ecomments sh; gt_name := struct_name; gt_key_type := variant_key_type;
                              gt_tag_key := tag_key; gt_content_key := content_key;
                              gt_tag_field := tag_field; gt_content_field := content_field;
                              gt_short := struct_short_name; gt_variants := vs |}])
  end.

(* one source item -> the definitions emitted for it, in output order *)
Definition go_decl_of (custom_structs : list str) (it : ritem) : TM (list go_decl) :=
  match it with
  | ItEnum e => go_enum_decls_of custom_structs e
  | ItStruct s => mdo d <- go_struct_decl_of s; ret [d]
  | ItAlias a =>                                   (* go.rs:191: the target type is NOT acronym-converted *)
    mdo name <- go_acronyms_to_uppercase (original (aid a));
    mdo ty <- go_texp [] (atype a);
    ret [GOAlias (acomments a) name ty]
  | ItConst c =>                                   (* go.rs:205: neither the name nor the type is acronym-converted *)
    mdo const_type <- go_texp [] (ctype c);
    ret [GOConst (to_pascal_case (renamed (cid c))) const_type (dec_of_Z (cvalue c))]
  end.

(* ---- rendering (layout only) ---- *)
(* go.rs:516-526; the key is printed as format!("{:?}", key) without its first and last byte *)
Definition go_render_member (m : go_member) : str :=
  go_write_comments 1 (gm_docs m) ++
  [ch_tab] ++ gm_name m ++ lit " " ++
  (if gm_star m then lit "*" else []) ++ go_show (gm_type m) ++
  lit " `json:""" ++ flat_map escape_debug_char (gm_key m) ++
  (if gm_omitempty m then lit ",omitempty" else []) ++ lit """`" ++ go_nl.

(* what one iteration of the loop go.rs:329-424 contributes *)
Record go_variant_out := { go_vo_written : str;        (* written to w *)
                           go_vo_decoding : str;       (* pushed on decoding_cases *)
                           go_vo_accessors : str;      (* pushed on variant_accessors *)
                           go_vo_constructors : str }. (* pushed on variant_constructors *)

Definition go_render_variant (e : go_tagged) (v : go_variant) : go_variant_out :=
  let struct_name := gt_name e in
  let struct_short_name := gt_short e in
  let tag_field := gt_tag_field e in
  let content_field := gt_content_field e in
  let variant_type_const := gv_const v in
  let case_line := [ch_tab] ++ lit "case " ++ variant_type_const ++ lit ":" ++ go_nl in
  let written :=
    go_write_comments 1 (gv_docs v) ++
    [ch_tab] ++ variant_type_const ++ lit " " ++ gt_key_type e ++ lit " = " ++
    debug_str (gv_wire v) ++ go_nl in
  let with_content (fvt : str) (is_ptr : bool) :=
    let variant_pointer := if is_ptr then lit "*" else [] in
    let variant_deref := if is_ptr then [] else lit "*" in
    let variant_ref := if is_ptr then [] else lit "&" in
    {| go_vo_written := written;
       go_vo_decoding :=
         case_line ++
         go_tabs 2 ++ lit "var res " ++ fvt ++ go_nl ++
         go_tabs 2 ++ struct_short_name ++ lit "." ++ content_field ++ lit " = &res" ++ go_nl;
       go_vo_accessors :=
         lit "func (" ++ struct_short_name ++ lit " " ++ struct_name ++ lit ") " ++ gv_method v ++
           lit "() " ++ variant_pointer ++ fvt ++ lit " {" ++ go_nl ++
         [ch_tab] ++ lit "res, _ := " ++ struct_short_name ++ lit "." ++ content_field ++
           lit ".(*" ++ fvt ++ lit ")" ++ go_nl ++
         [ch_tab] ++ lit "return " ++ variant_deref ++ lit "res" ++ go_nl ++
         lit "}" ++ go_nl;
       go_vo_constructors :=
         lit "func New" ++ variant_type_const ++ lit "(content " ++ variant_pointer ++ fvt ++ lit ") " ++
           struct_name ++ lit " {" ++ go_nl ++
         lit "    return " ++ struct_name ++ lit "{" ++ go_nl ++
         lit "        " ++ tag_field ++ lit ": " ++ variant_type_const ++ lit "," ++ go_nl ++
         lit "        " ++ content_field ++ lit ": " ++ variant_ref ++ lit "content," ++ go_nl ++
         lit "    }" ++ go_nl ++
         lit "}" ++ go_nl |} in
  match gv_content v with
  | GCType ty is_ptr => with_content (go_show ty) is_ptr
  | GCInner ref => with_content ref true
  | GCNone =>
    {| go_vo_written := written;
       go_vo_decoding := case_line ++ go_tabs 2 ++ lit "return nil" ++ go_nl;
       go_vo_accessors := [];
       go_vo_constructors :=
         lit "func New" ++ variant_type_const ++ lit "() " ++ struct_name ++ lit " {" ++ go_nl ++
         lit "    return " ++ struct_name ++ lit "{" ++ go_nl ++
         lit "        " ++ tag_field ++ lit ": " ++ variant_type_const ++ lit "," ++ go_nl ++
         lit "    }" ++ go_nl ++
         lit "}" ++ go_nl |}
  end.

Definition go_render_decl (d : go_decl) : str :=
  match d with
  | GOStruct docs name gs ms =>                                  (* go.rs:222 write_struct *)
    go_write_comments 0 docs ++
    lit "type " ++ name ++
    match gs with
    | [] => []
    | _ => lit "[" ++ join (lit ", ") (map (fun g => g ++ lit " any") gs) ++ lit "]"
    end ++ lit " struct {" ++ go_nl ++
    List.concat (map go_render_member ms) ++ lit "}" ++ go_nl
  | GOAlias docs name ty =>                                      (* go.rs:191 write_type_alias *)
    go_write_comments 0 docs ++ lit "type " ++ name ++ lit " " ++ go_show ty ++ go_nl ++ go_nl
  | GOConst name ty value =>                                     (* go.rs:205 write_const *)
    lit "const " ++ name ++ lit " " ++ go_show ty ++ lit " = " ++ value ++ go_nl
  | GOUnitEnum docs name vs =>                                   (* go.rs:279-305 *)
    go_write_comments 0 docs ++
    lit "type " ++ name ++ lit " string" ++ go_nl ++
    lit "const (" ++
    List.concat (map (fun v => let '(vdocs, const, wire) := v in
                               go_nl ++ go_write_comments 1 vdocs ++
                               [ch_tab] ++ const ++ lit " " ++ name ++ lit " = " ++ debug_str wire) vs) ++
    go_nl ++ lit ")" ++ go_nl
  | GOTagged e =>                                                (* go.rs:306-485 *)
    let struct_name := gt_name e in
    let variant_key_type := gt_key_type e in
    let tag_key := gt_tag_key e in
    let content_key := gt_content_key e in
    let tag_field := gt_tag_field e in
    let content_field := gt_content_field e in
    let sn := gt_short e in
    let vos := map (go_render_variant e) (gt_variants e) in
    let T := [ch_tab] in
    go_write_comments 0 (gt_docs e) ++
    lit "type " ++ variant_key_type ++ lit " string" ++ go_nl ++
    lit "const (" ++ go_nl ++
    flat_map go_vo_written vos ++
    lit ")" ++ go_nl ++
    lit "type " ++ struct_name ++ lit " struct{ " ++ go_nl ++
    T ++ tag_field ++ lit " " ++ variant_key_type ++ lit " `json:" ++ debug_str tag_key ++ lit "`" ++ go_nl ++
    T ++ content_field ++ lit " interface{}" ++ go_nl ++
    lit "}" ++ go_nl ++
    (* go.rs:441-473, then writeln!'s newline *)
    go_nl ++
    lit "func (" ++ sn ++ lit " *" ++ struct_name ++ lit ") UnmarshalJSON(data []byte) error {" ++ go_nl ++
    T ++ lit "var enum struct {" ++ go_nl ++
    T ++ T ++ lit "Tag    " ++ variant_key_type ++ lit "   `json:""" ++ tag_key ++ lit """`" ++ go_nl ++
    T ++ T ++ lit "Content json.RawMessage `json:""" ++ content_key ++ lit """`" ++ go_nl ++
    T ++ lit "}" ++ go_nl ++
    T ++ lit "if err := json.Unmarshal(data, &enum); err != nil {" ++ go_nl ++
    T ++ T ++ lit "return err" ++ go_nl ++
    T ++ lit "}" ++ go_nl ++
    go_nl ++
    T ++ sn ++ lit "." ++ tag_field ++ lit " = enum.Tag" ++ go_nl ++
    T ++ lit "switch " ++ sn ++ lit "." ++ tag_field ++ lit " {" ++ go_nl ++
    flat_map go_vo_decoding vos ++ go_nl ++
    T ++ lit "}" ++ go_nl ++
    T ++ lit "if err := json.Unmarshal(enum.Content, &" ++ sn ++ lit "." ++ content_field ++ lit "); err != nil {" ++ go_nl ++
    T ++ T ++ lit "return err" ++ go_nl ++
    T ++ lit "}" ++ go_nl ++
    go_nl ++
    T ++ lit "return nil" ++ go_nl ++
    lit "}" ++ go_nl ++
    go_nl ++
    lit "func (" ++ sn ++ lit " " ++ struct_name ++ lit ") MarshalJSON() ([]byte, error) {" ++ go_nl ++
    lit "    var enum struct {" ++ go_nl ++
    T ++ T ++ lit "Tag    " ++ variant_key_type ++ lit "   `json:""" ++ tag_key ++ lit """`" ++ go_nl ++
    T ++ T ++ lit "Content interface{} `json:""" ++ content_key ++ lit ",omitempty""`" ++ go_nl ++
    lit "    }" ++ go_nl ++
    lit "    enum.Tag = " ++ sn ++ lit "." ++ tag_field ++ go_nl ++
    lit "    enum.Content = " ++ sn ++ lit "." ++ content_field ++ go_nl ++
    lit "    return json.Marshal(enum)" ++ go_nl ++
    lit "}" ++ go_nl ++
    go_nl ++
    flat_map go_vo_accessors vos ++ go_nl ++
    flat_map go_vo_constructors vos ++ go_nl
  end.

(* write_enum / write_struct / write_type_alias / write_const = render of the declarations *)
Definition go_write_item (custom_structs : list str) (it : ritem) : TM str :=
  mdo ds <- go_decl_of custom_structs it; ret (List.concat (map go_render_decl ds)).

(* ---- observation: the language-independent view of a declaration ---- *)
(* mb_optional = write_field's `is_optional` (go.rs:513), i.e. the tag says `,omitempty`; such a
   field is also a pointer (the `*` written by write_field, or the `*` Option<T> formats to) except
   for Option<Vec<T>> under no_pointer_slice and for mapped / overridden types.
   mb_type = the printed type without that pointer: write_field's own `*` is not part of gm_type;
   otherwise, for an omitempty field, ONE leading GPtr of the type is removed (Option<Option<T>>
   keeps the inner one). Nothing is removed from verbatim (GRaw) types. *)
Definition go_obs_member (m : go_member) : member :=
  {| mb_name := gm_name m; mb_escaped := false; mb_key := gm_key m; mb_binding := BJsonTag;
     mb_optional := gm_omitempty m;
     mb_type := go_obs_ty (if gm_omitempty m && negb (gm_star m)
                           then match gm_type m with GPtr t => t | t => t end
                           else gm_type m);
     mb_docs := gm_docs m |}.

(* Go has no optional idiom for variant content (an Option<T> payload is the type *T); whether
   accessors and constructors pass the content by pointer (is_ptr) is not observable here. A struct
   variant refers to its helper struct without type arguments, whatever the helper's generics. *)
Definition go_obs_variant (v : go_variant) : variantd :=
  {| vd_name := gv_const v; vd_wire := gv_wire v;
     vd_payload := match gv_content v with
                   | GCNone => PayUnit
                   | GCType ty _ => PayNewtype (go_obs_ty ty) false
                   | GCInner ref => PayRef ref []
                   end;
     vd_parent := None; vd_docs := gv_docs v |}.

Definition go_obs (d : go_decl) : list decl :=
  match d with
  | GOStruct docs name gs ms =>
    [{| d_kind := DStruct; d_name := name; d_escaped := false; d_generics := gs; d_docs := docs;
        d_members := map go_obs_member ms; d_variants := []; d_tag_keys := []; d_content_keys := [];
        d_type := None; d_value := None |}]
  | GOAlias docs name ty =>                        (* generic parameters of an alias are not printed *)
    [{| d_kind := DAlias; d_name := name; d_escaped := false; d_generics := []; d_docs := docs;
        d_members := []; d_variants := []; d_tag_keys := []; d_content_keys := [];
        d_type := Some (go_obs_ty ty); d_value := None |}]
  | GOConst name ty value =>
    [{| d_kind := DConst; d_name := name; d_escaped := false; d_generics := []; d_docs := [];
        d_members := []; d_variants := []; d_tag_keys := []; d_content_keys := [];
        d_type := Some (go_obs_ty ty); d_value := Some value |}]
  | GOUnitEnum docs name vs =>
    [{| d_kind := DEnum; d_name := name; d_escaped := false; d_generics := []; d_docs := docs;
        d_members := [];
        d_variants := map (fun v => let '(vdocs, const, wire) := v in
                                    {| vd_name := const; vd_wire := wire; vd_payload := PayUnit;
                                       vd_parent := None; vd_docs := vdocs |}) vs;
        d_tag_keys := []; d_content_keys := []; d_type := None; d_value := None |}]
  | GOTagged e =>
    (* two definitions: `type <key type> string` (a helper typeshare adds; the enum's doc comment
       is printed above IT), then `type <name> struct`. The variant constants are typed by the
       former and listed with the latter. *)
    [{| d_kind := DHelper; d_name := gt_key_type e; d_escaped := false; d_generics := []; d_docs := gt_docs e;
        d_members := []; d_variants := []; d_tag_keys := []; d_content_keys := [];
        d_type := Some (XName (lit "string") []); d_value := None |};
     {| d_kind := DEnum; d_name := gt_name e; d_escaped := false; d_generics := []; d_docs := [];
        d_members := []; d_variants := map go_obs_variant (gt_variants e);
        (* tag key: the struct's own tag (printed {:?}), UnmarshalJSON's and MarshalJSON's `Tag` tags *)
        d_tag_keys := [gt_tag_key e; gt_tag_key e; gt_tag_key e];
        (* content key: UnmarshalJSON's and MarshalJSON's `Content` tags (the struct's content field has no tag) *)
        d_content_keys := [gt_content_key e; gt_content_key e];
        d_type := None; d_value := None |}]
  end.

(* names typeshare invents at top level: the variant key types *)
Definition go_helper_names (d : go_decl) : list str :=
  match d with GOTagged e => [gt_key_type e] | _ => [] end.

(* go.rs:175 begin_file *)
Definition go_begin_file : TM str :=
  mdo _ <- go_add_import (lit "encoding/json");
  ret ((if go_no_version_header cfg then []
        else lit "// Code generated by typeshare " ++ go_version cfg ++ lit ". DO NOT EDIT." ++ go_nl) ++
       lit "package " ++ go_package cfg ++ go_nl ++ go_nl).

(* go.rs:550 write_all_imports: the BTreeSet is copied to a Vec and sorted again (a no-op) *)
Definition go_write_all_imports (imports : go_state) : str :=
  match imports with
  | [] => []
  | [import] => lit "import """ ++ import ++ lit """" ++ go_nl ++ go_nl
  | _ => lit "import (" ++ go_nl ++
         flat_map (fun import => [ch_tab] ++ lit """" ++ import ++ lit """" ++ go_nl) imports ++
         lit ")" ++ go_nl ++ go_nl
  end.

(* go.rs:79-96 types_mapping_to_struct: HashSet<&str>, only ever queried with contains (its
   iteration order never reaches the output). One pass over the aliases in topsorted order. *)
Definition go_types_mapping_to_struct (items : list ritem) : list str :=
  fold_left (fun acc it => match it with
                           | ItAlias a => if mem_str (rtype_id (atype a)) acc then original (aid a) :: acc else acc
                           | _ => acc
                           end)
            items
            (flat_map (fun it => match it with ItStruct s => [original (sid s)] | _ => [] end) items).

(* go.rs:51 generate_types (Go overrides the trait default: the body is buffered, the imports
   collected while printing it are written between the header and the body; no end_file) *)
Definition go_generate (pd : parsed) : outcome str :=
  do items <- topsort (items_of pd);
  let custom_structs := go_types_mapping_to_struct items in
  let run : TM str :=
    mdo header <- go_begin_file;
    mdo body <- mconcat (go_write_item custom_structs) items;
    mdo imports <- mget;
    ret (header ++ go_write_all_imports imports ++ body) in
  match run [] with
  | Ok (out, _) => Ok out
  | Err e => Err e
  | Panic p => Panic p
  end.

(* the declarations of a whole file (what the file DECLARES) and the imports collected *)
Definition go_decls (pd : parsed) : outcome (list go_decl * go_state) :=
  do items <- topsort (items_of pd);
  let custom_structs := go_types_mapping_to_struct items in
  let run : TM (list go_decl) :=
    mdo _ <- go_begin_file;
    mdo dss <- mmapM (go_decl_of custom_structs) items;
    ret (List.concat dss) in
  run [].

Definition go_file_decls (pd : parsed) : outcome file_decls :=
  do r <- go_decls pd;
  let '(ds, imports) := r in
  Ok {| fd_header := (if go_no_version_header cfg then []
                      else [lit "Code generated by typeshare " ++ go_version cfg ++ lit ". DO NOT EDIT."]) ++
                     [lit "package " ++ go_package cfg];
        fd_imports := imports;
        fd_decls := flat_map go_obs ds;
        (* Go has no file-level helpers; the names typeshare invents are the variant key types *)
        fd_helper_defs := flat_map go_helper_names ds |}.
End GO.
