(* core/src/language/go.rs, function by function (plus the trait defaults of language/mod.rs that
   Go does not override: format_type, format_simple_type, format_generic_type,
   write_types_for_anonymous_structs). Output is text (str). *)
From Coq Require Import String.
From TS Require Import Model.Str Model.Outcome Model.Unicode Model.Types Model.Parse Model.Rename
                       Model.TopsortAlgo Model.Topsort Model.Lang.Common.

(* go.rs:18 struct Go: the pub fields a caller sets (imports starts empty: it is the printing state),
   plus the text of env!("CARGO_PKG_VERSION") *)
Record go_config := { go_package : str; go_type_mappings : tmap; go_uppercase_acronyms : list str;
                      go_no_version_header : bool; go_no_pointer_slice : bool; go_version : str }.

(* the only state kept while printing: `imports: BTreeSet<String>` (sorted, no duplicates) *)
Definition go_state := list str.

Definition go_nl : str := [ch_nl].
Definition go_tabs (n : nat) : str := repeat_str [ch_tab] n.

(* lift a pure fallible computation into the printing monad *)
Definition go_lift {St A} (o : outcome A) : M St A :=
  fun s => match o with Ok a => Ok (a, s) | Err e => Err e | Panic p => Panic p end.

(* ---- byte offsets: go.rs:579 mixes byte indices (match_indices, replace_range) with char counts ---- *)
(* char::len_utf8 *)
Definition go_utf8_len (c : char) : N :=
  if c <? 128 then 1 else if c <? 2048 then 2 else if c <? 65536 then 3 else 4.
Definition go_byte_len (s : str) : N := fold_left (fun n c => n + go_utf8_len c) s 0.

(* split at byte offset n; None when n is past the end or not on a char boundary
   (= !s.is_char_boundary(n), the condition under which String::replace_range panics) *)
Fixpoint go_split_at_byte (s : str) (n : N) : option (str * str) :=
  match s with
  | [] => if n =? 0 then Some ([], []) else None
  | c :: r => if n =? 0 then Some ([], s)
              else if n <? go_utf8_len c then None
              else match go_split_at_byte r (n - go_utf8_len c) with
                   | Some (a, b) => Some (c :: a, b)
                   | None => None
                   end
  end.

(* String::replace_range(i..j, w) with i <= j *)
Definition go_replace_range (s : str) (i j : N) (w : str) : option str :=
  match go_split_at_byte s i with
  | None => None
  | Some (a, rest) =>
    match go_split_at_byte rest (j - i) with
    | None => None
    | Some (_, b) => Some (a ++ w ++ b)
    end
  end.

(* str::match_indices(pat): byte offsets of the leftmost non-overlapping matches. UTF-8 is
   self-synchronising, so matching code points = matching bytes. An empty pattern matches at every
   char boundary, 0 and len included. *)
Fixpoint go_match_indices_fuel (fuel : nat) (p s : str) (off : N) : list N :=
  match fuel with
  | O => []
  | S f =>
    match s with
    | [] => []
    | c :: r => if starts_with p s
                then off :: go_match_indices_fuel f p (skipn (List.length p) s) (off + go_byte_len p)
                else go_match_indices_fuel f p r (off + go_utf8_len c)
    end
  end.
Fixpoint go_char_boundaries (s : str) (off : N) : list N :=
  off :: match s with [] => [] | c :: r => go_char_boundaries r (off + go_utf8_len c) end.
Definition go_match_indices (p s : str) : list N :=
  match p with
  | [] => go_char_boundaries s 0
  | _ => go_match_indices_fuel (S (List.length s)) p s 0
  end.

(* go.rs:568 write_comment, go.rs:573 write_comments *)
Definition go_write_comment (indent : nat) (comment : str) : str :=
  go_tabs indent ++ lit "// " ++ comment ++ go_nl.
Definition go_write_comments (indent : nat) (comments : list str) : str :=
  flat_map (go_write_comment indent) comments.

Section GO.
Variable uc : unicode.
Variable cfg : go_config.
Notation TM := (M go_state).

(* go.rs:579 convert_acronyms_to_uppercase. The matches are searched in [name] (never in [res]),
   [i] is a BYTE offset but is used as a CHAR index in name.chars().nth(i + acronym_len), and
   acronym_len (a char count) is used as a byte length in replace_range: all three coincide for
   ASCII. replace_range panics off a char boundary of [res]. *)
Definition go_convert_acronyms_to_uppercase (uppercase_acronyms : list str) (name : str) : outcome str :=
  fold_left
    (fun (acc : outcome str) (a : str) =>
       let pat := to_pascal_case a in                        (* go.rs:582 *)
       let acronym_len := N.of_nat (List.length pat) in      (* go.rs:583 *)
       fold_left
         (fun (acc : outcome str) (i : N) =>
            do res <- acc;
            if match nth_error name (N.to_nat (i + acronym_len)) with   (* go.rs:588-592 *)
               | Some c => negb (u_is_lower uc c)
               | None => true
               end
            then match go_replace_range res i (i + acronym_len) (str_to_uppercase uc pat) with
                 | Some res' => Ok res'
                 | None => Panic "go.rs:594"
                 end
            else Ok res)
         (go_match_indices pat name) acc)
    uppercase_acronyms (Ok name).

(* go.rs:533 acronyms_to_uppercase *)
Definition go_acronyms_to_uppercase (name : str) : TM str :=
  go_lift (go_convert_acronyms_to_uppercase (go_uppercase_acronyms cfg) name).

(* go.rs:537 format_field_name *)
Definition go_format_field_name (name : str) (exported : bool) : TM str :=
  go_acronyms_to_uppercase (if exported then to_pascal_case name else name).

(* go.rs:546 add_import *)
Definition go_add_import (name : str) : TM unit :=
  mdo st <- mget; mput (sset_insert name st).

(* format_type / format_simple_type / format_generic_type (mod.rs:207-264 defaults),
   go.rs:115 format_generic_parameters, go.rs:119 format_special_type.
   No arm returns Err: Go's format_type is total. *)
Fixpoint go_format_type (generics : list str) (t : rtype) : TM str :=
  let special_mapped (k : TM str) : TM str :=             (* go.rs:124 *)
    match tmap_get (go_type_mappings cfg) (rtype_display t) with
    | Some mapped => ret mapped
    | None => k
    end in
  match t with
  | RSimple id => ret (match tmap_get (go_type_mappings cfg) id with Some m => m | None => id end)
  | RGeneric id ps =>
    match tmap_get (go_type_mappings cfg) id with
    | Some m => ret m
    | None =>
      mdo parts <- (fix go (l : list rtype) : TM (list str) :=
                      match l with
                      | [] => ret []
                      | x :: r => mdo y <- go_format_type generics x; mdo ys <- go r; ret (y :: ys)
                      end) ps;
      ret (id ++ match parts with [] => [] | _ => lit "[" ++ join (lit ", ") parts ++ lit "]" end)
    end
  | RVec x => special_mapped (mdo s <- go_format_type generics x; ret (lit "[]" ++ s))
  | RArray x n => special_mapped (mdo s <- go_format_type generics x;
                                  ret (lit "[" ++ dec_of_N n ++ lit "]" ++ s))
  | RSlice x => special_mapped (mdo s <- go_format_type generics x; ret (lit "[]" ++ s))
  | ROption x =>
    special_mapped (mdo s <- go_format_type generics x;
                    ret ((if is_vec x && go_no_pointer_slice cfg then [] else lit "*") ++ s))
  | RHashMap k v =>
    special_mapped (mdo ks <- go_format_type generics k;
                    mdo vs <- go_format_type generics v;
                    ret (lit "map[" ++ ks ++ lit "]" ++ vs))
  | RPrim p =>
    special_mapped
      match p with
      | PUnit => ret (lit "struct{}")
      | PString => ret (lit "string")
      | PChar => ret (lit "rune")
      | PI8 | PU8 | PU16 | PI32 | PI16 | PISize | PUSize => ret (lit "int")
      | PU32 => ret (lit "uint32")
      | PI54 | PI64 => ret (lit "int64")
      | PU53 | PU64 => ret (lit "uint64")
      | PBool => ret (lit "bool")
      | PF32 => ret (lit "float32")
      | PF64 => ret (lit "float64")
      | PDateTime => mdo _ <- go_add_import (lit "time"); ret (lit "time.Time")
      end
  end.

(* go.rs:489 write_field *)
Definition go_write_field (generics : list str) (f : rfield) : TM str :=
  mdo type_name <- match type_override f Go with
                   | Some o => ret o
                   | None => go_format_type generics (fty f)
                   end;
  mdo go_type <- go_acronyms_to_uppercase type_name;
  let optional := is_optional (fty f) || has_default f in
  (* format!("{:?}", renamed) without its first and last byte (the quotes) *)
  let renamed_id := flat_map escape_debug_char (renamed (fid f)) in
  mdo fname <- go_format_field_name (original (fid f)) true;
  ret (go_write_comments 1 (fcomments f) ++
       [ch_tab] ++ fname ++ lit " " ++
       (if has_default f && negb (is_optional (fty f)) then lit "*" else []) ++ go_type ++
       lit " `json:""" ++ renamed_id ++ (if optional then lit ",omitempty" else []) ++ lit """`" ++ go_nl).

(* go.rs:191 write_type_alias (generic parameters of the alias are not printed) *)
Definition go_write_type_alias (a : ralias) : TM str :=
  mdo name <- go_acronyms_to_uppercase (original (aid a));
  mdo ty <- go_format_type [] (atype a);
  ret (go_write_comments 0 (acomments a) ++ lit "type " ++ name ++ lit " " ++ ty ++ go_nl ++ go_nl).

(* go.rs:205 write_const *)
Definition go_write_const (c : rconst) : TM str :=
  mdo const_type <- go_format_type [] (ctype c);
  ret (lit "const " ++ to_pascal_case (renamed (cid c)) ++ lit " " ++ const_type ++ lit " = " ++
       dec_of_Z (cvalue c) ++ go_nl).

(* go.rs:222 write_struct *)
Definition go_write_struct (rs : rstruct) : TM str :=
  mdo name <- go_acronyms_to_uppercase (renamed (sid rs));
  mdo body <- mconcat (go_write_field (sgenerics rs)) (sfields rs);
  ret (go_write_comments 0 (scomments rs) ++
       lit "type " ++ name ++
       match sgenerics rs with
       | [] => []
       | gs => lit "[" ++ join (lit ", ") (map (fun g => g ++ lit " any") gs) ++ lit "]"
       end ++ lit " struct {" ++ go_nl ++
       body ++ lit "}" ++ go_nl).

(* go.rs:266 make_anonymous_struct_name *)
Definition go_make_anonymous_struct_name (sh : eshared) (variant_name : str) : TM str :=
  go_acronyms_to_uppercase (original (eid sh) ++ variant_name ++ lit "Inner").

(* mod.rs:366 write_types_for_anonymous_structs, with Go's make_struct_name and write_struct *)
Definition go_write_types_for_anonymous_structs (sh : eshared) : TM str :=
  mconcat (fun v => match v with
                    | VAnon fs vsh =>
                      mdo struct_name <- go_make_anonymous_struct_name sh (original (vid vsh));
                      go_write_struct (anon_struct sh struct_name (original (vid vsh)) fs)
                    | _ => ret []
                    end) (evariants sh).

(* go.rs:288-302: one variant of a unit enum *)
Definition go_write_unit_variant (sh : eshared) (v : rvariant) : TM str :=
  match v with
  | VUnit vsh =>
    mdo en <- go_acronyms_to_uppercase (original (eid sh));
    mdo vn <- go_acronyms_to_uppercase (original (vid vsh));
    ret (go_nl ++ go_write_comments 1 (vcomments vsh) ++
         [ch_tab] ++ en ++ vn ++ lit " " ++ en ++ lit " = " ++ debug_str (renamed (vid vsh)))
  | _ => mpanic "go.rs:301"
  end.

(* what one iteration of the loop go.rs:329-424 contributes *)
Record go_variant_out := { go_vo_written : str;        (* written to w *)
                           go_vo_decoding : str;       (* pushed on decoding_cases *)
                           go_vo_accessors : str;      (* pushed on variant_accessors *)
                           go_vo_constructors : str }. (* pushed on variant_constructors *)

(* go.rs:329-424: body of `for v in &shared.variants` of an algebraic enum *)
Definition go_write_algebraic_variant (sh : eshared) (custom_structs : list str)
    (struct_name tag_key tag_field content_field struct_short_name variant_key_type : str)
    (v : rvariant) : TM go_variant_out :=
  let vsh := variant_shared v in
  mdo variant_name <- go_acronyms_to_uppercase (original (vid vsh));
  mdo variant_type <- match v with
                      | VTuple ty _ => mdo s <- go_format_type [] ty; ret (Some s)   (* .unwrap(): never Err *)
                      | VAnon _ _ => mdo s <- go_make_anonymous_struct_name sh variant_name; ret (Some s)
                      | VUnit _ => ret None
                      end;
  mdo tag_part <- go_acronyms_to_uppercase (to_pascal_case tag_key);
  let variant_type_const := struct_name ++ tag_part ++ lit "Variant" ++ variant_name in
  let case_line := [ch_tab] ++ lit "case " ++ variant_type_const ++ lit ":" ++ go_nl in
  let written :=
    go_write_comments 1 (vcomments vsh) ++
    [ch_tab] ++ variant_type_const ++ lit " " ++ variant_key_type ++ lit " = " ++
    debug_str (renamed (vid vsh)) ++ go_nl in
  match variant_type with
  | Some variant_type =>
    let is_ptr := match v with VAnon _ _ => true | _ => mem_str variant_type custom_structs end in
    let variant_pointer := if is_ptr then lit "*" else [] in
    let variant_deref := if is_ptr then [] else lit "*" in
    let variant_ref := if is_ptr then [] else lit "&" in
    mdo fvt <- go_acronyms_to_uppercase variant_type;
    ret {| go_vo_written := written;
           go_vo_decoding :=
             case_line ++
             go_tabs 2 ++ lit "var res " ++ fvt ++ go_nl ++
             go_tabs 2 ++ struct_short_name ++ lit "." ++ content_field ++ lit " = &res" ++ go_nl;
           go_vo_accessors :=
             lit "func (" ++ struct_short_name ++ lit " " ++ struct_name ++ lit ") " ++ variant_name ++
               lit "() " ++ variant_pointer ++ fvt ++ lit " {" ++ go_nl ++
             [ch_tab] ++ lit "res, _ := " ++ struct_short_name ++ lit "." ++ content_field ++
               lit ".(*" ++ fvt ++ lit ")" ++ go_nl ++
             [ch_tab] ++ lit "return " ++ variant_deref ++ lit "res" ++ go_nl ++
             lit "}" ++ go_nl;
           go_vo_constructors :=
             lit "func New" ++ variant_type_const ++ lit "(content " ++ variant_pointer ++ fvt ++ lit ") " ++
               struct_name ++ lit " {" ++ go_nl ++
             lit "    return " ++ struct_name ++ lit "{" ++ go_nl ++
             lit "        " ++ tag_field ++ lit ": " ++ variant_type_const ++ lit "," ++ go_nl ++
             lit "        " ++ content_field ++ lit ": " ++ variant_ref ++ lit "content," ++ go_nl ++
             lit "    }" ++ go_nl ++
             lit "}" ++ go_nl |}
  | None =>
    ret {| go_vo_written := written;
           go_vo_decoding := case_line ++ go_tabs 2 ++ lit "return nil" ++ go_nl;
           go_vo_accessors := [];
           go_vo_constructors :=
             lit "func New" ++ variant_type_const ++ lit "() " ++ struct_name ++ lit " {" ++ go_nl ++
             lit "    return " ++ struct_name ++ lit "{" ++ go_nl ++
             lit "        " ++ tag_field ++ lit ": " ++ variant_type_const ++ lit "," ++ go_nl ++
             lit "    }" ++ go_nl ++
             lit "}" ++ go_nl |}
  end.

(* go.rs:258 write_enum *)
Definition go_write_enum (custom_structs : list str) (e : renum) : TM str :=
  let sh := enum_shared e in
  mdo anon <- go_write_types_for_anonymous_structs sh;                (* go.rs:274 *)
  let head := anon ++ go_write_comments 0 (ecomments sh) in
  match e with
  | EUnit _ =>
    mdo en <- go_acronyms_to_uppercase (original (eid sh));
    mdo vs <- mconcat (go_write_unit_variant sh) (evariants sh);
    ret (head ++ lit "type " ++ en ++ lit " string" ++ go_nl ++
         lit "const (" ++ vs ++ go_nl ++ lit ")" ++ go_nl)
  | EAlgebraic tag_key content_key _ =>
    mdo struct_name <- go_acronyms_to_uppercase (original (eid sh));  (* go.rs:312 *)
    mdo content_field <- go_lift (to_camel_case content_key);         (* go.rs:313, panics on "" *)
    mdo tag_field <- go_format_field_name tag_key true;               (* go.rs:314 *)
    mdo struct_short_name <-                                          (* go.rs:315 original[..1] *)
      match original (eid sh) with
      | [] => mpanic "go.rs:315"
      | c :: _ => if c <? 128 then ret (str_to_lowercase uc [c]) else mpanic "go.rs:315"
      end;
    mdo tag_acr <- go_acronyms_to_uppercase tag_key;                  (* go.rs:319 *)
    let variant_key_type := struct_name ++ to_pascal_case tag_acr ++ lit "s" in
    mdo vos <- mmapM (go_write_algebraic_variant sh custom_structs struct_name tag_key tag_field
                        content_field struct_short_name variant_key_type) (evariants sh);
    mdo tag_field2 <- go_format_field_name tag_key true;              (* go.rs:432 *)
    let sn := struct_short_name in
    let T := [ch_tab] in
    ret (head ++
         lit "type " ++ variant_key_type ++ lit " string" ++ go_nl ++
         lit "const (" ++ go_nl ++
         flat_map go_vo_written vos ++
         lit ")" ++ go_nl ++
         lit "type " ++ struct_name ++ lit " struct{ " ++ go_nl ++
         T ++ tag_field2 ++ lit " " ++ variant_key_type ++ lit " `json:" ++ debug_str tag_key ++ lit "`" ++ go_nl ++
         T ++ content_field ++ lit " interface{}" ++ go_nl ++
         lit "}" ++ go_nl ++
         (* go.rs:441-473, then writeln!'s newline *)
         go_nl ++
         lit "func (" ++ sn ++ lit " *" ++ struct_name ++ lit ") UnmarshalJSON(data []byte) error {" ++ go_nl ++
         T ++ lit "var enum struct {" ++ go_nl ++
         T ++ T ++ lit "Tag    " ++ variant_key_type ++ lit "   `json:""" ++ tag_key ++ lit """`" ++ go_nl ++
         T ++ T ++ lit "Content json.RawMessage `json:""" ++ content_key ++ lit """`" ++ go_nl ++
         T ++ lit "}" ++ go_nl ++
         T ++ lit "if err := json.Unmarshal(data, &enum); err != nil {" ++ go_nl ++
         T ++ T ++ lit "return err" ++ go_nl ++
         T ++ lit "}" ++ go_nl ++
         go_nl ++
         T ++ sn ++ lit "." ++ tag_field ++ lit " = enum.Tag" ++ go_nl ++
         T ++ lit "switch " ++ sn ++ lit "." ++ tag_field ++ lit " {" ++ go_nl ++
         flat_map go_vo_decoding vos ++ go_nl ++
         T ++ lit "}" ++ go_nl ++
         T ++ lit "if err := json.Unmarshal(enum.Content, &" ++ sn ++ lit "." ++ content_field ++ lit "); err != nil {" ++ go_nl ++
         T ++ T ++ lit "return err" ++ go_nl ++
         T ++ lit "}" ++ go_nl ++
         go_nl ++
         T ++ lit "return nil" ++ go_nl ++
         lit "}" ++ go_nl ++
         go_nl ++
         lit "func (" ++ sn ++ lit " " ++ struct_name ++ lit ") MarshalJSON() ([]byte, error) {" ++ go_nl ++
         lit "    var enum struct {" ++ go_nl ++
         T ++ T ++ lit "Tag    " ++ variant_key_type ++ lit "   `json:""" ++ tag_key ++ lit """`" ++ go_nl ++
         T ++ T ++ lit "Content interface{} `json:""" ++ content_key ++ lit ",omitempty""`" ++ go_nl ++
         lit "    }" ++ go_nl ++
         lit "    enum.Tag = " ++ sn ++ lit "." ++ tag_field ++ go_nl ++
         lit "    enum.Content = " ++ sn ++ lit "." ++ content_field ++ go_nl ++
         lit "    return json.Marshal(enum)" ++ go_nl ++
         lit "}" ++ go_nl ++
         go_nl ++
         flat_map go_vo_accessors vos ++ go_nl ++
         flat_map go_vo_constructors vos ++ go_nl)
  end.

Definition go_write_item (custom_structs : list str) (it : ritem) : TM str :=
  match it with
  | ItEnum e => go_write_enum custom_structs e
  | ItStruct s => go_write_struct s
  | ItAlias a => go_write_type_alias a
  | ItConst c => go_write_const c
  end.

(* go.rs:175 begin_file *)
Definition go_begin_file : TM str :=
  mdo _ <- go_add_import (lit "encoding/json");
  ret ((if go_no_version_header cfg then []
        else lit "// Code generated by typeshare " ++ go_version cfg ++ lit ". DO NOT EDIT." ++ go_nl) ++
       lit "package " ++ go_package cfg ++ go_nl ++ go_nl).

(* go.rs:550 write_all_imports: the BTreeSet is copied to a Vec and sorted again (a no-op) *)
Definition go_write_all_imports (imports : go_state) : str :=
  match imports with
  | [] => []
  | [import] => lit "import """ ++ import ++ lit """" ++ go_nl ++ go_nl
  | _ => lit "import (" ++ go_nl ++
         flat_map (fun import => [ch_tab] ++ lit """" ++ import ++ lit """" ++ go_nl) imports ++
         lit ")" ++ go_nl ++ go_nl
  end.

(* go.rs:79-96 types_mapping_to_struct: HashSet<&str>, only ever queried with contains (its
   iteration order never reaches the output). One pass over the aliases in topsorted order. *)
Definition go_types_mapping_to_struct (items : list ritem) : list str :=
  fold_left (fun acc it => match it with
                           | ItAlias a => if mem_str (rtype_id (atype a)) acc then original (aid a) :: acc else acc
                           | _ => acc
                           end)
            items
            (flat_map (fun it => match it with ItStruct s => [original (sid s)] | _ => [] end) items).

(* go.rs:51 generate_types (Go overrides the trait default: the body is buffered, the imports
   collected while printing it are written between the header and the body; no end_file) *)
Definition go_generate (pd : parsed) : outcome str :=
  do items <- topsort (items_of pd);
  let custom_structs := go_types_mapping_to_struct items in
  let run : TM str :=
    mdo header <- go_begin_file;
    mdo body <- mconcat (go_write_item custom_structs) items;
    mdo imports <- mget;
    ret (header ++ go_write_all_imports imports ++ body) in
  match run [] with
  | Ok (out, _) => Ok out
  | Err e => Err e
  | Panic p => Panic p
  end.
End GO.
