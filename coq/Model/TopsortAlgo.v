(* core/src/topsort.rs: toposort_impl (DFS with the early `return` on a cycle) and sort_by_indices
   (in-place permutation by cycle following).  Vec indexing `v[i]` panics out of bounds: explicit. *)
From Coq Require Import String List Arith Bool.
From TS Require Import Model.Outcome.
Import ListNotations.
Local Open Scope nat_scope.

Definition graph := list (list nat).
Record st := { res : list nat; processed : list nat; seen : list nat }.

Definition mem (x:nat) (l:list nat) : bool := existsb (Nat.eqb x) l.
(* seen.iter().position(|&o| o == d).map(|p| seen.remove(p)) : remove the first occurrence *)
Fixpoint remove_first (x:nat) (l:list nat) : list nat :=
  match l with [] => [] | y :: r => if Nat.eqb x y then r else y :: remove_first x r end.

(* the `for dependant in nodes` loop of `inner`; [rec] is the recursive call on graph[d].
   `return` on a cycle leaves the loop (and this call of inner) at once. *)
Fixpoint loop (rec : list nat -> st -> outcome st) (g:graph) (nodes:list nat) (s:st) : outcome st :=
  match nodes with
  | [] => Ok s
  | d :: rest =>
    if mem d (processed s) then loop rec g rest s
    else if mem d (seen s) then Ok s                      (* cycle: return *)
    else
      let s1 := {| res := res s; processed := processed s; seen := seen s ++ [d] |} in
      match nth_error g d with
      | None => Panic "topsort.rs:175"                    (* graph[*dependant] out of bounds *)
      | Some deps =>
        match rec deps s1 with
        | Ok s2 =>
          loop rec g rest {| res := res s2 ++ [d]; processed := processed s2 ++ [d];
                             seen := remove_first d (seen s2) |}
        | other => other
        end
      end
  end.

(* recursion depth is bounded by the number of nodes; explicit fuel, Panic "fuel" if exhausted *)
Fixpoint inner (fuel:nat) (g:graph) (nodes:list nat) (s:st) : outcome st :=
  match fuel with
  | O => Panic "fuel"
  | S f => loop (inner f g) g nodes s
  end.

Definition toposort_impl (g:graph) : outcome (list nat) :=
  omap res (inner (S (length g)) g (seq 0 (length g)) {| res := []; processed := []; seen := [] |}).

(* ---- sort_by_indices ---- *)
Section Sort.
Context {A : Type}.

Fixpoint set_nth {B} (l : list B) (i : nat) (x : B) : list B :=
  match l, i with
  | [], _ => []
  | _ :: r, O => x :: r
  | y :: r, S k => y :: set_nth r k x
  end.

(* data.swap(i, j): panics when an index is out of bounds *)
Definition swap (data : list A) (i j : nat) : option (list A) :=
  match nth_error data i, nth_error data j with
  | Some a, Some b => Some (set_nth (set_nth data i b) j a)
  | _, _ => None
  end.

(* the inner `loop { .. }` following one cycle; fuel = number of positions is enough *)
Fixpoint follow (fuel : nat) (data : list A) (ind : list nat) (cur : nat) : outcome (list A * list nat) :=
  match fuel with
  | O => Panic "fuel"
  | S f =>
    match nth_error ind cur with
    | None => Panic "topsort.rs:235"
    | Some tgt =>
      let ind' := set_nth ind cur cur in
      match nth_error ind' tgt with
      | None => Panic "topsort.rs:237"
      | Some t2 =>
        if Nat.eqb t2 tgt then Ok (data, ind')
        else match swap data cur tgt with
             | None => Panic "topsort.rs:240"
             | Some data' => follow f data' ind' tgt
             end
      end
    end
  end.

(* `for idx in 0..data.len()` *)
Fixpoint outer (idxs : list nat) (data : list A) (ind : list nat) : outcome (list A) :=
  match idxs with
  | [] => Ok data
  | idx :: rest =>
    match nth_error ind idx with
    | None => Panic "topsort.rs:232"
    | Some v =>
      if Nat.eqb v idx then outer rest data ind
      else match follow (S (length data)) data ind idx with
           | Ok (data', ind') => outer rest data' ind'
           | Err e => Err e
           | Panic s => Panic s
           end
    end
  end.

Definition sort_by_indices (data : list A) (indices : list nat) : outcome (list A) :=
  outer (seq 0 (length data)) data indices.
End Sort.
