(* The abstract syntax typeshare *receives* from syn (syn itself is not modelled).
   harness/libdrive's `ast` command converts real Rust source to this AST with syn; the Python
   printers turn generated ASTs into Rust source, and print ; syn ; convert = id is checked. *)
From TS Require Import Model.Str.

Definition path := list str.          (* segment identifiers; a leading `::` is an empty first segment *)

(* expr_to_string / literal_to_string look only at Expr::Lit(Lit::Str) *)
Inductive value := VStr (s : str) | VOther.

(* syn::Meta. A Meta::List keeps raw tokens; typeshare looks at them through two parsers:
   [args]  = parse_args_with(Punctuated::<Meta, Token![,]>::parse_terminated)   (None = Err)
   [dargs] = the hand-written decorator parser of parser.rs:745-787           (None = Err)
             entries (ident, Some string) for `ident = "string"`, (ident, None) for a bare ident *)
Inductive meta :=
| MPath (p : path)
| MList (p : path) (args : option (list meta)) (dargs : option (list (str * option str)))
| MNV (p : path) (v : value).

Definition meta_path (m : meta) : path :=
  match m with MPath p | MList p _ _ | MNV p _ => p end.

(* syn::Path::is_ident *)
Definition path_is_ident (p : path) (name : str) : bool :=
  match p with [s] => str_eqb s name | _ => false end.

Record attr := { a_inner : bool; a_meta : meta }.

(* syn::Type as far as TryFrom<&syn::Type> distinguishes.
   TPath: qualifier segments, last segment identifier, its angle-bracketed arguments
   (None = lifetime / const / binding argument, skipped by the filter_map at rust_types.rs:355);
   a path always has a last segment, so rust_types.rs:348 `.last().unwrap()` cannot fail. *)
Inductive alen := ALit (n : option N) | AOther.   (* ALit None: base10_parse::<usize> failed *)
Inductive ty :=
| TPath (quals : list str) (last : str) (args : list (option ty))
| TRef (t : ty)
| TTuple (l : list ty)
| TArray (t : ty) (len : alen)
| TSlice (t : ty)
| TOther.                             (* fn(..), dyn .., impl .., (T), !, _, macros, ptr ... *)

Record field := { f_attrs : list attr; f_ident : option str; f_ty : ty }.
Inductive fields := FNamed (l : list field) | FUnnamed (l : list field) | FUnit.
Record variant := { v_attrs : list attr; v_ident : str; v_fields : fields }.
Inductive gparam := GPType (id : str) | GPOther.

(* const initialiser (syn::Expr) as far as parse_const_expr looks at it (since the /repo fix of
   C08-const-expr it no longer takes "the first literal anywhere in the expression") *)
Inductive clit := CInt (v : option Z) | CNotInt.  (* CInt None: base10_parse::<i128> failed *)
Inductive cexpr :=
| CELit (l : clit)                    (* Expr::Lit *)
| CEParen (e : cexpr)                 (* Expr::Paren and Expr::Group *)
| CENeg (e : cexpr)                   (* Expr::Unary with UnOp::Neg *)
| CEOther.                            (* any other expression: 1 + 2, foo(7), !0, X, { 5 } ... *)

Inductive use_tree :=
| UPath (id : str) (t : use_tree)
| UName (id : str)
| URename (id : str) (alias : str)
| UGlob
| UGroup (l : list use_tree).

Inductive item :=
| IStruct (attrs : list attr) (ident : str) (generics : list gparam) (fs : fields)
| IEnum (attrs : list attr) (ident : str) (generics : list gparam) (vs : list variant)
| IType (attrs : list attr) (ident : str) (generics : list gparam) (t : ty)
| IConst (attrs : list attr) (ident : str) (t : ty) (e : cexpr)
| IUse (t : use_tree)
| INest (inner : list item).          (* mod / fn / impl / trait ...: syn::visit reaches the items inside *)

Record file := {
  fl_attrs : list attr;               (* inner attributes of the file *)
  fl_items : list item;
  fl_paths : list path;               (* every syn::Path in the file, visit order (multi-file only) *)
  fl_marker : bool                    (* source text contains "#[typeshare" *)
}.
