(* C07 property statements (front end only - PARTIAL); proofs live in Proofs/C07.v.

   What is proved: on the declarative domain of Spec/C07Spec.v (front_safe) the model of the front end
   - TryFrom<&syn::Type>, rename_all_to_case, get_field_decorators, parse_struct / parse_enum /
   parse_type_alias / parse_const, the visitor, parser::parse - never reaches a partial operation
   (outcome is Ok or Err, never Panic), and every annotated item is either generated or recorded as an
   error.  Termination of the model is by construction (structural recursion; the one fuelled loop,
   TargetOsIterator, is shown to have enough fuel in Props/C13.v).

   What is NOT proved (exercised by checks/c07.py on the real binary and recorded in
   KNOWN_FINDINGS.jsonl only):
     - the six back ends' partial operations: kotlin.rs:183 and swift.rs:268 (todo!() for consts),
       scala.rs:131 (no package), go.rs:313 / go.rs:315 (byte-slicing of content key / enum name),
       go.rs:301, go.rs:594, python.rs:368, typescript.rs:137, typescript.rs:276;
     - topsort's dependency recursion (Model/Topsort.v fuel exhaustion = real stack overflow);
     - multi-file mode: visitors.rs:401 (`use foo;`), import reconciliation;
     - the CLI: directory walk, reading files, the collector thread and the send().unwrap() race
       (cli/src/parse.rs), writing output;
     - what no model exhibits: real dead-locks, stack depth, OS errors. *)
From Coq Require Import String.
From TS Require Import Model.Str Model.Outcome Model.Unicode Model.Syntax Model.Attrs Model.Rename Model.Types Model.Parse.
From TS Require Import Spec.TargetOsRule Spec.C03Spec Spec.C07Spec.
From TS Require Proofs.FrontItems Proofs.C07.
Definition refuted_at (it : item) (site : string) : Prop :=
  Proofs.C07.is_leaf_item it = true /\ leaf_safe uc_exec (fun _ => None) [] it = false /\
  Proofs.FrontItems.parse_leaf uc_exec (fun _ => None) [] it = Panic site.

(* a type expression in which every Vec / Option / smart pointer has a type argument and every HashMap
   two - at any depth - is translated without panic *)
Theorem C07_type_parser_panic_free :
  forall t : ty, ty_safe t = true -> is_panic (parse_ty t) = false.
Proof. exact Proofs.C07.ty_safe_no_panic. Qed.
Print Assumptions C07_type_parser_panic_free.

(* for every Unicode table, rule string and identifier: renaming does not panic unless the rule is
   camelCase and the identifier has no non-underscore character or its first one is not ASCII *)
Theorem C07_rename_panic_free :
  forall (uc : unicode) (rule : option str) (ident : str),
    rename_safe rule ident = true -> is_panic (rename_all_to_case uc ident rule) = false.
Proof. exact Proofs.C07.rename_safe_no_panic. Qed.
Print Assumptions C07_rename_panic_free.

(* ... and that carve-out is exact: to_camel_case panics on precisely those identifiers *)
Theorem C07_camel_case_panics_exactly :
  forall s : str,
    is_panic (to_camel_case s) = negb (match first_significant s with Some c => N.ltb c 128%N | None => false end).
Proof. exact Proofs.C07.camel_panics_iff. Qed.
Print Assumptions C07_camel_case_panics_exactly.

(* field decorators: no panic when every nested typeshare(name(..)) list names a language *)
Theorem C07_decorators_panic_free :
  forall (uc : unicode) (attrs : list attr),
    decorators_safe uc attrs = true -> is_panic (get_field_decorators uc attrs) = false.
Proof. exact Proofs.C07.decorators_safe_no_panic. Qed.
Print Assumptions C07_decorators_panic_free.

(* each annotated struct / enum / alias / const that is leaf_safe parses without panic, under the
   hypothesis that the code's skip decision is the documented one (C13) ... *)
Theorem C07_leaf_panic_free :
  forall (uc : unicode) (tstr : str -> option ty) (T : list str),
    (forall attrs, is_skipped T attrs = skipped7 T attrs) ->
  forall it : item,
    Proofs.C07.is_leaf_item it = true -> leaf_safe uc tstr T it = true ->
    is_panic (Proofs.FrontItems.parse_leaf uc tstr T it) = false.
Proof. exact Proofs.C07.leaf_safe_no_panic. Qed.
Print Assumptions C07_leaf_panic_free.

(* ... which holds outright without --target-os *)
Theorem C07_leaf_panic_free_no_target :
  forall (uc : unicode) (tstr : str -> option ty) (it : item),
    Proofs.C07.is_leaf_item it = true -> leaf_safe uc tstr [] it = true ->
    is_panic (Proofs.FrontItems.parse_leaf uc tstr [] it) = false.
Proof. exact Proofs.C07.leaf_safe_no_panic_no_target. Qed.
Print Assumptions C07_leaf_panic_free_no_target.

(* MAIN (partial: front end only): a file all of whose expected leaves are safe is parsed without
   panic, at any nesting depth of modules / functions / impls, for every Unicode table and every
   serialized_as re-parser; hypothesis: the code's --target-os decision is the documented rule *)
Theorem C07_front_end_panic_free_partial :
  forall (uc : unicode) (tstr : str -> option ty) (T : list str),
    (forall attrs, accepts T attrs = os_rule attrs T) ->
  forall f : file,
    front_safe uc tstr T f = true -> is_panic (parse_file uc tstr T f) = false.
Proof. exact Proofs.C07.front_safe_no_panic. Qed.
Print Assumptions C07_front_end_panic_free_partial.

(* the hypothesis is true for every attribute list whose cfg predicates parse (C13) ... *)
Theorem C07_target_os_hypothesis_when_cfg_parses :
  forall (T : list str) (attrs : list attr), cfg_parsable attrs = true -> accepts T attrs = os_rule attrs T.
Proof. exact Proofs.C07.acc_when_cfg_parsable. Qed.
Print Assumptions C07_target_os_hypothesis_when_cfg_parses.

(* ... and for all attribute lists without --target-os, so there the result is unconditional *)
Theorem C07_front_end_panic_free_no_target_partial :
  forall (uc : unicode) (tstr : str -> option ty) (f : file),
    front_safe uc tstr [] f = true -> is_panic (parse_file uc tstr [] f) = false.
Proof. exact Proofs.C07.front_safe_no_panic_no_target. Qed.
Print Assumptions C07_front_end_panic_free_no_target_partial.

(* output or diagnostic: when the visitor finishes, every expected leaf has been either pushed as
   an item or recorded as an error (nothing is dropped silently) *)
Theorem C07_every_expected_item_accounted :
  forall (uc : unicode) (tstr : str -> option ty) (T : list str),
    (forall attrs, accepts T attrs = os_rule attrs T) ->
  forall (l : list item) (pd pd' : parsed),
    visit_items uc tstr T l pd = Ok pd' ->
    Proofs.FrontItems.count_items pd' =
    (Proofs.FrontItems.count_items pd + List.length (filter (expected_leaf T) (leaves_of l)))%nat.
Proof. exact Proofs.C07.all_results_accounted. Qed.
Print Assumptions C07_every_expected_item_accounted.

(* the unrestricted statement is false of the faithful model: one witness per front-end panic site
   (each: the item is outside the domain AND the model panics at exactly that site) *)
(* #[typeshare] struct S(); *)
Theorem C07_parser_287_refuted :
  refuted_at (IStruct [Proofs.C07.a_ts] (lit "S") [] (FUnnamed [])) "parser.rs:287".
Proof. exact Proofs.C07.C07_parser_287_refuted. Qed.
Print Assumptions C07_parser_287_refuted.
(* #[typeshare] #[serde(tag = "t", content = "c")] enum E { V() } *)
Theorem C07_parser_445_refuted :
  refuted_at (IEnum [Proofs.C07.a_ts; Proofs.C07.a_tagc] (lit "E") []
                    [{| v_attrs := []; v_ident := lit "V"; v_fields := FUnnamed [] |}]) "parser.rs:445".
Proof. exact Proofs.C07.C07_parser_445_refuted. Qed.
Print Assumptions C07_parser_445_refuted.
(* #[typeshare] struct S { #[typeshare(foo(bar))] a: u8 } *)
Theorem C07_parser_737_refuted :
  refuted_at (Proofs.C07.st1 [] (Proofs.C07.fld
                [{| a_inner := false;
                    a_meta := MList [lit "typeshare"] (Some [MList [lit "foo"] (Some [MPath [lit "bar"]]) (Some [(lit "bar", None)])]) None |}]
                (lit "a") Proofs.C07.t_u8)) "parser.rs:737".
Proof. exact Proofs.C07.C07_parser_737_refuted. Qed.
Print Assumptions C07_parser_737_refuted.
(* #[typeshare] struct S { a: Vec } *)
Theorem C07_rust_types_366_refuted :
  refuted_at (Proofs.C07.st1 [] (Proofs.C07.fld [] (lit "a") (TPath [] (lit "Vec") []))) "rust_types.rs:366".
Proof. exact Proofs.C07.C07_rust_types_366_refuted. Qed.
Print Assumptions C07_rust_types_366_refuted.
(* a: Option *)
Theorem C07_rust_types_369_refuted :
  refuted_at (Proofs.C07.st1 [] (Proofs.C07.fld [] (lit "a") (TPath [] (lit "Option") []))) "rust_types.rs:369".
Proof. exact Proofs.C07.C07_rust_types_369_refuted. Qed.
Print Assumptions C07_rust_types_369_refuted.
(* a: HashMap *)
Theorem C07_rust_types_374_refuted :
  refuted_at (Proofs.C07.st1 [] (Proofs.C07.fld [] (lit "a") (TPath [] (lit "HashMap") []))) "rust_types.rs:374".
Proof. exact Proofs.C07.C07_rust_types_374_refuted. Qed.
Print Assumptions C07_rust_types_374_refuted.
(* a: HashMap<String> *)
Theorem C07_rust_types_375_refuted :
  refuted_at (Proofs.C07.st1 [] (Proofs.C07.fld [] (lit "a") (TPath [] (lit "HashMap") [Some (TPath [] (lit "String") [])])))
             "rust_types.rs:375".
Proof. exact Proofs.C07.C07_rust_types_375_refuted. Qed.
Print Assumptions C07_rust_types_375_refuted.
(* a: Cow<'static> - a lifetime argument is not a type argument *)
Theorem C07_rust_types_383_refuted :
  refuted_at (Proofs.C07.st1 [] (Proofs.C07.fld [] (lit "a") (TPath [] (lit "Cow") [None]))) "rust_types.rs:383".
Proof. exact Proofs.C07.C07_rust_types_383_refuted. Qed.
Print Assumptions C07_rust_types_383_refuted.
(* #[serde(rename_all = "camelCase")] struct S { __: u8 } *)
Theorem C07_rename_22_underscores_refuted :
  refuted_at (Proofs.C07.st1 [Proofs.C07.a_camel] (Proofs.C07.fld [] (lit "__") Proofs.C07.t_u8)) "rename.rs:22".
Proof. exact Proofs.C07.C07_rename_22_underscores_refuted. Qed.
Print Assumptions C07_rename_22_underscores_refuted.
(* #[serde(rename_all = "camelCase")] struct S { étoile: u8 } *)
Theorem C07_rename_22_nonascii_refuted :
  refuted_at (Proofs.C07.st1 [Proofs.C07.a_camel] (Proofs.C07.fld [] (233%N :: lit "toile") Proofs.C07.t_u8)) "rename.rs:22".
Proof. exact Proofs.C07.C07_rename_22_nonascii_refuted. Qed.
Print Assumptions C07_rename_22_nonascii_refuted.

(* the hypotheses are satisfiable: a file with a camelCase struct, nested containers, skipped and
   unannotated copies of the panic triggers, an enum inside a module with all three variant kinds, an
   alias and a const is front_safe, has 5 expected leaves and parses to 5 items and no error *)
Theorem C07_nonvacuous_witness :
  front_safe uc_exec Proofs.C07.no_tstr [] Proofs.C07.nonvacuous_file = true /\
  List.length (expected_leaves [] Proofs.C07.nonvacuous_file) = 5%nat /\
  match parse_file uc_exec Proofs.C07.no_tstr [] Proofs.C07.nonvacuous_file with
  | Ok (Some pd) => Proofs.FrontItems.count_items pd = 5%nat /\ p_errors pd = []
  | _ => False
  end.
Proof. exact Proofs.C07.C07_nonvacuous. Qed.
Print Assumptions C07_nonvacuous_witness.
