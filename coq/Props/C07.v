(* C07 property statements (front end, single- and multi-file - PARTIAL); proofs live in Proofs/C07.v, Proofs/C07Back.v.

   What is proved: the model of the front end - TryFrom<&syn::Type>, rename_all_to_case,
   get_field_decorators, parse_struct / parse_enum / parse_type_alias / parse_const, the visitor,
   parser::parse - NEVER reaches a partial operation (outcome is Ok or Err, never Panic), for every
   input: since the /repo fixes of parser.rs:287 / :445 / :737, rust_types.rs:366-383 and rename.rs:22
   there is no domain hypothesis and no recorded class.  parser::parse always returns a ParsedData in
   which every annotated item is either generated or recorded as an error; the edge inputs that used to
   panic and must be diagnosed (Spec/C07Spec.v: containers without type arguments, empty tuple structs /
   variants) are errors, and a file containing one has a non-empty error list.  Since the /repo fix of
   visitors.rs:401 the same holds in MULTI-FILE mode: the `use`-tree iterator is total (a leaf without a
   leading path is skipped), so parser::parse with multi_file = true and the parse of a whole workspace
   always return.  Termination of the model is by construction (structural recursion; the fuelled loops -
   TargetOsIterator, Props/C13.v; ItemUseIter, here - are shown to have enough fuel).

   The back-end sites repaired in /repo are pinned: go.rs:315 (the receiver name is a VALUE: the first
   character lower-cased), kotlin.rs:183 / swift.rs:268 (write_const is an Err naming the constant, for
   every constant), scala.rs:131 (begin_file is an Err exactly for the empty package).

   The REST of the modelled single-file pipeline (last section of this file; proofs in Proofs/C07Topsort.v,
   C07Front.v, C07TypeScript.v, C07Kotlin.v, C07Scala.v, C07Swift.v, C07Python.v, C07Go.v, C07GoAscii.v,
   C07Pipeline.v): reconcile is a total function and keeps the shape of the parsed data; topsort is TOTAL on every
   item list (the dependency walk never exhausts the model's fuel - since the /repo fix of C07-topsort-recursion
   its nesting depth is bounded by the number of items - and the index / unwrap sites topsort.rs:154, :175, :222,
   :232-:240 are unreachable); each back end's generate_types is Ok, Err, or a Panic at one of its recorded sites
   - typescript.rs:137 / :276, go.rs:301, python.rs:368 only on parsed data the front end never delivers (a 64-bit
   integer primitive, a non-unit variant in a unit enum), scala.rs:161 never (Scala writes no consts), go.rs:594
   only with a non-empty acronym list AND a non-ASCII string among those Go converts; composed: parse, reconcile,
   generate never panics in five languages, and in Go only in that one recorded class (C07-go.rs:594).

   What is NOT proved (exercised by checks/c07.py on the real binary and recorded in
   KNOWN_FINDINGS.jsonl only):
     - go.rs:594 inside its class (a finding: the witness is pinned below);
     - multi-file mode: import reconciliation, the writer;
     - the CLI: directory walk, reading files, the collector thread (cli/src/parse.rs), writing output;
     - what no model exhibits: real dead-locks, stack depth, OS errors. *)
From Coq Require Import String.
From TS Require Import Model.Str Model.Outcome Model.Unicode Model.Syntax Model.Attrs Model.Rename Model.Types Model.Parse.
From TS Require Import Model.MultiFile Model.Lang.Common Model.Lang.Kotlin Model.Lang.Swift Model.Lang.Scala Model.Lang.Go.
From TS Require Import Spec.TargetOsRule Spec.C03Spec Spec.C07Spec.
From TS Require Import Model.Reconcile Model.Collect Model.TopsortAlgo Model.Topsort Model.Lang.TypeScript Model.Lang.Python Spec.C07BackSpec.
From TS Require Proofs.FrontItems Proofs.C07 Proofs.C07Back.
From TS Require Proofs.GoAcronyms Proofs.C07Topsort Proofs.C07Front Proofs.C07TypeScript Proofs.C07Kotlin Proofs.C07Scala Proofs.C07Swift
                Proofs.C07Python Proofs.C07Go Proofs.C07GoAscii Proofs.C07Pipeline.

(* every type expression is translated or rejected, never a panic *)
Theorem C07_type_parser_never_panics :
  forall t : ty, is_panic (parse_ty t) = false.
Proof. exact Proofs.C07.parse_ty_never_panics. Qed.
Print Assumptions C07_type_parser_never_panics.

(* a type expression in which some Vec / Option / smart pointer lacks its type argument or some HashMap
   has fewer than two - at any depth - is rejected with an error (the inputs of rust_types.rs:366-383) *)
Theorem C07_incomplete_type_is_error :
  forall t : ty, ty_complete t = false -> exists e, parse_ty t = Err e.
Proof. exact Proofs.C07.incomplete_type_is_error. Qed.
Print Assumptions C07_incomplete_type_is_error.

(* for every Unicode table, rule string and identifier: renaming never panics *)
Theorem C07_rename_never_panics :
  forall (uc : unicode) (rule : option str) (ident : str),
    is_panic (rename_all_to_case uc ident rule) = false.
Proof. exact Proofs.C07.rename_never_panics. Qed.
Print Assumptions C07_rename_never_panics.

(* to_camel_case returns the PascalCase form with its first CHARACTER ASCII-lowered: the empty form
   (`__`) stays empty, a non-ASCII first character is left alone *)
Theorem C07_camel_case_value :
  forall s : str,
    to_camel_case s = Ok (match to_pascal_case s with [] => [] | c :: r => alower c :: r end).
Proof. exact Proofs.C07.camel_case_value. Qed.
Print Assumptions C07_camel_case_value.

(* field decorators never panic, whatever nested typeshare(..) lists the attributes carry *)
Theorem C07_decorators_never_panic :
  forall (uc : unicode) (attrs : list attr), is_panic (get_field_decorators uc attrs) = false.
Proof. exact Proofs.C07.decorators_never_panic. Qed.
Print Assumptions C07_decorators_never_panic.

(* each annotated struct / enum / alias / const parses without panic: every Unicode table, every
   serialized_as re-parser, every --target-os list *)
Theorem C07_leaf_never_panics :
  forall (uc : unicode) (tstr : str -> option ty) (T : list str) (it : item),
    Proofs.C07.is_leaf_item it = true ->
    is_panic (Proofs.FrontItems.parse_leaf uc tstr T it) = false.
Proof. exact Proofs.C07.leaf_never_panics. Qed.
Print Assumptions C07_leaf_never_panics.

(* MAIN (partial: front end only): parser::parse never panics and always returns, at any nesting depth
   of modules / functions / impls, for every file, Unicode table, serialized_as re-parser and
   --target-os list - no hypothesis *)
Theorem C07_front_end_never_panics_partial :
  forall (uc : unicode) (tstr : str -> option ty) (T : list str) (f : file),
    is_panic (parse_file uc tstr T f) = false.
Proof. exact Proofs.C07.parse_file_never_panics. Qed.
Print Assumptions C07_front_end_never_panics_partial.

Theorem C07_front_end_total_partial :
  forall (uc : unicode) (tstr : str -> option ty) (T : list str) (f : file),
    exists r, parse_file uc tstr T f = Ok r.
Proof. exact Proofs.C07.parse_file_total. Qed.
Print Assumptions C07_front_end_total_partial.

(* diagnosed, not dropped (1): an annotated item with an incomplete container type or an empty tuple
   struct / variant in a non-skipped position ends in an error; hypothesis: the code's skip decision
   is the documented one (C13) ... *)
Theorem C07_incomplete_leaf_is_error :
  forall (uc : unicode) (tstr : str -> option ty) (T : list str),
    (forall attrs, is_skipped T attrs = skipped7 T attrs) ->
  forall it : item,
    Proofs.C07.is_leaf_item it = true -> leaf_complete uc tstr T it = false ->
    exists e, Proofs.FrontItems.parse_leaf uc tstr T it = Err e.
Proof. exact Proofs.C07.incomplete_leaf_is_error. Qed.
Print Assumptions C07_incomplete_leaf_is_error.

(* ... which holds outright without --target-os *)
Theorem C07_incomplete_leaf_is_error_no_target :
  forall (uc : unicode) (tstr : str -> option ty) (it : item),
    Proofs.C07.is_leaf_item it = true -> leaf_complete uc tstr [] it = false ->
    exists e, Proofs.FrontItems.parse_leaf uc tstr [] it = Err e.
Proof. exact Proofs.C07.incomplete_leaf_is_error_no_target. Qed.
Print Assumptions C07_incomplete_leaf_is_error_no_target.

(* diagnosed, not dropped (2): the ParsedData of a file records at least as many errors as the file
   has incomplete expected items (so the run ends with a diagnostic for that file, C03/C08_cli);
   hypothesis: the code's --target-os decision is the documented rule *)
Theorem C07_incomplete_file_is_diagnosed :
  forall (uc : unicode) (tstr : str -> option ty) (T : list str),
    (forall attrs, accepts T attrs = os_rule attrs T) ->
  forall f : file,
    exists r, parse_file uc tstr T f = Ok r /\
              (front_incomplete_leaves uc tstr T f <=
               match r with Some pd => List.length (p_errors pd) | None => 0 end)%nat.
Proof. exact Proofs.C07.incomplete_file_is_diagnosed. Qed.
Print Assumptions C07_incomplete_file_is_diagnosed.

(* the hypothesis is true for every attribute list whose cfg predicates parse (C13) ... *)
Theorem C07_target_os_hypothesis_when_cfg_parses :
  forall (T : list str) (attrs : list attr), cfg_parsable attrs = true -> accepts T attrs = os_rule attrs T.
Proof. exact Proofs.C07.acc_when_cfg_parsable. Qed.
Print Assumptions C07_target_os_hypothesis_when_cfg_parses.

(* ... and for all attribute lists without --target-os, so there the result is unconditional *)
Theorem C07_incomplete_file_is_diagnosed_no_target :
  forall (uc : unicode) (tstr : str -> option ty) (f : file),
    exists r, parse_file uc tstr [] f = Ok r /\
              (front_incomplete_leaves uc tstr [] f <=
               match r with Some pd => List.length (p_errors pd) | None => 0 end)%nat.
Proof. exact Proofs.C07.incomplete_file_is_diagnosed_no_target. Qed.
Print Assumptions C07_incomplete_file_is_diagnosed_no_target.

(* output or diagnostic: when the visitor finishes (it always does: C07_front_end_total_partial), every
   expected leaf has been either pushed as an item or recorded as an error (nothing is dropped silently) *)
Theorem C07_every_expected_item_accounted :
  forall (uc : unicode) (tstr : str -> option ty) (T : list str),
    (forall attrs, accepts T attrs = os_rule attrs T) ->
  forall (l : list item) (pd pd' : parsed),
    visit_items uc tstr T l pd = Ok pd' ->
    Proofs.FrontItems.count_items pd' =
    (Proofs.FrontItems.count_items pd + List.length (filter (expected_leaf T) (leaves_of l)))%nat.
Proof. exact Proofs.C07.all_results_accounted. Qed.
Print Assumptions C07_every_expected_item_accounted.

(* regression pins: the witnesses of the front-end panic sites fixed in /repo, and what they yield now
   (each [diagnosed]: the item is a leaf, is in the class leaf_complete = false, and parses to exactly
   this error) *)
(* #[typeshare] struct S();   was a panic at parser.rs:287 *)
Theorem C07_parser_287_fixed :
  Proofs.C07.diagnosed (IStruct [Proofs.C07.a_ts] (lit "S") [] (FUnnamed [])) (EUnsupportedTypeP (lit "S()")).
Proof. exact Proofs.C07.C07_parser_287_fixed. Qed.
Print Assumptions C07_parser_287_fixed.
(* #[typeshare] #[serde(tag = "t", content = "c")] enum E { V() }   was a panic at parser.rs:445 *)
Theorem C07_parser_445_fixed :
  Proofs.C07.diagnosed (IEnum [Proofs.C07.a_ts; Proofs.C07.a_tagc] (lit "E") []
                          [{| v_attrs := []; v_ident := lit "V"; v_fields := FUnnamed [] |}]) (EUnsupportedTypeP (lit "V()")).
Proof. exact Proofs.C07.C07_parser_445_fixed. Qed.
Print Assumptions C07_parser_445_fixed.
(* #[typeshare] struct S { #[typeshare(foo(bar))] a: u8 }   was a panic at parser.rs:737: the list is ignored -
   no decorator, and the struct parses exactly as without the attribute *)
Theorem C07_parser_737_fixed :
  get_field_decorators uc_exec [Proofs.C07.a_foo_bar] = Ok [] /\
  is_ok (Proofs.FrontItems.parse_leaf uc_exec Proofs.C07.no_tstr []
           (Proofs.C07.st1 [] (Proofs.C07.fld [Proofs.C07.a_foo_bar] (lit "a") Proofs.C07.t_u8))) = true /\
  Proofs.FrontItems.parse_leaf uc_exec Proofs.C07.no_tstr [] (Proofs.C07.st1 [] (Proofs.C07.fld [Proofs.C07.a_foo_bar] (lit "a") Proofs.C07.t_u8)) =
  Proofs.FrontItems.parse_leaf uc_exec Proofs.C07.no_tstr [] (Proofs.C07.st1 [] (Proofs.C07.fld [] (lit "a") Proofs.C07.t_u8)).
Proof. exact Proofs.C07.C07_parser_737_fixed. Qed.
Print Assumptions C07_parser_737_fixed.
(* #[typeshare] struct S { a: Vec }   was a panic at rust_types.rs:366 *)
Theorem C07_rust_types_366_fixed :
  Proofs.C07.diagnosed (Proofs.C07.st1 [] (Proofs.C07.fld [] (lit "a") (TPath [] (lit "Vec") []))) (EUnsupportedType [lit "Vec"]).
Proof. exact Proofs.C07.C07_rust_types_366_fixed. Qed.
Print Assumptions C07_rust_types_366_fixed.
(* a: Option   (rust_types.rs:369) *)
Theorem C07_rust_types_369_fixed :
  Proofs.C07.diagnosed (Proofs.C07.st1 [] (Proofs.C07.fld [] (lit "a") (TPath [] (lit "Option") []))) (EUnsupportedType [lit "Option"]).
Proof. exact Proofs.C07.C07_rust_types_369_fixed. Qed.
Print Assumptions C07_rust_types_369_fixed.
(* a: HashMap   (rust_types.rs:374) *)
Theorem C07_rust_types_374_fixed :
  Proofs.C07.diagnosed (Proofs.C07.st1 [] (Proofs.C07.fld [] (lit "a") (TPath [] (lit "HashMap") []))) (EUnsupportedType [lit "HashMap"]).
Proof. exact Proofs.C07.C07_rust_types_374_fixed. Qed.
Print Assumptions C07_rust_types_374_fixed.
(* a: HashMap<String>   (rust_types.rs:375) *)
Theorem C07_rust_types_375_fixed :
  Proofs.C07.diagnosed (Proofs.C07.st1 [] (Proofs.C07.fld [] (lit "a") (TPath [] (lit "HashMap") [Some (TPath [] (lit "String") [])])))
                       (EUnsupportedType [lit "HashMap"]).
Proof. exact Proofs.C07.C07_rust_types_375_fixed. Qed.
Print Assumptions C07_rust_types_375_fixed.
(* a: Cow<'static> - a lifetime argument is not a type argument   (rust_types.rs:383) *)
Theorem C07_rust_types_383_fixed :
  Proofs.C07.diagnosed (Proofs.C07.st1 [] (Proofs.C07.fld [] (lit "a") (TPath [] (lit "Cow") [None]))) (EUnsupportedType [lit "Cow"]).
Proof. exact Proofs.C07.C07_rust_types_383_fixed. Qed.
Print Assumptions C07_rust_types_383_fixed.
(* #[serde(rename_all = "camelCase")] struct S { __: u8 }   was a panic at rename.rs:22: the empty wire name *)
Theorem C07_rename_22_underscores_fixed :
  Proofs.C07.field_names_of (Proofs.FrontItems.parse_leaf uc_exec Proofs.C07.no_tstr []
     (Proofs.C07.st1 [Proofs.C07.a_camel] (Proofs.C07.fld [] (lit "__") Proofs.C07.t_u8))) = Some [[]].
Proof. exact Proofs.C07.C07_rename_22_underscores_fixed. Qed.
Print Assumptions C07_rename_22_underscores_fixed.
(* { étoile: u8 } -> étoile;  { Étoile_du_nord: u8 } -> ÉtoileDuNord (a non-ASCII first character is left alone) *)
Theorem C07_rename_22_nonascii_fixed :
  Proofs.C07.field_names_of (Proofs.FrontItems.parse_leaf uc_exec Proofs.C07.no_tstr []
     (Proofs.C07.st1 [Proofs.C07.a_camel] (Proofs.C07.fld [] (233%N :: lit "toile") Proofs.C07.t_u8))) = Some [233%N :: lit "toile"] /\
  Proofs.C07.field_names_of (Proofs.FrontItems.parse_leaf uc_exec Proofs.C07.no_tstr []
     (Proofs.C07.st1 [Proofs.C07.a_camel] (Proofs.C07.fld [] (201%N :: lit "toile_du_nord") Proofs.C07.t_u8))) = Some [201%N :: lit "toileDuNord"].
Proof. exact Proofs.C07.C07_rename_22_nonascii_fixed. Qed.
Print Assumptions C07_rename_22_nonascii_fixed.

(* ---------------------------------------------------------------- multi-file mode (visitors.rs ItemUseIter) *)

(* visit_item_use / parse_import: for EVERY use tree (any nesting of paths, groups, globs, renames) and every
   Unicode table the iterator returns a list of imports - no panic, and its fuel suffices *)
Theorem C07_use_import_total :
  forall (uc : unicode) (own : str) (t : use_tree), exists found, parse_import uc own t = Ok found.
Proof. exact Proofs.C07Back.parse_import_total. Qed.
Print Assumptions C07_use_import_total.

(* parser::parse with multi_file = true never panics and always returns: every file, crate name, ignore list,
   hash order of the import set, --target-os list *)
Theorem C07_multi_file_front_end_total_partial :
  forall (uc : unicode) (tstr : str -> option ty) (T : list str) (own : str) (ign : list str)
         (ho_file : list imported -> list imported) (f : file),
    exists r, parse_file_multi uc tstr T own ign ho_file f = Ok r.
Proof. exact Proofs.C07Back.parse_file_multi_total. Qed.
Print Assumptions C07_multi_file_front_end_total_partial.

(* the per-file parsers of a whole workspace (files that syn parses) all deliver: nothing is left for the
   collector to wait for *)
Theorem C07_workspace_parse_total :
  forall (uc : unicode) (T ign : list str) (ho_file : list imported -> list imported) (ws : list ws_entry),
    exists arrivals, parse_workspace uc T ign ho_file ws = Ok arrivals.
Proof. exact Proofs.C07Back.parse_workspace_total. Qed.
Print Assumptions C07_workspace_parse_total.

(* regression pins of visitors.rs:401 (was expect("base name not in use statement?") on the walker thread = hang):
   use foo;   use {a, b};   use *;   use {{Foo}, *, a as b};   import nothing *)
Theorem C07_visitors_401_fixed :
  parse_import uc_exec Proofs.C07Back.w_own (UName (lit "foo")) = Ok [] /\
  parse_import uc_exec Proofs.C07Back.w_own (UGroup [UName (lit "a"); UName (lit "b")]) = Ok [] /\
  parse_import uc_exec Proofs.C07Back.w_own UGlob = Ok [] /\
  parse_import uc_exec Proofs.C07Back.w_own (UGroup [UGroup [UName (lit "Foo")]; UGlob; URename (lit "a") (lit "b")]) = Ok [].
Proof. exact Proofs.C07Back.C07_visitors_401_fixed. Qed.
Print Assumptions C07_visitors_401_fixed.
(* use {a::B, c};  and  use other_crate::{Thing, sub::*};  still import what has a path *)
Theorem C07_visitors_401_fixed_keeps_paths :
  parse_import uc_exec Proofs.C07Back.w_own (UGroup [UPath (lit "a") (UName (lit "B")); UName (lit "c")]) = Ok [Proofs.C07Back.w_imp "a" "B"] /\
  parse_import uc_exec Proofs.C07Back.w_own (UPath (lit "other_crate") (UGroup [UName (lit "Thing"); UPath (lit "sub") UGlob])) =
    Ok [Proofs.C07Back.w_imp "other_crate" "*"; Proofs.C07Back.w_imp "other_crate" "Thing"].
Proof. exact Proofs.C07Back.C07_visitors_401_fixed_keeps_paths. Qed.
Print Assumptions C07_visitors_401_fixed_keeps_paths.
(* the witness file `use foo; #[typeshare] struct S { a: u8 }` of crate mycrate: one struct, no error, no import *)
Theorem C07_visitors_401_fixed_file :
  match parse_file_multi uc_exec Proofs.C07.no_tstr [] Proofs.C07Back.w_own [] (fun l => l) Proofs.C07Back.w_use_file with
  | Ok (Some pd) => List.length (p_structs pd) = 1%nat /\ p_errors pd = [] /\ p_imports pd = []
  | _ => False
  end.
Proof. exact Proofs.C07Back.C07_visitors_401_fixed_file. Qed.
Print Assumptions C07_visitors_401_fixed_file.

(* ---------------------------------------------------------------- back-end sites repaired in /repo *)

(* go.rs:315: whenever Go generates a tagged enum, the receiver name is the first character of the Rust name
   lower-cased with char::to_lowercase ("" for an empty name) - for every Unicode table, configuration and enum *)
Theorem C07_go_receiver_value :
  forall (uc : unicode) (cfg : go_config) (custom : list str) (tag content : str) (sh : eshared) (s : go_state) ds s',
    go_enum_decls_of uc cfg custom (EAlgebraic tag content sh) s = Ok (ds, s') ->
    exists anon t, ds = anon ++ [GOTagged t] /\
                   gt_short t = match original (eid sh) with [] => [] | c :: _ => u_lower uc c end.
Proof. exact Proofs.C07Back.go_short_value. Qed.
Print Assumptions C07_go_receiver_value.
(* regression pin: enum Étoile / İx / ǅx / 中 / Plain / (empty name) with tag and content, --lang go: the receivers
   are é, i + U+0307, ǆ, 中, p, "", and the file of Étoile is generated (was a byte-slice panic, exit 101) *)
Theorem C07_go_315_fixed :
  Proofs.C07Back.w_go_short (201%N :: lit "toile") = Some [233%N] /\
  Proofs.C07Back.w_go_short (304%N :: lit "x") = Some [105%N; 775%N] /\
  Proofs.C07Back.w_go_short (453%N :: lit "x") = Some [454%N] /\
  Proofs.C07Back.w_go_short [20013%N] = Some [20013%N] /\
  Proofs.C07Back.w_go_short (lit "Plain") = Some (lit "p") /\
  Proofs.C07Back.w_go_short [] = Some [] /\
  is_ok (go_generate uc_exec Proofs.C07Back.w_go_cfg (Proofs.C07Back.w_pd (Proofs.C07Back.w_tagged (201%N :: lit "toile")))) = true.
Proof. exact Proofs.C07Back.C07_go_315_fixed. Qed.
Print Assumptions C07_go_315_fixed.

(* kotlin.rs:183 / swift.rs:268: write_const is the error "constants are not supported ..: cannot generate `NAME`"
   for EVERY constant, configuration (and Swift state) - never a panic *)
Theorem C07_kotlin_const_is_error :
  forall (cfg : kt_config) (c : rconst), kt_decl_of cfg (ItConst c) = Err (EConstUnsupported (original (cid c))).
Proof. exact Proofs.C07Back.kt_const_is_error. Qed.
Print Assumptions C07_kotlin_const_is_error.
Theorem C07_swift_const_is_error :
  forall (uc : unicode) (cfg : sw_config) (c : rconst) (st : sw_state),
    sw_decl_of uc cfg (ItConst c) st = Err (EConstUnsupported (original (cid c))).
Proof. exact Proofs.C07Back.sw_const_is_error. Qed.
Print Assumptions C07_swift_const_is_error.
(* regression pins: #[typeshare] const X: u32 = 5;  --lang kotlin / swift (was todo!(), exit 101) *)
Theorem C07_kotlin_183_fixed :
  kt_generate uc_exec Proofs.C07Back.w_kt_cfg Proofs.C07Back.w_const_pd = Err (EConstUnsupported (lit "X")).
Proof. exact Proofs.C07Back.C07_kotlin_183_fixed. Qed.
Print Assumptions C07_kotlin_183_fixed.
Theorem C07_swift_268_fixed :
  sw_generate uc_exec Proofs.C07Back.w_sw_cfg Proofs.C07Back.w_const_pd = Err (EConstUnsupported (lit "X")).
Proof. exact Proofs.C07Back.C07_swift_268_fixed. Qed.
Print Assumptions C07_swift_268_fixed.

(* scala.rs:131: begin_file fails exactly for the empty package, with the configuration error ... *)
Theorem C07_scala_package_error_iff :
  forall cfg : sc_config,
    (sc_package cfg = [] -> sc_begin_file cfg = Err EPackageRequired) /\
    (sc_package cfg <> [] -> is_ok (sc_begin_file cfg) = true).
Proof. exact Proofs.C07Back.sc_begin_file_error_iff. Qed.
Print Assumptions C07_scala_package_error_iff.
(* ... which is the outcome of the whole generation, whatever the items *)
Theorem C07_scala_no_package_is_error :
  forall (uc : unicode) (cfg : sc_config) (pd : parsed), sc_package cfg = [] -> sc_generate uc cfg pd = Err EPackageRequired.
Proof. exact Proofs.C07Back.sc_no_package_is_error. Qed.
Print Assumptions C07_scala_no_package_is_error.
(* regression pin: #[typeshare] struct S { a: u8 }  --lang scala without / with --scala-package p (was panic!, exit 101) *)
Theorem C07_scala_131_fixed :
  sc_generate uc_exec (Proofs.C07Back.w_sc_cfg []) Proofs.C07Back.w_struct_pd = Err EPackageRequired /\
  is_ok (sc_generate uc_exec (Proofs.C07Back.w_sc_cfg (lit "p")) Proofs.C07Back.w_struct_pd) = true.
Proof. exact Proofs.C07Back.C07_scala_131_fixed. Qed.
Print Assumptions C07_scala_131_fixed.

(* non-vacuity: a file with a camelCase struct, nested containers, skipped and unannotated copies of
   the former panic triggers, three LIVE ones (empty tuple struct, Vec<Box>, HashMap<u8>), an enum inside
   a module with all three variant kinds and an ignored typeshare(foo(bar)) list, an alias and a negated
   const has 8 expected leaves, 3 of them incomplete, and parses to 8 accounted items of which exactly
   those 3 are recorded errors *)
Theorem C07_nonvacuous_witness :
  List.length (expected_leaves [] Proofs.C07.nonvacuous_file) = 8%nat /\
  front_incomplete_leaves uc_exec Proofs.C07.no_tstr [] Proofs.C07.nonvacuous_file = 3%nat /\
  match parse_file uc_exec Proofs.C07.no_tstr [] Proofs.C07.nonvacuous_file with
  | Ok (Some pd) => Proofs.FrontItems.count_items pd = 8%nat /\
                    p_errors pd = [EUnsupportedTypeP (lit "Empty()"); EUnsupportedType [lit "Box"]; EUnsupportedType [lit "HashMap"]]
  | _ => False
  end.
Proof. exact Proofs.C07.C07_nonvacuous. Qed.
Print Assumptions C07_nonvacuous_witness.

(* ---------------------------------------------------------------- the rest of the single-file pipeline:
   reconcile, topsort, the six back ends, and their composition.
   Vocabulary (Spec/C07BackSpec.v): [panics_only P o] - o is Ok, Err, or a Panic whose site satisfies P;
   [no_panic o] - o is Ok or Err; [pd_wf pd] - no type of pd contains a 64-bit integer primitive and every
   RustEnum::Unit of pd has unit variants only; [go_input_ascii mappings pd] - every string Go's writers hand to
   convert_acronyms_to_uppercase (names, printed field / variant types, type_mappings results, type overrides) is
   ASCII; [single_file_run gen uc tstr T cfg f] - parser::parse on f, nothing / the parse errors / reconcile then
   gen, as the driver command gen_src composes them. *)

(* the shape the three `unreachable!()` / panic! arms rely on is what parser::parse delivers, for every file *)
Theorem C07_front_end_delivers_shape :
  forall (uc : unicode) (tstr : str -> option ty) (T : list str) (f : file) (pd : parsed),
    parse_file uc tstr T f = Ok (Some pd) -> pd_wf pd = true.
Proof. exact Proofs.C07Front.parse_file_wf. Qed.
Print Assumptions C07_front_end_delivers_shape.

(* reconcile (Model/Reconcile.v) is a total function - it has no Err and no partial operation, so "never panics"
   holds by construction; what the later stages need from it is stated: it keeps the shape (per crate, for the
   driver's single-crate call, for the single-file input of any number of files) and neither drops nor adds a crate *)
Theorem C07_reconcile_never_panics :
  (forall (rn : renames) (cn : str) (pd : parsed), pd_wf pd = true -> pd_wf (reconcile_crate rn cn pd) = true) /\
  (forall pd : parsed, pd_wf pd = true -> pd_wf (reconcile_single pd) = true) /\
  (forall arrivals : list parsed, List.Forall (fun pd => pd_wf pd = true) arrivals -> pd_wf (single_file_input arrivals) = true) /\
  (forall cs : crates, List.map fst (reconcile_aliases cs) = List.map fst cs).
Proof. exact Proofs.C07Pipeline.reconcile_keeps_wf. Qed.
Print Assumptions C07_reconcile_never_panics.

(* topsort.rs:198 topsort, on EVERY item list (duplicate names, cycles, self references, aliases whose generic
   parameters are named like items): it returns a permutation of its input.  So none of topsort.rs:154, :175,
   :222, :232, :235, :237, :240 is reachable and the dependency walk stays within the model's fuel. *)
Theorem C07_topsort_never_panics :
  forall things : list ritem, exists out, topsort things = Ok out /\ Coq.Sorting.Permutation.Permutation out things.
Proof. exact Proofs.C07Topsort.topsort_total. Qed.
Print Assumptions C07_topsort_never_panics.

(* the form asked for: if it panicked at all it could only be the fuel (it does not: previous theorem) *)
Theorem C07_topsort_panics_only_on_fuel :
  forall things : list ritem, panics_only fuel_site (topsort things).
Proof. exact Proofs.C07Topsort.topsort_panics_only_on_fuel. Qed.
Print Assumptions C07_topsort_panics_only_on_fuel.

(* get_dependencies completes for every item of every list within deps_fuel = 4 * |things| + 16 levels *)
Theorem C07_dependency_collection_completes :
  forall things : list ritem, deps_complete things = true.
Proof. exact Proofs.C07Topsort.deps_complete_always. Qed.
Print Assumptions C07_dependency_collection_completes.

(* TypeScript, every Unicode table, configuration and parsed data: a panic can only be typescript.rs:137 or :276,
   and only if the parsed data is not of the front end's shape *)
Theorem C07_ts_generate_panics_only :
  forall (uc : unicode) (cfg : ts_config) (pd : parsed),
    panics_only (fun s => pd_wf pd = false /\ (s = "typescript.rs:137"%string \/ s = "typescript.rs:276"%string))
                (ts_generate uc cfg pd).
Proof. exact Proofs.C07TypeScript.ts_generate_panics_only. Qed.
Print Assumptions C07_ts_generate_panics_only.

Theorem C07_ts_generate_never_panics :
  forall (uc : unicode) (cfg : ts_config) (pd : parsed), pd_wf pd = true -> no_panic (ts_generate uc cfg pd).
Proof. exact Proofs.C07TypeScript.ts_generate_never_panics. Qed.
Print Assumptions C07_ts_generate_never_panics.

(* Kotlin, Scala, Swift: no panic at all, for every parsed data (scala.rs:161, the todo!() of write_const, is
   unreachable: Scala's generate_types writes aliases, structs and enums only) *)
Theorem C07_kt_generate_panics_only :
  forall (uc : unicode) (cfg : kt_config) (pd : parsed), no_panic (kt_generate uc cfg pd).
Proof. exact Proofs.C07Kotlin.kt_generate_never_panics. Qed.
Print Assumptions C07_kt_generate_panics_only.

Theorem C07_sc_generate_panics_only :
  forall (uc : unicode) (cfg : sc_config) (pd : parsed), no_panic (sc_generate uc cfg pd).
Proof. exact Proofs.C07Scala.sc_generate_never_panics. Qed.
Print Assumptions C07_sc_generate_panics_only.

Theorem C07_sw_generate_panics_only :
  forall (uc : unicode) (cfg : sw_config) (pd : parsed), no_panic (sw_generate uc cfg pd).
Proof. exact Proofs.C07Swift.sw_generate_never_panics. Qed.
Print Assumptions C07_sw_generate_panics_only.

(* Python: only python.rs:368, only outside the front end's shape *)
Theorem C07_py_generate_panics_only :
  forall (uc : unicode) (cfg : py_config) (pd : parsed),
    panics_only (fun s => pd_wf pd = false /\ s = "python.rs:368"%string) (py_generate uc cfg pd).
Proof. exact Proofs.C07Python.py_generate_panics_only. Qed.
Print Assumptions C07_py_generate_panics_only.

Theorem C07_py_generate_never_panics :
  forall (uc : unicode) (cfg : py_config) (pd : parsed), pd_wf pd = true -> no_panic (py_generate uc cfg pd).
Proof. exact Proofs.C07Python.py_generate_never_panics. Qed.
Print Assumptions C07_py_generate_never_panics.

(* Go.  convert_acronyms_to_uppercase (go.rs:579) on an ASCII name returns, and returns an ASCII string, for EVERY
   acronym list - ASCII or not, empty patterns included (Unicode tables that agree with ASCII below 128) *)
Theorem C07_go_convert_total_on_ascii :
  forall uc : unicode, unicode_ok uc -> forall (acrs : list str) (name : str), str_ascii name = true ->
    exists r, go_convert_acronyms_to_uppercase uc acrs name = Ok r /\ str_ascii r = true.
Proof. exact Proofs.C07GoAscii.conv_ascii_b. Qed.
Print Assumptions C07_go_convert_total_on_ascii.

(* every configuration and parsed data: go.rs:594 needs a non-empty acronym list AND a non-ASCII string among those
   converted; go.rs:301 needs parsed data outside the front end's shape; there is no other site *)
Theorem C07_go_generate_panics_only :
  forall (uc : unicode) (cfg : go_config) (pd : parsed), unicode_ok uc ->
    panics_only (fun s => (s = "go.rs:594"%string /\ go_uppercase_acronyms cfg <> nil /\
                           go_input_ascii (go_type_mappings cfg) pd = false) \/
                          (s = "go.rs:301"%string /\ pd_wf pd = false))
                (go_generate uc cfg pd).
Proof. exact Proofs.C07GoAscii.go_generate_panics_only_sharp. Qed.
Print Assumptions C07_go_generate_panics_only.

(* the same without any assumption on the Unicode tables (then only the acronym half of the condition) *)
Theorem C07_go_generate_panics_only_any_tables :
  forall (uc : unicode) (cfg : go_config) (pd : parsed),
    panics_only (fun s => (s = "go.rs:594"%string /\ go_uppercase_acronyms cfg <> nil) \/
                          (s = "go.rs:301"%string /\ pd_wf pd = false))
                (go_generate uc cfg pd).
Proof. exact Proofs.C07Go.go_generate_panics_only. Qed.
Print Assumptions C07_go_generate_panics_only_any_tables.

Theorem C07_go_generate_never_panics_ascii :
  forall (uc : unicode) (cfg : go_config) (pd : parsed), unicode_ok uc ->
    go_input_ascii (go_type_mappings cfg) pd = true -> pd_wf pd = true -> no_panic (go_generate uc cfg pd).
Proof. exact Proofs.C07GoAscii.go_generate_never_panics_ascii. Qed.
Print Assumptions C07_go_generate_never_panics_ascii.

(* COMPOSED (partial: the single-file pipeline of the model - not the CLI, not multi-file output; and Go keeps its
   recorded class): for every Unicode table, serialized_as re-parser, --target-os list, configuration and file,
   parser::parse then reconcile then generate_types is Ok or Err in TypeScript, Kotlin, Scala, Swift and Python; in
   Go a panic can only be go.rs:594, and only with a non-empty acronym list and a non-ASCII string among those Go
   converts in that run *)
Theorem C07_single_file_pipeline_never_panics_partial :
  forall (uc : unicode) (tstr : str -> option ty) (T : list str) (f : file),
    (forall c, no_panic (single_file_run (ts_generate uc) uc tstr T c f)) /\
    (forall c, no_panic (single_file_run (kt_generate uc) uc tstr T c f)) /\
    (forall c, no_panic (single_file_run (sc_generate uc) uc tstr T c f)) /\
    (forall c, no_panic (single_file_run (sw_generate uc) uc tstr T c f)) /\
    (forall c, no_panic (single_file_run (py_generate uc) uc tstr T c f)) /\
    (forall c, unicode_ok uc ->
       panics_only (fun s => s = "go.rs:594"%string /\ go_uppercase_acronyms c <> nil /\
                             go_run_ascii uc tstr T (go_type_mappings c) f = false)
                   (single_file_run (go_generate uc) uc tstr T c f)).
Proof. exact Proofs.C07Pipeline.single_file_pipeline. Qed.
Print Assumptions C07_single_file_pipeline_never_panics_partial.

(* Go's two ways out of the class: no acronyms, or ASCII input *)
Theorem C07_go_pipeline_never_panics :
  forall (uc : unicode) (tstr : str -> option ty) (T : list str) (c : go_config) (f : file), unicode_ok uc ->
    go_uppercase_acronyms c = nil \/ go_run_ascii uc tstr T (go_type_mappings c) f = true ->
    no_panic (single_file_run (go_generate uc) uc tstr T c f).
Proof. exact Proofs.C07Pipeline.go_pipeline_never_panics. Qed.
Print Assumptions C07_go_pipeline_never_panics.

(* non-vacuity: a file with a struct (Vec<Option<String>>, HashMap<String, Other<u8>>), a tagged enum with the three
   variant kinds inside a module, a unit enum and a generic alias parses to 4 items of the front end's shape and is
   GENERATED by the composed run in all six languages - in Go with the acronym list ["id"; "aé"] (ASCII input) *)
Theorem C07_single_file_pipeline_nonvacuous :
  Proofs.C07Pipeline.is_generated (single_file_run (ts_generate uc_exec) uc_exec Proofs.C07.no_tstr nil Proofs.C07Pipeline.w_ts_cfg Proofs.C07Pipeline.w_file) = true /\
  Proofs.C07Pipeline.is_generated (single_file_run (kt_generate uc_exec) uc_exec Proofs.C07.no_tstr nil Proofs.C07Back.w_kt_cfg Proofs.C07Pipeline.w_file) = true /\
  Proofs.C07Pipeline.is_generated (single_file_run (sc_generate uc_exec) uc_exec Proofs.C07.no_tstr nil (Proofs.C07Back.w_sc_cfg (lit "p")) Proofs.C07Pipeline.w_file) = true /\
  Proofs.C07Pipeline.is_generated (single_file_run (sw_generate uc_exec) uc_exec Proofs.C07.no_tstr nil Proofs.C07Back.w_sw_cfg Proofs.C07Pipeline.w_file) = true /\
  Proofs.C07Pipeline.is_generated (single_file_run (py_generate uc_exec) uc_exec Proofs.C07.no_tstr nil Proofs.C07Pipeline.w_py_cfg Proofs.C07Pipeline.w_file) = true /\
  Proofs.C07Pipeline.is_generated (single_file_run (go_generate uc_exec) uc_exec Proofs.C07.no_tstr nil
                                     (Proofs.C07Pipeline.w_go_acr (cons (lit "id") (cons (lit "a" ++ cons 233%N nil) nil))) Proofs.C07Pipeline.w_file) = true /\
  go_run_ascii uc_exec Proofs.C07.no_tstr nil nil Proofs.C07Pipeline.w_file = true /\
  match parse_file uc_exec Proofs.C07.no_tstr nil Proofs.C07Pipeline.w_file with
  | Ok (Some pd) => List.length (items_of (reconcile_single pd)) = 4%nat /\ pd_wf pd = true
  | _ => False
  end.
Proof. exact Proofs.C07Pipeline.single_file_pipeline_nonvacuous. Qed.
Print Assumptions C07_single_file_pipeline_nonvacuous.

(* the class is inhabited (recorded finding C07-go.rs:594):  #[typeshare] struct AéX { a: u8 }  --lang go with
   uppercase_acronyms = ["aé"] panics at go.rs:594 (its input is not ASCII); without the acronym it is generated *)
Theorem C07_go_594_refuted :
  single_file_run (go_generate uc_exec) uc_exec Proofs.C07.no_tstr nil
                  (Proofs.C07Pipeline.w_go_acr (cons (lit "a" ++ cons 233%N nil) nil)) Proofs.C07Pipeline.w_594_file = Panic "go.rs:594" /\
  go_run_ascii uc_exec Proofs.C07.no_tstr nil nil Proofs.C07Pipeline.w_594_file = false /\
  Proofs.C07Pipeline.is_generated (single_file_run (go_generate uc_exec) uc_exec Proofs.C07.no_tstr nil
                                     (Proofs.C07Pipeline.w_go_acr nil) Proofs.C07Pipeline.w_594_file) = true.
Proof. exact Proofs.C07Pipeline.go_594_reached. Qed.
Print Assumptions C07_go_594_refuted.

(* the items of the former finding C07-topsort-recursion ( type A<B> = Vec<B>;  type B<A> = Vec<A>;  and a struct
   using both) are sorted: both aliases before the struct *)
Theorem C07_topsort_nonvacuous :
  match topsort Proofs.C07Topsort.w_shadow_items with
  | Ok out => List.map Proofs.C07Topsort.iname out = cons (lit "B") (cons (lit "A") (cons (lit "S") nil)) \/
              List.map Proofs.C07Topsort.iname out = cons (lit "A") (cons (lit "B") (cons (lit "S") nil))
  | _ => False
  end.
Proof. exact Proofs.C07Topsort.topsort_total_nonvacuous. Qed.
Print Assumptions C07_topsort_nonvacuous.
