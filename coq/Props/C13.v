(* C13 property theorems: statements only; proofs live in Proofs/C13.v. *)
From Coq Require Import Permutation.
From TS Require Import Model.Str Model.Syntax Model.Attrs Model.TargetOs Spec.TargetOsRule.
From TS Require Proofs.C13.

(* For every attribute list whose cfg predicates parse as meta lists - any nesting depth, any
   arity, any mix of any/all/not, target_os = "..", other key/value pairs, bare words, several cfg
   attributes - and every target list: the code's decision is the documented rule. *)
Theorem C13_accept_is_documented_rule :
  forall (attrs : list attr) (T : list str),
    cfg_parsable attrs = true -> accept_target_os attrs T = Some (os_rule attrs T).
Proof. exact Proofs.C13.accept_is_rule. Qed.
Print Assumptions C13_accept_is_documented_rule.

(* The stack walk yields exactly the OS names of the structural specification, as a multiset. *)
Theorem C13_iterator_yields_spec_names :
  forall (m : meta), meta_parsable m = true ->
    exists r, target_os_iter m = Some r /\ Permutation r (os_names false m).
Proof. exact Proofs.C13.iter_spec. Qed.
Print Assumptions C13_iterator_yields_spec_names.

Theorem C13_no_target_list_filters_nothing :
  forall (attrs : list attr), accept_target_os attrs [] = Some true.
Proof. exact Proofs.C13.no_target_list. Qed.
Print Assumptions C13_no_target_list_filters_nothing.

Theorem C13_items_naming_no_os_are_kept :
  forall (attrs : list attr) (T : list str),
    cfg_parsable attrs = true -> attrs_os_names attrs = [] -> accept_target_os attrs T = Some true.
Proof. exact Proofs.C13.no_os_named. Qed.
Print Assumptions C13_items_naming_no_os_are_kept.

(* The iterator loop terminates (fuel = size of the predicate suffices), parsable or not. *)
Theorem C13_decision_total :
  forall (attrs : list attr) (T : list str), exists b, accept_target_os attrs T = Some b.
Proof. exact Proofs.C13.accept_total. Qed.
Print Assumptions C13_decision_total.
