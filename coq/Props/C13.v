(* C13 property theorems: statements only; proofs live in Proofs/C13.v. *)
From Coq Require Import Permutation.
From TS Require Import Model.Str Model.Syntax Model.Attrs Model.TargetOs Spec.TargetOsRule.
From TS Require Proofs.C13 Proofs.C13Levels Proofs.FrontItems.
From TS Require Import Model.Outcome Model.Unicode Model.Types Model.Parse Spec.Serde Spec.C03Spec.

(* For every attribute list whose cfg predicates parse as meta lists - any nesting depth, any
   arity, any mix of any/all/not, target_os = "..", other key/value pairs, bare words, several cfg
   attributes - and every target list: the code's decision is the documented rule. *)
Theorem C13_accept_is_documented_rule :
  forall (attrs : list attr) (T : list str),
    cfg_parsable attrs = true -> accept_target_os attrs T = Some (os_rule attrs T).
Proof. exact Proofs.C13.accept_is_rule. Qed.
Print Assumptions C13_accept_is_documented_rule.

(* The stack walk yields exactly the OS names of the structural specification, as a multiset. *)
Theorem C13_iterator_yields_spec_names :
  forall (m : meta), meta_parsable m = true ->
    exists r, target_os_iter m = Some r /\ Permutation r (os_names false m).
Proof. exact Proofs.C13.iter_spec. Qed.
Print Assumptions C13_iterator_yields_spec_names.

Theorem C13_no_target_list_filters_nothing :
  forall (attrs : list attr), accept_target_os attrs [] = Some true.
Proof. exact Proofs.C13.no_target_list. Qed.
Print Assumptions C13_no_target_list_filters_nothing.

Theorem C13_items_naming_no_os_are_kept :
  forall (attrs : list attr) (T : list str),
    cfg_parsable attrs = true -> attrs_os_names attrs = [] -> accept_target_os attrs T = Some true.
Proof. exact Proofs.C13.no_os_named. Qed.
Print Assumptions C13_items_naming_no_os_are_kept.

(* The iterator loop terminates (fuel = size of the predicate suffices), parsable or not. *)
Theorem C13_decision_total :
  forall (attrs : list attr) (T : list str), exists b, accept_target_os attrs T = Some b.
Proof. exact Proofs.C13.accept_total. Qed.
Print Assumptions C13_decision_total.

(* ------------------------------------------------------------------------------------------------
   "... at every level".  The decision above is what the front end consults at each of the five places
   (Proofs/C13Levels.v).  cfg_parsable: every cfg attribute of the element parses as a meta list (the
   hypothesis of C13_accept_is_documented_rule); skip_marked: serde(skip) / typeshare(skip), which is C03's subject. *)

(* FIELD level: for every struct with named fields, the fields of the parsed struct are exactly the source fields
   that carry no skip marker and that the documented rule keeps - same order, none dropped, none invented *)
Theorem C13_field_level :
  forall (uc : unicode) (tstr : str -> option ty) (T : list str) attrs ident gens l s,
  (forall f, In f l -> cfg_parsable (f_attrs f) = true) ->
  parse_struct uc tstr T attrs ident gens (FNamed l) = Ok (ItStruct s) ->
  map (fun rf => original (fid rf)) (sfields s) =
  map Proofs.FrontItems.field_name (filter (fun f => negb (skip_marked (f_attrs f)) && os_rule (f_attrs f) T) l).
Proof. exact Proofs.C13Levels.field_level. Qed.
Print Assumptions C13_field_level.

(* VARIANT level *)
Theorem C13_variant_level :
  forall (uc : unicode) (tstr : str -> option ty) (T : list str) attrs ident gens vs e,
  (forall v, In v vs -> cfg_parsable (v_attrs v) = true) ->
  parse_enum uc tstr T attrs ident gens vs = Ok (ItEnum e) ->
  map (fun rv => original (vid (variant_shared rv))) (evariants (enum_shared e)) =
  map (fun v => replace_sub (lit "r#") [] (v_ident v))
      (filter (fun v => negb (skip_marked (v_attrs v)) && os_rule (v_attrs v) T) vs).
Proof. exact Proofs.C13Levels.variant_level. Qed.
Print Assumptions C13_variant_level.

(* STRUCT-VARIANT FIELD level *)
Theorem C13_variant_field_level :
  forall (uc : unicode) (tstr : str -> option ty) (T : list str) ra attrs ident l rv,
  (forall f, In f l -> cfg_parsable (f_attrs f) = true) ->
  parse_enum_variant uc tstr T ra {| v_attrs := attrs; v_ident := ident; v_fields := FNamed l |} = Ok rv ->
  exists fs sh, rv = VAnon fs sh /\
    map (fun rf => original (fid rf)) fs =
    map Proofs.FrontItems.field_name (filter (fun f => negb (skip_marked (f_attrs f)) && os_rule (f_attrs f) T) l).
Proof. exact Proofs.C13Levels.variant_field_level. Qed.
Print Assumptions C13_variant_field_level.

(* TYPE level: the visitor looks at an item iff it is annotated and the rule keeps it *)
Theorem C13_item_level :
  forall (T : list str) attrs, cfg_parsable attrs = true -> wanted T attrs = annotated attrs && os_rule attrs T.
Proof. exact Proofs.C13Levels.item_level. Qed.
Print Assumptions C13_item_level.

(* FILE level: a file whose inner attributes the rule rejects contributes nothing *)
Theorem C13_file_level :
  forall (uc : unicode) (tstr : str -> option ty) (T : list str) f,
  cfg_parsable (fl_attrs f) = true -> os_rule (fl_attrs f) T = false -> parse_file uc tstr T f = Ok None.
Proof. exact Proofs.C13Levels.file_level. Qed.
Print Assumptions C13_file_level.
