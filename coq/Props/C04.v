(* C04 property theorems: statements only; proofs live in Proofs/{FrontTypes,FrontAttrs,C04,C04_Back,C04_Matrix}.v *)
From Coq Require Import String List Bool Arith.
From TS Require Import Model.Str Model.Outcome Model.Unicode Model.Syntax Model.Attrs Model.Types Model.Parse Model.Lang.Common Model.Lang.Decl.
From TS Require Import Model.Lang.TypeScript Model.Lang.Kotlin Model.Lang.Swift Model.Lang.Scala Model.Lang.Go Model.Lang.Python.
From TS Require Import Spec.Serde Spec.C04Spec Spec.C04Readers.
From TS Require Proofs.FrontTypes Proofs.FrontAttrs Proofs.C04 Proofs.C04_Back.
Import ListNotations.
Local Open Scope nat_scope.

(* ------------------------------------------------------------------ front end *)

(* has_default: typeshare's serde_default is exactly "some #[serde(..)] attribute of the field contains
   the bare word `default`" (alone or merged with other arguments; `default = "path"` is a name-value
   argument, not a bare word, and does not count) - any number / order / mix of attributes *)
Theorem C04_front_default :
  forall attrs : list attr, serde_default attrs = bare_default attrs.
Proof. exact Proofs.FrontAttrs.serde_default_spec. Qed.
Print Assumptions C04_front_default.

(* the Option layers of the parsed type are the Option layers of the declared type, references and
   serde-transparent wrappers being invisible at EVERY layer (structural induction, no depth bound) *)
Theorem C04_front_depth :
  forall (t : ty) (r : rtype), parse_ty t = Ok r -> Proofs.C04.rtype_opt_depth r = c04_opt_depth t.
Proof. exact Proofs.C04.depth_parse. Qed.
Print Assumptions C04_front_depth.

(* ... in particular is_optional (the flag the back ends read) says "Option<_> under the wrappers" *)
Theorem C04_front_optional :
  forall (t : ty) (r : rtype), parse_ty t = Ok r -> is_optional r = is_option_type t.
Proof. exact Proofs.FrontTypes.optional_iff_option_type. Qed.
Print Assumptions C04_front_optional.

(* any stack of `&` and Box/Arc/Rc/Cow/Cell/RefCell/Mutex/RwLock/Weak (any path qualification, any
   number of leading lifetime arguments) leaves the number of Option layers unchanged: induction on
   the wrapper stack *)
Theorem C04_front_wrapper_stack :
  forall (stack : list c04_wrap) (t : ty),
    forallb c04_wrap_ok stack = true -> c04_opt_depth (c04_wrap_ty stack t) = c04_opt_depth t.
Proof. exact Proofs.C04.depth_wrap_stack. Qed.
Print Assumptions C04_front_wrapper_stack.

Theorem C04_front_wrapper_names :
  forallb (fun n => mem_str n TRANSPARENT)
          [lit "Box"; lit "Arc"; lit "Rc"; lit "Cow"; lit "Cell"; lit "RefCell"; lit "Mutex"; lit "RwLock"; lit "Weak"] = true.
Proof. exact Proofs.C04.wrapper_names_ok. Qed.
Print Assumptions C04_front_wrapper_names.

(* Option<Option<T>> with wrapper stacks around, between and inside the two layers has depth 2 + depth T *)
Theorem C04_front_layers :
  forall s0 s1 s2 q1 q2 t,
    forallb c04_wrap_ok s0 = true -> forallb c04_wrap_ok s1 = true -> forallb c04_wrap_ok s2 = true ->
    c04_opt_depth (c04_wrap_ty s2 (c04_option_of q2 (c04_wrap_ty s1 (c04_option_of q1 (c04_wrap_ty s0 t))))) = 2 + c04_opt_depth t.
Proof. exact Proofs.C04.depth_layers. Qed.
Print Assumptions C04_front_layers.

(* a named field of a struct or struct variant (no serialized_as override): the IR field's Option depth
   and has_default are the source's *)
Theorem C04_front_field :
  forall (uc : unicode) (tstr : str -> option ty) check_flatten rename_all (f : field) (rf : rfield),
    get_field_type_override uc (f_attrs f) = None ->
    parse_field uc tstr check_flatten rename_all f = Ok rf ->
    Proofs.C04.rtype_opt_depth (fty rf) = c04_opt_depth (f_ty f) /\ has_default rf = bare_default (f_attrs f).
Proof. exact Proofs.C04.front_field. Qed.
Print Assumptions C04_front_field.

(* the two Boolean flags every back end consults, in terms of the source *)
Theorem C04_front_field_flags :
  forall (uc : unicode) (tstr : str -> option ty) check_flatten rename_all (f : field) (rf : rfield),
    get_field_type_override uc (f_attrs f) = None ->
    parse_field uc tstr check_flatten rename_all f = Ok rf ->
    (is_optional (fty rf) || has_default rf) = c04_src_optional (f_attrs f) (f_ty f) /\
    is_double_optional (fty rf) = (2 <=? c04_opt_depth (f_ty f)).
Proof. exact Proofs.C04.front_field_flags. Qed.
Print Assumptions C04_front_field_flags.

(* newtype payload and alias target *)
Theorem C04_front_payload :
  forall (uc : unicode) (tstr : str -> option ty) T enum_rename_all v rv t sh,
    parse_enum_variant uc tstr T enum_rename_all v = Ok rv -> rv = VTuple t sh ->
    forall f, v_fields v = FUnnamed [f] -> get_field_type_override uc (f_attrs f) = None ->
    Proofs.C04.rtype_opt_depth t = c04_opt_depth (f_ty f).
Proof. exact Proofs.C04.front_payload. Qed.
Print Assumptions C04_front_payload.

Theorem C04_front_alias :
  forall (uc : unicode) (tstr : str -> option ty) attrs ident gens t a,
    get_serialized_as_type uc attrs = None ->
    parse_type_alias uc tstr attrs ident gens t = Ok (ItAlias a) ->
    Proofs.C04.rtype_opt_depth (atype a) = c04_opt_depth t.
Proof. exact Proofs.C04.front_alias. Qed.
Print Assumptions C04_front_alias.

(* ------------------------------------------------------------------ back ends *)
(* Shape of every back-end theorem: for EVERY IR field / payload / alias target (any type tree, any
   configuration), if the decision layer produces a declaration, then the translator also succeeds on
   the type with one Option layer removed, and the row the reader sees in the declaration satisfies
   good_C04 against (Option depth of the IR type, has_default, the text of THAT translation). *)

(* Kotlin: `val x: T? = null` iff Option or default; the type before the marker is the translation of T *)
Theorem C04_back_kotlin_field :
  forall (cfg : kt_config) (f : rfield) g rsn vis m decl pos,
    c04_fieldlike pos = true -> type_override f Kotlin = None ->
    kt_member_of cfg f g rsn vis = Ok m ->
    exists y, kt_texp cfg g (Proofs.C04.c04_strip (fty f)) = Ok y /\
      good_C04 Kotlin (Proofs.C04_Back.c04_expect_of pos (fty f) (has_default f) (kt_show y))
               (c04r_seen (kt_c04_member decl pos m)) = true.
Proof. exact Proofs.C04_Back.kt_field_good. Qed.
Print Assumptions C04_back_kotlin_field.
