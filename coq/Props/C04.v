(* C04 property theorems: statements only; proofs live in Proofs/{FrontTypes,FrontAttrs,C04,C04_Back,C04_Matrix}.v *)
From Coq Require Import String List Bool Arith.
From TS Require Import Model.Str Model.Outcome Model.Unicode Model.Syntax Model.Attrs Model.Types Model.Parse Model.Lang.Common Model.Lang.Decl.
From TS Require Import Model.Lang.TypeScript Model.Lang.Kotlin Model.Lang.Swift Model.Lang.Scala Model.Lang.Go Model.Lang.Python.
From TS Require Import Spec.Serde Spec.C04Spec Spec.C04Readers.
From TS Require Proofs.FrontTypes Proofs.FrontAttrs Proofs.C04 Proofs.C04_Back Proofs.C04_Matrix Proofs.GoAcronyms.
From TS Require Import Spec.C04PyHelpers.
From TS Require Proofs.C04_PyHelpers Proofs.C10.
Import ListNotations.
Local Open Scope nat_scope.
From TS Require Proofs.C12Multi Proofs.C12MultiTS Proofs.C12MultiSwift Proofs.C12MultiGo Proofs.MultiSameSites.

(* ------------------------------------------------------------------ front end *)

(* has_default: typeshare's serde_default is exactly "some #[serde(..)] attribute of the field contains
   the bare word `default`" (alone or merged with other arguments; `default = "path"` is a name-value
   argument, not a bare word, and does not count) - any number / order / mix of attributes *)
Theorem C04_front_default :
  forall attrs : list attr, serde_default attrs = bare_default attrs.
Proof. exact Proofs.FrontAttrs.serde_default_spec. Qed.
Print Assumptions C04_front_default.

(* the Option layers of the parsed type are the Option layers of the declared type, references and
   serde-transparent wrappers being invisible at EVERY layer (structural induction, no depth bound) *)
Theorem C04_front_depth :
  forall (t : ty) (r : rtype), parse_ty t = Ok r -> Proofs.C04.rtype_opt_depth r = c04_opt_depth t.
Proof. exact Proofs.C04.depth_parse. Qed.
Print Assumptions C04_front_depth.

(* ... in particular is_optional (the flag the back ends read) says "Option<_> under the wrappers" *)
Theorem C04_front_optional :
  forall (t : ty) (r : rtype), parse_ty t = Ok r -> is_optional r = is_option_type t.
Proof. exact Proofs.FrontTypes.optional_iff_option_type. Qed.
Print Assumptions C04_front_optional.

(* any stack of `&` and Box/Arc/Rc/Cow/Cell/RefCell/Mutex/RwLock/Weak (any path qualification, any
   number of leading lifetime arguments) leaves the number of Option layers unchanged: induction on
   the wrapper stack *)
Theorem C04_front_wrapper_stack :
  forall (stack : list c04_wrap) (t : ty),
    forallb c04_wrap_ok stack = true -> c04_opt_depth (c04_wrap_ty stack t) = c04_opt_depth t.
Proof. exact Proofs.C04.depth_wrap_stack. Qed.
Print Assumptions C04_front_wrapper_stack.

Theorem C04_front_wrapper_names :
  forallb (fun n => mem_str n TRANSPARENT)
          [lit "Box"; lit "Arc"; lit "Rc"; lit "Cow"; lit "Cell"; lit "RefCell"; lit "Mutex"; lit "RwLock"; lit "Weak"] = true.
Proof. exact Proofs.C04.wrapper_names_ok. Qed.
Print Assumptions C04_front_wrapper_names.

(* Option<Option<T>> with wrapper stacks around, between and inside the two layers has depth 2 + depth T *)
Theorem C04_front_layers :
  forall s0 s1 s2 q1 q2 t,
    forallb c04_wrap_ok s0 = true -> forallb c04_wrap_ok s1 = true -> forallb c04_wrap_ok s2 = true ->
    c04_opt_depth (c04_wrap_ty s2 (c04_option_of q2 (c04_wrap_ty s1 (c04_option_of q1 (c04_wrap_ty s0 t))))) = 2 + c04_opt_depth t.
Proof. exact Proofs.C04.depth_layers. Qed.
Print Assumptions C04_front_layers.

(* a named field of a struct or struct variant (no serialized_as override): the IR field's Option depth
   and has_default are the source's *)
Theorem C04_front_field :
  forall (uc : unicode) (tstr : str -> option ty) check_flatten rename_all (f : field) (rf : rfield),
    get_field_type_override uc (f_attrs f) = None ->
    parse_field uc tstr check_flatten rename_all f = Ok rf ->
    Proofs.C04.rtype_opt_depth (fty rf) = c04_opt_depth (f_ty f) /\ has_default rf = bare_default (f_attrs f).
Proof. exact Proofs.C04.front_field. Qed.
Print Assumptions C04_front_field.

(* the two Boolean flags every back end consults, in terms of the source *)
Theorem C04_front_field_flags :
  forall (uc : unicode) (tstr : str -> option ty) check_flatten rename_all (f : field) (rf : rfield),
    get_field_type_override uc (f_attrs f) = None ->
    parse_field uc tstr check_flatten rename_all f = Ok rf ->
    (is_optional (fty rf) || has_default rf) = c04_src_optional (f_attrs f) (f_ty f) /\
    is_double_optional (fty rf) = (2 <=? c04_opt_depth (f_ty f)).
Proof. exact Proofs.C04.front_field_flags. Qed.
Print Assumptions C04_front_field_flags.

(* newtype payload and alias target *)
Theorem C04_front_payload :
  forall (uc : unicode) (tstr : str -> option ty) T enum_rename_all v rv t sh,
    parse_enum_variant uc tstr T enum_rename_all v = Ok rv -> rv = VTuple t sh ->
    forall f, v_fields v = FUnnamed [f] -> get_field_type_override uc (f_attrs f) = None ->
    Proofs.C04.rtype_opt_depth t = c04_opt_depth (f_ty f).
Proof. exact Proofs.C04.front_payload. Qed.
Print Assumptions C04_front_payload.

Theorem C04_front_alias :
  forall (uc : unicode) (tstr : str -> option ty) attrs ident gens t a,
    get_serialized_as_type uc attrs = None ->
    parse_type_alias uc tstr attrs ident gens t = Ok (ItAlias a) ->
    Proofs.C04.rtype_opt_depth (atype a) = c04_opt_depth t.
Proof. exact Proofs.C04.front_alias. Qed.
Print Assumptions C04_front_alias.

(* ------------------------------------------------------------------ back ends *)
(* Shape of every back-end theorem: for EVERY IR field / payload / alias target (any type tree, any
   configuration), if the decision layer produces a declaration, then the translator also succeeds on
   the type with one Option layer removed, and the row the reader sees in the declaration satisfies
   good_C04 against (Option depth of the IR type, has_default, the text of THAT translation). *)

(* Kotlin: `val x: T? = null` iff Option or default; the type before the marker is the translation of T *)
Theorem C04_back_kotlin_field :
  forall (cfg : kt_config) (f : rfield) g rsn vis m decl pos,
    c04_fieldlike pos = true -> type_override f Kotlin = None ->
    kt_member_of cfg f g rsn vis = Ok m ->
    exists y, kt_texp cfg g (Proofs.C04.c04_strip (fty f)) = Ok y /\
      good_C04 Kotlin (Proofs.C04_Back.c04_expect_of pos (fty f) (has_default f) (kt_show y))
               (c04r_seen (kt_c04_member decl pos m)) = true.
Proof. exact Proofs.C04_Back.kt_field_good. Qed.
Print Assumptions C04_back_kotlin_field.

Theorem C04_back_kotlin_payload :
  forall (cfg : kt_config) sh t vsh v,
    kt_variant_of cfg sh (VTuple t vsh) = Ok v ->
    exists x y, kv_payload v = KTPNewtype x /\ kt_texp cfg (egenerics sh) (Proofs.C04.c04_strip t) = Ok y /\
      forall decl member, good_C04 Kotlin (Proofs.C04_Back.c04_expect_of C04Payload t false (kt_show y))
                                   (c04r_seen (c04_typed kt_show decl member C04Payload x)) = true.
Proof. exact Proofs.C04_Back.kt_payload_good. Qed.
Print Assumptions C04_back_kotlin_payload.

Theorem C04_back_kotlin_alias :
  forall (cfg : kt_config) a d,
    kt_is_inline (adecs a) = false -> kt_alias_decl cfg a = Ok d ->
    exists x y, kt_c04_rows d = [c04_typed kt_show (kt_prefix cfg ++ original (aid a)) [] C04Alias x] /\
      kt_texp cfg (agenerics a) (Proofs.C04.c04_strip (atype a)) = Ok y /\
      good_C04 Kotlin (Proofs.C04_Back.c04_expect_of C04Alias (atype a) false (kt_show y))
               (c04r_seen (c04_typed kt_show (kt_prefix cfg ++ original (aid a)) [] C04Alias x)) = true.
Proof. exact Proofs.C04_Back.kt_alias_good. Qed.
Print Assumptions C04_back_kotlin_alias.

(* Scala: `x: Option[T] = None` iff Option - outside the recorded class C04-scala-default
   (bare default on a non-Option field is written `T = _`) *)
Theorem C04_back_scala_field :
  forall (cfg : sc_config) f g m decl pos,
    c04_fieldlike pos = true -> type_override f Scala = None ->
    sc_member_of cfg g f = Ok m ->
    exists y, sc_texp cfg g (Proofs.C04.c04_strip (fty f)) = Ok y /\
      (known_C04 Scala (Proofs.C04_Back.c04_expect_of pos (fty f) (has_default f) (sc_show y)) = None ->
       good_C04 Scala (Proofs.C04_Back.c04_expect_of pos (fty f) (has_default f) (sc_show y)) (c04r_seen (sc_c04_member decl m)) = true).
Proof. exact Proofs.C04_Back.sc_field_good. Qed.
Print Assumptions C04_back_scala_field.

Theorem C04_back_scala_payload :
  forall (cfg : sc_config) content e t vsh v,
    sc_variant_of_algebraic cfg content e (VTuple t vsh) = Ok v ->
    exists x y, scv_payload v = SCPayTuple (egenerics e) content x /\ sc_texp cfg (egenerics e) (Proofs.C04.c04_strip t) = Ok y /\
      forall decl member, good_C04 Scala (Proofs.C04_Back.c04_expect_of C04Payload t false (sc_show y))
                                   (c04r_seen (c04_typed sc_show decl member C04Payload x)) = true.
Proof. exact Proofs.C04_Back.sc_payload_good. Qed.
Print Assumptions C04_back_scala_payload.

Theorem C04_back_scala_alias :
  forall (cfg : sc_config) a ds,
    sc_decl_of cfg (ItAlias a) = Ok ds ->
    exists x y, flat_map sc_c04_rows ds = [c04_typed sc_show (original (aid a)) [] C04Alias x] /\
      sc_texp cfg (agenerics a) (Proofs.C04.c04_strip (atype a)) = Ok y /\
      good_C04 Scala (Proofs.C04_Back.c04_expect_of C04Alias (atype a) false (sc_show y))
               (c04r_seen (c04_typed sc_show (original (aid a)) [] C04Alias x)) = true.
Proof. exact Proofs.C04_Back.sc_alias_good. Qed.
Print Assumptions C04_back_scala_alias.

Theorem C04_scala_default_refuted :
  exists m y, type_override Proofs.C04_Matrix.c04w_field Scala = None /\
    sc_member_of Proofs.C04_Matrix.c04w_sc_cfg [] Proofs.C04_Matrix.c04w_field = Ok m /\
    sc_texp Proofs.C04_Matrix.c04w_sc_cfg [] (Proofs.C04.c04_strip (fty Proofs.C04_Matrix.c04w_field)) = Ok y /\
    known_C04 Scala (Proofs.C04_Back.c04_expect_of C04Field (fty Proofs.C04_Matrix.c04w_field) (has_default Proofs.C04_Matrix.c04w_field) (sc_show y)) = Some "C04-scala-default"%string /\
    good_C04 Scala (Proofs.C04_Back.c04_expect_of C04Field (fty Proofs.C04_Matrix.c04w_field) (has_default Proofs.C04_Matrix.c04w_field) (sc_show y))
             (c04r_seen (sc_c04_member (lit "S") m)) = false.
Proof. exact Proofs.C04_Matrix.scala_default_refuted. Qed.
Print Assumptions C04_scala_default_refuted.

(* TypeScript (hypothesis: the display of an Option type is not itself a type_mappings key):
   `k?: T` iff Option or default, `| null` iff Option<Option<..>>, the type is the translation of T *)
Theorem C04_back_typescript_field :
  forall (cfg : ts_config) f g s m s' decl pos,
    c04_fieldlike pos = true -> type_override f TypeScript = None ->
    (is_optional (fty f) = true -> tmap_get (ts_type_mappings cfg) (rtype_display (fty f)) = None) ->
    ts_member_of cfg g f s = Ok (m, s') ->
    exists y s2, ts_texp cfg g (Proofs.C04.c04_strip (fty f)) s = Ok (y, s2) /\
      good_C04 TypeScript (Proofs.C04_Back.c04_expect_of pos (fty f) (has_default f) (ts_show y)) (c04r_seen (ts_c04_member decl pos m)) = true.
Proof. exact Proofs.C04_Back.ts_field_good. Qed.
Print Assumptions C04_back_typescript_field.

(* newtype payload `content?: T`; for Option<Option<T>> `content?: T | null` - no carve-out (the former class
   C04-ts-double-nonfield is repaired in /repo): the row the reader reports for the variant is good *)
Theorem C04_back_typescript_payload :
  forall (cfg : ts_config) g ue t vsh s v s',
    (is_optional t = true -> tmap_get (ts_type_mappings cfg) (rtype_display t) = None) ->
    ts_variant_of cfg g ue (VTuple t vsh) s = Ok (v, s') ->
    exists y, ts_texp cfg g (Proofs.C04.c04_strip t) s = Ok (y, s') /\
      v = TVTuple (vcomments vsh) (renamed (vid vsh)) y (is_optional t) (is_double_optional t) /\
      forall docs decl gs tag content,
        ts_c04_rows (TSUnion docs decl gs tag content [v]) =
          [c04_mk decl (renamed (vid vsh)) C04Payload (is_optional t) (is_optional t) (is_double_optional t) (ts_show y) (ts_show y)] /\
        good_C04 TypeScript (Proofs.C04_Back.c04_expect_of C04Payload t false (ts_show y))
                 (c04r_seen (c04_mk decl (renamed (vid vsh)) C04Payload (is_optional t) (is_optional t) (is_double_optional t) (ts_show y) (ts_show y))) = true.
Proof. exact Proofs.C04_Back.ts_payload_good. Qed.
Print Assumptions C04_back_typescript_payload.

(* alias target `type A = T | undefined`; for Option<Option<T>> `type A = T | null | undefined` - no carve-out *)
Theorem C04_back_typescript_alias :
  forall (cfg : ts_config) uc a s d s',
    (is_optional (atype a) = true -> tmap_get (ts_type_mappings cfg) (rtype_display (atype a)) = None) ->
    ts_decl_of uc cfg (ItAlias a) s = Ok (d, s') ->
    exists y, ts_texp cfg (agenerics a) (Proofs.C04.c04_strip (atype a)) s = Ok (y, s') /\
      ts_c04_rows d = [c04_mk (renamed (aid a)) [] C04Alias (is_optional (atype a)) (is_optional (atype a)) (is_double_optional (atype a)) (ts_show y) (ts_show y)] /\
      good_C04 TypeScript (Proofs.C04_Back.c04_expect_of C04Alias (atype a) false (ts_show y))
               (c04r_seen (c04_mk (renamed (aid a)) [] C04Alias (is_optional (atype a)) (is_optional (atype a)) (is_double_optional (atype a)) (ts_show y) (ts_show y))) = true.
Proof. exact Proofs.C04_Back.ts_alias_good. Qed.
Print Assumptions C04_back_typescript_alias.

(* layout: two members that differ only in the `| null` flag are printed differently, i.e.
   Option<Option<T>> (`k?: T | null`) stays distinguishable from Option<T> (`k?: T`) in the text *)
Theorem C04_typescript_double_distinguishable :
  forall m1 m2 : ts_member,
    tm_docs m1 = tm_docs m2 -> tm_readonly m1 = tm_readonly m2 -> tm_key m1 = tm_key m2 ->
    tm_optional m1 = tm_optional m2 -> tm_type m1 = tm_type m2 ->
    ts_render_member m1 = ts_render_member m2 -> tm_null_union m1 = tm_null_union m2.
Proof. exact Proofs.C04_Back.ts_double_distinguishable. Qed.
Print Assumptions C04_typescript_double_distinguishable.

(* ... and so at the two other positions: a newtype payload (`{ t: "V", c?: T | null }` vs `{ t: "V", c?: T }`) and an alias
   target (`type A = T | null | undefined;` vs `type A = T | undefined;`) that differ at most in the `| null` flag and are
   printed alike have the same flag *)
Theorem C04_typescript_double_distinguishable_payload :
  forall (tag content : str) docs wire ty opt (n1 n2 : bool),
    ts_render_variant tag content (TVTuple docs wire ty opt n1) = ts_render_variant tag content (TVTuple docs wire ty opt n2) -> n1 = n2.
Proof. exact Proofs.C04_Back.ts_double_distinguishable_payload. Qed.
Print Assumptions C04_typescript_double_distinguishable_payload.

Theorem C04_typescript_double_distinguishable_alias :
  forall docs name gs ty undef (n1 n2 : bool),
    ts_render_decl (TSAlias docs name gs ty undef n1) = ts_render_decl (TSAlias docs name gs ty undef n2) -> n1 = n2.
Proof. exact Proofs.C04_Back.ts_double_distinguishable_alias. Qed.
Print Assumptions C04_typescript_double_distinguishable_alias.

(* regression pins of the repaired class C04-ts-double-nonfield: `C(Option<Option<String>>)` is written
   `| { t: "C", c?: string | null }` (one Option layer: `c?: string }`), `type A = Option<Option<String>>` is written
   `export type A = string | null | undefined;` (one layer: `string | undefined;`); the position is in no recorded class, the
   reader sees the `| null`, and the row is good *)
Theorem C04_ts_double_payload_fixed :
  exists v st v1 st1,
    ts_variant_of Proofs.C04_Matrix.c04w_ts_cfg [] false
      (VTuple Proofs.C04_Matrix.c04w_double {| vid := Proofs.C04_Matrix.c04m_id (lit "C"); vcomments := [] |}) [] = Ok (v, st) /\
    ts_variant_of Proofs.C04_Matrix.c04w_ts_cfg [] false
      (VTuple (ROption (RPrim PString)) {| vid := Proofs.C04_Matrix.c04m_id (lit "C"); vcomments := [] |}) [] = Ok (v1, st1) /\
    ts_render_variant (lit "t") (lit "c") v = nl ++ [ch_tab] ++ lit "| { t: ""C"", c?: string | null }" /\
    ts_render_variant (lit "t") (lit "c") v1 = nl ++ [ch_tab] ++ lit "| { t: ""C"", c?: string }" /\
    known_C04 TypeScript (Proofs.C04_Back.c04_expect_of C04Payload Proofs.C04_Matrix.c04w_double false (lit "string")) = None /\
    exists r, ts_c04_rows (TSUnion [] (lit "E") [] (lit "t") (lit "c") [v]) = [r] /\
      c04s_null_union (c04r_seen r) = true /\
      good_C04 TypeScript (Proofs.C04_Back.c04_expect_of C04Payload Proofs.C04_Matrix.c04w_double false (lit "string")) (c04r_seen r) = true.
Proof. exact Proofs.C04_Matrix.ts_double_payload_fixed. Qed.
Print Assumptions C04_ts_double_payload_fixed.

Theorem C04_ts_double_alias_fixed :
  exists d st d1 st1 r,
    ts_decl_of uc_exec Proofs.C04_Matrix.c04w_ts_cfg (Proofs.C04_Matrix.c04w_alias Proofs.C04_Matrix.c04w_double) [] = Ok (d, st) /\
    ts_decl_of uc_exec Proofs.C04_Matrix.c04w_ts_cfg (Proofs.C04_Matrix.c04w_alias (ROption (RPrim PString))) [] = Ok (d1, st1) /\
    ts_render_decl d = lit "export type A = string | null | undefined;" ++ nl ++ nl /\
    ts_render_decl d1 = lit "export type A = string | undefined;" ++ nl ++ nl /\
    ts_c04_rows d = [r] /\
    known_C04 TypeScript (Proofs.C04_Back.c04_expect_of C04Alias Proofs.C04_Matrix.c04w_double false (lit "string")) = None /\
    c04s_null_union (c04r_seen r) = true /\
    good_C04 TypeScript (Proofs.C04_Back.c04_expect_of C04Alias Proofs.C04_Matrix.c04w_double false (lit "string")) (c04r_seen r) = true.
Proof. exact Proofs.C04_Matrix.ts_double_alias_fixed. Qed.
Print Assumptions C04_ts_double_alias_fixed.

(* Swift: the stored property AND the init parameter (formatted separately) carry `?` iff Option or default *)
Theorem C04_back_swift_field :
  forall (uc : unicode) (cfg : sw_config) f g s ty s' s2 ity s2' decl,
    type_override f Swift = None ->
    sw_field_texp cfg g f s = Ok (ty, s') -> sw_field_texp cfg g f s2 = Ok (ity, s2') ->
    exists y s3 s4, sw_texp cfg g (Proofs.C04.c04_strip (fty f)) s3 = Ok (y, s4) /\
      good_C04 Swift (Proofs.C04_Back.c04_expect_of C04Field (fty f) (has_default f) (sw_show y))
               (c04r_seen (sw_c04_member decl (sw_member_of uc f ty ity))) = true.
Proof. exact Proofs.C04_Back.sw_field_good. Qed.
Print Assumptions C04_back_swift_field.

Theorem C04_back_swift_payload :
  forall (uc : unicode) (cfg : sw_config) shared t vsh s v s',
    sw_variant_of uc cfg shared (VTuple t vsh) s = Ok (v, s') ->
    exists x esc y s3 s4, swv_payload v = SWPTuple x esc (is_optional t) /\
      sw_texp cfg (egenerics shared) (Proofs.C04.c04_strip t) s3 = Ok (y, s4) /\
      forall decl member,
        good_C04 Swift (Proofs.C04_Back.c04_expect_of C04Payload t false (sw_show y))
                 (c04r_seen (c04_mk decl member C04Payload (c04_is_xopt x) (is_optional t) false (sw_show (c04_strip_xopt x)) (sw_show x))) = true.
Proof. exact Proofs.C04_Back.sw_payload_good. Qed.
Print Assumptions C04_back_swift_payload.

Theorem C04_back_swift_alias :
  forall (uc : unicode) (cfg : sw_config) a s d s',
    sw_decl_of uc cfg (ItAlias a) s = Ok (d, s') ->
    exists x y s3 s4, sw_c04_rows d = [c04_typed sw_show (sw_prefix cfg ++ renamed (aid a)) [] C04Alias x] /\
      sw_texp cfg (agenerics a) (Proofs.C04.c04_strip (atype a)) s3 = Ok (y, s4) /\
      good_C04 Swift (Proofs.C04_Back.c04_expect_of C04Alias (atype a) false (sw_show y))
               (c04r_seen (c04_typed sw_show (sw_prefix cfg ++ renamed (aid a)) [] C04Alias x)) = true.
Proof. exact Proofs.C04_Back.sw_alias_good. Qed.
Print Assumptions C04_back_swift_alias.

(* Python: `x: Optional[T] = Field(default=None)` iff Option or default *)
Theorem C04_back_python_field :
  forall (uc : unicode) (cfg : py_config) f g s m s' decl,
    (is_optional (fty f) = true -> tmap_get (py_type_mappings cfg) (rtype_display (fty f)) = None) ->
    py_member_of uc cfg g f s = Ok (m, s') ->
    exists y s3 s4, py_texp cfg g (Proofs.C04.c04_strip (fty f)) s3 = Ok (y, s4) /\
      good_C04 Python (Proofs.C04_Back.c04_expect_of C04Field (fty f) (has_default f) (py_show y)) (c04r_seen (py_c04_member decl m)) = true.
Proof. exact Proofs.C04_Back.py_field_good. Qed.
Print Assumptions C04_back_python_field.

Theorem C04_back_python_payload :
  forall (uc : unicode) (cfg : py_config) en tn sh t vsh s v s',
    (is_optional t = true -> tmap_get (py_type_mappings cfg) (rtype_display t) = None) ->
    py_variant_of uc cfg en tn sh (VTuple t vsh) s = Ok (v, s') ->
    exists x y s3 s4, pyv_content v = PYCType x /\ py_texp cfg (egenerics sh) (Proofs.C04.c04_strip t) s3 = Ok (y, s4) /\
      forall decl member, good_C04 Python (Proofs.C04_Back.c04_expect_of C04Payload t false (py_show y))
                                   (c04r_seen (c04_typed py_show decl member C04Payload x)) = true.
Proof. exact Proofs.C04_Back.py_payload_good. Qed.
Print Assumptions C04_back_python_payload.

Theorem C04_back_python_alias :
  forall (uc : unicode) (cfg : py_config) a s ds s',
    (is_optional (atype a) = true -> tmap_get (py_type_mappings cfg) (rtype_display (atype a)) = None) ->
    py_decl_of uc cfg (ItAlias a) s = Ok (ds, s') ->
    exists x y s3 s4, flat_map py_c04_rows ds = [c04_typed py_show (renamed (aid a)) [] C04Alias x] /\
      py_texp cfg (agenerics a) (Proofs.C04.c04_strip (atype a)) s3 = Ok (y, s4) /\
      good_C04 Python (Proofs.C04_Back.c04_expect_of C04Alias (atype a) false (py_show y))
               (c04r_seen (c04_typed py_show (renamed (aid a)) [] C04Alias x)) = true.
Proof. exact Proofs.C04_Back.py_alias_good. Qed.
Print Assumptions C04_back_python_alias.

(* Go (hypotheses: no_pointer_slice off; the display of an Option type is not a type_mappings key):
   alias target `type A *T` iff Option - for every configuration of acronyms *)
Theorem C04_back_go_alias :
  forall (uc : unicode) (cfg : go_config), go_no_pointer_slice cfg = false ->
  forall cs a s ds s',
    (is_optional (atype a) = true -> tmap_get (go_type_mappings cfg) (rtype_display (atype a)) = None) ->
    go_decl_of uc cfg cs (ItAlias a) s = Ok (ds, s') ->
    exists name x y s3 s4, flat_map go_c04_rows ds = [go_c04_typed name [] C04Alias x] /\
      go_texp cfg [] (Proofs.C04.c04_strip (atype a)) s3 = Ok (y, s4) /\
      good_C04 Go (Proofs.C04_Back.c04_expect_of C04Alias (atype a) false (go_show y)) (c04r_seen (go_c04_typed name [] C04Alias x)) = true.
Proof. exact Proofs.C04_Back.go_alias_good. Qed.
Print Assumptions C04_back_go_alias.

(* PARTIAL: fields and payloads of Go are proved for configurations WITHOUT uppercase_acronyms. Missing: that
   the textual acronym rewrite of go.rs:579 (applied to the printed type, byte/char arithmetic) never touches
   the leading `*` - true of the faithful model on every generated case (the matrix below runs with
   acronyms id, url configured), not proved in general.
   `X *T` + `,omitempty` iff Option or default. *)
Theorem C04_back_go_field_partial :
  forall (uc : unicode) (cfg : go_config), go_no_pointer_slice cfg = false -> go_uppercase_acronyms cfg = [] ->
  forall f g s m s' decl,
    type_override f Go = None ->
    (is_optional (fty f) = true -> tmap_get (go_type_mappings cfg) (rtype_display (fty f)) = None) ->
    go_member_of uc cfg g f s = Ok (m, s') ->
    exists y s3 s4, go_texp cfg g (Proofs.C04.c04_strip (fty f)) s3 = Ok (y, s4) /\
      good_C04 Go (Proofs.C04_Back.c04_expect_of C04Field (fty f) (has_default f) (go_show y)) (c04r_seen (go_c04_member decl m)) = true.
Proof. exact Proofs.C04_Back.go_field_good. Qed.
Print Assumptions C04_back_go_field_partial.

Theorem C04_back_go_payload_partial :
  forall (uc : unicode) (cfg : go_config), go_no_pointer_slice cfg = false -> go_uppercase_acronyms cfg = [] ->
  forall sh cs sn tag t vsh s v s',
    (is_optional t = true -> tmap_get (go_type_mappings cfg) (rtype_display t) = None) ->
    go_variant_of uc cfg sh cs sn tag (VTuple t vsh) s = Ok (v, s') ->
    exists x p y s3 s4, gv_content v = GCType x p /\ go_texp cfg [] (Proofs.C04.c04_strip t) s3 = Ok (y, s4) /\
      forall decl member, good_C04 Go (Proofs.C04_Back.c04_expect_of C04Payload t false (go_show y))
                                   (c04r_seen (go_c04_typed decl member C04Payload x)) = true.
Proof. exact Proofs.C04_Back.go_payload_good. Qed.
Print Assumptions C04_back_go_payload_partial.

(* FULL with respect to acronyms (Proofs/GoAcronyms.v): fields and payloads of Go for EVERY list of alphanumeric
   uppercase_acronyms ([A-Za-z0-9]*: what an acronym is; ga_alnum), on ASCII type names and type_mappings values
   (ga_texp_asciib; a Unicode table agreeing with ASCII below 128).  On such input the textual rewrite of go.rs:579
   never panics and distributes over the `*`, `[`, `]`, `, ` of the printed type: the type written at the field is
   `*` + rewrite(translation of T) iff Option, and the reference it is compared with is what the same back end
   writes at the same position for T: the rewritten translation y' of the type with one Option layer removed
   (go_acronyms_ty leaves the state alone: it yields y' from every state).  Non-alphanumeric acronyms (a pattern
   could straddle `]`, `*`) and non-ASCII names (byte/char offset drift, C07) are outside this theorem. *)
Theorem C04_back_go_field :
  forall (uc : unicode), unicode_ok uc ->
  forall (cfg : go_config), go_no_pointer_slice cfg = false ->
    forallb (forallb Proofs.GoAcronyms.ga_alnum) (go_uppercase_acronyms cfg) = true ->
  forall f g s m s' decl,
    type_override f Go = None ->
    (is_optional (fty f) = true -> tmap_get (go_type_mappings cfg) (rtype_display (fty f)) = None) ->
    Proofs.GoAcronyms.ga_texp_asciib cfg (fty f) = true ->
    go_member_of uc cfg g f s = Ok (m, s') ->
    exists y s3 s4 y', go_texp cfg g (Proofs.C04.c04_strip (fty f)) s3 = Ok (y, s4) /\
      (forall s5, go_acronyms_ty uc cfg y s5 = Ok (y', s5)) /\
      good_C04 Go (Proofs.C04_Back.c04_expect_of C04Field (fty f) (has_default f) (go_show y')) (c04r_seen (go_c04_member decl m)) = true.
Proof. exact Proofs.C04_Back.go_field_good_acr. Qed.
Print Assumptions C04_back_go_field.

Theorem C04_back_go_payload :
  forall (uc : unicode), unicode_ok uc ->
  forall (cfg : go_config), go_no_pointer_slice cfg = false ->
    forallb (forallb Proofs.GoAcronyms.ga_alnum) (go_uppercase_acronyms cfg) = true ->
  forall sh cs sn tag t vsh s v s',
    (is_optional t = true -> tmap_get (go_type_mappings cfg) (rtype_display t) = None) ->
    Proofs.GoAcronyms.ga_texp_asciib cfg t = true ->
    go_variant_of uc cfg sh cs sn tag (VTuple t vsh) s = Ok (v, s') ->
    exists x p y s3 s4 y', gv_content v = GCType x p /\ go_texp cfg [] (Proofs.C04.c04_strip t) s3 = Ok (y, s4) /\
      (forall s5, go_acronyms_ty uc cfg y s5 = Ok (y', s5)) /\
      forall decl member, good_C04 Go (Proofs.C04_Back.c04_expect_of C04Payload t false (go_show y'))
                                   (c04r_seen (go_c04_typed decl member C04Payload x)) = true.
Proof. exact Proofs.C04_Back.go_payload_good_acr. Qed.
Print Assumptions C04_back_go_payload.

(* ---- Go, BOTH values of no_pointer_slice (and alphanumeric acronyms, ASCII names as above).
   Under `no_pointer_slice = true` format_special_type prints Option<Vec<T>> as the translation of Vec<T> (no `*`):
   the verdict good_C04_go takes the flag  bare = no_pointer_slice && the IR type is Option<Vec<_>>  and demands
   `,omitempty` iff Option or default (fields), the `*` iff (Option or default) and not bare, the text under the
   marker = the same back end's text for T.  With bare = false it IS good_C04 Go. *)
Theorem C04_good_go_agrees : forall e s, good_C04_go false e s = good_C04 Go e s.
Proof. exact Proofs.C04_Back.good_C04_go_false. Qed.
Print Assumptions C04_good_go_agrees.

Theorem C04_back_go_field_any_slice_mode :
  forall (uc : unicode), unicode_ok uc ->
  forall (cfg : go_config), forallb (forallb Proofs.GoAcronyms.ga_alnum) (go_uppercase_acronyms cfg) = true ->
  forall f g s m s' decl,
    type_override f Go = None ->
    (is_optional (fty f) = true -> tmap_get (go_type_mappings cfg) (rtype_display (fty f)) = None) ->
    Proofs.GoAcronyms.ga_texp_asciib cfg (fty f) = true ->
    go_member_of uc cfg g f s = Ok (m, s') ->
    exists y s3 s4 y', go_texp cfg g (Proofs.C04.c04_strip (fty f)) s3 = Ok (y, s4) /\
      (forall s5, go_acronyms_ty uc cfg y s5 = Ok (y', s5)) /\
      good_C04_go (c04_go_bare (go_no_pointer_slice cfg) (fty f))
                  (Proofs.C04_Back.c04_expect_of C04Field (fty f) (has_default f) (go_show y')) (c04r_seen (go_c04_member decl m)) = true.
Proof. exact Proofs.C04_Back.go_field_good_all. Qed.
Print Assumptions C04_back_go_field_any_slice_mode.

Theorem C04_back_go_payload_any_slice_mode :
  forall (uc : unicode), unicode_ok uc ->
  forall (cfg : go_config), forallb (forallb Proofs.GoAcronyms.ga_alnum) (go_uppercase_acronyms cfg) = true ->
  forall sh cs sn tag t vsh s v s',
    (is_optional t = true -> tmap_get (go_type_mappings cfg) (rtype_display t) = None) ->
    Proofs.GoAcronyms.ga_texp_asciib cfg t = true ->
    go_variant_of uc cfg sh cs sn tag (VTuple t vsh) s = Ok (v, s') ->
    exists x p y s3 s4 y', gv_content v = GCType x p /\ go_texp cfg [] (Proofs.C04.c04_strip t) s3 = Ok (y, s4) /\
      (forall s5, go_acronyms_ty uc cfg y s5 = Ok (y', s5)) /\
      forall decl member, good_C04_go (c04_go_bare (go_no_pointer_slice cfg) t)
                                      (Proofs.C04_Back.c04_expect_of C04Payload t false (go_show y'))
                                      (c04r_seen (go_c04_typed decl member C04Payload x)) = true.
Proof. exact Proofs.C04_Back.go_payload_good_all. Qed.
Print Assumptions C04_back_go_payload_any_slice_mode.

Theorem C04_back_go_alias_any_slice_mode :
  forall (uc : unicode) (cfg : go_config) cs a s ds s',
    (is_optional (atype a) = true -> tmap_get (go_type_mappings cfg) (rtype_display (atype a)) = None) ->
    go_decl_of uc cfg cs (ItAlias a) s = Ok (ds, s') ->
    exists name x y s3 s4, flat_map go_c04_rows ds = [go_c04_typed name [] C04Alias x] /\
      go_texp cfg [] (Proofs.C04.c04_strip (atype a)) s3 = Ok (y, s4) /\
      good_C04_go (c04_go_bare (go_no_pointer_slice cfg) (atype a))
                  (Proofs.C04_Back.c04_expect_of C04Alias (atype a) false (go_show y)) (c04r_seen (go_c04_typed name [] C04Alias x)) = true.
Proof. exact Proofs.C04_Back.go_alias_good_all. Qed.
Print Assumptions C04_back_go_alias_any_slice_mode.

(* the tag part of a Go field - `,omitempty` iff Option or default, write_field's own `*` iff default on a non-Option
   type - for EVERY configuration and with or without a type override (#[typeshare(go(type = ".."))]: the type text is
   then the user's; good_C04_go_override judges the tag alone) *)
Theorem C04_back_go_field_tag :
  forall (uc : unicode) (cfg : go_config) f g s m s' decl ref,
    go_member_of uc cfg g f s = Ok (m, s') ->
    gm_omitempty m = (is_optional (fty f) || has_default f) /\
    gm_star m = (has_default f && negb (is_optional (fty f))) /\
    good_C04_go_override (Proofs.C04_Back.c04_expect_of C04Field (fty f) (has_default f) ref) (c04r_seen (go_c04_member decl m)) = true.
Proof. exact Proofs.C04_Back.go_field_tag_any. Qed.
Print Assumptions C04_back_go_field_tag.

(* the lemma behind both: on an ASCII printed type with alphanumeric acronyms, acronyms_to_uppercase applied to the
   printed TEXT (what go.rs:512 / :360 do) is the type tree rewritten name by name, printed: same length, only the
   ASCII case of letters differs, nothing panics, the printing state is untouched *)
Theorem C04_go_acronyms_on_type :
  forall (uc : unicode), unicode_ok uc ->
  forall (cfg : go_config), forallb (forallb Proofs.GoAcronyms.ga_alnum) (go_uppercase_acronyms cfg) = true ->
  forall (t : go_ty) s, forallb is_ascii (go_show t) = true ->
    go_acronyms_ty uc cfg t s = Ok (Proofs.GoAcronyms.ga_ty_map (Proofs.GoAcronyms.ga_T cfg) t, s) /\
    go_show (Proofs.GoAcronyms.ga_ty_map (Proofs.GoAcronyms.ga_T cfg) t) = Proofs.GoAcronyms.ga_T cfg (go_show t) /\
    List.length (Proofs.GoAcronyms.ga_T cfg (go_show t)) = List.length (go_show t) /\
    str_upper_ascii (Proofs.GoAcronyms.ga_T cfg (go_show t)) = str_upper_ascii (go_show t).
Proof. exact Proofs.GoAcronyms.ga_acronyms_on_type. Qed.
Print Assumptions C04_go_acronyms_on_type.

(* ------------------------------------------------------------------ the finite marker matrix *)
(* BOUND: 6 languages x 10 base types (String, u32, bool, Vec<String>, Vec<Option<u8>>, HashMap<String,u32>,
   [u8;3], a user type, a generic instance, a generic parameter) x 18 cells (field and struct-variant field:
   Option depth 0..2 x has_default; newtype payload and alias target: depth 0..2) = 1080 cells, each run
   through the whole model pipeline of its back end (prefix OP for Kotlin/Swift, acronyms id/url for Go) and
   judged against its twin: inside dom_C04; good_C04 outside the recorded classes, NOT good inside them. *)
Theorem C04_marker_matrix :
  forallb (fun L => forallb (Proofs.C04_Matrix.c04m_ok L) Proofs.C04_Matrix.c04m_bases) all_langs = true.
Proof. exact Proofs.C04_Matrix.matrix_closed. Qed.
Print Assumptions C04_marker_matrix.

(* ------------------------------------------------------------------ glue *)
(* Go, ANY configuration of acronyms: the marker parts write_field decides itself - `,omitempty` iff Option or
   default, its own `*` iff default on a non-Option type - and the type handed to the acronym rewrite is
   `*`-headed iff Option, with the translation of T under the `*` *)
Theorem C04_back_go_field_markers :
  forall (uc : unicode) (cfg : go_config) f g s m s',
    go_no_pointer_slice cfg = false -> type_override f Go = None ->
    (is_optional (fty f) = true -> tmap_get (go_type_mappings cfg) (rtype_display (fty f)) = None) ->
    go_member_of uc cfg g f s = Ok (m, s') ->
    gm_omitempty m = (is_optional (fty f) || has_default f) /\
    gm_star m = (has_default f && negb (is_optional (fty f))) /\
    exists x s1 s2 y s3 s4, go_texp cfg g (fty f) s = Ok (x, s1) /\ go_acronyms_ty uc cfg x s1 = Ok (gm_type m, s2) /\
      go_texp cfg g (Proofs.C04.c04_strip (fty f)) s3 = Ok (y, s4) /\ c04_strip_gptr x = y /\ c04_is_gptr x = is_optional (fty f).
Proof. exact Proofs.C04_Back.go_field_markers. Qed.
Print Assumptions C04_back_go_field_markers.

(* the expectation the back-end theorems are stated against IS the source's: Option depth of the declared
   type and the bare default word (what checks/c04.py computes with the extracted c04_file_cells) *)
Theorem C04_expectation_from_source :
  forall (uc : unicode) (tstr : str -> option ty) check_flatten rename_all (f : field) (rf : rfield) pos ref,
    get_field_type_override uc (f_attrs f) = None ->
    parse_field uc tstr check_flatten rename_all f = Ok rf ->
    Proofs.C04_Back.c04_expect_of pos (fty rf) (has_default rf) ref =
    {| c04e_pos := pos; c04e_depth := c04_opt_depth (f_ty f); c04e_default := bare_default (f_attrs f); c04e_ref := ref |}.
Proof. exact Proofs.C04_Back.expectation_from_source. Qed.
Print Assumptions C04_expectation_from_source.

(* Model/Lang/Decl.v's mb_optional (the observation the other back-end properties use) is the marker the C04
   readers report *)
Theorem C04_decl_optional_agrees :
  (forall d p m, mb_optional (ts_obs_member m) = c04s_type_mark (c04r_seen (ts_c04_member d p m))) /\
  (forall d p m, mb_optional (kt_obs_member m) = c04s_init_mark (c04r_seen (kt_c04_member d p m))) /\
  (forall d m, mb_optional (sw_obs_member m) = c04s_type_mark (c04r_seen (sw_c04_member d m))) /\
  (forall d m, mb_optional (sc_obs_member m) = c04s_init_mark (c04r_seen (sc_c04_member d m))) /\
  (forall d m, mb_optional (go_obs_member m) = c04s_init_mark (c04r_seen (go_c04_member d m))) /\
  (forall d m, mb_optional (py_obs_member m) = c04s_type_mark (c04r_seen (py_c04_member d m)) && c04s_init_mark (c04r_seen (py_c04_member d m))).
Proof. exact Proofs.C04_Back.decl_optional_agrees. Qed.
Print Assumptions C04_decl_optional_agrees.

(* =============================================================================================
   FOLDER (multi-file) MODE, stateful back ends.  Walking the (item, declaration) pairs of a crate's folder-mode file
   generated from ANY state (Proofs.C12Multi*.<l>_multi_decls; Props/C01.v C01_multi_decls_items_<l>): TypeScript -
   every member of every struct and every alias target satisfy the conclusions of C04_back_typescript_field / _alias;
   Swift, Python, Go - every alias target satisfies C04_back_<l>_alias.  Hypotheses of the single-file theorems, none
   about the state.  (The member- and payload-level theorems C04_back_<l>_field / _payload are already stated for
   <l>_member_of / <l>_variant_of from an arbitrary state, which is the state the run has reached there.) *)
Theorem C04_multi_back_typescript :
  forall uc cfg st pd ds st',
  Proofs.C12MultiTS.ts_multi_decls uc cfg st pd = Ok (ds, st') ->
  exists items, Model.Topsort.topsort (items_of pd) = Ok items /\
    Forall2 (fun it d =>
      (forall s, it = ItStruct s ->
         exists docs name ms, d = TSInterface docs name (sgenerics s) ms /\
           Forall2 (fun f m =>
             type_override f TypeScript = None ->
             (is_optional (fty f) = true -> tmap_get (ts_type_mappings cfg) (rtype_display (fty f)) = None) ->
             forall decl pos, c04_fieldlike pos = true ->
             exists y s1 s2, ts_texp cfg (sgenerics s) (Proofs.C04.c04_strip (fty f)) s1 = Ok (y, s2) /\
               good_C04 TypeScript (Proofs.C04_Back.c04_expect_of pos (fty f) (has_default f) (ts_show y))
                        (c04r_seen (ts_c04_member decl pos m)) = true) (sfields s) ms) /\
      (forall a, it = ItAlias a ->
         (is_optional (atype a) = true -> tmap_get (ts_type_mappings cfg) (rtype_display (atype a)) = None) ->
         exists y s1 s2, ts_texp cfg (agenerics a) (Proofs.C04.c04_strip (atype a)) s1 = Ok (y, s2) /\
           ts_c04_rows d = [c04_mk (renamed (aid a)) [] C04Alias (is_optional (atype a)) (is_optional (atype a)) (is_double_optional (atype a)) (ts_show y) (ts_show y)] /\
           good_C04 TypeScript (Proofs.C04_Back.c04_expect_of C04Alias (atype a) false (ts_show y))
                    (c04r_seen (c04_mk (renamed (aid a)) [] C04Alias (is_optional (atype a)) (is_optional (atype a)) (is_double_optional (atype a)) (ts_show y) (ts_show y))) = true)) items ds.
Proof. exact Proofs.MultiSameSites.c04_multi_back_ts. Qed.
Print Assumptions C04_multi_back_typescript.

Theorem C04_multi_back_swift_alias :
  forall uc cfg st pd ds st',
  Proofs.C12MultiSwift.sw_multi_decls uc cfg st pd = Ok (ds, st') ->
  exists items, Model.Topsort.topsort (items_of pd) = Ok items /\
    Forall2 (fun it d => forall a, it = ItAlias a ->
      exists x y s3 s4, sw_c04_rows d = [c04_typed sw_show (sw_prefix cfg ++ renamed (aid a)) [] C04Alias x] /\
        sw_texp cfg (agenerics a) (Proofs.C04.c04_strip (atype a)) s3 = Ok (y, s4) /\
        good_C04 Swift (Proofs.C04_Back.c04_expect_of C04Alias (atype a) false (sw_show y))
                 (c04r_seen (c04_typed sw_show (sw_prefix cfg ++ renamed (aid a)) [] C04Alias x)) = true) items ds.
Proof. exact Proofs.MultiSameSites.c04_multi_back_sw_alias. Qed.
Print Assumptions C04_multi_back_swift_alias.

Theorem C04_multi_back_python_alias :
  forall uc cfg st pd ds st',
  Proofs.C12Multi.py_multi_decls uc cfg st pd = Ok (ds, st') ->
  exists items dss, Model.Topsort.topsort (items_of pd) = Ok items /\ ds = List.concat dss /\
    Forall2 (fun it dl => forall a, it = ItAlias a ->
      (is_optional (atype a) = true -> tmap_get (py_type_mappings cfg) (rtype_display (atype a)) = None) ->
      exists x y s3 s4, flat_map py_c04_rows dl = [c04_typed py_show (renamed (aid a)) [] C04Alias x] /\
        py_texp cfg (agenerics a) (Proofs.C04.c04_strip (atype a)) s3 = Ok (y, s4) /\
        good_C04 Python (Proofs.C04_Back.c04_expect_of C04Alias (atype a) false (py_show y))
                 (c04r_seen (c04_typed py_show (renamed (aid a)) [] C04Alias x)) = true) items dss.
Proof. exact Proofs.MultiSameSites.c04_multi_back_py_alias. Qed.
Print Assumptions C04_multi_back_python_alias.

Theorem C04_multi_back_go_alias :
  forall uc cfg st pd ds st',
  go_no_pointer_slice cfg = false ->
  Proofs.C12MultiGo.go_multi_decls uc cfg st pd = Ok (ds, st') ->
  exists items dss, Model.Topsort.topsort (items_of pd) = Ok items /\ ds = List.concat dss /\
    Forall2 (fun it dl => forall a, it = ItAlias a ->
      (is_optional (atype a) = true -> tmap_get (go_type_mappings cfg) (rtype_display (atype a)) = None) ->
      exists name x y s3 s4, flat_map go_c04_rows dl = [go_c04_typed name [] C04Alias x] /\
        go_texp cfg [] (Proofs.C04.c04_strip (atype a)) s3 = Ok (y, s4) /\
        good_C04 Go (Proofs.C04_Back.c04_expect_of C04Alias (atype a) false (go_show y)) (c04r_seen (go_c04_typed name [] C04Alias x)) = true) items dss.
Proof. exact Proofs.MultiSameSites.c04_multi_back_go_alias. Qed.
Print Assumptions C04_multi_back_go_alias.

(* ------------------------------------------------------------------ Python: the Option layer drops the (de)serialisation helpers (open finding) *)
(* "The optional marker never changes the underlying translated type" fails for the Python types with a custom JSON translation: the
   model - byte-equal to the real generator on every run of the check - writes a required OffsetDateTime field with the helper
   functions and the same field under Option without them.  The class of the finding C04-python-option-drops-helpers is the computable
   predicate Spec.C04PyHelpers.c04_py_option_drops_helpers (Rust base type, number of Option layers, marker, type without marker,
   type of the twin without one layer); checks/c04.py evaluates its extraction on every failing Python cell. *)
Theorem C04_python_option_drops_helpers_refuted :
  exists text, py_generate uc_exec Proofs.C10.w_py_cfg Proofs.C04_PyHelpers.ph_prog = Ok text /\
    contains_sub (lit "    a: " ++ Proofs.C04_PyHelpers.ph_helpers) text = true /\
    contains_sub (lit "    b: Optional[datetime] = Field(default=None)") text = true /\
    c04_py_option_drops_helpers (lit "OffsetDateTime") 1 true (lit "datetime") Proofs.C04_PyHelpers.ph_helpers = true.
Proof. exact Proofs.C04_PyHelpers.python_option_drops_helpers_refuted. Qed.
Print Assumptions C04_python_option_drops_helpers_refuted.

(* the boundaries of the class: no Option layer, a missing marker, a type changed in another way, a base type without a translation
   are outside; two Option layers over the translated type are inside *)
Theorem C04_python_option_drops_helpers_boundaries :
  c04_py_option_drops_helpers (lit "OffsetDateTime") 0 false (lit "datetime") Proofs.C04_PyHelpers.ph_helpers = false /\
  c04_py_option_drops_helpers (lit "OffsetDateTime") 1 false (lit "datetime") Proofs.C04_PyHelpers.ph_helpers = false /\
  c04_py_option_drops_helpers (lit "OffsetDateTime") 1 true (lit "str") Proofs.C04_PyHelpers.ph_helpers = false /\
  c04_py_option_drops_helpers (lit "String") 1 true (lit "str") (lit "str") = false /\
  c04_py_option_drops_helpers (lit "OffsetDateTime") 2 true (lit "Optional[datetime]") Proofs.C04_PyHelpers.ph_helpers = true.
Proof. exact Proofs.C04_PyHelpers.python_option_drops_helpers_boundaries. Qed.
Print Assumptions C04_python_option_drops_helpers_boundaries.
