(* C20 property statements only; proofs live in Proofs/C20.v.
   Vocabulary: Model/Config.v (the code), Spec/C20Spec.v (effective, expected_backend, nearest_config,
   expected_generate, expected_generate_config, persisted).  toml is not modelled: [ser] and [parse]
   are universally quantified, and the round-trip statements carry the hypothesis toml_roundtrip
   explicitly. *)
From Coq Require Import String.
From TS Require Import Model.Str Model.Types Model.Config Spec.C20Spec.
From TS Require Proofs.C20.

(* (a)+(b)+(d) in one statement.  For EVERY file system, current directory and command line the
   generating run (load_config, override_configuration, language()) yields exactly what the
   specification says: the configuration file is the one named by -c, else the nearest ancestor's
   typeshare.toml, else none; each back-end field carries effective(cli, file, default) for the seven
   settings that have an option and the file's value (else the default) for the file-only ones;
   target_os comes from the command line only; the only refusal is Go without a package. *)
Theorem C20_generate_is_specification :
  forall (bytes : Type) (parse : bytes -> option pconfig) (fs : fsys bytes) (cwd : fpath) (o : cli_options),
    generate_types parse fs cwd o = expected_generate parse fs cwd o.
Proof. exact Proofs.C20.generate_types_spec. Qed.
Print Assumptions C20_generate_is_specification.

(* (a) override_configuration over a loaded file (file = None: no file in play) is the three-layer
   effective configuration, field by field, or the Go refusal. *)
Theorem C20_override_is_effective_configuration :
  forall (file : option pconfig) (o : cli_options),
    override_configuration (config_of_file file) o =
      if go_package_missing o file then CErr EGoPackageMissing else COk (expected_config o file).
Proof. exact Proofs.C20.override_three_layers. Qed.
Print Assumptions C20_override_is_effective_configuration.

(* the wiring of language(): each back-end record is built from the fields the specification names *)
Theorem C20_backend_wiring :
  forall (o : cli_options) (file : option pconfig) (l : lang) (multi_file : bool),
    language_params l (expected_config o file) multi_file = expected_backend o file l multi_file.
Proof. exact Proofs.C20.wiring. Qed.
Print Assumptions C20_backend_wiring.

(* (a) per setting, as the property words it: value in the overridden configuration = command line,
   else file, else default; and that value is the one in the back-end record. *)
Theorem C20_precedence_swift_prefix :
  forall (file : option pconfig) (o : cli_options) (cfg : config),
    override_configuration (config_of_file file) o = COk cfg ->
    sw_prefix (c_swift cfg) = effective (o_swift_prefix o) (fkey file pc_swift psw_prefix) dstr /\
    forall m b, language_params Swift cfg m = BSwift b -> bsw_prefix b = sw_prefix (c_swift cfg).
Proof. exact Proofs.C20.prec_swift_prefix. Qed.
Print Assumptions C20_precedence_swift_prefix.

Theorem C20_precedence_kotlin_prefix :
  forall (file : option pconfig) (o : cli_options) (cfg : config),
    override_configuration (config_of_file file) o = COk cfg ->
    kt_prefix (c_kotlin cfg) = effective (o_kotlin_prefix o) (fkey file pc_kotlin pkt_prefix) dstr /\
    forall m b, language_params Kotlin cfg m = BKotlin b -> bkt_prefix b = kt_prefix (c_kotlin cfg).
Proof. exact Proofs.C20.prec_kotlin_prefix. Qed.
Print Assumptions C20_precedence_kotlin_prefix.

Theorem C20_precedence_java_package :
  forall (file : option pconfig) (o : cli_options) (cfg : config),
    override_configuration (config_of_file file) o = COk cfg ->
    kt_package (c_kotlin cfg) = effective (o_java_package o) (fkey file pc_kotlin pkt_package) dstr /\
    forall m b, language_params Kotlin cfg m = BKotlin b -> bkt_package b = kt_package (c_kotlin cfg).
Proof. exact Proofs.C20.prec_java_package. Qed.
Print Assumptions C20_precedence_java_package.

Theorem C20_precedence_kotlin_module_name :
  forall (file : option pconfig) (o : cli_options) (cfg : config),
    override_configuration (config_of_file file) o = COk cfg ->
    kt_module_name (c_kotlin cfg) = effective (o_kotlin_module_name o) (fkey file pc_kotlin pkt_module_name) dstr /\
    forall m b, language_params Kotlin cfg m = BKotlin b -> bkt_module_name b = kt_module_name (c_kotlin cfg).
Proof. exact Proofs.C20.prec_kotlin_module_name. Qed.
Print Assumptions C20_precedence_kotlin_module_name.

Theorem C20_precedence_scala_package :
  forall (file : option pconfig) (o : cli_options) (cfg : config),
    override_configuration (config_of_file file) o = COk cfg ->
    sc_package (c_scala cfg) = effective (o_scala_package o) (fkey file pc_scala psc_package) dstr /\
    forall m b, language_params Scala cfg m = BScala b -> bsc_package b = sc_package (c_scala cfg).
Proof. exact Proofs.C20.prec_scala_package. Qed.
Print Assumptions C20_precedence_scala_package.

Theorem C20_precedence_scala_module_name :
  forall (file : option pconfig) (o : cli_options) (cfg : config),
    override_configuration (config_of_file file) o = COk cfg ->
    sc_module_name (c_scala cfg) = effective (o_scala_module_name o) (fkey file pc_scala psc_module_name) dstr /\
    forall m b, language_params Scala cfg m = BScala b -> bsc_module_name b = sc_module_name (c_scala cfg).
Proof. exact Proofs.C20.prec_scala_module_name. Qed.
Print Assumptions C20_precedence_scala_module_name.

Theorem C20_precedence_go_package :
  forall (file : option pconfig) (o : cli_options) (cfg : config),
    override_configuration (config_of_file file) o = COk cfg ->
    go_package (c_go cfg) = effective (o_go_package o) (fkey file pc_go pgo_package) dstr /\
    forall m b, language_params Go cfg m = BGo b -> bgo_package b = go_package (c_go cfg).
Proof. exact Proofs.C20.prec_go_package. Qed.
Print Assumptions C20_precedence_go_package.

(* (b) settings that exist only in the file pass through override_configuration unchanged, for any
   loaded configuration and any command line ... *)
Theorem C20_file_only_settings_unchanged :
  forall (cfg : config) (o : cli_options) (cfg' : config),
    override_configuration cfg o = COk cfg' ->
    sw_type_mappings (c_swift cfg') = sw_type_mappings (c_swift cfg) /\
    sw_default_decorators (c_swift cfg') = sw_default_decorators (c_swift cfg) /\
    sw_default_generic_constraints (c_swift cfg') = sw_default_generic_constraints (c_swift cfg) /\
    sw_codablevoid_constraints (c_swift cfg') = sw_codablevoid_constraints (c_swift cfg) /\
    kt_type_mappings (c_kotlin cfg') = kt_type_mappings (c_kotlin cfg) /\
    sc_type_mappings (c_scala cfg') = sc_type_mappings (c_scala cfg) /\
    c_typescript cfg' = c_typescript cfg /\
    c_python cfg' = c_python cfg /\
    go_type_mappings (c_go cfg') = go_type_mappings (c_go cfg) /\
    go_uppercase_acronyms (c_go cfg') = go_uppercase_acronyms (c_go cfg) /\
    go_no_pointer_slice (c_go cfg') = go_no_pointer_slice (c_go cfg).
Proof. exact Proofs.C20.file_only_pass_through. Qed.
Print Assumptions C20_file_only_settings_unchanged.

(* ... and reach the back-end records as the loaded configuration has them. *)
Theorem C20_file_only_settings_reach_backend :
  forall (cfg : config) (o : cli_options) (cfg' : config) (multi : bool),
    override_configuration cfg o = COk cfg' ->
    (forall b, language_params Swift cfg' multi = BSwift b ->
       bsw_type_mappings b = sw_type_mappings (c_swift cfg) /\
       bsw_default_decorators b = sw_default_decorators (c_swift cfg) /\
       bsw_default_generic_constraints b = sw_default_generic_constraints (c_swift cfg) /\
       bsw_codablevoid_constraints b = sw_codablevoid_constraints (c_swift cfg)) /\
    (forall b, language_params Kotlin cfg' multi = BKotlin b -> bkt_type_mappings b = kt_type_mappings (c_kotlin cfg)) /\
    (forall b, language_params Scala cfg' multi = BScala b -> bsc_type_mappings b = sc_type_mappings (c_scala cfg)) /\
    (forall b, language_params TypeScript cfg' multi = BTypeScript b -> bts_type_mappings b = tsc_type_mappings (c_typescript cfg)) /\
    (forall b, language_params Python cfg' multi = BPython b -> bpy_type_mappings b = py_type_mappings (c_python cfg)) /\
    (forall b, language_params Go cfg' multi = BGo b ->
       bgo_type_mappings b = go_type_mappings (c_go cfg) /\
       bgo_uppercase_acronyms b = go_uppercase_acronyms (c_go cfg) /\
       bgo_no_pointer_slice b = go_no_pointer_slice (c_go cfg)).
Proof. exact Proofs.C20.file_only_reach_backend. Qed.
Print Assumptions C20_file_only_settings_reach_backend.

(* override_configuration refuses exactly when the language is Go and the effective package is empty *)
Theorem C20_override_refuses_iff_go_without_package :
  forall (cfg : config) (o : cli_options),
    (exists e, override_configuration cfg o = CErr e) <->
    (o_language o = Some AGo /\ or_default (o_go_package o) (go_package (c_go cfg)) = []).
Proof. exact Proofs.C20.override_refuses_iff. Qed.
Print Assumptions C20_override_refuses_iff_go_without_package.

(* target_os is overwritten from the options (empty when the option is absent); whatever the loaded
   configuration held there is irrelevant. *)
Theorem C20_target_os_from_options_only :
  forall (cfg : config) (o : cli_options),
    override_configuration (persisted cfg) o = override_configuration cfg o /\
    forall cfg', override_configuration cfg o = COk cfg' -> c_target_os cfg' = or_default (o_target_os o) [].
Proof. exact Proofs.C20.target_os_from_options. Qed.
Print Assumptions C20_target_os_from_options_only.

(* (c) -g: the whole run is the specification - refusal for Go without a package, refusal when the
   target path exists (file system unchanged in both cases), otherwise the file system is extended at
   the target path with the serialised effective configuration over no file. *)
Theorem C20_generate_config_is_specification :
  forall (bytes : Type) (ser : config -> bytes) (fs : fsys bytes) (cwd : fpath) (o : cli_options),
    generate_config ser fs cwd o = expected_generate_config ser fs cwd o.
Proof. exact Proofs.C20.generate_config_spec. Qed.
Print Assumptions C20_generate_config_is_specification.

(* (c) store_config never overwrites: on an existing path it fails and the file system is unchanged *)
Theorem C20_store_existing_fails_fs_unchanged :
  forall (bytes : Type) (ser : config -> bytes) (fs : fsys bytes) (cwd : fpath) (cfg : config) (cp : option upath),
    is_file fs (store_target cwd cp) = true -> store_config ser fs cwd cfg cp = (fs, CErr EConfigExists).
Proof. exact Proofs.C20.store_existing. Qed.
Print Assumptions C20_store_existing_fails_fs_unchanged.

(* it fails only then, and no other path is ever touched *)
Theorem C20_store_fails_iff_exists :
  forall (bytes : Type) (ser : config -> bytes) (fs : fsys bytes) (cwd : fpath) (cfg : config) (cp : option upath),
    (exists e, snd (store_config ser fs cwd cfg cp) = CErr e) <-> is_file fs (store_target cwd cp) = true.
Proof. exact Proofs.C20.store_fails_iff_exists. Qed.
Print Assumptions C20_store_fails_iff_exists.

Theorem C20_store_touches_only_target :
  forall (bytes : Type) (ser : config -> bytes) (fs : fsys bytes) (cwd : fpath) (cfg : config) (cp : option upath) (q : fpath),
    q <> store_target cwd cp -> fs_lookup (fst (store_config ser fs cwd cfg cp)) q = fs_lookup fs q.
Proof. exact Proofs.C20.store_other_files_untouched. Qed.
Print Assumptions C20_store_touches_only_target.

(* (c) round trip, under the toml hypothesis: a configuration stored on a fresh path (the -c path, or
   typeshare.toml in the current directory, then found by discovery) loads back as exactly the stored
   configuration on all persisted fields; target_os is not persisted (persisted c = c with
   target_os := []). *)
Theorem C20_store_then_load_roundtrip :
  forall (bytes : Type) (ser : config -> bytes) (parse : bytes -> option pconfig),
    (forall c, de parse (ser c) = Some (persisted c)) ->
    forall (fs : fsys bytes) (cwd : fpath) (cfg : config) (cp : option upath),
      is_file fs (store_target cwd cp) = false ->
      load_config parse (fst (store_config ser fs cwd cfg cp)) cwd cp = COk (persisted cfg).
Proof. exact Proofs.C20.store_then_load. Qed.
Print Assumptions C20_store_then_load_roundtrip.

(* load (store (override default opts)) = override default opts on all persisted fields *)
Theorem C20_generate_config_then_load :
  forall (bytes : Type) (ser : config -> bytes) (parse : bytes -> option pconfig),
    (forall c, de parse (ser c) = Some (persisted c)) ->
    forall (fs : fsys bytes) (cwd : fpath) (o : cli_options) (fs' : fsys bytes),
      generate_config ser fs cwd o = (fs', COk tt) ->
      exists cfg, override_configuration default_config o = COk cfg /\
                  cfg = expected_config o None /\
                  load_config parse fs' cwd (o_config_file o) = COk (persisted cfg).
Proof. exact Proofs.C20.generate_config_then_load. Qed.
Print Assumptions C20_generate_config_then_load.

(* a later generating run that names the same location and sets no option gets the back end of the
   command line that wrote the file (or the Go refusal, if -g ran without a Go package) *)
Theorem C20_generate_config_then_generate :
  forall (bytes : Type) (ser : config -> bytes) (parse : bytes -> option pconfig),
    (forall c, de parse (ser c) = Some (persisted c)) ->
    forall (fs : fsys bytes) (cwd : fpath) (o : cli_options) (fs' : fsys bytes) (o2 : cli_options) (l : available_language),
      generate_config ser fs cwd o = (fs', COk tt) ->
      o_config_file o2 = o_config_file o -> no_setting_options o2 = true -> o_language o2 = Some l ->
      generate_types parse fs' cwd o2 =
        if is_go (Some l) && str_is_empty (eff_go_package o None) then CErr EGoPackageMissing
        else COk (expected_backend o None (supported_of l) (o_output_folder o2), or_default (o_target_os o2) []).
Proof. exact Proofs.C20.generate_config_then_generate. Qed.
Print Assumptions C20_generate_config_then_generate.

(* (d) -c wins over discovery: with an explicit path only that file matters - two file systems that
   agree on it give the same result, whatever typeshare.toml files the ancestors hold. *)
Theorem C20_explicit_config_wins :
  forall (bytes : Type) (parse : bytes -> option pconfig) (fs fs' : fsys bytes) (cwd : fpath) (u : upath),
    fs_lookup fs (resolve cwd u) = fs_lookup fs' (resolve cwd u) ->
    load_config parse fs cwd (Some u) = load_config parse fs' cwd (Some u).
Proof. exact Proofs.C20.explicit_config_wins. Qed.
Print Assumptions C20_explicit_config_wins.

(* (d) discovery returns the typeshare.toml of the nearest ancestor directory that has one *)
Theorem C20_discovery_nearest_ancestor :
  forall (bytes : Type) (fs : fsys bytes) (cwd p : fpath),
    find_configuration_file fs cwd = Some p ->
    exists d t, cwd = d ++ t /\ p = d ++ [CONFIG_FILE_NAME] /\ is_file fs p = true /\
      forall d' t', cwd = d' ++ t' -> (List.length d < List.length d')%nat -> is_file fs (d' ++ [CONFIG_FILE_NAME]) = false.
Proof. exact Proofs.C20.discovery_nearest. Qed.
Print Assumptions C20_discovery_nearest_ancestor.

(* ... and finds nothing exactly when no ancestor (the directory itself and the root included) has one *)
Theorem C20_discovery_none_iff_no_ancestor_file :
  forall (bytes : Type) (fs : fsys bytes) (cwd : fpath),
    find_configuration_file fs cwd = None <->
    forall d t, cwd = d ++ t -> is_file fs (d ++ [CONFIG_FILE_NAME]) = false.
Proof. exact Proofs.C20.discovery_none_iff. Qed.
Print Assumptions C20_discovery_none_iff_no_ancestor_file.

(* (d) the loop of find_configuration_file (push, is_file, pop twice) terminates: with any fuel above
   the depth of the current directory it never runs out, and computes the structural walk. *)
Theorem C20_discovery_loop_terminates :
  forall (bytes : Type) (fs : fsys bytes) (cwd : fpath) (fuel : nat),
    (List.length cwd < fuel)%nat -> find_loop fuel fs cwd = Some (find_configuration_file fs cwd).
Proof. exact Proofs.C20.discovery_fuel_monotone. Qed.
Print Assumptions C20_discovery_loop_terminates.
