(* C17 property theorems: statements only; proofs live in Proofs/C17.v.
   s, s0 : ANY file system; t, t1, t2 : ANY clock values; h : ANY history of earlier runs (any
   length); o : what parsing + generation handed the writer in the run under consideration
   (single-file or multi-file, any number of crates, any bytes, generation failures included,
   with or without Swift's shared Codable.swift).
   may_touch o = the paths the run can write; NoDup (may_touch o) = distinct output files.
   The model is of the code after fix 0622333 (Codable.swift compared with what is written);
   no finding class is carved out. *)
From TS Require Import Model.Str Model.Writer Spec.C17Spec.
From TS Require Proofs.C17.

(* (a) An identical second run changes nothing at all - bytes AND modification times of every file,
   Codable.swift included. *)
Theorem C17_idempotent :
  forall (s : fs) (t1 t2 : mtime) (o : outputs),
    NoDup (may_touch o) -> run (run s t1 o) t2 o = run s t1 o.
Proof. exact Proofs.C17.idempotent. Qed.
Print Assumptions C17_idempotent.

(* (a) over histories: after any history h from any initial file system, repeating the last run any
   number of times, at any times, leaves the file system exactly as the last run left it. *)
Theorem C17_idempotent_history :
  forall (s0 : fs) (h : history) (t : mtime) (o : outputs) (ts : list mtime),
    NoDup (may_touch o) ->
    run_history s0 (h ++ (t, o) :: map (fun t' => (t', o)) ts) = run_history s0 (h ++ [(t, o)]).
Proof. exact Proofs.C17.idempotent_history. Qed.
Print Assumptions C17_idempotent_history.

(* Codable.swift: a file holding the contents plus the newline write_codable appends is up to date
   and is left untouched, modification time included *)
Theorem C17_codable_up_to_date_untouched :
  forall (s : fs) (t : mtime) (folder : fpath) (crates : list (fpath * gen_result)) (c : bytes) (m : mtime),
    let o := MultiFile folder crates (Some c) in
    all_generated crates = true -> NoDup (may_touch o) ->
    fs_read s (codable_path folder) = Some (c ++ [ch_nl], m) ->
    fs_read (run s t o) (codable_path folder) = Some (c ++ [ch_nl], m).
Proof. exact Proofs.C17.codable_up_to_date_untouched. Qed.
Print Assumptions C17_codable_up_to_date_untouched.

(* Codable.swift: anything else under that name - absent, stale, or the contents WITHOUT the
   newline - is replaced by the contents plus newline and stamped with the time of the run *)
Theorem C17_codable_stale_rewritten :
  forall (s : fs) (t : mtime) (folder : fpath) (crates : list (fpath * gen_result)) (c : bytes),
    let o := MultiFile folder crates (Some c) in
    all_generated crates = true -> NoDup (may_touch o) ->
    content s (codable_path folder) <> Some (c ++ [ch_nl]) ->
    fs_read (run s t o) (codable_path folder) = Some (c ++ [ch_nl], t).
Proof. exact Proofs.C17.codable_stale_rewritten. Qed.
Print Assumptions C17_codable_stale_rewritten.

(* (b) After ANY history of runs from ANY initial file system, every file the last run is
   responsible for (Codable.swift included) and for which generation produced at least one byte
   holds exactly the bytes a run into an empty location produces. *)
Theorem C17_fresh :
  forall (s0 : fs) (h : history) (t t' : mtime) (o : outputs) (p : fpath) (b : bytes),
    NoDup (may_touch o) -> In (p, b) (responsible o) -> b <> [] ->
    content (run_history s0 (h ++ [(t, o)])) p = content (run empty_fs t' o) p.
Proof. exact Proofs.C17.fresh. Qed.
Print Assumptions C17_fresh.

(* ... and those bytes are the generated ones *)
Theorem C17_fresh_value :
  forall (s : fs) (t : mtime) (o : outputs) (p : fpath) (b : bytes),
    NoDup (may_touch o) -> In (p, b) (responsible o) -> b <> [] -> content (run s t o) p = Some b.
Proof. exact Proofs.C17.fresh_value. Qed.
Print Assumptions C17_fresh_value.

(* (b) skip-when-empty, exactly: a file for which generation produced no byte is left as it is -
   bytes and time stamp - so a stale file stays in place *)
Theorem C17_empty_output_keeps_file :
  forall (s : fs) (t : mtime) (o : outputs) (p : fpath),
    NoDup (may_touch o) -> In (p, []) (responsible o) -> fs_read (run s t o) p = fs_read s p.
Proof. exact Proofs.C17.empty_output_keeps_file. Qed.
Print Assumptions C17_empty_output_keeps_file.

(* hence (b) without the hypothesis b <> [] is false: an earlier output survives an empty one *)
Theorem C17_fresh_refuted :
  exists (s0 : fs) (h : history) (t t' : mtime) (o : outputs) (p : fpath) (b : bytes),
    NoDup (may_touch o) /\ In (p, b) (responsible o) /\
    content (run_history s0 (h ++ [(t, o)])) p <> content (run empty_fs t' o) p.
Proof. exact Proofs.C17.fresh_refuted. Qed.
Print Assumptions C17_fresh_refuted.

(* closed form of a run on a file it is responsible for: written (and stamped) iff the bytes
   differ and the new bytes are non-empty *)
Theorem C17_write_iff_changed :
  forall (s : fs) (t : mtime) (o : outputs) (p : fpath) (b : bytes),
    NoDup (may_touch o) -> In (p, b) (responsible o) ->
    fs_read (run s t o) p =
    match fs_read s p with
    | Some (old, m) => if str_eqb old b then Some (old, m) else if is_empty_bytes b then Some (old, m) else Some (b, t)
    | None => if is_empty_bytes b then None else Some (b, t)
    end.
Proof. exact Proofs.C17.run_read_responsible. Qed.
Print Assumptions C17_write_iff_changed.

(* (c) files a run cannot reach (a crate that disappeared, a Codable.swift no longer needed, anything
   else in the location) keep bytes and time stamp - over one run and over whole histories *)
Theorem C17_untouched :
  forall (s : fs) (t : mtime) (o : outputs) (p : fpath),
    ~ In p (may_touch o) -> fs_read (run s t o) p = fs_read s p.
Proof. exact Proofs.C17.untouched. Qed.
Print Assumptions C17_untouched.

Theorem C17_untouched_history :
  forall (h : history) (s : fs) (p : fpath),
    (forall r, In r h -> ~ In p (may_touch (snd r))) -> fs_read (run_history s h) p = fs_read s p.
Proof. exact Proofs.C17.untouched_history. Qed.
Print Assumptions C17_untouched_history.

(* error cases: parse errors stop before the writer; the exit status is 0 exactly for [succeeds] *)
Theorem C17_failed_parse_writes_nothing :
  forall (s : fs) (t : mtime), run s t ParseErrors = s.
Proof. exact Proofs.C17.failed_parse_writes_nothing. Qed.
Print Assumptions C17_failed_parse_writes_nothing.

Theorem C17_exit_status :
  forall (s : fs) (t : mtime) (o : outputs), snd (run_full s t o) = ExitOk <-> succeeds o = true.
Proof. exact Proofs.C17.status_spec. Qed.
Print Assumptions C17_exit_status.

(* the verdict predicates the check evaluates on observed file systems hold of the model *)
Theorem C17_rerun_good :
  forall (s : fs) (t1 t2 : mtime) (o : outputs),
    NoDup (may_touch o) -> good_rerun (run s t1 o) (run (run s t1 o) t2 o) = true.
Proof. exact Proofs.C17.rerun_good. Qed.
Print Assumptions C17_rerun_good.

Theorem C17_fresh_good :
  forall (s0 : fs) (h : history) (t t' : mtime) (o : outputs),
    NoDup (may_touch o) -> nonempty_outputs o = true ->
    good_fresh (map fst (responsible o)) (run_history s0 (h ++ [(t, o)])) (run empty_fs t' o) = true.
Proof. exact Proofs.C17.fresh_good. Qed.
Print Assumptions C17_fresh_good.

(* the computable domain test the check evaluates implies the NoDup hypothesis used above *)
Theorem C17_dom_nodup :
  forall (o : outputs), dom_C17 o = true -> NoDup (may_touch o).
Proof. exact Proofs.C17.dom_nodup. Qed.
Print Assumptions C17_dom_nodup.
