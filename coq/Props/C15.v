(* C15 property theorems: statements only; proofs live in Proofs/C15.v.
   Vocabulary (Spec/Lexers.v, Spec/C15Spec.v): a text is a list of pieces, literal (PLit) or doc text
   (PDoc); [mark] turns it into characters flagged "planted" where they come from a doc string;
   [c15_contained l LCode t] runs the reference lexer of language l over t from code mode and answers
   true iff every planted character is read inside a comment / docstring without ending it and the
   lexer is back in code mode at the end.  [<l>_tmpl indent docs] is the comment fragment of language
   l for the doc strings [docs]. *)
From Coq Require Import List String Permutation.
From TS Require Import Model.Str Model.Outcome Model.Unicode Model.Syntax Model.Attrs Model.Types Model.Parse Model.Rename.
From TS Require Import Model.TopsortAlgo Model.Topsort Model.Lang.Common.
From TS Require Import Model.Lang.TypeScript Model.Lang.Kotlin Model.Lang.Swift Model.Lang.Scala Model.Lang.Go Model.Lang.Python.
From TS Require Import Spec.Lexers Spec.C15Spec Spec.C15Render.
From TS Require Proofs.C15_Front Proofs.C15_Replace Proofs.C15 Proofs.C15_Render Proofs.C15_Kotlin Proofs.C15_Go Proofs.C15_Swift Proofs.C15_Python Proofs.C15_TypeScript.
From TS Require Import Spec.C15RenderSwift.
From TS Require Proofs.C15_SwiftItem.
From TS Require Import Spec.C15RenderGo.
From TS Require Proofs.C15_GoItem Proofs.C15_GoFile.
From TS Require Import Spec.C15RenderScPy.
From TS Require Proofs.C15_ScalaItem.
From TS Require Proofs.C15_PythonItem.
From TS Require Import Spec.C15RenderPyFile.
From TS Require Proofs.C15_PythonFile.
From TS Require Import Spec.C15RenderKtSc.
From TS Require Proofs.C15_KotlinFile.
From TS Require Proofs.C15_ScalaFile.
From TS Require Import Model.MultiFile Spec.C15MultiSpec.
From TS Require Model.Writer Proofs.C10Multi Proofs.C15Multi Proofs.C15MultiWitness Proofs.C15MultiMore.
Import ListNotations.

(* ---- front end (after the repair of parse_comment_attrs): a doc attribute with value v - which is what `/// v`,
   `/** v */` and #[doc = "v"] all are to syn - is carried as the LIST [c15_carried uc v] of Spec/C15Spec.v: the trimmed
   lines of the trimmed value (str::lines, then split at every remaining CR; an empty value is one empty line).
   parse_comment_attrs delivers exactly these lines, for all doc attributes in order ---- *)
Theorem C15_front_carried : forall uc attrs,
  parse_comment_attrs uc attrs =
  flat_map (c15_carried uc)
      (flat_map (fun a => match a_meta a with
                          | MNV p (VStr s) => if path_is_ident p (lit "doc") then [s] else []
                          | _ => []
                          end) attrs).
Proof. exact Proofs.C15.parse_comment_attrs_carried. Qed.
Print Assumptions C15_front_carried.

(* no carried line contains a line break: neither LF nor CR (for every white-space table uc; FF, VT, NEL, LS, PS are not
   line ends of a `//`, `///` or `#` comment in the reference lexers of Spec/Lexers.v, and inside a block comment or a
   docstring no line end matters) *)
Theorem C15_carried_no_break : forall uc v d, In d (c15_carried uc v) -> safe_line eol_lf_cr d = true.
Proof. exact Proofs.C15_Replace.c15_carried_no_break. Qed.
Print Assumptions C15_carried_no_break.
Theorem C15_front_no_break : forall uc attrs d, In d (parse_comment_attrs uc attrs) -> safe_line eol_lf_cr d = true.
Proof. exact Proofs.C15.parse_comment_attrs_no_break. Qed.
Print Assumptions C15_front_no_break.
(* hence every carried line is c15_safe in every language and comment form *)
Theorem C15_carried_safe : forall uc l docstring vs, forallb (c15_safe l docstring) (flat_map (c15_carried uc) vs) = true.
Proof. exact Proofs.C15.c15_carried_safe. Qed.
Print Assumptions C15_carried_safe.

(* ---- the two escapes: what the model's TypeScript / Python writers apply to a doc string (str::replace, leftmost
   non-overlapping) is the escape of Spec/C15Spec.v (c15_written): a backslash between `*` and `/`; three double quotes
   in a row become three escaped quotes.  The escaped text never contains a terminator: no `*/`; never three
   unescaped double quotes in a row, whatever the string (backslashes in front of quotes, runs of 4, 5, 6 .. quotes) ---- *)
Theorem C15_ts_escape_model : forall d, ts_escape_comment d = c15_esc_ts d.
Proof. exact Proofs.C15_Replace.ts_escape_comment_spec. Qed.
Print Assumptions C15_ts_escape_model.
Theorem C15_py_escape_model : forall d, py_escape_docstring d = c15_esc_py d.
Proof. exact Proofs.C15_Replace.py_escape_docstring_spec. Qed.
Print Assumptions C15_py_escape_model.
Theorem C15_ts_escape_safe : forall d, safe_ts (c15_esc_ts d) = true.
Proof. exact Proofs.C15.c15_esc_ts_safe. Qed.
Print Assumptions C15_ts_escape_safe.
Theorem C15_py_escape_safe : forall d, safe_py_docstring (c15_esc_py d) = true.
Proof. exact Proofs.C15.c15_esc_py_safe. Qed.
Print Assumptions C15_py_escape_safe.

(* ---- the fragments of Spec/C15Spec.v are what the model's six write_comments print, for any doc
   list and any indentation: same text, and the doc pieces are exactly the doc strings AS WRITTEN, in order
   (so every doc string is reproduced: verbatim, or modulo the escape for TypeScript / Python docstrings) ---- *)
Theorem C15_fragment_ts : forall indent docs,
  text_of (ts_tmpl indent docs) = ts_comments indent docs /\ docs_of (ts_tmpl indent docs) = map c15_esc_ts docs.
Proof. exact Proofs.C15.C15_fragment_ts. Qed.
Print Assumptions C15_fragment_ts.
Theorem C15_fragment_kt : forall indent docs,
  text_of (kt_tmpl indent docs) = kt_write_comments indent docs /\ docs_of (kt_tmpl indent docs) = docs.
Proof. exact Proofs.C15.C15_fragment_kt. Qed.
Print Assumptions C15_fragment_kt.
Theorem C15_fragment_sw : forall indent docs,
  text_of (sw_tmpl indent docs) = sw_render_comments indent docs /\ docs_of (sw_tmpl indent docs) = docs.
Proof. exact Proofs.C15.C15_fragment_sw. Qed.
Print Assumptions C15_fragment_sw.
Theorem C15_fragment_sc : forall indent docs,
  text_of (sc_tmpl indent docs) = sc_write_comments indent docs /\ docs_of (sc_tmpl indent docs) = docs.
Proof. exact Proofs.C15.C15_fragment_sc. Qed.
Print Assumptions C15_fragment_sc.
Theorem C15_fragment_go : forall indent docs,
  text_of (go_tmpl indent docs) = go_write_comments indent docs /\ docs_of (go_tmpl indent docs) = docs.
Proof. exact Proofs.C15.C15_fragment_go. Qed.
Print Assumptions C15_fragment_go.
Theorem C15_fragment_py : forall docstring indent docs,
  text_of (py_tmpl docstring indent docs) = py_write_comments docstring docs indent /\
  docs_of (py_tmpl docstring indent docs) = map (c15_written C15py docstring) docs.
Proof. exact Proofs.C15.C15_fragment_py. Qed.
Print Assumptions C15_fragment_py.

(* ---- containment, write_comments alone, WITHOUT any hypothesis on the attribute values: for EVERY list [vs] of
   doc attribute values and every indentation, the fragment printed for the lines they carry is contained: every
   character of every line (as written) is read inside the comment (docstring) and the lexer is back in code at the start
   of the line after the fragment.  For TypeScript and for Python docstrings this holds of ANY list of doc strings
   (also ones with line breaks, which only the IR-level entry can produce) ---- *)
Theorem C15_contained_ts : forall indent docs, c15_contained C15ts LCode (mark (ts_tmpl indent docs)) = true.
Proof. exact Proofs.C15.C15_contained_ts. Qed.
Print Assumptions C15_contained_ts.
Theorem C15_contained_kt : forall uc indent vs,
  c15_contained C15kt LCode (mark (kt_tmpl indent (flat_map (c15_carried uc) vs))) = true.
Proof. exact Proofs.C15.C15_contained_kt. Qed.
Print Assumptions C15_contained_kt.
Theorem C15_contained_sw : forall uc indent vs,
  c15_contained C15sw LCode (mark (sw_tmpl indent (flat_map (c15_carried uc) vs))) = true.
Proof. exact Proofs.C15.C15_contained_sw. Qed.
Print Assumptions C15_contained_sw.
Theorem C15_contained_sc : forall uc indent vs,
  c15_contained C15sc LCode (mark (sc_tmpl indent (flat_map (c15_carried uc) vs))) = true.
Proof. exact Proofs.C15.C15_contained_sc. Qed.
Print Assumptions C15_contained_sc.
Theorem C15_contained_go : forall uc indent vs,
  c15_contained C15go LCode (mark (go_tmpl indent (flat_map (c15_carried uc) vs))) = true.
Proof. exact Proofs.C15.C15_contained_go. Qed.
Print Assumptions C15_contained_go.
(* Python: docstring = true is the triple-double-quote form, false the `# ` form *)
Theorem C15_contained_py : forall uc docstring indent vs,
  c15_contained C15py LCode (mark (py_tmpl docstring indent (flat_map (c15_carried uc) vs))) = true.
Proof. exact Proofs.C15.C15_contained_py. Qed.
Print Assumptions C15_contained_py.
Theorem C15_contained_py_docstring : forall indent docs, c15_contained C15py LCode (mark (py_tmpl true indent docs)) = true.
Proof. exact Proofs.C15.C15_contained_py_docstring. Qed.
Print Assumptions C15_contained_py_docstring.

(* ---- exactness, all six languages and both Python forms, for ARBITRARY doc strings (the IR-level entry can put strings
   into the IR that no source text produces): the fragment is contained IF AND ONLY IF every doc string is c15_safe, i.e.
   its written form is safe_<l>.  On strings as written: no LF / CR (Go: no LF) for the line comments, no `*/`, no three
   unescaped double quotes in a row.  So a regression of the front end (a line break delivered again) or of an escape
   makes the fragment NOT contained: there is no carve-out left ---- *)
Theorem C15_exact : forall l docstring indent docs,
  c15_contained l LCode (mark (c15_tmpl l docstring indent docs)) = forallb (c15_safe l docstring) docs.
Proof. exact Proofs.C15.C15_exact. Qed.
Print Assumptions C15_exact.
Theorem C15_exact_written : forall l docstring indent ws,
  c15_contained l LCode (mark (c15_tmpl_w l docstring indent ws)) = forallb (c15_safe_w l docstring) ws.
Proof. exact Proofs.C15.C15_exact_w. Qed.
Print Assumptions C15_exact_written.
Theorem C15_no_finding_class : forall l sites, known_C15 l sites = None.
Proof. exact Proofs.C15.known_C15_none. Qed.
Print Assumptions C15_no_finding_class.

(* safe_<l> in words: no LF / CR (Go: no LF) in the string; no `*/` *)
Theorem C15_safe_line_meaning : forall eol d,
  safe_line eol d = true <-> (forall c, In c d -> eol c = false).
Proof. exact Proofs.C15.safe_line_meaning. Qed.
Print Assumptions C15_safe_line_meaning.
Theorem C15_safe_ts_meaning : forall d,
  safe_ts d = true <-> (forall a b, d <> a ++ [ch_star; ch_slash] ++ b).
Proof. exact Proofs.C15.safe_ts_meaning. Qed.
Print Assumptions C15_safe_ts_meaning.

(* ---- whole files, partial: a file that is a sequence of code parts and comment fragments is
   contained iff all doc strings of all fragments are c15_safe, PROVIDED every code part read from code
   mode ends in code mode.  Missing for the full statement: that the text the six printers write
   between the fragments has this property (whole-file lexing, owned by C10), and that the model's
   renderers place their write_comments calls at such boundaries; the correspondence check observes
   both on every generated file (model and real) instead. ---- *)
Theorem C15_file_partial : forall l ps, Forall (c15_code_neutral l) ps ->
  c15_contained l LCode (mark (c15_file_pieces l ps)) = forallb (c15_part_safe l) ps.
Proof. exact Proofs.C15.C15_file_exact. Qed.
Print Assumptions C15_file_partial.

(* ---- TypeScript, one item through the model's write_struct / write_enum / write_type_alias (any IR item,
   any configuration, any printer state): the printed text consists of code parts and comment fragments
   whose doc pieces are exactly the IR's doc strings of the item (type, fields, variants, struct-variant
   fields, alias) in source order, each written with its `*/` escaped - every one reproduced, nothing else derived
   from them - and the text is contained WHATEVER the doc strings are, provided the code parts keep the lexer in code
   mode (partial for the same reason as above) ---- *)
Theorem C15_ts_item_partial : forall (uc : unicode) (cfg : ts_config) it st text st',
  ts_write_item uc cfg it st = Ok (text, st') ->
  exists parts,
    text = text_of (c15_file_pieces C15ts parts) /\
    docs_of (c15_file_pieces C15ts parts) = map c15_esc_ts (c15_item_docs it) /\
    (Forall (c15_code_neutral C15ts) parts ->
     c15_contained C15ts LCode (mark (c15_file_pieces C15ts parts)) = true).
Proof. exact Proofs.C15.C15_ts_item_partial. Qed.
Print Assumptions C15_ts_item_partial.

(* ---- Scala, every declaration the model renders (type alias, case class with its members, empty class,
   sealed trait + companion object with its variants, helper aliases): code parts and comment fragments
   whose doc strings are exactly the declaration's (type doc, then member / variant docs, in print
   order); contained iff all are safe_sc (no LF / CR: true of everything the front end carries, C15_front_no_break),
   given neutral code parts (partial as above) ---- *)
Theorem C15_sc_render_partial : forall d : sc_decl,
  exists parts,
    sc_render_decl d = text_of (c15_file_pieces C15sc parts) /\
    docs_of (c15_file_pieces C15sc parts) = Proofs.C15.sc_decl_docs d /\
    (Forall (c15_code_neutral C15sc) parts ->
     c15_contained C15sc LCode (mark (c15_file_pieces C15sc parts)) = forallb safe_sc (Proofs.C15.sc_decl_docs d)).
Proof. exact Proofs.C15.C15_sc_render_partial. Qed.
Print Assumptions C15_sc_render_partial.

(* ---- regression pins: the witnesses of the six repaired findings (KNOWN_FINDINGS.jsonl, status fixed), through the
   model's front end and whole-file generators.  #[doc = " alpha<LF>beta "] (what `/** alpha<LF>beta */` is) on a struct
   is carried as the two lines alpha, beta; `alpha */ beta` and alpha, three double quotes, beta as one line each; the
   generated file reproduces every line as written and every character of it is read inside a comment / docstring,
   the lexer back in code at the end of the file. ---- *)
Theorem C15_kt_fixed : Proofs.C15.c15_pinned C15kt (lit " alpha" ++ [ch_nl] ++ lit "beta ") [lit "alpha"; lit "beta"].
Proof. exact Proofs.C15.C15_kt_fixed. Qed.
Print Assumptions C15_kt_fixed.
Theorem C15_sw_fixed : Proofs.C15.c15_pinned C15sw (lit " alpha" ++ [ch_nl] ++ lit "beta ") [lit "alpha"; lit "beta"].
Proof. exact Proofs.C15.C15_sw_fixed. Qed.
Print Assumptions C15_sw_fixed.
Theorem C15_sc_fixed : Proofs.C15.c15_pinned C15sc (lit " alpha" ++ [ch_nl] ++ lit "beta ") [lit "alpha"; lit "beta"].
Proof. exact Proofs.C15.C15_sc_fixed. Qed.
Print Assumptions C15_sc_fixed.
Theorem C15_go_fixed : Proofs.C15.c15_pinned C15go (lit " alpha" ++ [ch_nl] ++ lit "beta ") [lit "alpha"; lit "beta"].
Proof. exact Proofs.C15.C15_go_fixed. Qed.
Print Assumptions C15_go_fixed.
Theorem C15_ts_fixed : Proofs.C15.c15_pinned C15ts (lit "alpha */ beta") [lit "alpha */ beta"].
Proof. exact Proofs.C15.C15_ts_fixed. Qed.
Print Assumptions C15_ts_fixed.
Theorem C15_py_fixed : Proofs.C15.c15_pinned C15py (lit " alpha """""" beta") [lit "alpha """""" beta"].
Proof. exact Proofs.C15.C15_py_fixed. Qed.
Print Assumptions C15_py_fixed.

(* ======================= renderer level, the other back ends (Spec/C15Render.v) =======================
   Kotlin, Swift, Go and Python do not inline struct variants: write_types_for_anonymous_structs prints
   one helper struct per struct variant IN FRONT of the enum, under a comment typeshare writes itself,
   and the doc strings of the variant's fields move there.  [c15_item_docs_helpers_first it] is that print
   order, [c15_item_generated it] the generated comments.  First: the print order is a rearrangement of
   the IR's doc strings of the item plus the generated comments - nothing lost, nothing else added. *)
Theorem C15_helpers_first_perm : forall it,
  Permutation (c15_item_docs_helpers_first it) (c15_item_generated it ++ c15_item_docs it).
Proof. exact Proofs.C15_Render.c15_helpers_first_perm. Qed.
Print Assumptions C15_helpers_first_perm.

(* ---- Kotlin, one item through the model's write_struct / write_enum (with the helper data classes) /
   write_type_alias (typealias and value class), any configuration: the printed text is code parts and
   `/// ` fragments whose doc strings are exactly [c15_item_docs_helpers_first it], in this order - every doc
   string of the item reproduced - and the text is contained iff all of them are safe_kt (no LF / CR: true of every
   string the front end carries, C15_front_no_break; the IR-level entry can violate it), provided the
   code parts keep the lexer in code mode (partial for that hypothesis, as C15_file_partial) ---- *)
Theorem C15_kt_render_partial : forall (cfg : kt_config) it text,
  kt_write_item cfg it = Ok text ->
  exists parts,
    text = text_of (c15_file_pieces C15kt parts) /\
    docs_of (c15_file_pieces C15kt parts) = c15_item_docs_helpers_first it /\
    (Forall (c15_code_neutral C15kt) parts ->
     c15_contained C15kt LCode (mark (c15_file_pieces C15kt parts)) =
     forallb safe_kt (c15_item_docs_helpers_first it)).
Proof. exact Proofs.C15_Kotlin.C15_kt_render_partial. Qed.
Print Assumptions C15_kt_render_partial.

(* ---- Go, one item through the model's write_struct / write_enum (helper structs, string enum, tagged
   enum with its key type, constants, UnmarshalJSON / MarshalJSON, accessors, constructors) /
   write_type_alias / write_const, any configuration, any set of known struct names and any printer
   state (the imports collected so far): code parts and `// ` fragments whose doc strings are exactly
   [c15_item_docs_helpers_first it], in this order; contained iff all are safe_go, given neutral code
   parts (partial as above) ---- *)
Theorem C15_go_render_partial : forall (uc : unicode) (cfg : go_config) custom_structs it st text st',
  go_write_item uc cfg custom_structs it st = Ok (text, st') ->
  exists parts,
    text = text_of (c15_file_pieces C15go parts) /\
    docs_of (c15_file_pieces C15go parts) = c15_item_docs_helpers_first it /\
    (Forall (c15_code_neutral C15go) parts ->
     c15_contained C15go LCode (mark (c15_file_pieces C15go parts)) =
     forallb safe_go (c15_item_docs_helpers_first it)).
Proof. exact Proofs.C15_Go.C15_go_render_partial. Qed.
Print Assumptions C15_go_render_partial.

(* ---- Swift, one item through the model's write_struct / write_enum (helper structs, cases, CodingKeys,
   init(from:), encode(to:)) / write_type_alias, any configuration and printer state: code parts and
   `/// ` fragments whose doc strings are exactly the strings of [c15_item_docs_helpers_first it], each
   WITHOUT ITS TRAILING WHITE SPACE (swift.rs write_comment prints comment.trim_end(); the front end
   delivers trimmed strings, so this is the identity on what parse_comment_attrs produces), in this
   order; contained iff all are safe_sw, given neutral code parts (partial as above) ---- *)
Theorem C15_sw_render_partial : forall (uc : unicode) (cfg : sw_config) it st text st',
  sw_write_item uc cfg it st = Ok (text, st') ->
  exists parts,
    text = text_of (c15_file_pieces C15sw parts) /\
    docs_of (c15_file_pieces C15sw parts) = c15_sw_item_docs uc it /\
    (Forall (c15_code_neutral C15sw) parts ->
     c15_contained C15sw LCode (mark (c15_file_pieces C15sw parts)) =
     forallb safe_sw (c15_sw_item_docs uc it)).
Proof. exact Proofs.C15_Swift.C15_sw_render_partial. Qed.
Print Assumptions C15_sw_render_partial.

(* ---- Python, one item through the model's write_struct / write_enum (helper classes, (str, Enum) class,
   Types class + variant classes + Union alias) / write_type_alias / write_const, any configuration and
   printer state.  [c15_py_item_sites it] lists the documented positions in Python's print order with the
   form each is printed in: (true, d) a docstring (it FOLLOWS the line it documents), (false, d) a `# `
   line (only the doc of an algebraic enum, printed after the variant classes).  The text is code
   parts and comment fragments carrying exactly these doc strings in this order, each as written in its form
   (c15_site_text: three double quotes escaped in a docstring, verbatim in a `# ` line); it is contained iff
   every `# ` string is free of LF / CR (c15_site_ok is constantly true on docstring sites: C15_py_escape_safe),
   given neutral code parts (partial as above).  The second theorem: this order is a rearrangement of the IR's doc strings of
   the item plus the generated helper comments. ---- *)
Theorem C15_py_render_partial : forall (uc : unicode) (cfg : py_config) it st text st',
  py_write_item uc cfg it st = Ok (text, st') ->
  exists parts,
    text = text_of (c15_file_pieces C15py parts) /\
    docs_of (c15_file_pieces C15py parts) = map (c15_site_text C15py) (c15_py_item_sites it) /\
    (Forall (c15_code_neutral C15py) parts ->
     c15_contained C15py LCode (mark (c15_file_pieces C15py parts)) =
     forallb (c15_site_ok C15py) (c15_py_item_sites it)).
Proof. exact Proofs.C15_Python.C15_py_render_partial. Qed.
Print Assumptions C15_py_render_partial.
Theorem C15_py_sites_perm : forall it,
  Permutation (map snd (c15_py_item_sites it)) (c15_item_generated it ++ c15_item_docs it).
Proof. exact Proofs.C15_Python.c15_py_sites_perm. Qed.
Print Assumptions C15_py_sites_perm.

(* ======================= whole items WITHOUT the neutrality hypothesis =======================
   [c15_item_plain l lg const_name it] (Spec/C15Render.v, decidable): the identifiers of the item (names,
   generic parameters, keys, tag / content keys, the identifiers of its types, verbatim type overrides,
   the printed name of a constant) contain no character that opens a comment or a literal of language l,
   and what is printed between double quotes through {:?} contains no control character and no
   U+2028/9.  [c15_mappings_plain]: the same for the target texts of type_mappings.  Under these the code
   the printer writes around the comment fragments keeps the reference lexer in code mode (every
   literal fragment of the templates, generics, printed types by induction over the type, {:?}-quoted
   keys and wire names, decimal constants), so: *)

(* ---- TypeScript, one item, any printer state: the printed text is contained, whatever the doc strings of the
   item are, and they are all reproduced (with `*/` escaped), in source order ---- *)
Theorem C15_ts_item : forall (uc : unicode) (cfg : ts_config),
  c15_mappings_plain C15ts (ts_type_mappings cfg) = true ->
  forall it st text st',
  c15_item_plain C15ts TypeScript (fun n => str_to_uppercase uc (to_snake_case uc n)) it = true ->
  ts_write_item uc cfg it st = Ok (text, st') ->
  exists parts,
    text = text_of (c15_file_pieces C15ts parts) /\
    docs_of (c15_file_pieces C15ts parts) = map c15_esc_ts (c15_item_docs it) /\
    c15_contained C15ts LCode (mark (c15_file_pieces C15ts parts)) = true.
Proof. exact Proofs.C15_TypeScript.C15_ts_item. Qed.
Print Assumptions C15_ts_item.

(* ---- Kotlin, one item, without the neutrality hypothesis.  [c15_item_strict l lg it] (Spec/C15Render.v,
   decidable): every identifier of the item (names, field keys, variant names, the identifiers of its
   types) is a NON-EMPTY string of characters that open no comment and no literal, are no control
   characters and no backslash; generic parameters, the content key and verbatim type overrides are
   plain.  (Non-empty and backslash-free because kotlin.rs prints the wire name of a sealed-class
   variant between double quotes verbatim, and two adjacent quotes may open a raw string.)  With a plain
   prefix and plain type_mappings targets, the text kt_write_item prints - helper data classes with their
   @SerialName lines and toString() literal, data / value / enum / sealed classes, typealias - is
   contained iff all doc strings of the item (print order) are safe_kt - free of LF / CR, as every string the front
   end carries is ---- *)
Theorem C15_kt_item : forall (cfg : kt_config),
  c15_plain C15kt (kt_prefix cfg) = true ->
  c15_mappings_plain C15kt (kt_type_mappings cfg) = true ->
  forall it text,
  c15_item_strict C15kt Kotlin it = true ->
  kt_write_item cfg it = Ok text ->
  exists parts,
    text = text_of (c15_file_pieces C15kt parts) /\
    docs_of (c15_file_pieces C15kt parts) = c15_item_docs_helpers_first it /\
    c15_contained C15kt LCode (mark (c15_file_pieces C15kt parts)) =
    forallb safe_kt (c15_item_docs_helpers_first it).
Proof. exact Proofs.C15_Kotlin.C15_kt_item. Qed.
Print Assumptions C15_kt_item.

(* ---- TypeScript, WHOLE FILES (ts_generate: version header, the items in topological order with the printer
   state threaded through them, the reviver / replacer trailer), no neutrality hypothesis.  For every parsed
   program whose items are plain (as above), whose field keys contain no double quote, backslash or line
   terminator (c15_ts_item_keys_ok: the trailer prints the keys of Date-typed fields raw between double quotes),
   with plain type_mappings targets and a version string without `*` (it is printed inside a block comment):
   the generated file is code parts and comment fragments whose doc strings are the doc strings of the items in
   output order (a permutation of the program's items), each with `*/` escaped, followed - when the trailer is printed -
   by the four comment lines typeshare writes itself; and the file is contained, whatever the doc strings are. ---- *)
Theorem C15_ts_file : forall (uc : unicode) (cfg : ts_config),
  c15_mappings_plain C15ts (ts_type_mappings cfg) = true ->
  forall pd text,
  c15_no_star (ts_version cfg) = true ->
  forallb (c15_item_plain C15ts TypeScript (fun n => str_to_uppercase uc (to_snake_case uc n))) (items_of pd) = true ->
  forallb c15_ts_item_keys_ok (items_of pd) = true ->
  ts_generate uc cfg pd = Ok text ->
  exists items trailer parts,
    topsort (items_of pd) = Ok items /\ Permutation items (items_of pd) /\
    (trailer = [] \/ trailer = c15_ts_trailer_docs) /\
    text = text_of (c15_file_pieces C15ts parts) /\
    docs_of (c15_file_pieces C15ts parts) = map c15_esc_ts (flat_map c15_item_docs items ++ trailer) /\
    c15_contained C15ts LCode (mark (c15_file_pieces C15ts parts)) = true.
Proof. exact Proofs.C15_TypeScript.C15_ts_file. Qed.
Print Assumptions C15_ts_file.

(* ======================= front end to IR: parsed items =======================
   Every doc string of every item the model's four item parsers return (parse_struct - also a tuple struct turned
   alias and a serialized_as override -, parse_enum, parse_type_alias, parse_const) is a carried line of a doc
   attribute of the item or of one of its members: free of LF and CR.  So on parsed items the `contained iff all doc
   strings are safe_<l>` statements above are `contained`. *)
Theorem C15_parsed_struct_line_free : forall uc tstr T attrs ident gens fs it,
  parse_struct uc tstr T attrs ident gens fs = Ok it ->
  Forall (fun d => safe_line eol_lf_cr d = true) (c15_item_docs it).
Proof. exact Proofs.C15_Front.c15_parse_struct_free. Qed.
Print Assumptions C15_parsed_struct_line_free.
Theorem C15_parsed_enum_line_free : forall uc tstr T attrs ident gens vs it,
  parse_enum uc tstr T attrs ident gens vs = Ok it ->
  Forall (fun d => safe_line eol_lf_cr d = true) (c15_item_docs it).
Proof. exact Proofs.C15_Front.c15_parse_enum_free. Qed.
Print Assumptions C15_parsed_enum_line_free.
Theorem C15_parsed_alias_line_free : forall uc tstr attrs ident gens t it,
  parse_type_alias uc tstr attrs ident gens t = Ok it ->
  Forall (fun d => safe_line eol_lf_cr d = true) (c15_item_docs it).
Proof. exact Proofs.C15_Front.c15_parse_type_alias_free. Qed.
Print Assumptions C15_parsed_alias_line_free.

(* ---- Kotlin, one item whose doc strings are free of line breaks (every parsed item), on the input class of C15_kt_item:
   the printed text - helper data classes under their generated comments included - is contained ---- *)
Theorem C15_kt_item_line_free : forall (cfg : kt_config),
  c15_plain C15kt (kt_prefix cfg) = true ->
  c15_mappings_plain C15kt (kt_type_mappings cfg) = true ->
  forall it text,
  c15_item_strict C15kt Kotlin it = true ->
  Forall (fun d => safe_line eol_lf_cr d = true) (c15_item_docs it) ->
  kt_write_item cfg it = Ok text ->
  exists parts,
    text = text_of (c15_file_pieces C15kt parts) /\
    docs_of (c15_file_pieces C15kt parts) = c15_item_docs_helpers_first it /\
    c15_contained C15kt LCode (mark (c15_file_pieces C15kt parts)) = true.
Proof. exact Proofs.C15_Front.C15_kt_item_line_free. Qed.
Print Assumptions C15_kt_item_line_free.

(* ---- Swift, one item, without the neutrality hypothesis.  [c15_sw_item_ok it] (Spec/C15RenderSwift.v, decidable) is
   [c15_item_strict C15sw Swift it] - every identifier of the item (names, field keys, variant names and wire names, the
   identifiers of its types) a NON-EMPTY string without `/`, double quote, backslash and control characters; generic
   parameters, the content key and verbatim type overrides plain (no `/`, no double quote: the two characters the Swift
   reference lexer reacts to in code) - plus what swift.rs prints bare in addition: the tag key, and the texts of the
   item's #[typeshare(swift = "..")] decorators and #[typeshare(swiftGenericConstraints = "..")] constraints are plain.
   (Non-empty and backslash-free because swift.rs prints the raw value of a CodingKeys case between double quotes verbatim.)
   Configuration: the prefix contains no `/`, double quote, backslash, LF or CR ([c15_sw_raw]: it is printed bare in front of
   every type name AND inside the string literal "Wrong type for <name>" of init(from:)); type_mappings targets, default
   decorators and default generic constraints are plain.  Then the text sw_write_item prints, in any printer state -
   helper structs of struct variants, struct heads with generic constraints and conformance lists, stored properties,
   CodingKeys with raw values, init; String-backed enums with {:?}-quoted raw values; tagged enums with cases,
   CodingKeys, ContainerCodingKeys, init(from:), encode(to:); typealias (write_const returns an error) - is code parts and
   `/// ` fragments carrying exactly the item's doc strings in Swift's print order, each without its trailing white space,
   and it is contained iff all of them are safe_sw (free of LF / CR, as every string the front end carries is).  No
   assumption on the Unicode tables: to_camel_case only changes ASCII letters, trim / split only take sub-strings ---- *)
Theorem C15_sw_item : forall (uc : unicode) (cfg : sw_config),
  c15_sw_raw (sw_prefix cfg) = true ->
  c15_mappings_plain C15sw (sw_type_mappings cfg) = true ->
  forallb (c15_plain C15sw) (sw_default_decorators cfg) = true ->
  forallb (c15_plain C15sw) (sw_default_generic_constraints cfg) = true ->
  forall it st text st',
  c15_sw_item_ok it = true ->
  sw_write_item uc cfg it st = Ok (text, st') ->
  exists parts,
    text = text_of (c15_file_pieces C15sw parts) /\
    docs_of (c15_file_pieces C15sw parts) = c15_sw_item_docs uc it /\
    c15_contained C15sw LCode (mark (c15_file_pieces C15sw parts)) = forallb safe_sw (c15_sw_item_docs uc it).
Proof. exact Proofs.C15_SwiftItem.C15_sw_item. Qed.
Print Assumptions C15_sw_item.

(* ---- Swift, one item whose doc strings are free of line breaks (every parsed item: C15_parsed_*_line_free), on the input
   class of C15_sw_item: the printed text - helper structs under their generated comments included - is contained ---- *)
Theorem C15_sw_item_line_free : forall (uc : unicode) (cfg : sw_config),
  c15_sw_raw (sw_prefix cfg) = true ->
  c15_mappings_plain C15sw (sw_type_mappings cfg) = true ->
  forallb (c15_plain C15sw) (sw_default_decorators cfg) = true ->
  forallb (c15_plain C15sw) (sw_default_generic_constraints cfg) = true ->
  forall it st text st',
  c15_sw_item_ok it = true ->
  Forall (fun d => safe_line eol_lf_cr d = true) (c15_item_docs it) ->
  sw_write_item uc cfg it st = Ok (text, st') ->
  exists parts,
    text = text_of (c15_file_pieces C15sw parts) /\
    docs_of (c15_file_pieces C15sw parts) = c15_sw_item_docs uc it /\
    c15_contained C15sw LCode (mark (c15_file_pieces C15sw parts)) = true.
Proof. exact Proofs.C15_SwiftItem.C15_sw_item_line_free. Qed.
Print Assumptions C15_sw_item_line_free.

(* ---- Swift, WHOLE FILES (sw_generate: version header, `import Foundation`, the items in topological order with the
   printer state - "() was translated" - threaded through them, the CodableVoid helper struct at the end when it was), no
   neutrality hypothesis.  For every parsed program whose items are in the class of C15_sw_item, under the configuration
   hypotheses of C15_sw_item, with plain codablevoid constraints (printed in the head of the helper struct) and a version
   string without `*` and `/` (it is printed inside a block comment, which nests in Swift): the generated file is code parts
   and `/// ` fragments whose doc strings are the doc strings of the items in output order (a permutation of the program's
   items; per item Swift's print order, trailing white space removed), followed - when the helper struct is printed - by the
   comment line typeshare writes itself; the file is contained iff all doc strings of the items are safe_sw.  Second
   theorem: when the doc strings are free of line breaks (every parsed item: C15_parsed_*_line_free) it is contained. ---- *)
Theorem C15_sw_file : forall (uc : unicode) (cfg : sw_config),
  c15_sw_raw (sw_prefix cfg) = true ->
  c15_mappings_plain C15sw (sw_type_mappings cfg) = true ->
  forallb (c15_plain C15sw) (sw_default_decorators cfg) = true ->
  forallb (c15_plain C15sw) (sw_default_generic_constraints cfg) = true ->
  forallb (c15_plain C15sw) (sw_codablevoid_constraints cfg) = true ->
  c15_sw_version_ok (sw_version cfg) = true ->
  forall pd text,
  forallb c15_sw_item_ok (items_of pd) = true ->
  sw_generate uc cfg pd = Ok text ->
  exists items trailer parts,
    topsort (items_of pd) = Ok items /\ Permutation items (items_of pd) /\
    (trailer = [] \/ trailer = c15_sw_trailer_docs) /\
    text = text_of (c15_file_pieces C15sw parts) /\
    docs_of (c15_file_pieces C15sw parts) = flat_map (c15_sw_item_docs uc) items ++ trailer /\
    c15_contained C15sw LCode (mark (c15_file_pieces C15sw parts)) =
    forallb safe_sw (flat_map (c15_sw_item_docs uc) items).
Proof. exact Proofs.C15_SwiftItem.C15_sw_file. Qed.
Print Assumptions C15_sw_file.
Theorem C15_sw_file_line_free : forall (uc : unicode) (cfg : sw_config),
  c15_sw_raw (sw_prefix cfg) = true ->
  c15_mappings_plain C15sw (sw_type_mappings cfg) = true ->
  forallb (c15_plain C15sw) (sw_default_decorators cfg) = true ->
  forallb (c15_plain C15sw) (sw_default_generic_constraints cfg) = true ->
  forallb (c15_plain C15sw) (sw_codablevoid_constraints cfg) = true ->
  c15_sw_version_ok (sw_version cfg) = true ->
  forall pd text,
  forallb c15_sw_item_ok (items_of pd) = true ->
  Forall (fun it => Forall (fun d => safe_line eol_lf_cr d = true) (c15_item_docs it)) (items_of pd) ->
  sw_generate uc cfg pd = Ok text ->
  exists items trailer parts,
    topsort (items_of pd) = Ok items /\ Permutation items (items_of pd) /\
    (trailer = [] \/ trailer = c15_sw_trailer_docs) /\
    text = text_of (c15_file_pieces C15sw parts) /\
    docs_of (c15_file_pieces C15sw parts) = flat_map (c15_sw_item_docs uc) items ++ trailer /\
    c15_contained C15sw LCode (mark (c15_file_pieces C15sw parts)) = true.
Proof. exact Proofs.C15_SwiftItem.C15_sw_file_line_free. Qed.
Print Assumptions C15_sw_file_line_free.
(* ======================= Go, whole items WITHOUT the neutrality hypothesis =======================
   The Go reference lexer (Spec/Lexers.v cfg_go) reacts in code position to `/` (comment), double and single quote
   (interpreted string, rune) and the backtick (raw string).  [c15_go_item_ok it] (Spec/C15RenderGo.v, decidable):
   - every name that go.rs prints bare - the struct's name, the Rust names of fields, enum, variants and alias, generic
     parameters, tag and content key (they become field names and parts of type / constant names), the identifiers of
     the types, verbatim type overrides, the name of a constant - is a string of PRINTABLE ASCII characters other than
     `/`, the two quotes and the backtick ([c15_go_code]: identifiers, dashed keys, texts such as map[string]*Foo).
     ASCII because these names pass through to_pascal_case / to_camel_case and the acronym rewriting of go.rs:579,
     which on ASCII input with ASCII acronyms only changes the case of letters (Proofs/GoAcronyms.v; hence
     [unicode_ok uc], the ASCII behaviour of the Unicode tables, as in Props/C09.v / C12.v);
   - the JSON key of a field, printed through {:?} inside the raw string of the struct tag, has no control character,
     no U+2028/9 and no backtick ([c15_go_tag]; quotes, backslashes, `-`, non-ASCII letters are fine);
   - the wire name of a variant, printed through {:?} in code position, has no control character and no U+2028/9
     ([c15_lit_str]).
   With type_mappings targets of the first kind and ASCII acronyms, the text go_write_item prints for ANY printer state
   and any set of known struct names - helper structs with their struct tags, struct, string enum with its const block,
   tagged enum with key type, constants, the enum struct, UnmarshalJSON / MarshalJSON with their raw-string tags,
   accessors, constructors, type alias, constant - is code parts and `// ` fragments whose doc strings are exactly
   [c15_item_docs_helpers_first it], in this order, and it is contained iff all of them are safe_go (no LF: true of
   every string the front end carries, C15_front_no_break).  All four item kinds are covered. *)
Theorem C15_go_item : forall (uc : unicode) (cfg : go_config) custom_structs,
  unicode_ok uc ->
  c15_go_mappings_ok (go_type_mappings cfg) = true ->
  forallb (forallb is_ascii) (go_uppercase_acronyms cfg) = true ->
  forall it st text st',
  c15_go_item_ok it = true ->
  go_write_item uc cfg custom_structs it st = Ok (text, st') ->
  exists parts,
    text = text_of (c15_file_pieces C15go parts) /\
    docs_of (c15_file_pieces C15go parts) = c15_item_docs_helpers_first it /\
    c15_contained C15go LCode (mark (c15_file_pieces C15go parts)) = forallb safe_go (c15_item_docs_helpers_first it).
Proof. exact Proofs.C15_GoItem.C15_go_item_all. Qed.
Print Assumptions C15_go_item.

(* ---- Go, one item whose doc strings are free of line breaks (every parsed item: C15_parsed_*_line_free), on the input
   class of C15_go_item: the printed text - helper structs under their generated comments included (the names they are
   built from are printable on the class) - is contained ---- *)
Theorem C15_go_item_line_free : forall (uc : unicode) (cfg : go_config) custom_structs,
  unicode_ok uc ->
  c15_go_mappings_ok (go_type_mappings cfg) = true ->
  forallb (forallb is_ascii) (go_uppercase_acronyms cfg) = true ->
  forall it st text st',
  c15_go_item_ok it = true ->
  Forall (fun d => safe_line eol_lf_cr d = true) (c15_item_docs it) ->
  go_write_item uc cfg custom_structs it st = Ok (text, st') ->
  exists parts,
    text = text_of (c15_file_pieces C15go parts) /\
    docs_of (c15_file_pieces C15go parts) = c15_item_docs_helpers_first it /\
    c15_contained C15go LCode (mark (c15_file_pieces C15go parts)) = true.
Proof. exact Proofs.C15_GoItem.C15_go_item_line_free. Qed.
Print Assumptions C15_go_item_line_free.

(* ---- Go, WHOLE FILES (go_generate: the version header line, the package clause, the import block collected while the
   items are printed, the items in topological order with the printer state threaded through them), no neutrality
   hypothesis.  For every parsed program whose items are in the class of C15_go_item, with type_mappings targets and
   acronyms as there and a package name without `/`, quotes and backtick: the generated file is code parts and `// `
   fragments whose doc strings are - unless no_version_header is set - the line typeshare writes at the top of the file
   (the version string is printed inside this comment), followed by the doc strings of the items in output order (a
   permutation of the program's items; helper structs first within an enum); and the file is contained iff all these
   strings are safe_go.  The import block is neutral whatever the items are: the printer state only ever receives the
   two import paths go.rs adds itself.  Second theorem: with doc strings free of line breaks (every parsed item) and a
   version string without a line feed, the file is contained. ---- *)
Theorem C15_go_file : forall (uc : unicode), unicode_ok uc -> forall (cfg : go_config),
  c15_go_mappings_ok (go_type_mappings cfg) = true ->
  forallb (forallb is_ascii) (go_uppercase_acronyms cfg) = true ->
  c15_plain C15go (go_package cfg) = true ->
  forall pd text,
  forallb c15_go_item_ok (items_of pd) = true ->
  go_generate uc cfg pd = Ok text ->
  let header := if go_no_version_header cfg then []
                else [lit "Code generated by typeshare " ++ go_version cfg ++ lit ". DO NOT EDIT."] in
  exists items parts,
    topsort (items_of pd) = Ok items /\ Permutation items (items_of pd) /\
    text = text_of (c15_file_pieces C15go parts) /\
    docs_of (c15_file_pieces C15go parts) = header ++ flat_map c15_item_docs_helpers_first items /\
    c15_contained C15go LCode (mark (c15_file_pieces C15go parts)) =
    forallb safe_go (header ++ flat_map c15_item_docs_helpers_first items).
Proof. exact Proofs.C15_GoFile.C15_go_file. Qed.
Print Assumptions C15_go_file.
Theorem C15_go_file_line_free : forall (uc : unicode), unicode_ok uc -> forall (cfg : go_config),
  c15_go_mappings_ok (go_type_mappings cfg) = true ->
  forallb (forallb is_ascii) (go_uppercase_acronyms cfg) = true ->
  c15_plain C15go (go_package cfg) = true ->
  forall pd text,
  forallb c15_go_item_ok (items_of pd) = true ->
  Forall (fun d => safe_line eol_lf_cr d = true) (flat_map c15_item_docs (items_of pd)) ->
  safe_go (go_version cfg) = true ->
  go_generate uc cfg pd = Ok text ->
  let header := if go_no_version_header cfg then []
                else [lit "Code generated by typeshare " ++ go_version cfg ++ lit ". DO NOT EDIT."] in
  exists items parts,
    topsort (items_of pd) = Ok items /\ Permutation items (items_of pd) /\
    text = text_of (c15_file_pieces C15go parts) /\
    docs_of (c15_file_pieces C15go parts) = header ++ flat_map c15_item_docs_helpers_first items /\
    c15_contained C15go LCode (mark (c15_file_pieces C15go parts)) = true.
Proof. exact Proofs.C15_GoFile.C15_go_file_line_free. Qed.
Print Assumptions C15_go_file_line_free.
(* ======================= Scala WITHOUT the neutrality hypothesis =======================
   [c15_sc_decl_plain d] (Spec/C15RenderScPy.v, decidable) on an abstract declaration of the model's layout layer: its
   name, generic parameters, member / variant / parent / content-key names and every PRINTED type contain no `/`, no
   double and no single quote (the characters that open a comment or a literal for the Scala reference lexer), and the
   wire name of every variant - printed between double quotes through {:?} - is non-empty and free of control
   characters.  For every such declaration (type alias, case class, empty class, sealed trait + companion object,
   helper aliases) the rendered text is code parts and `// ` fragments carrying exactly the declaration's doc strings,
   in print order, and it is contained iff all of them are safe_sc (no LF / CR) - no hypothesis on the code parts. ---- *)
Theorem C15_sc_decl : forall d : sc_decl,
  c15_sc_decl_plain d = true ->
  exists parts,
    sc_render_decl d = text_of (c15_file_pieces C15sc parts) /\
    docs_of (c15_file_pieces C15sc parts) = Proofs.C15.sc_decl_docs d /\
    c15_contained C15sc LCode (mark (c15_file_pieces C15sc parts)) = forallb safe_sc (Proofs.C15.sc_decl_docs d).
Proof. exact Proofs.C15_ScalaItem.C15_sc_decl. Qed.
Print Assumptions C15_sc_decl.

(* ---- Scala, one IR item through the model's write_struct / write_enum (helper case classes of struct variants first,
   then the sealed trait and its companion object) / write_type_alias (write_const is todo!() in scala.rs and is never
   reached: no text), on the strict input class of C15_kt_item (non-empty identifiers without comment / literal openers,
   control characters and backslashes; plain generic parameters, content key and type overrides) with plain
   type_mappings targets: the declarations computed for the item are plain in the sense above, the printed text
   carries exactly [c15_item_docs_helpers_first it], in this order, and it is contained iff all of them are safe_sc ---- *)
Theorem C15_sc_item : forall (cfg : sc_config),
  c15_mappings_plain C15sc (sc_type_mappings cfg) = true ->
  forall it text,
  c15_item_strict C15sc Scala it = true ->
  sc_write_item cfg it = Ok text ->
  exists parts,
    text = text_of (c15_file_pieces C15sc parts) /\
    docs_of (c15_file_pieces C15sc parts) = c15_item_docs_helpers_first it /\
    c15_contained C15sc LCode (mark (c15_file_pieces C15sc parts)) =
    forallb safe_sc (c15_item_docs_helpers_first it).
Proof. exact Proofs.C15_ScalaItem.C15_sc_item. Qed.
Print Assumptions C15_sc_item.

(* the declarations of a strict item are plain (what ties C15_sc_decl to the IR) *)
Theorem C15_sc_item_decls_plain : forall (cfg : sc_config),
  c15_mappings_plain C15sc (sc_type_mappings cfg) = true ->
  forall it ds,
  c15_item_strict C15sc Scala it = true ->
  sc_decl_of cfg it = Ok ds -> forallb c15_sc_decl_plain ds = true.
Proof. exact Proofs.C15_ScalaItem.sc_decl_plain_ir. Qed.
Print Assumptions C15_sc_item_decls_plain.

(* ---- Scala, one item whose doc strings are free of line breaks (every parsed item): contained ---- *)
Theorem C15_sc_item_line_free : forall (cfg : sc_config),
  c15_mappings_plain C15sc (sc_type_mappings cfg) = true ->
  forall it text,
  c15_item_strict C15sc Scala it = true ->
  Forall (fun d => safe_line eol_lf_cr d = true) (c15_item_docs it) ->
  sc_write_item cfg it = Ok text ->
  exists parts,
    text = text_of (c15_file_pieces C15sc parts) /\
    docs_of (c15_file_pieces C15sc parts) = c15_item_docs_helpers_first it /\
    c15_contained C15sc LCode (mark (c15_file_pieces C15sc parts)) = true.
Proof. exact Proofs.C15_ScalaItem.C15_sc_item_line_free. Qed.
Print Assumptions C15_sc_item_line_free.

(* ======================= Python WITHOUT the neutrality hypothesis =======================
   [c15_py_item_ok it] (Spec/C15RenderScPy.v, decidable).  python.rs prints the JSON key of a field
   (`Field(alias="key")`) and the wire name of a variant (the members of the (str, Enum) classes, the Types class of a
   tagged enum) RAW between double quotes, and derives attribute names (convert_case Snake), Types members (Snake,
   then to_uppercase), unit-enum members (to_uppercase) and constant names (to_snake_case, to_uppercase) through
   Unicode-table functions.  The class: the names that go through these functions - a field's Rust name, a variant's
   Rust name and wire name - are ASCII strings over [A-Za-z0-9_-] (a constant's name over [A-Za-z0-9_]); a variant's
   wire name is non-empty; a field's key is a non-empty string without `#`, quotes, backslash and control characters
   (c15_ident_ok); struct / enum / alias names, generic parameters, tag and content keys and the identifiers of all types
   are free of `#` and quotes.  [unicode_ok uc]: the case tables are right on ASCII (Model/Unicode.v; true of the
   executable tables, uc_exec_ok).  With type_mappings targets free of `#` and quotes, for every printer state (imports,
   TypeVars, custom translations collected so far): the text py_write_item prints - helper classes, pydantic classes with
   their Field(..) / Annotated[..] decorations and model_config line, (str, Enum) classes, Types class + variant classes +
   Union alias, aliases, constants - is code parts and comment fragments carrying exactly the documented positions of
   [c15_py_item_sites it] in this order, each as written in its form, and it is contained iff every `# ` string (the doc
   of a tagged enum) is free of LF / CR; no hypothesis on the code parts is left. ---- *)
Theorem C15_py_item : forall (uc : unicode) (cfg : py_config),
  unicode_ok uc ->
  c15_mappings_plain C15py (py_type_mappings cfg) = true ->
  forall it st text st',
  c15_py_item_ok it = true ->
  py_write_item uc cfg it st = Ok (text, st') ->
  exists parts,
    text = text_of (c15_file_pieces C15py parts) /\
    docs_of (c15_file_pieces C15py parts) = map (c15_site_text C15py) (c15_py_item_sites it) /\
    c15_contained C15py LCode (mark (c15_file_pieces C15py parts)) = forallb (c15_site_ok C15py) (c15_py_item_sites it).
Proof. exact Proofs.C15_PythonItem.C15_py_item_stmt. Qed.
Print Assumptions C15_py_item.

(* ---- Python, one item whose doc strings are free of line breaks (every parsed item): contained ---- *)
Theorem C15_py_item_line_free : forall (uc : unicode) (cfg : py_config),
  unicode_ok uc ->
  c15_mappings_plain C15py (py_type_mappings cfg) = true ->
  forall it st text st',
  c15_py_item_ok it = true ->
  Forall (fun d => safe_line eol_lf_cr d = true) (c15_item_docs it) ->
  py_write_item uc cfg it st = Ok (text, st') ->
  exists parts,
    text = text_of (c15_file_pieces C15py parts) /\
    docs_of (c15_file_pieces C15py parts) = map (c15_site_text C15py) (c15_py_item_sites it) /\
    c15_contained C15py LCode (mark (c15_file_pieces C15py parts)) = true.
Proof. exact Proofs.C15_PythonItem.C15_py_item_line_free. Qed.
Print Assumptions C15_py_item_line_free.

(* ---- Python, WHOLE FILES (py_generate: the version docstring; then, printed from the state the body left behind,
   `from __future__ import annotations`, the sorted `from M import a, b` lines, one  T = TypeVar("T")  line per collected
   generic parameter, the helper functions of the custom JSON translations (bytes / datetime); then the body: the items in
   topological order with the printer state threaded through them), no neutrality hypothesis.  For every parsed program
   whose items are in the class of C15_py_item and whose struct / enum / alias generic parameters (write_type_alias declares its own: python.rs:280) may be printed raw between
   double quotes ([c15_py_item_typevars_ok], Spec/C15RenderPyFile.v: non-empty, no double quote, backslash, LF, CR - the
   TypeVar line prints the name bare and quoted), with type_mappings targets as there and a version string without three
   double quotes in a row ([c15_py_version_ok]: it is printed verbatim inside the docstring at the top of the file): the
   generated file is code parts and comment fragments whose doc strings are - unless no_version_header is set - the line
   typeshare writes into the version docstring ([c15_py_header_line]: " Generated by typeshare <version>"), followed by the
   documented positions of the items in output order (a permutation of the program's items; per item Python's print
   order), each as written in its form; and the file is contained iff every `# ` string of the items (the doc of a tagged
   enum) is free of LF / CR (c15_site_ok is constantly true on docstring sites, the version docstring included).  Import
   block, TypeVar block and helper functions are neutral whatever the items are: the import map only ever receives the
   names python.rs adds itself, the TypeVar set only generic parameters of the items, the set of translated types only
   selects among two fixed texts.  Second theorem: with doc strings free of line breaks (every parsed item:
   C15_parsed_*_line_free) the file is contained. ---- *)
Theorem C15_py_file : forall (uc : unicode), unicode_ok uc -> forall (cfg : py_config),
  c15_mappings_plain C15py (py_type_mappings cfg) = true ->
  c15_py_version_ok (py_version cfg) = true ->
  forall pd text,
  forallb c15_py_item_ok (items_of pd) = true ->
  forallb c15_py_item_typevars_ok (items_of pd) = true ->
  py_generate uc cfg pd = Ok text ->
  let header := if py_no_version_header cfg then [] else [c15_py_header_line (py_version cfg)] in
  exists items parts,
    topsort (items_of pd) = Ok items /\ Permutation items (items_of pd) /\
    text = text_of (c15_file_pieces C15py parts) /\
    docs_of (c15_file_pieces C15py parts) = header ++ map (c15_site_text C15py) (flat_map c15_py_item_sites items) /\
    c15_contained C15py LCode (mark (c15_file_pieces C15py parts)) =
      forallb (c15_site_ok C15py) (flat_map c15_py_item_sites items).
Proof. exact Proofs.C15_PythonFile.C15_py_file_stmt. Qed.
Print Assumptions C15_py_file.
Theorem C15_py_file_line_free : forall (uc : unicode), unicode_ok uc -> forall (cfg : py_config),
  c15_mappings_plain C15py (py_type_mappings cfg) = true ->
  c15_py_version_ok (py_version cfg) = true ->
  forall pd text,
  forallb c15_py_item_ok (items_of pd) = true ->
  forallb c15_py_item_typevars_ok (items_of pd) = true ->
  Forall (fun d => safe_line eol_lf_cr d = true) (flat_map c15_item_docs (items_of pd)) ->
  py_generate uc cfg pd = Ok text ->
  let header := if py_no_version_header cfg then [] else [c15_py_header_line (py_version cfg)] in
  exists items parts,
    topsort (items_of pd) = Ok items /\ Permutation items (items_of pd) /\
    text = text_of (c15_file_pieces C15py parts) /\
    docs_of (c15_file_pieces C15py parts) = header ++ map (c15_site_text C15py) (flat_map c15_py_item_sites items) /\
    c15_contained C15py LCode (mark (c15_file_pieces C15py parts)) = true.
Proof. exact Proofs.C15_PythonFile.C15_py_file_line_free_stmt. Qed.
Print Assumptions C15_py_file_line_free.
(* ======================= Kotlin, WHOLE FILES =======================
   kt_generate: the header (unless the package name is empty: the version block comment `/** .. Generated by typeshare
   <version> .. */` unless no_version_header is set, the line `package <name>`, the two import lines for Serializable and
   SerialName), then the items in topological order; Kotlin's printer has no state and its end_file writes nothing.  No
   neutrality hypothesis.  For every parsed program whose items are in the class of C15_kt_item (c15_item_strict), with a
   plain prefix and plain type_mappings targets as there, a plain package name (no `/`, no double or single quote: it is
   printed bare) and a version string without `*` and `/` ([c15_version_nested_ok], Spec/C15RenderKtSc.v: it is printed
   inside a block comment, which nests for the Kotlin reference lexer): the generated file is code parts and `/// `
   fragments whose doc strings are exactly the doc strings of the items in output order (a permutation of the program's
   items; per item the helper data classes first) - the header contributes none, it is code the lexer reads from code mode
   back into code mode - and the file is contained iff all these strings are safe_kt (no LF / CR).  A program with a
   constant is not generated at all (kotlin.rs write_const is an error), so the statement is about the three other item
   kinds.  Second theorem: with doc strings free of line breaks (every parsed item: C15_parsed_*_line_free) the file is
   contained. ---- *)
Theorem C15_kt_file : forall (uc : unicode) (cfg : kt_config),
  c15_plain C15kt (kt_prefix cfg) = true ->
  c15_mappings_plain C15kt (kt_type_mappings cfg) = true ->
  c15_plain C15kt (kt_package cfg) = true ->
  c15_version_nested_ok (kt_version cfg) = true ->
  forall pd text,
  forallb (c15_item_strict C15kt Kotlin) (items_of pd) = true ->
  kt_generate uc cfg pd = Ok text ->
  exists items parts,
    topsort (items_of pd) = Ok items /\ Permutation items (items_of pd) /\
    text = text_of (c15_file_pieces C15kt parts) /\
    docs_of (c15_file_pieces C15kt parts) = flat_map c15_item_docs_helpers_first items /\
    c15_contained C15kt LCode (mark (c15_file_pieces C15kt parts)) =
    forallb safe_kt (flat_map c15_item_docs_helpers_first items).
Proof. exact Proofs.C15_KotlinFile.C15_kt_file. Qed.
Print Assumptions C15_kt_file.
Theorem C15_kt_file_line_free : forall (uc : unicode) (cfg : kt_config),
  c15_plain C15kt (kt_prefix cfg) = true ->
  c15_mappings_plain C15kt (kt_type_mappings cfg) = true ->
  c15_plain C15kt (kt_package cfg) = true ->
  c15_version_nested_ok (kt_version cfg) = true ->
  forall pd text,
  forallb (c15_item_strict C15kt Kotlin) (items_of pd) = true ->
  Forall (fun it => Forall (fun d => safe_line eol_lf_cr d = true) (c15_item_docs it)) (items_of pd) ->
  kt_generate uc cfg pd = Ok text ->
  exists items parts,
    topsort (items_of pd) = Ok items /\ Permutation items (items_of pd) /\
    text = text_of (c15_file_pieces C15kt parts) /\
    docs_of (c15_file_pieces C15kt parts) = flat_map c15_item_docs_helpers_first items /\
    c15_contained C15kt LCode (mark (c15_file_pieces C15kt parts)) = true.
Proof. exact Proofs.C15_KotlinFile.C15_kt_file_line_free. Qed.
Print Assumptions C15_kt_file_line_free.

(* ======================= Scala, WHOLE FILES =======================
   sc_generate (scala.rs overrides generate_types): begin_file - the version block comment `/** .. Generated by typeshare
   <version> .. */` unless no_version_header is set, then `package <parent>` when the package name has a dot (an empty
   package name is an error) -; when there is a type alias or an unsigned integer type is used, the package object
   (`package object <last> {` - <last> is the whole name when it has no dot -, the helper aliases UByte .. ULong if needed, the type aliases, `}`); when there is a
   struct or an enum, the package (`package <last> {`, the structs, the enums, `}`).  generate_types does NOT sort
   topologically here: the output order is [c15_sc_file_items pd] (Spec/C15RenderKtSc.v) - the type aliases, then the
   structs, then the enums, each group in ParsedData order -, and constants are not printed: the first theorem says that
   this list followed by the constants is items_of pd.  The Scala printer has no state; end_file writes nothing.
   No neutrality hypothesis.  For every parsed program whose items are in the class of C15_sc_item (c15_item_strict;
   constants are always in it), with plain type_mappings targets as there, a plain package name (no `/`, no double or
   single quote: its two halves are printed bare) and a version string without `*` and `/` ([c15_version_nested_ok]: it
   is printed inside a block comment, which nests for the Scala reference lexer): the generated file is code parts and
   `// ` fragments whose doc strings are exactly the doc strings of the items in this output order (per enum the helper
   case classes first) - header, package lines, helper aliases and closing braces contribute none: they are code the lexer
   reads from code mode back into code mode - and the file is contained iff all these strings are safe_sc (no LF / CR).
   Third theorem: with doc strings free of line breaks (every parsed item: C15_parsed_*_line_free) the file is contained. ---- *)
Theorem C15_sc_file_items_order : forall pd, items_of pd = c15_sc_file_items pd ++ map ItConst (p_consts pd).
Proof. exact Proofs.C15_ScalaFile.c15_sc_file_items_order. Qed.
Print Assumptions C15_sc_file_items_order.
Theorem C15_sc_file : forall (uc : unicode) (cfg : sc_config),
  c15_mappings_plain C15sc (sc_type_mappings cfg) = true ->
  c15_plain C15sc (sc_package cfg) = true ->
  c15_version_nested_ok (sc_version cfg) = true ->
  forall pd text,
  forallb (c15_item_strict C15sc Scala) (items_of pd) = true ->
  sc_generate uc cfg pd = Ok text ->
  exists parts,
    text = text_of (c15_file_pieces C15sc parts) /\
    docs_of (c15_file_pieces C15sc parts) = flat_map c15_item_docs_helpers_first (c15_sc_file_items pd) /\
    c15_contained C15sc LCode (mark (c15_file_pieces C15sc parts)) =
    forallb safe_sc (flat_map c15_item_docs_helpers_first (c15_sc_file_items pd)).
Proof. exact Proofs.C15_ScalaFile.C15_sc_file. Qed.
Print Assumptions C15_sc_file.
Theorem C15_sc_file_line_free : forall (uc : unicode) (cfg : sc_config),
  c15_mappings_plain C15sc (sc_type_mappings cfg) = true ->
  c15_plain C15sc (sc_package cfg) = true ->
  c15_version_nested_ok (sc_version cfg) = true ->
  forall pd text,
  forallb (c15_item_strict C15sc Scala) (items_of pd) = true ->
  Forall (fun it => Forall (fun d => safe_line eol_lf_cr d = true) (c15_item_docs it)) (items_of pd) ->
  sc_generate uc cfg pd = Ok text ->
  exists parts,
    text = text_of (c15_file_pieces C15sc parts) /\
    docs_of (c15_file_pieces C15sc parts) = flat_map c15_item_docs_helpers_first (c15_sc_file_items pd) /\
    c15_contained C15sc LCode (mark (c15_file_pieces C15sc parts)) = true.
Proof. exact Proofs.C15_ScalaFile.C15_sc_file_line_free. Qed.
Print Assumptions C15_sc_file_line_free.

(* ======================= MULTI-FILE (folder output, `-d`) MODE: TypeScript and Kotlin =======================
   In multi-file mode every crate's file is written by ts_generate_multi / kt_generate_multi (Model/MultiFile.v): the header
   (Kotlin: with the per-crate line `package <package>.<crate>`), then the IMPORT LINES rendered from the import map of the
   crate - TypeScript `import { A, B } from "./<crate>";`, Kotlin `import <package>.<crate>.<A>` -, then the items in
   topological order (and TypeScript's trailer).  The import lines are text no single-file theorem covers.  Under
   [c15_ts_imports_ok] / [c15_kt_imports_ok] (Spec/C15MultiSpec.v, decidable: imported names plain - no character that
   opens a comment or a literal -, the TypeScript module name free of double quote, backslash and line terminator, the
   Kotlin crate name plain; excluded: a crate directory named with a quote / backslash / slash, a generated type name with
   a slash or quote in it) they are code the reference lexer reads from code mode back into code mode, so they contribute
   no doc site and the conclusions of C15_ts_file / C15_kt_file hold for the multi-file file.
   TypeScript's printer state is threaded from crate to crate and never cleared: the statement is for ANY incoming state
   whose collected property names are printable raw between double quotes (ts_state_ok; the empty initial state is), and
   hands the same on; the trailer is printed as soon as the state is non-empty - also when only an EARLIER crate had a
   Date field.  The run-level theorems start from the initial state and need no hypothesis on intermediate states. *)
Theorem C15_ts_multi_file : forall (uc : unicode) (cfg : ts_config),
  c15_mappings_plain C15ts (ts_type_mappings cfg) = true ->
  forall (st : ts_state) (im : scoped) pd text (st' : ts_state),
  c15_no_star (ts_version cfg) = true ->
  forallb (c15_item_plain C15ts TypeScript (fun n => str_to_uppercase uc (to_snake_case uc n))) (items_of pd) = true ->
  forallb c15_ts_item_keys_ok (items_of pd) = true ->
  c15_ts_imports_ok im = true ->
  Proofs.C15_TypeScript.ts_state_ok st = true ->
  ts_generate_multi uc cfg st im pd = Ok (text, st') ->
  exists items trailer parts,
    topsort (items_of pd) = Ok items /\ Permutation items (items_of pd) /\
    (trailer = [] \/ trailer = c15_ts_trailer_docs) /\
    text = text_of (c15_file_pieces C15ts parts) /\
    docs_of (c15_file_pieces C15ts parts) = map c15_esc_ts (flat_map c15_item_docs items ++ trailer) /\
    c15_contained C15ts LCode (mark (c15_file_pieces C15ts parts)) = true /\
    Proofs.C15_TypeScript.ts_state_ok st' = true.
Proof. exact Proofs.C15Multi.C15_ts_multi_file. Qed.
Print Assumptions C15_ts_multi_file.

(* Kotlin (stateless): the crate name is printed bare in the package line, so it is plain *)
Theorem C15_kt_multi_file : forall (uc : unicode) (cfg : kt_config),
  c15_plain C15kt (kt_prefix cfg) = true ->
  c15_mappings_plain C15kt (kt_type_mappings cfg) = true ->
  c15_plain C15kt (kt_package cfg) = true ->
  c15_version_nested_ok (kt_version cfg) = true ->
  forall (c : str) (im : scoped) pd text,
  forallb (c15_item_strict C15kt Kotlin) (items_of pd) = true ->
  c15_plain C15kt c = true -> c15_kt_imports_ok im = true ->
  kt_generate_multi uc cfg c im pd = Ok text ->
  exists items parts,
    topsort (items_of pd) = Ok items /\ Permutation items (items_of pd) /\
    text = text_of (c15_file_pieces C15kt parts) /\
    docs_of (c15_file_pieces C15kt parts) = flat_map c15_item_docs_helpers_first items /\
    c15_contained C15kt LCode (mark (c15_file_pieces C15kt parts)) =
    forallb safe_kt (flat_map c15_item_docs_helpers_first items).
Proof. exact Proofs.C15Multi.C15_kt_multi_file. Qed.
Print Assumptions C15_kt_multi_file.
Theorem C15_kt_multi_file_line_free : forall (uc : unicode) (cfg : kt_config),
  c15_plain C15kt (kt_prefix cfg) = true ->
  c15_mappings_plain C15kt (kt_type_mappings cfg) = true ->
  c15_plain C15kt (kt_package cfg) = true ->
  c15_version_nested_ok (kt_version cfg) = true ->
  forall (c : str) (im : scoped) pd text,
  forallb (c15_item_strict C15kt Kotlin) (items_of pd) = true ->
  Forall (fun it => Forall (fun d => safe_line eol_lf_cr d = true) (c15_item_docs it)) (items_of pd) ->
  c15_plain C15kt c = true -> c15_kt_imports_ok im = true ->
  kt_generate_multi uc cfg c im pd = Ok text ->
  exists items parts,
    topsort (items_of pd) = Ok items /\ Permutation items (items_of pd) /\
    text = text_of (c15_file_pieces C15kt parts) /\
    docs_of (c15_file_pieces C15kt parts) = flat_map c15_item_docs_helpers_first items /\
    c15_contained C15kt LCode (mark (c15_file_pieces C15kt parts)) = true.
Proof. exact Proofs.C15Multi.C15_kt_multi_file_line_free. Qed.
Print Assumptions C15_kt_multi_file_line_free.

(* THE WHOLE RUN (generate_crates: the crates of the plan one after the other, the printer state threaded from the initial
   state, stopping at the first failure): for a plan all of whose entries satisfy the per-file hypotheses
   (Proofs.C15Multi.c15_ts_plan_ok / c15_kt_plan_ok: the items, the crate name, the import map), every file that is
   generated is code parts and comment fragments and is contained *)
Theorem C15_ts_multi_run : forall (uc : unicode) (cfg : ts_config) (plan : list out_plan) files fin,
  c15_mappings_plain C15ts (ts_type_mappings cfg) = true -> c15_no_star (ts_version cfg) = true ->
  Proofs.C15Multi.c15_ts_plan_ok uc plan = true ->
  generate_crates (fun st (_ : str) im pd => ts_generate_multi uc cfg st im pd) [] plan = (files, fin) ->
  forall f text, In (f, Model.Writer.Generated text) files ->
    exists parts, text = text_of (c15_file_pieces C15ts parts) /\
                  c15_contained C15ts LCode (mark (c15_file_pieces C15ts parts)) = true.
Proof. exact Proofs.C15Multi.C15_ts_multi_run. Qed.
Print Assumptions C15_ts_multi_run.
Theorem C15_kt_multi_run : forall (uc : unicode) (cfg : kt_config) (plan : list out_plan) files fin,
  c15_plain C15kt (kt_prefix cfg) = true -> c15_mappings_plain C15kt (kt_type_mappings cfg) = true ->
  c15_plain C15kt (kt_package cfg) = true -> c15_version_nested_ok (kt_version cfg) = true ->
  Proofs.C15Multi.c15_kt_plan_ok plan = true ->
  Forall (fun p => Forall (fun it => Forall (fun d => safe_line eol_lf_cr d = true) (c15_item_docs it)) (items_of (op_data p))) plan ->
  generate_crates (fun (st : unit) c im pd => Proofs.C10Multi.wrap_unit st (kt_generate_multi uc cfg c im pd)) tt plan = (files, fin) ->
  forall f text, In (f, Model.Writer.Generated text) files ->
    exists parts, text = text_of (c15_file_pieces C15kt parts) /\
                  c15_contained C15kt LCode (mark (c15_file_pieces C15kt parts)) = true.
Proof. exact Proofs.C15Multi.C15_kt_multi_run. Qed.
Print Assumptions C15_kt_multi_run.

(* ---- MULTI-FILE MODE, Swift, Go, Python: no import lines are printed from the import map, but the multi-file generators
   differ from the single-file ones by the printer state that arrives from the previous crate and is never cleared (Go:
   the import paths; Python: import table, TypeVars, translated types; Swift: "CodableVoid needed", and no CodableVoid
   trailer is printed in this mode - it goes to Codable.swift).  Under the hypotheses of C15_sw_file / C15_go_file /
   C15_py_file (Swift: without the one on codablevoid constraints), from ANY incoming state satisfying the invariant of the
   single-file proof (Proofs.C15_GoFile.go_inv: every import path printable between double quotes;
   Proofs.C15_PythonFile.pyf_inv: import table plain, TypeVars plain and printable raw between double quotes; the initial
   states satisfy them), the file of one crate has the conclusion of the single-file theorem, and hands the invariant on.
   The import / TypeVar / helper blocks printed are those of the state reached AFTER the crate's last item, previous
   crates' entries included.  (Scala's generate_types is one function for both modes: C15_sc_file.) ---- *)
Theorem C15_sw_multi_file : forall (uc : unicode) (cfg : sw_config),
  c15_sw_raw (sw_prefix cfg) = true ->
  c15_mappings_plain C15sw (sw_type_mappings cfg) = true ->
  forallb (c15_plain C15sw) (sw_default_decorators cfg) = true ->
  forallb (c15_plain C15sw) (sw_default_generic_constraints cfg) = true ->
  c15_sw_version_ok (sw_version cfg) = true ->
  forall (st : sw_state) pd text (st' : sw_state),
  forallb c15_sw_item_ok (items_of pd) = true ->
  sw_generate_multi uc cfg st pd = Ok (text, st') ->
  exists items parts,
    topsort (items_of pd) = Ok items /\ Permutation items (items_of pd) /\
    text = text_of (c15_file_pieces C15sw parts) /\
    docs_of (c15_file_pieces C15sw parts) = flat_map (c15_sw_item_docs uc) items /\
    c15_contained C15sw LCode (mark (c15_file_pieces C15sw parts)) =
    forallb safe_sw (flat_map (c15_sw_item_docs uc) items).
Proof. exact Proofs.C15MultiMore.C15_sw_multi_file. Qed.
Print Assumptions C15_sw_multi_file.

Theorem C15_go_multi_file : forall (uc : unicode), unicode_ok uc -> forall (cfg : go_config),
  c15_go_mappings_ok (go_type_mappings cfg) = true ->
  forallb (forallb is_ascii) (go_uppercase_acronyms cfg) = true ->
  c15_plain C15go (go_package cfg) = true ->
  forall (st : go_state) pd text (st' : go_state),
  forallb c15_go_item_ok (items_of pd) = true -> Proofs.C15_GoFile.go_inv st ->
  go_generate_multi uc cfg st pd = Ok (text, st') ->
  let header := if go_no_version_header cfg then []
                else [lit "Code generated by typeshare " ++ go_version cfg ++ lit ". DO NOT EDIT."] in
  exists items parts,
    topsort (items_of pd) = Ok items /\ Permutation items (items_of pd) /\
    text = text_of (c15_file_pieces C15go parts) /\
    docs_of (c15_file_pieces C15go parts) = header ++ flat_map c15_item_docs_helpers_first items /\
    c15_contained C15go LCode (mark (c15_file_pieces C15go parts)) =
    forallb safe_go (header ++ flat_map c15_item_docs_helpers_first items) /\
    Proofs.C15_GoFile.go_inv st'.
Proof. exact Proofs.C15MultiMore.C15_go_multi_file. Qed.
Print Assumptions C15_go_multi_file.

Theorem C15_py_multi_file : forall (uc : unicode), unicode_ok uc -> forall (cfg : py_config),
  c15_mappings_plain C15py (py_type_mappings cfg) = true ->
  c15_py_version_ok (py_version cfg) = true ->
  forall (st : py_state) pd text (st' : py_state),
  forallb c15_py_item_ok (items_of pd) = true ->
  forallb c15_py_item_typevars_ok (items_of pd) = true ->
  Proofs.C15_PythonFile.pyf_inv st ->
  py_generate_multi uc cfg st pd = Ok (text, st') ->
  let header := if py_no_version_header cfg then [] else [c15_py_header_line (py_version cfg)] in
  exists items parts,
    topsort (items_of pd) = Ok items /\ Permutation items (items_of pd) /\
    text = text_of (c15_file_pieces C15py parts) /\
    docs_of (c15_file_pieces C15py parts) = header ++ map (c15_site_text C15py) (flat_map c15_py_item_sites items) /\
    c15_contained C15py LCode (mark (c15_file_pieces C15py parts)) =
      forallb (c15_site_ok C15py) (flat_map c15_py_item_sites items) /\
    Proofs.C15_PythonFile.pyf_inv st'.
Proof. exact Proofs.C15MultiMore.C15_py_multi_file. Qed.
Print Assumptions C15_py_multi_file.
