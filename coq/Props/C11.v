(* C11 property theorems: statements only; proofs live in Proofs/{ToposortPerm,SortByIndices,C11}.v *)
From Coq Require Import List Arith Permutation.
From TS Require Import Model.Str Model.Outcome Model.Types Model.TopsortAlgo Model.Topsort.
From TS Require Proofs.ToposortPerm Proofs.SortByIndices Proofs.C11.
Import ListNotations.
Local Notation length := List.length (only parsing).
Local Open Scope nat_scope.

(* EVERY graph with in-range entries - cycles, self-loops, duplicate edges - is mapped to a
   permutation of its node indices; no panic, fuel S n suffices *)
Theorem C11_toposort_impl_permutation :
  forall g : graph, Forall (Forall (fun x => x < length g)) g ->
    exists r, toposort_impl g = Ok r /\ Permutation r (seq 0 (length g)).
Proof. exact Proofs.ToposortPerm.toposort_perm. Qed.
Print Assumptions C11_toposort_impl_permutation.

(* acyclic graph (edges decrease a rank): each node comes after all its dependencies *)
Theorem C11_toposort_impl_topological :
  forall (g : graph), Forall (Forall (fun x => x < length g)) g ->
  forall rank : nat -> nat,
    (forall i deps d, nth_error g i = Some deps -> In d deps -> rank d < rank i) ->
    exists r, toposort_impl g = Ok r /\ Permutation r (seq 0 (length g)) /\
      (forall r1 x r2 deps, r = r1 ++ x :: r2 -> nth_error g x = Some deps -> incl deps r1).
Proof. exact Proofs.ToposortPerm.toposort_acyclic. Qed.
Print Assumptions C11_toposort_impl_topological.

(* the in-place cycle-following permutation: result[i] = data[indices[i]], never out of bounds,
   never out of fuel, for every permutation of 0..n-1 *)
Theorem C11_sort_by_indices :
  forall (A : Type) (d : A) (data : list A) (ind : list nat),
    Permutation ind (seq 0 (length data)) ->
    sort_by_indices data ind = Ok (map (fun j => nth j data d) ind).
Proof. exact Proofs.SortByIndices.sort_by_indices_spec. Qed.
Print Assumptions C11_sort_by_indices.

(* the emitted definitions are a permutation of the parsed items whenever dependency collection
   completes (its only failure mode is the recorded stack-overflow finding) *)
Theorem C11_topsort_permutation :
  forall (things : list ritem) (dag : list (list nat)), build_dag things = Ok dag ->
    exists out, topsort things = Ok out /\ Permutation out things.
Proof. exact Proofs.C11.topsort_permutation. Qed.
Print Assumptions C11_topsort_permutation.

(* partial form of the ordering half: topological with respect to the COLLECTED graph; that the
   collected graph contains every declarative reference outside the finding classes
   (Spec/C11Spec.v known_C11) is validated by the correspondence check, not yet proved *)
Theorem C11_topsort_respects_collected_graph_partial :
  forall (things : list ritem) (dag : list (list nat)) (d : ritem) (rank : nat -> nat),
    build_dag things = Ok dag ->
    (forall i deps x, nth_error dag i = Some deps -> In x deps -> rank x < rank i) ->
    exists r, topsort things = Ok (map (fun j => nth j things d) r) /\
              Permutation r (seq 0 (length things)) /\
              (forall r1 x r2 deps, r = r1 ++ x :: r2 -> nth_error dag x = Some deps -> incl deps r1).
Proof. exact Proofs.C11.topsort_respects_dag. Qed.
Print Assumptions C11_topsort_respects_collected_graph_partial.
