(* C11 property theorems: statements only; proofs live in Proofs/{ToposortPerm,SortByIndices,C11}.v *)
From Coq Require Import List Arith Permutation String.
(* multi-file section (end of the file): the multi-file generators and the workspace vocabulary of C14 *)
From TS Require Import Model.Unicode Model.Syntax Model.Parse Model.Collect Model.Lang.Common Model.Lang.TypeScript Model.Lang.Kotlin
                       Model.Lang.Swift Model.Lang.Scala Model.Lang.Go Model.Lang.Python Model.MultiFile Spec.C14Spec.
From TS Require Model.Writer.
From TS Require Proofs.C02_Witness Proofs.C14 Proofs.C14Front Proofs.C14Main Proofs.C14Witness Proofs.C06MultiWitness Proofs.C11Multi Proofs.C11MultiWitness.
From TS Require Import Model.Str Model.Outcome Model.Types Model.TopsortAlgo Model.Topsort Spec.C11Spec.
From TS Require Proofs.ToposortPerm Proofs.SortByIndices Proofs.C11 Proofs.C11Link.
Import ListNotations.
Local Notation length := List.length (only parsing).
Local Open Scope nat_scope.
Local Open Scope string_scope.
Local Open Scope list_scope.
(* builders of the witness items (plain records with empty comments/decorators; Proofs/C11Link.v) *)
Local Notation w_struct := Proofs.C11Link.w_struct.
Local Notation w_alias := Proofs.C11Link.w_alias.
Local Notation w_const := Proofs.C11Link.w_const.
Local Notation w_enum := Proofs.C11Link.w_enum.
Local Notation w_field := Proofs.C11Link.w_field.
Local Notation w_vsh := Proofs.C11Link.w_vsh.
Local Notation w_s := Proofs.C11Link.w_s.

(* EVERY graph with in-range entries - cycles, self-loops, duplicate edges - is mapped to a
   permutation of its node indices; no panic, fuel S n suffices *)
Theorem C11_toposort_impl_permutation :
  forall g : graph, Forall (Forall (fun x => x < length g)) g ->
    exists r, toposort_impl g = Ok r /\ Permutation r (seq 0 (length g)).
Proof. exact Proofs.ToposortPerm.toposort_perm. Qed.
Print Assumptions C11_toposort_impl_permutation.

(* acyclic graph (edges decrease a rank): each node comes after all its dependencies *)
Theorem C11_toposort_impl_topological :
  forall (g : graph), Forall (Forall (fun x => x < length g)) g ->
  forall rank : nat -> nat,
    (forall i deps d, nth_error g i = Some deps -> In d deps -> rank d < rank i) ->
    exists r, toposort_impl g = Ok r /\ Permutation r (seq 0 (length g)) /\
      (forall r1 x r2 deps, r = r1 ++ x :: r2 -> nth_error g x = Some deps -> incl deps r1).
Proof. exact Proofs.ToposortPerm.toposort_acyclic. Qed.
Print Assumptions C11_toposort_impl_topological.

(* the in-place cycle-following permutation: result[i] = data[indices[i]], never out of bounds,
   never out of fuel, for every permutation of 0..n-1 *)
Theorem C11_sort_by_indices :
  forall (A : Type) (d : A) (data : list A) (ind : list nat),
    Permutation ind (seq 0 (length data)) ->
    sort_by_indices data ind = Ok (map (fun j => nth j data d) ind).
Proof. exact Proofs.SortByIndices.sort_by_indices_spec. Qed.
Print Assumptions C11_sort_by_indices.

(* the emitted definitions are a permutation of the parsed items whenever dependency collection
   completes (its only failure mode is the recorded stack-overflow finding) *)
Theorem C11_topsort_permutation :
  forall (things : list ritem) (dag : list (list nat)), build_dag things = Ok dag ->
    exists out, topsort things = Ok out /\ Permutation out things.
Proof. exact Proofs.C11.topsort_permutation. Qed.
Print Assumptions C11_topsort_permutation.

(* partial form of the ordering half: topological with respect to the COLLECTED graph (any item
   list, any rank).  The step from the collected graph to the declarative references is
   C11_collected_graph_is_reference_graph below; the complete statement is C11_topsort_topological *)
Theorem C11_topsort_respects_collected_graph_partial :
  forall (things : list ritem) (dag : list (list nat)) (d : ritem) (rank : nat -> nat),
    build_dag things = Ok dag ->
    (forall i deps x, nth_error dag i = Some deps -> In x deps -> rank x < rank i) ->
    exists r, topsort things = Ok (map (fun j => nth j things d) r) /\
              Permutation r (seq 0 (length things)) /\
              (forall r1 x r2 deps, r = r1 ++ x :: r2 -> nth_error dag x = Some deps -> incl deps r1).
Proof. exact Proofs.C11.topsort_respects_dag. Qed.
Print Assumptions C11_topsort_respects_collected_graph_partial.

(* ---------------------------------------------------------------------------------------------
   The ordering half, end to end.  [refers], [acyclic], [topo_ok], [known_C11] are the declarative
   definitions of Spec/C11Spec.v (they never call the collectors of Model/Topsort.v). *)

(* THE COMPLETENESS LINK.  Outside the finding classes dependency collection succeeds (no fuel
   exhaustion, no unwrap/expect panic) and the collected graph is the reference relation, row by
   row: the row of EVERY item - struct, enum (tuple payloads and struct-variant fields), alias,
   const - holds exactly the positions of the items it refers to (a reference = an identifier of one
   of its types at ANY depth: arguments of generic types, typeshared or not, nested or not, included) *)
Theorem C11_collected_graph_is_reference_graph :
  forall things : list ritem, known_C11 things = None ->
    exists dag, build_dag things = Ok dag /\
      forall i a row, nth_error things i = Some a -> nth_error dag i = Some row ->
        forall j b, nth_error things j = Some b -> (In j row <-> refers a b = true).
Proof. exact Proofs.C11Link.collected_rows_are_references. Qed.
Print Assumptions C11_collected_graph_is_reference_graph.

(* no row of the graph topsort hands to toposort_impl contains its own position (cyclic references
   included): an enum no longer produces a row that starts with its own index *)
Theorem C11_collected_rows_irreflexive :
  forall things : list ritem, alias_generic_shadows things = false -> has_dup_names things = false ->
    exists dag, build_dag things = Ok dag /\
      forall i row, nth_error dag i = Some row -> ~ In i row.
Proof. exact Proofs.C11Link.collected_rows_irreflexive. Qed.
Print Assumptions C11_collected_rows_irreflexive.

(* THE PROPERTY'S ORDERING HALF: for every item list outside the finding classes whose reference
   relation is acyclic, topsort succeeds, emits a permutation of the items, and no emitted
   definition refers to a definition emitted after it *)
Theorem C11_topsort_topological :
  forall things : list ritem, known_C11 things = None -> acyclic things = true ->
    exists out, topsort things = Ok out /\ Permutation out things /\ topo_ok out = true.
Proof. exact Proofs.C11Link.topsort_topological. Qed.
Print Assumptions C11_topsort_topological.

(* what topo_ok = true means position-wise *)
Theorem C11_topo_ok_meaning :
  forall out : list ritem, topo_ok out = true <->
    forall o1 a o2 b, out = o1 ++ a :: o2 -> In b o2 -> refers a b = false.
Proof. exact Proofs.C11Link.topo_ok_spec. Qed.
Print Assumptions C11_topo_ok_meaning.

(* the permutation half without the `build_dag = Ok` premise: unless an alias has a generic
   parameter named like an item, collection cannot fail - cycles and duplicate names included *)
Theorem C11_topsort_total_permutation :
  forall things : list ritem, alias_generic_shadows things = false ->
    exists out, topsort things = Ok out /\ Permutation out things.
Proof. exact Proofs.C11Link.topsort_total. Qed.
Print Assumptions C11_topsort_total_permutation.

(* both halves as the verdict predicate the check evaluates on the real output: it holds of the
   model's output for EVERY input outside the classes (acyclic or not) *)
Theorem C11_topsort_good :
  forall things : list ritem, known_C11 things = None ->
    exists out, topsort things = Ok out /\ good_C11 things out = true.
Proof. exact Proofs.C11Link.topsort_good. Qed.
Print Assumptions C11_topsort_good.

(* a general fact about toposort_impl, not used by the theorems above any more: the cycle `return`
   fires on the first entry of a row that starts with its own index, such rows are ignored (before the
   repair of get_enum_dependencies every algebraic enum produced one; C11_collected_rows_irreflexive
   says topsort's own graph has none now) *)
Theorem C11_toposort_impl_ignores_self_started_rows :
  forall g : graph, toposort_impl g = toposort_impl (Proofs.C11Link.clean g).
Proof. exact Proofs.C11Link.toposort_impl_clean. Qed.
Print Assumptions C11_toposort_impl_ignores_self_started_rows.

(* the unrestricted ordering statement is false of the faithful model: one failing input per
   finding class. c11_refutes c w := known_C11 w = Some c /\ acyclic w = true /\
   exists out, topsort w = Ok out /\ topo_ok out = false *)

(* struct A<T> { f: T, g: B }  struct B {}  struct T { f: A<u8> } *)
Theorem C11_generic_param_shadow_refuted :
  Proofs.C11Link.c11_refutes "C11-generic-param-shadow"
    [w_struct "A" ["T"] [w_s "T"; w_s "B"]; w_struct "B" [] []; w_struct "T" [] [RGeneric (lit "A") [RPrim PU8]]].
Proof. exact Proofs.C11Link.C11_generic_param_shadow_refuted. Qed.
Print Assumptions C11_generic_param_shadow_refuted.

(* type A<T> = Vec<T>;  struct T { f: A<u8> } *)
Theorem C11_alias_generic_shadow_refuted :
  Proofs.C11Link.c11_refutes "C11-alias-generic-shadow"
    [w_alias "A" ["T"] (RVec (w_s "T")); w_struct "T" [] [RGeneric (lit "A") [RPrim PU8]]].
Proof. exact Proofs.C11Link.C11_alias_generic_shadow_refuted. Qed.
Print Assumptions C11_alias_generic_shadow_refuted.

(* struct A { f: X }  struct X {}  const X: u32 *)
Theorem C11_duplicate_names_refuted :
  Proofs.C11Link.c11_refutes "C11-duplicate-names"
    [w_struct "A" [] [w_s "X"]; w_struct "X" [] []; w_const "X" (RPrim PU32)].
Proof. exact Proofs.C11Link.C11_duplicate_names_refuted. Qed.
Print Assumptions C11_duplicate_names_refuted.

(* regression pins of the two classes repaired in get_enum_dependencies (former `_refuted` witnesses).
   c11_pinned_ok w := known_C11 w = None /\ acyclic w = true /\ (some item of w refers to another) /\
   exists out, topsort w = Ok out /\ topo_ok out = true *)

(* enum E { V { f: B } }  struct B {}: formerly C11-variant-fields *)
Theorem C11_variant_fields_fixed :
  Proofs.C11Link.c11_pinned_ok [w_enum "E" [VAnon [w_field (w_s "B")] w_vsh]; w_struct "B" [] []].
Proof. exact Proofs.C11Link.C11_variant_fields_fixed. Qed.
Print Assumptions C11_variant_fields_fixed.

(* enum E { V(B) }  struct B {}: formerly C11-enum-self-edge *)
Theorem C11_enum_self_edge_fixed :
  Proofs.C11Link.c11_pinned_ok [w_enum "E" [VTuple (w_s "B") w_vsh]; w_struct "B" [] []].
Proof. exact Proofs.C11Link.C11_enum_self_edge_fixed. Qed.
Print Assumptions C11_enum_self_edge_fixed.

(* enum A { V(B) }  enum B { W { f: Vec<C> }, U }  struct C {}: a chain through both variant shapes *)
Theorem C11_enum_chain_fixed :
  Proofs.C11Link.c11_pinned_ok
    [w_enum "A" [VTuple (w_s "B") w_vsh]; w_enum "B" [VAnon [w_field (RVec (w_s "C"))] w_vsh; VUnit w_vsh];
     w_struct "C" [] []].
Proof. exact Proofs.C11Link.C11_enum_chain_fixed. Qed.
Print Assumptions C11_enum_chain_fixed.

(* regression pins of the two classes repaired in the Generic arm of get_dependencies_from_type (fix 25: every argument
   of every generic type is followed; former `_refuted` witnesses).
   c11_pinned_as w names := c11_pinned_ok w /\ exists out, topsort w = Ok out /\ (original names of out) = names *)

(* struct A { f: Unknown<B> }  struct B {}: formerly C11-generic-arg-depth (argument of a generic type that is no item) *)
Theorem C11_generic_arg_depth_fixed :
  Proofs.C11Link.c11_pinned_as
    [w_struct "A" [] [RGeneric (lit "Unknown") [w_s "B"]]; w_struct "B" [] []] ["B"; "A"].
Proof. exact Proofs.C11Link.C11_generic_arg_depth_fixed. Qed.
Print Assumptions C11_generic_arg_depth_fixed.

(* struct Foo<T> { f: Foo<Zed> }  struct Zed {}: formerly C11-generic-arg-depth (the arguments of a Generic named like the
   collecting item were never visited) *)
Theorem C11_generic_arg_depth_own_name_fixed :
  Proofs.C11Link.c11_pinned_as
    [w_struct "Foo" ["T"] [RGeneric (lit "Foo") [w_s "Zed"]]; w_struct "Zed" [] []] ["Zed"; "Foo"].
Proof. exact Proofs.C11Link.C11_generic_arg_depth_own_name_fixed. Qed.
Print Assumptions C11_generic_arg_depth_own_name_fixed.

(* struct A { f: G<Vec<B>>, g: Option<G<G<HashMap<String, C>>>> }  struct B {}  struct C {}  struct G<T> { f: T }:
   formerly C11-generic-arg-depth (nested arguments of a typeshared generic) *)
Theorem C11_generic_arg_depth_nested_fixed :
  Proofs.C11Link.c11_pinned_as
    [w_struct "A" [] [RGeneric (lit "G") [RVec (w_s "B")];
                      ROption (RGeneric (lit "G") [RGeneric (lit "G") [RHashMap (RPrim PString) (w_s "C")]])];
     w_struct "B" [] []; w_struct "C" [] []; w_struct "G" ["T"] [w_s "T"]]
    ["G"; "B"; "C"; "A"].
Proof. exact Proofs.C11Link.C11_generic_arg_depth_nested_fixed. Qed.
Print Assumptions C11_generic_arg_depth_nested_fixed.

(* struct A { f: G<Vec<u8>>, g: B }  struct B {}  struct G<T> { f: T }  struct Vec { f: A }: formerly
   C11-special-id-collision (the id() "Vec" of a special type standing as an argument was looked up as an item name) *)
Theorem C11_special_id_collision_fixed :
  Proofs.C11Link.c11_pinned_as
    [w_struct "A" [] [RGeneric (lit "G") [RVec (RPrim PU8)]; w_s "B"]; w_struct "B" [] [];
     w_struct "G" ["T"] [w_s "T"]; w_struct "Vec" [] [w_s "A"]]
    ["G"; "B"; "A"; "Vec"].
Proof. exact Proofs.C11Link.C11_special_id_collision_fixed. Qed.
Print Assumptions C11_special_id_collision_fixed.

(* what the two edge classifications of known_C11 mean since that repair.  A recorded edge a -> b (a <> b) that is no
   reference of a: b is named like one of a's OWN generic parameters (the only phantom class left) *)
Theorem C11_phantom_edge_is_param_shadow :
  forall a b : ritem, edge_visible a b = true -> same_item a b = false -> refers a b = false ->
    mem_str (original (item_id b)) (item_generics a) = true.
Proof. exact Proofs.C11Link.phantom_is_param_shadow. Qed.
Print Assumptions C11_phantom_edge_is_param_shadow.

(* a reference to b's ORIGINAL name that is not recorded: the referring item is a RustEnum::Unit whose variants carry
   types - IR the parser never builds (Spec/C07BackSpec.v enum_wf); every other unrecorded reference is by the renamed
   name only (C11-renamed).  The class name C11-unit-enum-payload keeps that shape out of the theorems' domain; it is no
   finding of the tool *)
Theorem C11_unrecorded_original_reference_is_unit_enum :
  forall a b : ritem, refers a b = true -> edge_visible a b = false ->
    mem_str (original (item_id b)) (mentions a) = true ->
    exists sh, a = ItEnum (EUnit sh) /\ flat_map variant_types (evariants sh) <> [].
Proof. exact Proofs.C11Link.unrecorded_original_is_unit_enum. Qed.
Print Assumptions C11_unrecorded_original_reference_is_unit_enum.

(* enum U { V(B) } handed over as RustEnum::Unit  struct B {}: that shape is outside the domain for a reason *)
Theorem C11_unit_enum_payload_outside_domain :
  Proofs.C11Link.c11_refutes "C11-unit-enum-payload"
    [ItEnum (EUnit {| eid := Proofs.C11Link.w_id "U"; egenerics := []; ecomments := []; evariants := [VTuple (w_s "B") w_vsh];
                      edecs := []; erecursive := false; eredacted := false |}); w_struct "B" [] []].
Proof. exact Proofs.C11Link.C11_unit_enum_payload_outside_domain. Qed.
Print Assumptions C11_unit_enum_payload_outside_domain.

(* type A = Vec<SR>;  #[serde(rename = "SR")] struct S {} *)
Theorem C11_renamed_refuted :
  Proofs.C11Link.c11_refutes "C11-renamed"
    [w_alias "A" [] (RVec (w_s "SR"));
     ItStruct {| sid := {| original := lit "S"; renamed := lit "SR"; via_serde_rename := true |}; sgenerics := [];
                 sfields := []; scomments := []; sdecs := []; sredacted := false |}].
Proof. exact Proofs.C11Link.C11_renamed_refuted. Qed.
Print Assumptions C11_renamed_refuted.

(* ---------------------------------------------------------------------------------------------
   MULTI-FILE (folder output, `-d`) MODE.  Every crate gets its own file, produced by the multi-file generators
   of Model/MultiFile.v (Language::generate_types with data.multi_file; Go, Python, Scala: their overrides).
   Vocabulary (Proofs/C11Multi.v):
     writes_seq f items st parts st'   the item writer f is run on the items one after the other, in list order,
                                       the printer state threaded from st to st'; item i yields piece i; all succeed
     writes_list f items parts         the same for a stateless writer (Kotlin, Scala)
     sorted_file pd out                out = topsort of the crate's items, with both halves of C11 (next theorem) *)

Theorem C11_multi_sorted_file_meaning :
  forall (pd : parsed) (out : list ritem),
    Proofs.C11Multi.sorted_file pd out <->
    topsort (items_of pd) = Ok out /\ Permutation out (items_of pd) /\
    (known_C11 (items_of pd) = None -> acyclic (items_of pd) = true -> topo_ok out = true).
Proof. exact Proofs.C11Multi.sorted_file_meaning. Qed.
Print Assumptions C11_multi_sorted_file_meaning.

(* whatever topsort returns on a crate's items has both halves: a permutation of the items (cycles included), and -
   outside the finding classes, on acyclic references - no definition refers to a later one; and outside the classes
   topsort does return something *)
Theorem C11_multi_topsort_gives_sorted_file :
  forall (pd : parsed),
    (forall out, topsort (items_of pd) = Ok out -> Proofs.C11Multi.sorted_file pd out) /\
    (known_C11 (items_of pd) = None -> exists out, Proofs.C11Multi.sorted_file pd out).
Proof. exact Proofs.C11Multi.topsort_gives_sorted_file. Qed.
Print Assumptions C11_multi_topsort_gives_sorted_file.

(* writes_seq is the model's item loop (mmapM = try_for_each over the items), one piece per item *)
Theorem C11_multi_writes_seq_meaning :
  forall (St A : Type) (f : A -> M St str) (items : list A) (st : St) (parts : list str) (st' : St),
    (Proofs.C11Multi.writes_seq f items st parts st' <-> mmapM f items st = Ok (parts, st')) /\
    (Proofs.C11Multi.writes_seq f items st parts st' -> length parts = length items).
Proof. exact Proofs.C11Multi.writes_seq_meaning. Qed.
Print Assumptions C11_multi_writes_seq_meaning.

(* (1) THE GENERATORS, for every crate data, import list and printer state.  Each succeeds with `text` IF AND ONLY IF
   topsort succeeds on the crate's items with `out` (a permutation of them; topological outside the classes on acyclic
   references), the item writers succeed on `out` IN THIS ORDER, and `text` is the header, (the import lines,) the pieces
   in this order(, the footer).  So the sequence of definitions a multi-file generator writes is topsort (items_of pd):
   a generator that skipped the sort in multi-file mode does not satisfy these statements (C11_multi_ts_sort_regression). *)

(* TypeScript: header, import lines, the pieces, end_file (helpers recorded in the state reached) *)
Theorem C11_multi_ts_definitions_permutation :
  forall (uc : unicode) (cfg : ts_config) (st : ts_state) (im : scoped) (pd : parsed) (text : str) (st' : ts_state),
    ts_generate_multi uc cfg st im pd = Ok (text, st') <->
    exists out parts,
      Proofs.C11Multi.sorted_file pd out /\ Proofs.C11Multi.writes_seq (ts_write_item uc cfg) out st parts st' /\
      text = ts_begin_file cfg ++ ts_write_imports im ++ List.concat parts ++ ts_end_file st'.
Proof. exact Proofs.C11Multi.ts_multi_sorted. Qed.
Print Assumptions C11_multi_ts_definitions_permutation.

(* Kotlin (stateless): `package <package>.<crate>` header, import lines, the pieces *)
Theorem C11_multi_kt_definitions_permutation :
  forall (uc : unicode) (cfg : kt_config) (c : str) (im : scoped) (pd : parsed) (text : str),
    kt_generate_multi uc cfg c im pd = Ok text <->
    exists out parts,
      Proofs.C11Multi.sorted_file pd out /\ Proofs.C11Multi.writes_list (kt_write_item cfg) out parts /\
      text = kt_begin_file_multi cfg c ++ kt_write_imports cfg im ++ List.concat parts.
Proof. exact Proofs.C11Multi.kt_multi_sorted. Qed.
Print Assumptions C11_multi_kt_definitions_permutation.

(* Swift: header, the pieces (no import lines; CodableVoid goes to Codable.swift in multi-file mode) *)
Theorem C11_multi_sw_definitions_permutation :
  forall (uc : unicode) (cfg : sw_config) (st : sw_state) (pd : parsed) (text : str) (st' : sw_state),
    sw_generate_multi uc cfg st pd = Ok (text, st') <->
    exists out parts,
      Proofs.C11Multi.sorted_file pd out /\ Proofs.C11Multi.writes_seq (sw_write_item uc cfg) out st parts st' /\
      text = sw_begin_file cfg ++ List.concat parts.
Proof. exact Proofs.C11Multi.sw_multi_sorted. Qed.
Print Assumptions C11_multi_sw_definitions_permutation.

(* Go: begin_file (registers encoding/json), the pieces; the import block between header and pieces is that of the
   state reached after the last item; the names the item writers treat as structs come from the sorted sequence *)
Theorem C11_multi_go_definitions_permutation :
  forall (uc : unicode) (cfg : go_config) (st : go_state) (pd : parsed) (text : str) (st' : go_state),
    go_generate_multi uc cfg st pd = Ok (text, st') <->
    exists out header st1 parts,
      Proofs.C11Multi.sorted_file pd out /\ go_begin_file cfg st = Ok (header, st1) /\
      Proofs.C11Multi.writes_seq (go_write_item uc cfg (go_types_mapping_to_struct out)) out st1 parts st' /\
      text = header ++ go_write_all_imports st' ++ List.concat parts.
Proof. exact Proofs.C11Multi.go_multi_sorted. Qed.
Print Assumptions C11_multi_go_definitions_permutation.

(* Python: header, the import block and custom translations of the state reached after the last item, the pieces *)
Theorem C11_multi_py_definitions_permutation :
  forall (uc : unicode) (cfg : py_config) (st : py_state) (pd : parsed) (text : str) (st' : py_state),
    py_generate_multi uc cfg st pd = Ok (text, st') <->
    exists out parts,
      Proofs.C11Multi.sorted_file pd out /\ Proofs.C11Multi.writes_seq (py_write_item uc cfg) out st parts st' /\
      text = py_begin_file cfg ++ py_write_all_imports st' ++ py_write_custom_translations st' ++ List.concat parts.
Proof. exact Proofs.C11Multi.py_multi_sorted. Qed.
Print Assumptions C11_multi_py_definitions_permutation.

(* Scala overrides generate_types and does NOT sort (permutation half only): the aliases in list order inside the
   package object (after the unsigned helper aliases when an unsigned integer is used), then the structs, then the
   enums in list order inside the package; data.consts is never written.  So the written sequence
   (sc_written_items = aliases ++ structs ++ enums) is the crate's items in generate_types order with the consts cut
   off the end: each alias, struct and enum exactly once, and all items when the crate has no const. *)
Theorem C11_multi_sc_definitions_permutation :
  forall (uc : unicode) (cfg : sc_config) (pd : parsed),
    (forall text,
      sc_generate uc cfg pd = Ok text <->
      exists head als sts ens,
        sc_begin_file cfg = Ok head /\
        Proofs.C11Multi.writes_list (sc_write_item cfg) (map ItAlias (p_aliases pd)) als /\
        Proofs.C11Multi.writes_list (sc_write_item cfg) (map ItStruct (p_structs pd)) sts /\
        Proofs.C11Multi.writes_list (sc_write_item cfg) (map ItEnum (p_enums pd)) ens /\
        text = head ++
               (if sc_unsigned_integer_used pd || negb (sc_is_empty (p_aliases pd))
                then sc_begin_package_object cfg ++
                     (if sc_unsigned_integer_used pd then sc_render_decl sc_unsigned_aliases else []) ++
                     List.concat als ++ sc_end_package_object cfg
                else []) ++
               (if negb (sc_is_empty (p_structs pd)) || negb (sc_is_empty (p_enums pd))
                then sc_begin_package cfg ++ List.concat sts ++ List.concat ens ++ sc_end_package cfg
                else [])) /\
    items_of pd = Proofs.C11Multi.sc_written_items pd ++ map ItConst (p_consts pd) /\
    (p_consts pd = [] -> Permutation (Proofs.C11Multi.sc_written_items pd) (items_of pd)).
Proof. exact Proofs.C11Multi.sc_multi_list_order. Qed.
Print Assumptions C11_multi_sc_definitions_permutation.

(* the five sorting back ends, in the shape generate_crates takes (as in C06_multi_generators_read_items), sort:
   sorts_items gen := forall st c im pd text st', gen st c im pd = Ok (text, st') -> exists out, topsort (items_of pd) = Ok out *)
Theorem C11_multi_generators_sort :
  forall uc : unicode,
  (forall cfg, Proofs.C11Multi.sorts_items (fun st (_ : str) im pd => ts_generate_multi uc cfg st im pd)) /\
  (forall cfg, Proofs.C11Multi.sorts_items (fun (st : unit) c im pd => match kt_generate_multi uc cfg c im pd with
                                                       | Ok text => Ok (text, st) | Err e => Err e | Panic s => Panic s end)) /\
  (forall cfg, Proofs.C11Multi.sorts_items (fun st (_ : str) (_ : scoped) pd => sw_generate_multi uc cfg st pd)) /\
  (forall cfg, Proofs.C11Multi.sorts_items (fun st (_ : str) (_ : scoped) pd => go_generate_multi uc cfg st pd)) /\
  (forall cfg, Proofs.C11Multi.sorts_items (fun st (_ : str) (_ : scoped) pd => py_generate_multi uc cfg st pd)).
Proof. exact Proofs.C11Multi.multi_generators_sort. Qed.
Print Assumptions C11_multi_generators_sort.

(* (2) THE WORKSPACE.  For every workspace, --target-os list, ignore list, language and all iteration orders of the hash
   containers (vocabulary of Props/C14.v), with plan = one (file, crate, imports, data) per crate:
   (a) the crates of the plan are pairwise different;
   (b) for every crate of the plan, what topsort makes of ITS data has both halves of C11 (sorted_file) and is - as a
       multiset of declarations (kind, Rust name, generated name) - exactly the annotated items of the source files whose
       path lies in that crate (C14_partition): nothing of another crate, nothing lost, nothing twice;
   (c) the sorted sequences of all crates together are exactly the declarations of the single-file run on the same
       sources (C14_partition_same_as_single_file): every item of the workspace is written in exactly one file, once;
   (d) for EVERY generator, generate_crates produces the files in plan order, named after the plan; file number i is what
       the generator returns on crate number i's own name, import list and data, from the printer state file i-1 left
       (so the theorems of (1) apply to every file, whatever the state); a failure is the last entry and ends the run;
       and when a generator that sorts (C11_multi_generators_sort) completes the run, every crate has been sorted. *)
Theorem C11_multi_workspace :
  forall (uc : unicode) (T ign : list str) (ho_file ho_crate : list imported -> list imported)
         (hc : crate_types -> crate_types) (l : lang) (ws : list ws_entry) (arrivals : list (str * parsed)),
    parse_workspace uc T ign ho_file ws = Ok arrivals ->
    let plan := multi_plan l hc (multi_crates ho_crate arrivals) in
    NoDup (map op_crate plan) /\
    (forall p out, In p plan -> topsort (items_of (op_data p)) = Ok out ->
       Proofs.C11Multi.sorted_file (op_data p) out /\
       Permutation (map c14_decl out) (map c14_decl (crate_items (Proofs.C14Main.c14_infos uc T ws) (op_crate p)))) /\
    (forall singles outs, parse_workspace_single uc T (crate_entries ws) = Ok singles ->
       Forall2 (fun p out => topsort (items_of (op_data p)) = Ok out) plan outs ->
       Permutation (map c14_decl (List.concat outs)) (map c14_decl (items_of (single_file_input singles)))) /\
    (forall (St : Type) (gen : St -> str -> scoped -> parsed -> outcome (str * St)) (st : St) files fin,
       generate_crates gen st plan = (files, fin) ->
       map fst files = firstn (length files) (map op_file plan) /\
       (exists states : list St,
          nth_error states 0 = Some st /\
          (forall i fname text, nth_error files i = Some (fname, Writer.Generated text) ->
             exists p st_i st_i',
               nth_error plan i = Some p /\ fname = op_file p /\
               nth_error states i = Some st_i /\ nth_error states (S i) = Some st_i' /\
               gen st_i (op_crate p) (op_imports p) (op_data p) = Ok (text, st_i')) /\
          (forall i fname, nth_error files i = Some (fname, Writer.GenFailed) ->
             S i = length files /\ forall st', fin <> Ok st') /\
          (forall st', fin = Ok st' -> length files = length plan /\ nth_error states (length plan) = Some st')) /\
       (Proofs.C11Multi.sorts_items gen -> forall st', fin = Ok st' ->
          exists outs, Forall2 (fun p out => Proofs.C11Multi.sorted_file (op_data p) out) plan outs)).
Proof. exact Proofs.C11Multi.multi_workspace. Qed.
Print Assumptions C11_multi_workspace.

(* (3) REGRESSION PIN (vm_compute).  Workspace ws_order (Proofs/C11MultiWitness.v):
     alpha/src/lib.rs: #[typeshare] type Ids = Vec<Item>;  #[typeshare] struct Item { kind: Kind }  #[typeshare] enum Kind { Big, Small }
     beta/src/lib.rs:  use alpha::Item;  #[typeshare] struct Holder { item: Item }
   Crate alpha's data is outside every finding class, its references are acyclic, and its generate_types order Ids, Item,
   Kind is NOT topological.  The model's multi-file TypeScript run writes alpha.ts = Kind, Item, Ids (x_alpha_ts: every
   definition after what it uses) and beta.ts with its import line; the TypeScript multi-file generator with the call of
   topsort removed (ts_unsorted_multi) writes Ids, Item, Kind: a different file. *)
Theorem C11_multi_ts_sort_regression :
  exists arrivals pd_alpha,
    parse_workspace uc_exec [] [] (fun l => l) Proofs.C11MultiWitness.ws_order = Ok arrivals /\
    Proofs.C14.crates_get (multi_crates Proofs.C14Witness.idl arrivals) (lit "alpha") = Some pd_alpha /\
    Proofs.C11MultiWitness.x_names (items_of pd_alpha) = [lit "Ids"; lit "Item"; lit "Kind"] /\
    known_C11 (items_of pd_alpha) = None /\ acyclic (items_of pd_alpha) = true /\ topo_ok (items_of pd_alpha) = false /\
    generate_crates Proofs.C06MultiWitness.m_ts_gen [] (multi_plan TypeScript Proofs.C14Witness.idl (multi_crates Proofs.C14Witness.idl arrivals)) =
      ([(lit "alpha.ts", Writer.Generated Proofs.C11MultiWitness.x_alpha_ts);
        (lit "beta.ts", Writer.Generated Proofs.C11MultiWitness.x_beta_ts)], Ok []) /\
    Proofs.C11MultiWitness.ts_unsorted_multi uc_exec Proofs.C06MultiWitness.m_ts_cfg [] [] pd_alpha =
      Ok (Proofs.C11MultiWitness.x_alpha_ts_unsorted, []) /\
    Proofs.C11MultiWitness.x_alpha_ts_unsorted <> Proofs.C11MultiWitness.x_alpha_ts.
Proof. exact Proofs.C11MultiWitness.multi_ts_sort_regression. Qed.
Print Assumptions C11_multi_ts_sort_regression.

(* (4) NON-VACUITY: on ws_order the multi-file and the single-file front ends succeed, the plan has the two crates, topsort
   turns alpha's items into Kind, Item, Ids, the single-file run has the same four definitions, and every one of the six
   multi-file generators completes the run with both files generated (x_ok = names of the generated files, run finished Ok) *)
Theorem C11_multi_workspace_nonvacuous :
  exists arrivals singles,
    parse_workspace uc_exec [] [] (fun l => l) Proofs.C11MultiWitness.ws_order = Ok arrivals /\
    parse_workspace_single uc_exec [] (crate_entries Proofs.C11MultiWitness.ws_order) = Ok singles /\
    Proofs.C14Front.oracle_ok (@Proofs.C14Witness.idl imported) /\ Proofs.C14Front.oracle_ok (@Proofs.C14Witness.idl (str * list str)) /\
    map op_crate (multi_plan TypeScript Proofs.C14Witness.idl (multi_crates Proofs.C14Witness.idl arrivals)) = [lit "alpha"; lit "beta"] /\
    Proofs.C11MultiWitness.x_sorted_names (multi_plan TypeScript Proofs.C14Witness.idl (multi_crates Proofs.C14Witness.idl arrivals)) =
      [Some [lit "Kind"; lit "Item"; lit "Ids"]; Some [lit "Holder"]] /\
    Proofs.C11MultiWitness.x_names (items_of (single_file_input singles)) = [lit "Ids"; lit "Holder"; lit "Item"; lit "Kind"] /\
    Proofs.C11MultiWitness.x_ok (generate_crates Proofs.C06MultiWitness.m_ts_gen [] (multi_plan TypeScript Proofs.C14Witness.idl (multi_crates Proofs.C14Witness.idl arrivals))) = ([lit "alpha.ts"; lit "beta.ts"], true) /\
    Proofs.C11MultiWitness.x_ok (generate_crates Proofs.C11MultiWitness.x_kt_gen tt (multi_plan Kotlin Proofs.C14Witness.idl (multi_crates Proofs.C14Witness.idl arrivals))) = ([lit "alpha.kt"; lit "beta.kt"], true) /\
    Proofs.C11MultiWitness.x_ok (generate_crates Proofs.C11MultiWitness.x_sw_gen false (multi_plan Swift Proofs.C14Witness.idl (multi_crates Proofs.C14Witness.idl arrivals))) = ([lit "Alpha.swift"; lit "Beta.swift"], true) /\
    Proofs.C11MultiWitness.x_ok (generate_crates Proofs.C11MultiWitness.x_go_gen [] (multi_plan Go Proofs.C14Witness.idl (multi_crates Proofs.C14Witness.idl arrivals))) = ([lit "alpha.go"; lit "beta.go"], true) /\
    Proofs.C11MultiWitness.x_ok (generate_crates Proofs.C11MultiWitness.x_py_gen py_empty_state (multi_plan Python Proofs.C14Witness.idl (multi_crates Proofs.C14Witness.idl arrivals))) = ([lit "alpha.py"; lit "beta.py"], true) /\
    Proofs.C11MultiWitness.x_ok (generate_crates Proofs.C11MultiWitness.x_sc_gen tt (multi_plan Scala Proofs.C14Witness.idl (multi_crates Proofs.C14Witness.idl arrivals))) = ([lit "alpha.scala"; lit "beta.scala"], true).
Proof. exact Proofs.C11MultiWitness.multi_workspace_nonvacuous. Qed.
Print Assumptions C11_multi_workspace_nonvacuous.

(* Scala on crate alpha of ws_order: the written sequence is Ids, Item, Kind - generate_types order, not sorted, although
   Ids uses Item and Item uses Kind - and that is the order of the definitions in alpha.scala *)
Theorem C11_multi_scala_list_order_example :
  exists arrivals pd_alpha,
    parse_workspace uc_exec [] [] (fun l => l) Proofs.C11MultiWitness.ws_order = Ok arrivals /\
    Proofs.C14.crates_get (multi_crates Proofs.C14Witness.idl arrivals) (lit "alpha") = Some pd_alpha /\
    Proofs.C11MultiWitness.x_names (Proofs.C11Multi.sc_written_items pd_alpha) = [lit "Ids"; lit "Item"; lit "Kind"] /\
    sc_generate uc_exec Proofs.C02_Witness.c02_w_sc_cfg pd_alpha =
      Ok (Proofs.C11MultiWitness.ln "package a" ++ nl ++ Proofs.C11MultiWitness.ln "package object p {" ++ nl ++
          Proofs.C11MultiWitness.x_sc_ids ++ Proofs.C11MultiWitness.ln "}" ++
          Proofs.C11MultiWitness.ln "package p {" ++ nl ++ Proofs.C11MultiWitness.x_sc_item ++ Proofs.C11MultiWitness.x_sc_kind ++
          Proofs.C11MultiWitness.ln "}").
Proof. exact Proofs.C11MultiWitness.multi_scala_list_order. Qed.
Print Assumptions C11_multi_scala_list_order_example.
