(* C11 property theorems: statements only; proofs live in Proofs/{ToposortPerm,SortByIndices,C11}.v *)
From Coq Require Import List Arith Permutation String.
From TS Require Import Model.Str Model.Outcome Model.Types Model.TopsortAlgo Model.Topsort Spec.C11Spec.
From TS Require Proofs.ToposortPerm Proofs.SortByIndices Proofs.C11 Proofs.C11Link.
Import ListNotations.
Local Notation length := List.length (only parsing).
Local Open Scope nat_scope.
Local Open Scope string_scope.
Local Open Scope list_scope.
(* builders of the witness items (plain records with empty comments/decorators; Proofs/C11Link.v) *)
Local Notation w_struct := Proofs.C11Link.w_struct.
Local Notation w_alias := Proofs.C11Link.w_alias.
Local Notation w_const := Proofs.C11Link.w_const.
Local Notation w_enum := Proofs.C11Link.w_enum.
Local Notation w_field := Proofs.C11Link.w_field.
Local Notation w_vsh := Proofs.C11Link.w_vsh.
Local Notation w_s := Proofs.C11Link.w_s.

(* EVERY graph with in-range entries - cycles, self-loops, duplicate edges - is mapped to a
   permutation of its node indices; no panic, fuel S n suffices *)
Theorem C11_toposort_impl_permutation :
  forall g : graph, Forall (Forall (fun x => x < length g)) g ->
    exists r, toposort_impl g = Ok r /\ Permutation r (seq 0 (length g)).
Proof. exact Proofs.ToposortPerm.toposort_perm. Qed.
Print Assumptions C11_toposort_impl_permutation.

(* acyclic graph (edges decrease a rank): each node comes after all its dependencies *)
Theorem C11_toposort_impl_topological :
  forall (g : graph), Forall (Forall (fun x => x < length g)) g ->
  forall rank : nat -> nat,
    (forall i deps d, nth_error g i = Some deps -> In d deps -> rank d < rank i) ->
    exists r, toposort_impl g = Ok r /\ Permutation r (seq 0 (length g)) /\
      (forall r1 x r2 deps, r = r1 ++ x :: r2 -> nth_error g x = Some deps -> incl deps r1).
Proof. exact Proofs.ToposortPerm.toposort_acyclic. Qed.
Print Assumptions C11_toposort_impl_topological.

(* the in-place cycle-following permutation: result[i] = data[indices[i]], never out of bounds,
   never out of fuel, for every permutation of 0..n-1 *)
Theorem C11_sort_by_indices :
  forall (A : Type) (d : A) (data : list A) (ind : list nat),
    Permutation ind (seq 0 (length data)) ->
    sort_by_indices data ind = Ok (map (fun j => nth j data d) ind).
Proof. exact Proofs.SortByIndices.sort_by_indices_spec. Qed.
Print Assumptions C11_sort_by_indices.

(* the emitted definitions are a permutation of the parsed items whenever dependency collection
   completes (its only failure mode is the recorded stack-overflow finding) *)
Theorem C11_topsort_permutation :
  forall (things : list ritem) (dag : list (list nat)), build_dag things = Ok dag ->
    exists out, topsort things = Ok out /\ Permutation out things.
Proof. exact Proofs.C11.topsort_permutation. Qed.
Print Assumptions C11_topsort_permutation.

(* partial form of the ordering half: topological with respect to the COLLECTED graph (any item
   list, any rank).  The step from the collected graph to the declarative references is
   C11_collected_graph_is_reference_graph below; the complete statement is C11_topsort_topological *)
Theorem C11_topsort_respects_collected_graph_partial :
  forall (things : list ritem) (dag : list (list nat)) (d : ritem) (rank : nat -> nat),
    build_dag things = Ok dag ->
    (forall i deps x, nth_error dag i = Some deps -> In x deps -> rank x < rank i) ->
    exists r, topsort things = Ok (map (fun j => nth j things d) r) /\
              Permutation r (seq 0 (length things)) /\
              (forall r1 x r2 deps, r = r1 ++ x :: r2 -> nth_error dag x = Some deps -> incl deps r1).
Proof. exact Proofs.C11.topsort_respects_dag. Qed.
Print Assumptions C11_topsort_respects_collected_graph_partial.

(* ---------------------------------------------------------------------------------------------
   The ordering half, end to end.  [refers], [acyclic], [topo_ok], [known_C11] are the declarative
   definitions of Spec/C11Spec.v (they never call the collectors of Model/Topsort.v). *)

(* THE COMPLETENESS LINK.  Outside the finding classes dependency collection succeeds (no fuel
   exhaustion, no unwrap/expect panic) and the collected graph is the reference relation, row by
   row: the row of EVERY item - struct, enum (tuple payloads and struct-variant fields), alias,
   const - holds exactly the positions of the items it refers to *)
Theorem C11_collected_graph_is_reference_graph :
  forall things : list ritem, known_C11 things = None ->
    exists dag, build_dag things = Ok dag /\
      forall i a row, nth_error things i = Some a -> nth_error dag i = Some row ->
        forall j b, nth_error things j = Some b -> (In j row <-> refers a b = true).
Proof. exact Proofs.C11Link.collected_rows_are_references. Qed.
Print Assumptions C11_collected_graph_is_reference_graph.

(* no row of the graph topsort hands to toposort_impl contains its own position (cyclic references
   included): an enum no longer produces a row that starts with its own index *)
Theorem C11_collected_rows_irreflexive :
  forall things : list ritem, alias_generic_shadows things = false -> has_dup_names things = false ->
    exists dag, build_dag things = Ok dag /\
      forall i row, nth_error dag i = Some row -> ~ In i row.
Proof. exact Proofs.C11Link.collected_rows_irreflexive. Qed.
Print Assumptions C11_collected_rows_irreflexive.

(* THE PROPERTY'S ORDERING HALF: for every item list outside the finding classes whose reference
   relation is acyclic, topsort succeeds, emits a permutation of the items, and no emitted
   definition refers to a definition emitted after it *)
Theorem C11_topsort_topological :
  forall things : list ritem, known_C11 things = None -> acyclic things = true ->
    exists out, topsort things = Ok out /\ Permutation out things /\ topo_ok out = true.
Proof. exact Proofs.C11Link.topsort_topological. Qed.
Print Assumptions C11_topsort_topological.

(* what topo_ok = true means position-wise *)
Theorem C11_topo_ok_meaning :
  forall out : list ritem, topo_ok out = true <->
    forall o1 a o2 b, out = o1 ++ a :: o2 -> In b o2 -> refers a b = false.
Proof. exact Proofs.C11Link.topo_ok_spec. Qed.
Print Assumptions C11_topo_ok_meaning.

(* the permutation half without the `build_dag = Ok` premise: unless an alias has a generic
   parameter named like an item, collection cannot fail - cycles and duplicate names included *)
Theorem C11_topsort_total_permutation :
  forall things : list ritem, alias_generic_shadows things = false ->
    exists out, topsort things = Ok out /\ Permutation out things.
Proof. exact Proofs.C11Link.topsort_total. Qed.
Print Assumptions C11_topsort_total_permutation.

(* both halves as the verdict predicate the check evaluates on the real output: it holds of the
   model's output for EVERY input outside the classes (acyclic or not) *)
Theorem C11_topsort_good :
  forall things : list ritem, known_C11 things = None ->
    exists out, topsort things = Ok out /\ good_C11 things out = true.
Proof. exact Proofs.C11Link.topsort_good. Qed.
Print Assumptions C11_topsort_good.

(* a general fact about toposort_impl, not used by the theorems above any more: the cycle `return`
   fires on the first entry of a row that starts with its own index, such rows are ignored (before the
   repair of get_enum_dependencies every algebraic enum produced one; C11_collected_rows_irreflexive
   says topsort's own graph has none now) *)
Theorem C11_toposort_impl_ignores_self_started_rows :
  forall g : graph, toposort_impl g = toposort_impl (Proofs.C11Link.clean g).
Proof. exact Proofs.C11Link.toposort_impl_clean. Qed.
Print Assumptions C11_toposort_impl_ignores_self_started_rows.

(* the unrestricted ordering statement is false of the faithful model: one failing input per
   finding class. c11_refutes c w := known_C11 w = Some c /\ acyclic w = true /\
   exists out, topsort w = Ok out /\ topo_ok out = false *)

(* struct A<T> { f: T, g: B }  struct B {}  struct T { f: A<u8> } *)
Theorem C11_generic_param_shadow_refuted :
  Proofs.C11Link.c11_refutes "C11-generic-param-shadow"
    [w_struct "A" ["T"] [w_s "T"; w_s "B"]; w_struct "B" [] []; w_struct "T" [] [RGeneric (lit "A") [RPrim PU8]]].
Proof. exact Proofs.C11Link.C11_generic_param_shadow_refuted. Qed.
Print Assumptions C11_generic_param_shadow_refuted.

(* struct A { f: G<Vec<u8>>, g: B }  struct B {}  struct G<T> { f: T }  struct Vec { f: A } *)
Theorem C11_special_id_collision_refuted :
  Proofs.C11Link.c11_refutes "C11-special-id-collision"
    [w_struct "A" [] [RGeneric (lit "G") [RVec (RPrim PU8)]; w_s "B"]; w_struct "B" [] [];
     w_struct "G" ["T"] [w_s "T"]; w_struct "Vec" [] [w_s "A"]].
Proof. exact Proofs.C11Link.C11_special_id_collision_refuted. Qed.
Print Assumptions C11_special_id_collision_refuted.

(* type A<T> = Vec<T>;  struct T { f: A<u8> } *)
Theorem C11_alias_generic_shadow_refuted :
  Proofs.C11Link.c11_refutes "C11-alias-generic-shadow"
    [w_alias "A" ["T"] (RVec (w_s "T")); w_struct "T" [] [RGeneric (lit "A") [RPrim PU8]]].
Proof. exact Proofs.C11Link.C11_alias_generic_shadow_refuted. Qed.
Print Assumptions C11_alias_generic_shadow_refuted.

(* struct A { f: X }  struct X {}  const X: u32 *)
Theorem C11_duplicate_names_refuted :
  Proofs.C11Link.c11_refutes "C11-duplicate-names"
    [w_struct "A" [] [w_s "X"]; w_struct "X" [] []; w_const "X" (RPrim PU32)].
Proof. exact Proofs.C11Link.C11_duplicate_names_refuted. Qed.
Print Assumptions C11_duplicate_names_refuted.

(* regression pins of the two classes repaired in get_enum_dependencies (former `_refuted` witnesses).
   c11_pinned_ok w := known_C11 w = None /\ acyclic w = true /\ (some item of w refers to another) /\
   exists out, topsort w = Ok out /\ topo_ok out = true *)

(* enum E { V { f: B } }  struct B {}: formerly C11-variant-fields *)
Theorem C11_variant_fields_fixed :
  Proofs.C11Link.c11_pinned_ok [w_enum "E" [VAnon [w_field (w_s "B")] w_vsh]; w_struct "B" [] []].
Proof. exact Proofs.C11Link.C11_variant_fields_fixed. Qed.
Print Assumptions C11_variant_fields_fixed.

(* enum E { V(B) }  struct B {}: formerly C11-enum-self-edge *)
Theorem C11_enum_self_edge_fixed :
  Proofs.C11Link.c11_pinned_ok [w_enum "E" [VTuple (w_s "B") w_vsh]; w_struct "B" [] []].
Proof. exact Proofs.C11Link.C11_enum_self_edge_fixed. Qed.
Print Assumptions C11_enum_self_edge_fixed.

(* enum A { V(B) }  enum B { W { f: Vec<C> }, U }  struct C {}: a chain through both variant shapes *)
Theorem C11_enum_chain_fixed :
  Proofs.C11Link.c11_pinned_ok
    [w_enum "A" [VTuple (w_s "B") w_vsh]; w_enum "B" [VAnon [w_field (RVec (w_s "C"))] w_vsh; VUnit w_vsh];
     w_struct "C" [] []].
Proof. exact Proofs.C11Link.C11_enum_chain_fixed. Qed.
Print Assumptions C11_enum_chain_fixed.

(* struct A { f: Unknown<B> }  struct B {} *)
Theorem C11_generic_arg_depth_refuted :
  Proofs.C11Link.c11_refutes "C11-generic-arg-depth"
    [w_struct "A" [] [RGeneric (lit "Unknown") [w_s "B"]]; w_struct "B" [] []].
Proof. exact Proofs.C11Link.C11_generic_arg_depth_refuted. Qed.
Print Assumptions C11_generic_arg_depth_refuted.

(* struct Foo<T> { f: Foo<Zed> }  struct Zed {}: the arguments of a Generic named like the collecting item are never visited *)
Theorem C11_generic_arg_depth_own_name_refuted :
  Proofs.C11Link.c11_refutes "C11-generic-arg-depth"
    [w_struct "Foo" ["T"] [RGeneric (lit "Foo") [w_s "Zed"]]; w_struct "Zed" [] []].
Proof. exact Proofs.C11Link.C11_generic_arg_depth_own_name_refuted. Qed.
Print Assumptions C11_generic_arg_depth_own_name_refuted.

(* type A = Vec<SR>;  #[serde(rename = "SR")] struct S {} *)
Theorem C11_renamed_refuted :
  Proofs.C11Link.c11_refutes "C11-renamed"
    [w_alias "A" [] (RVec (w_s "SR"));
     ItStruct {| sid := {| original := lit "S"; renamed := lit "SR"; via_serde_rename := true |}; sgenerics := [];
                 sfields := []; scomments := []; sdecs := []; sredacted := false |}].
Proof. exact Proofs.C11Link.C11_renamed_refuted. Qed.
Print Assumptions C11_renamed_refuted.
